(* Syntax/SameOrder.v — the canonical order used by the normal form is a total order on erased
   trees (the key [code] is injective), so sorting is invariant under permutation: with
   sort_files the boolean acceptance test is COMPLETE for the declarative relation too. *)
From MV Require Import Base.Strs Base.LexFacts Syntax.Lexer Syntax.Parser Syntax.Same Syntax.SameFacts.
From Coq Require Import Lia Permutation.
Open Scope N_scope.

(* ------------------------------------------------------------------ the key is injective *)
Lemma app_inv_len {A} : forall (a b x y : list A),
  length a = length b -> a ++ x = b ++ y -> a = b /\ x = y.
Proof.
  induction a as [|c a IH]; intros [|d b] x y Hl H; try discriminate; [split; [reflexivity | exact H]|].
  simpl in H. injection H as Hc H. injection Hl as Hl.
  destruct (IH b x y Hl H) as [-> ->]. subst. split; reflexivity.
Qed.

Lemma ones_inv : forall (s t u v : str),
  map (fun _ => 1) s ++ 0 :: u = map (fun _ => 1) t ++ 0 :: v -> length s = length t /\ u = v.
Proof.
  induction s as [|c s IH]; intros [|d t] u v H; simpl in H; try discriminate.
  - injection H as H. split; [reflexivity | exact H].
  - injection H as H. destruct (IH t u v H) as [Hl Hu]. split; [simpl; congruence | exact Hu].
Qed.

Lemma c_txt_inv s t x y : c_txt s ++ x = c_txt t ++ y -> s = t /\ x = y.
Proof.
  unfold c_txt. rewrite <- !app_assoc. cbn [app]. intro H.
  destruct (ones_inv _ _ _ _ H) as [Hl Hu]. apply app_inv_len; assumption.
Qed.

Lemma kind_code_inj k l : kind_code k = kind_code l -> k = l.
Proof. destruct k, l; simpl; intro H; try reflexivity; discriminate H. Qed.
Lemma bcode_inj a b : bcode a = bcode b -> a = b.
Proof. destruct a, b; simpl; intro H; try reflexivity; discriminate H. Qed.

Lemma tag_code_inv t u x y : tag_code t ++ x = tag_code u ++ y -> t = u /\ x = y.
Proof.
  destruct t, u; cbn [tag_code app]; intro H; try discriminate H;
    try (injection H as H; split; [reflexivity | exact H]);
    try (injection H as H; destruct (c_txt_inv _ _ _ _ H) as [-> ->]; split; reflexivity).
  - injection H as Hb H. apply bcode_inj in Hb. subst. split; reflexivity.
  - injection H as H. rewrite <- !app_assoc in H.
    destruct (c_txt_inv _ _ _ _ H) as [-> H2].
    destruct v2 as [a|], v3 as [b|]; cbn [app] in H2; try discriminate H2.
    + injection H2 as H2. destruct (c_txt_inv _ _ _ _ H2) as [-> ->]. split; reflexivity.
    + injection H2 as H2. subst. split; reflexivity.
Qed.

Theorem code_inv : forall a b x y, code a ++ x = code b ++ y -> a = b /\ x = y.
Proof.
  induction a as [| k s | f m s | t ks IH] using enode_ind'; intros b x y H;
    destruct b as [| l s' | g n s' | u ls]; cbn [code app] in H; try discriminate H.
  - injection H as H. split; [reflexivity | exact H].
  - injection H as Hk H. apply kind_code_inj in Hk. destruct (c_txt_inv _ _ _ _ H) as [-> ->].
    subst. split; reflexivity.
  - injection H as Hf Hm H. apply bcode_inj in Hf, Hm. destruct (c_txt_inv _ _ _ _ H) as [-> ->].
    subst. split; reflexivity.
  - injection H as H. rewrite <- !app_assoc in H.
    destruct (tag_code_inv _ _ _ _ H) as [-> H2]. clear H.
    assert (Hk : ks = ls /\ x = y); [|destruct Hk as [-> ->]; split; reflexivity].
    revert ls H2. induction IH as [|k r Hk _ IHr]; intros [|l ls] H2; cbn [map concat app] in H2; try discriminate H2.
    + injection H2 as H2. split; [reflexivity | exact H2].
    + injection H2 as H2. rewrite <- !app_assoc in H2.
      destruct (Hk _ _ _ H2) as [-> H3]. destruct (IHr _ H3) as [-> ->]. split; reflexivity.
Qed.

Corollary code_inj a b : code a = code b -> a = b.
Proof.
  intro H. apply (code_inv a b [] []). rewrite !app_nil_r. exact H.
Qed.

(* ------------------------------------------------------------------ a strict total order *)
Definition le_code (a b : enode) : Prop := before_code b a = false.

Lemma before_code_lt a b : before_code a b = true <-> str_cmp (code a) (code b) = Lt.
Proof. unfold before_code. destruct (str_cmp (code a) (code b)); split; intro H; congruence. Qed.

Lemma le_code_trans a b c : le_code a b -> le_code b c -> le_code a c.
Proof.
  unfold le_code, before_code. intros H1 H2.
  rewrite (str_cmp_antisym (code a) (code b)) in H1. rewrite (str_cmp_antisym (code b) (code c)) in H2.
  rewrite (str_cmp_antisym (code a) (code c)).
  destruct (str_cmp (code a) (code b)) eqn:E1; simpl in H1; try discriminate;
    destruct (str_cmp (code b) (code c)) eqn:E2; simpl in H2; try discriminate.
  - apply str_cmp_eq in E1, E2. rewrite E1, E2, str_cmp_refl. reflexivity.
  - apply str_cmp_eq in E1. rewrite E1, E2. reflexivity.
  - apply str_cmp_eq in E2. rewrite <- E2, E1. reflexivity.
  - rewrite (str_cmp_trans _ _ _ E1 E2). reflexivity.
Qed.
Lemma le_code_antisym a b : le_code a b -> le_code b a -> a = b.
Proof.
  unfold le_code, before_code. intros H1 H2. apply code_inj. apply str_cmp_eq.
  rewrite (str_cmp_antisym (code a) (code b)) in H1.
  destruct (str_cmp (code a) (code b)); simpl in *; congruence.
Qed.
Lemma before_code_asym a b : before_code a b = true -> before_code b a = false.
Proof.
  unfold before_code. rewrite (str_cmp_antisym (code a) (code b)).
  destruct (str_cmp (code a) (code b)); simpl; congruence.
Qed.

(* sortedness in the strong form: every element is below everything after it *)
Inductive ssorted : list enode -> Prop :=
| ss_nil : ssorted []
| ss_cons x r : Forall (le_code x) r -> ssorted r -> ssorted (x :: r).

Lemma insert_ssorted x : forall l, ssorted l -> ssorted (insert_by before_code x l).
Proof.
  induction 1 as [|y r Hy Hs IH]; cbn [insert_by].
  - constructor; constructor.
  - destruct (before_code y x) eqn:E.
    + constructor; [|exact IH].
      eapply Permutation_Forall; [apply Permutation_sym, insert_by_perm|].
      constructor; [apply before_code_asym; exact E | exact Hy].
    + constructor; [|constructor; assumption].
      constructor; [exact E|].
      eapply Forall_impl; [|exact Hy]. intros z Hz. eapply le_code_trans; [exact E | exact Hz].
Qed.
Lemma isort_ssorted : forall l, ssorted (isort_by before_code l).
Proof. induction l as [|x r IH]; cbn [isort_by]; [constructor | apply insert_ssorted; exact IH]. Qed.

Lemma ssorted_perm_eq : forall l1, ssorted l1 -> forall l2, ssorted l2 -> Permutation l1 l2 -> l1 = l2.
Proof.
  induction 1 as [|x r Hx Hs IH]; intros l2 H2 Hp.
  - apply Permutation_nil in Hp. congruence.
  - destruct l2 as [|y s]; [apply Permutation_sym, Permutation_nil in Hp; discriminate|].
    inversion H2 as [|? ? Hy Hs2]; subst.
    assert (Exy : x = y).
    { apply le_code_antisym.
      - assert (Hin : In y (x :: r)) by (eapply Permutation_in; [apply Permutation_sym; exact Hp | left; reflexivity]).
        destruct Hin as [->|Hin]; [unfold le_code, before_code; rewrite str_cmp_refl; reflexivity|].
        rewrite Forall_forall in Hx. apply Hx. exact Hin.
      - assert (Hin : In x (y :: s)) by (eapply Permutation_in; [exact Hp | left; reflexivity]).
        destruct Hin as [->|Hin]; [unfold le_code, before_code; rewrite str_cmp_refl; reflexivity|].
        rewrite Forall_forall in Hy. apply Hy. exact Hin. }
    subst y. f_equal. apply IH; [exact Hs2|]. eapply Permutation_cons_inv. exact Hp.
Qed.

(* sorting is invariant under permutation *)
Theorem canon_args_perm_eq l1 l2 : Permutation l1 l2 -> canon_args l1 = canon_args l2.
Proof.
  intro Hp. apply ssorted_perm_eq; try apply isort_ssorted.
  eapply perm_trans; [apply isort_by_perm|]. eapply perm_trans; [exact Hp|]. apply Permutation_sym, isort_by_perm.
Qed.

(* ------------------------------------------------------------------ completeness, any sort flag *)
Lemma peel_perm l1 l2 : Permutation l1 l2 -> Permutation (peel l1) (peel l2).
Proof.
  intro Hp. pose proof (Permutation_length Hp) as Hl.
  destruct l1 as [|a [|a' r]], l2 as [|b [|b' s]]; try discriminate Hl; try exact Hp.
  apply Permutation_length_1 in Hp. subst. apply Permutation_refl.
Qed.

Theorem norm_complete_any sort a b : Same sort a b -> norm sort a = norm sort b.
Proof.
  induction 1 as [n | a b _ IH | a b c _ IH1 _ IH2 | t pre a b post _ IH
                 | f1 m1 b1 f2 m2 b2 Hv Hf | c1 c2 ks | c inner | ks1 ks2 Hs Hp].
  - reflexivity.
  - symmetry. exact IH.
  - congruence.
  - cbn [norm]. rewrite !map_app. cbn [map]. rewrite IH. reflexivity.
  - cbn [norm]. unfold norm_str. rewrite Hf, Hv. reflexivity.
  - reflexivity.
  - cbn [norm]. rewrite is_files_files. cbn [map norm is_files norm_tag peel is_array].
    rewrite unwrap_array. reflexivity.
  - subst sort. cbn [norm]. rewrite is_files_files. f_equal.
    apply canon_args_perm_eq, peel_perm, Permutation_map. exact Hp.
Qed.

(* The acceptance test is exactly the declarative relation, for either setting of sort_files. *)
Theorem same_program_spec_any sort a b :
  same_program sort a b = true <-> Same sort (prog [] a) (prog [] b).
Proof.
  rewrite same_program_iff. split; [apply norm_sound | apply norm_complete_any].
Qed.
