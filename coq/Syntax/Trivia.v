(* Syntax/Trivia.v — which node every whitespace / comment / eol token is attached to.
   Executable model of the trivia bookkeeping of mesonbuild/mparser.py:

     Parser.getsym        (mparser.py:743-755)  collects 'whitespace', 'comment' and 'eol'
                                                tokens into self.current_ws
     Parser.create_node   (mparser.py:736-741)  gives the pending tokens to the node it creates
     BaseNode.append_whitespaces       (mparser.py:269-273)
     CodeBlockNode.append_whitespaces  (mparser.py:502-508)  last line or pre_whitespaces
     Parser.e4, the 'not in' case      (mparser.py:857-871)
     Parser.codeblock                  (mparser.py:1119-1145) flushes before every line and at the end

   Formulation.  The existing parser model (Syntax/Parser.v) is used unchanged.  What getsym
   collects after a significant token is a function of the raw token list alone ([chunk]); and
   for an ACCEPTED input the sequence of accept / create_node calls the parser performed is
   determined by the tree it returned, because every constructor of [node] is built by exactly
   one code path.  [at_node] and its companions replay that sequence, constructor by
   constructor, over a state holding the not yet accepted significant tokens (each with what
   getsym reads after it) and Parser.current_ws.  The result is the tree with every
   SymbolNode / IdNode / ... carrying its `whitespaces`, CodeBlockNodes their
   `pre_whitespaces`.  No proofs in this file. *)
From MV Require Import Base.Strs Syntax.Lexer Syntax.Parser.
Open Scope N_scope.

(* A WhitespaceNode: the tokens appended to it, in order; [] stands for `whitespaces is None`.
   Its value is the concatenation of the token texts, its position that of the first token. *)
Definition wsl := list token.

Definition is_eol (t : token) : bool := kind_beq (tk t) KEol.

(* Parser.getsym, mparser.py:743-755.  After the significant token X the loop
       while self.current.tid in {'eol', 'comment', 'whitespace'}:
           self.current_ws.append(self.current)
           if self.current.tid == 'eol': break
           self.current = next(self.stream)
   appends the run of whitespace/comment tokens that follows X and, when the run is ended by
   an 'eol' token, that token too (it stays the current token).  [chunk ts] = (what the very
   first getsym of Parser.__init__ collects, the significant tokens each with what the getsym
   that accepts it collects). *)
Fixpoint chunk (ts : list token) : wsl * list (token * wsl) :=
  match ts with
  | [] => ([], [])
  | t :: r =>
      let '(w, cs) := chunk r in
      if is_trivia (tk t) then (t :: w, cs)
      else if is_eol t then ([t], (t, w) :: cs)
      else ([], (t, w) :: cs)
  end.

(* replay state: significant tokens still to be accepted, Parser.current_ws, and whether the
   AttributeError of mparser.py:868 (`temp_node.whitespaces.value` with whitespaces None) was hit *)
Record tst := mkT { t_chunks : list (token * wsl); t_pend : wsl; t_bad : bool }.

(* a successful accept()/expect(): getsym appends what follows the accepted token *)
Definition t_accept (st : tst) : tst :=
  match t_chunks st with
  | (_, g) :: r => mkT r (t_pend st ++ g) (t_bad st)
  | [] => st
  end.
(* create_node, mparser.py:736-741: the new node gets current_ws; current_ws = [] *)
Definition t_flush (st : tst) : wsl * tst := (t_pend st, mkT (t_chunks st) [] (t_bad st)).

(* SymbolNode: the token, its value (the token text, except for the merged 'not in'), whitespaces *)
Record sym := mkSym { sy_tok : token; sy_val : str; sy_ws : wsl }.
(* IdNode in a fixed position (function / method / variable name, foreach variable) *)
Record idn := mkIdn { id_tok : token; id_ws : wsl }.

Inductive tnode :=
| TEmpty (p : pos) (w : wsl)
| TBool (t : token) (w : wsl) | TId (t : token) (w : wsl) | TNum (t : token) (w : wsl) | TStr (t : token) (w : wsl)
| TContinue (kw : token) (p : pos) (w : wsl) | TBreak (kw : token) (p : pos) (w : wsl)
| TParen (lp : sym) (e : tnode) (rpar : sym) (w : wsl)
| TArray (lb : sym) (a : targs) (rb : sym) (w : wsl)
| TDict (lc : sym) (a : targs) (rc : sym) (w : wsl)
| TFunc (name : idn) (lp : sym) (a : targs) (rpar : sym) (w : wsl)
| TMethod (obj : tnode) (dot : sym) (name : idn) (lp : sym) (a : targs) (rpar : sym) (w : wsl)
| TIndex (obj : tnode) (lb : sym) (idx : tnode) (rb : sym) (w : wsl)
| TNot (op : sym) (p : pos) (e : tnode) (w : wsl)
| TUMinus (op : sym) (p : pos) (e : tnode) (w : wsl)
| TArith (l : tnode) (op : sym) (r : tnode) (w : wsl)
| TCmp (l : tnode) (op : sym) (r : tnode) (w : wsl)       (* 'not in': op is the merged symbol *)
| TAnd (l : tnode) (op : sym) (r : tnode) (w : wsl)
| TOr (l : tnode) (op : sym) (r : tnode) (w : wsl)
| TTernary (c : tnode) (q : sym) (t : tnode) (colon : sym) (f : tnode) (w : wsl)
| TAssign (name : idn) (op : sym) (v : tnode) (w : wsl)
| TPlusAssign (name : idn) (op : sym) (v : tnode) (w : wsl)
(* IfClauseNode: ifs, elseblock (EmptyNode | ElseNode(else_, block); an ElseNode is neither made by
   create_node nor ever a line of a block, its whitespaces stay None), endif, whitespaces *)
| TIf (i : tifs) (els : option (sym * tblock)) (endif : sym) (w : wsl)
| TForeach (fe : sym) (v1 : idn) (cv2 : option (sym * idn)) (colon : sym)
           (items : tnode) (b : tblock) (endfe : sym) (w : wsl)
(* ArgumentNode.  The items are kept in source order; `arguments` are the TAPos items, `kwargs`
   and `colons` the TAKw items (that split is where the source order is lost, see RawPrint.v) *)
with targs :=
| TArgs (items : titems) (commas : list sym) (w : wsl)
with titems :=
| TANil
| TAPos (n : tnode) (r : titems)
| TAKw (k : tnode) (colon : sym) (v : tnode) (r : titems)
(* CodeBlockNode: pre_whitespaces, lines (EmptyNode lines are not stored); its own
   `whitespaces` is never set because append_whitespaces is overridden *)
with tblock :=
| TBlock (pre : wsl) (ls : tlines)
with tlines :=
| TLNil
| TLCons (n : tnode) (r : tlines)
(* IfNode: if_, condition, block, whitespaces *)
with tifs :=
| TINil
| TICons (kw : sym) (cond : tnode) (b : tblock) (w : wsl) (r : tifs).

(* BaseNode.append_whitespaces, mparser.py:269-273 (every class but CodeBlockNode) *)
Definition add_ws (n : tnode) (x : wsl) : tnode :=
  match n with
  | TEmpty p w => TEmpty p (w ++ x)
  | TBool t w => TBool t (w ++ x) | TId t w => TId t (w ++ x)
  | TNum t w => TNum t (w ++ x) | TStr t w => TStr t (w ++ x)
  | TContinue kw p w => TContinue kw p (w ++ x) | TBreak kw p w => TBreak kw p (w ++ x)
  | TParen lp e rp w => TParen lp e rp (w ++ x)
  | TArray lb a rb w => TArray lb a rb (w ++ x)
  | TDict lc a rc w => TDict lc a rc (w ++ x)
  | TFunc name lp a rp w => TFunc name lp a rp (w ++ x)
  | TMethod obj dot name lp a rp w => TMethod obj dot name lp a rp (w ++ x)
  | TIndex obj lb idx rb w => TIndex obj lb idx rb (w ++ x)
  | TNot op p e w => TNot op p e (w ++ x)
  | TUMinus op p e w => TUMinus op p e (w ++ x)
  | TArith l op r w => TArith l op r (w ++ x)
  | TCmp l op r w => TCmp l op r (w ++ x)
  | TAnd l op r w => TAnd l op r (w ++ x)
  | TOr l op r w => TOr l op r (w ++ x)
  | TTernary c q t colon f w => TTernary c q t colon f (w ++ x)
  | TAssign name op v w => TAssign name op v (w ++ x)
  | TPlusAssign name op v w => TPlusAssign name op v (w ++ x)
  | TIf i els endif w => TIf i els endif (w ++ x)
  | TForeach fe v1 cv2 colon items b endfe w => TForeach fe v1 cv2 colon items b endfe (w ++ x)
  end.

(* accept(tid) followed by create_node(SymbolNode, self.previous) *)
Definition mk_sym (t : token) (st : tst) : sym * tst :=
  let st := t_accept st in
  let '(w, st) := t_flush st in
  (mkSym t (ttext t) w, st).
(* create_node(SymbolNode, self.current) followed by the accept/expect of that token:
   rpar of a method call (mparser.py:1027-1028), endforeach (1058), endif (1070) *)
Definition mk_sym_cur (t : token) (st : tst) : sym * tst :=
  let '(w, st) := t_flush st in
  (mkSym t (ttext t) w, st).
(* accept('id') / expect('id') followed by create_node(IdNode, ...) *)
Definition mk_idn (t : token) (st : tst) : idn * tst :=
  let st := t_accept st in
  let '(w, st) := t_flush st in
  (mkIdn t w, st).

Definition texts_ (ts : list token) : str := concat (map ttext ts).

(* the loop head and the tail of Parser.codeblock (mparser.py:1125-1127, 1140-1143):
       for ws_token in self.current_ws: block.append_whitespaces(ws_token)
   CodeBlockNode.append_whitespaces (502-508): to the last line if there is one, else to
   pre_whitespaces.  [last] is the last line appended so far, [pre] the pre_whitespaces. *)
Definition blk_flush (last : option tnode) (pre : wsl) (st : tst) : option tnode * wsl * tst :=
  let '(w, st) := t_flush st in
  match last with
  | Some l => (Some (add_ws l w), pre, st)
  | None => (None, pre ++ w, st)
  end.

Definition opt_line (o : option tnode) (r : tlines) : tlines :=
  match o with Some l => TLCons l r | None => r end.

(* codeblock, mparser.py:1119-1145:
       block = self.create_node(CodeBlockNode, self.current)   <- pending tokens become pre_whitespaces
       while cond:
           for ws_token in self.current_ws: block.append_whitespaces(ws_token)
           self.current_ws = []
           curline = self.line()
           if not isinstance(curline, EmptyNode): block.lines.append(curline)
           cond = self.accept('eol')
       for ws_token in self.current_ws: block.append_whitespaces(ws_token)
       self.current_ws = []
   [lines] is the loop ([at_lines b] below). *)
Definition mk_block (lines : option tnode -> wsl -> tst -> wsl * tlines * tst) (st : tst) : tblock * tst :=
  let '(pre, st) := t_flush st in
  let '(pre', ls, st) := lines None pre st in
  (TBlock pre' ls, st).

Fixpoint at_node (n : node) (st : tst) {struct n} : tnode * tst :=
  match n with
  (* EmptyNode(...) is built directly (e10 mparser.py:972, line 1100, elseblock 1087): no create_node *)
  | NEmpty p => (TEmpty p [], st)
  (* e10, mparser.py:952-971: accept(...) then create_node(<Elementary>Node, t) *)
  | NBool t => let st := t_accept st in let '(w, st) := t_flush st in (TBool t w, st)
  | NId t => let st := t_accept st in let '(w, st) := t_flush st in (TId t w, st)
  | NNum t => let st := t_accept st in let '(w, st) := t_flush st in (TNum t w, st)
  | NStr t => let st := t_accept st in let '(w, st) := t_flush st in (TStr t w, st)
  (* line, mparser.py:1109-1112: accept('continue'); create_node(ContinueNode, self.current) *)
  | NContinue kw p => let st := t_accept st in let '(w, st) := t_flush st in (TContinue kw p w, st)
  | NBreak kw p => let st := t_accept st in let '(w, st) := t_flush st in (TBreak kw p w, st)
  (* e9, mparser.py:931-936: the ParenthesizedNode itself is NOT made by create_node *)
  | NParen lp e rp =>
      let '(lp', st) := mk_sym lp st in
      let '(e', st) := at_node e st in
      let '(rp', st) := mk_sym rp st in
      (TParen lp' e' rp' [], st)
  (* e9, mparser.py:937-942 *)
  | NArray lb a cms rb =>
      let '(lb', st) := mk_sym lb st in
      let '(a', st) := at_args a cms st in
      let '(rb', st) := mk_sym rb st in
      let '(w, st) := t_flush st in
      (TArray lb' a' rb' w, st)
  (* e9, mparser.py:943-948 *)
  | NDict lc a cms rc =>
      let '(lc', st) := mk_sym lc st in
      let '(a', st) := at_args a cms st in
      let '(rc', st) := mk_sym rc st in
      let '(w, st) := t_flush st in
      (TDict lc' a' rc' w, st)
  (* e8, mparser.py:905-917: left = e9() (an IdNode from e10), lpar, args, rpar, FunctionNode *)
  | NFunc name lp a cms rp =>
      let '(name', st) := mk_idn name st in
      let '(lp', st) := mk_sym lp st in
      let '(a', st) := at_args a cms st in
      let '(rp', st) := mk_sym rp st in
      let '(w, st) := t_flush st in
      (TFunc name' lp' a' rp' w, st)
  (* method_call, mparser.py:1014-1032: accept('dot') (in e8 or at the end of the previous
     method_call); dot; methodname = e10(); expect('lparen'); lpar; args;
     rpar = create_node(SymbolNode, self.current) BEFORE expect('rparen'); MethodNode *)
  | NMethod obj dot name lp a cms rp =>
      let '(obj', st) := at_node obj st in
      let '(dot', st) := mk_sym dot st in
      let '(name', st) := mk_idn name st in
      let '(lp', st) := mk_sym lp st in
      let '(a', st) := at_args a cms st in
      let '(rp', st) := mk_sym_cur rp st in
      let st := t_accept st in
      let '(w, st) := t_flush st in
      (TMethod obj' dot' name' lp' a' rp' w, st)
  (* index_call, mparser.py:1034-1039 *)
  | NIndex obj lb idx rb =>
      let '(obj', st) := at_node obj st in
      let '(lb', st) := mk_sym lb st in
      let '(idx', st) := at_node idx st in
      let '(rb', st) := mk_sym rb st in
      let '(w, st) := t_flush st in
      (TIndex obj' lb' idx' rb' w, st)
  (* e7, mparser.py:896-903: operator; create_node(NotNode, self.current, operator, self.e8()) *)
  | NNot op p e =>
      let '(op', st) := mk_sym op st in
      let '(e', st) := at_node e st in
      let '(w, st) := t_flush st in
      (TNot op' p e' w, st)
  | NUMinus op p e =>
      let '(op', st) := mk_sym op st in
      let '(e', st) := at_node e st in
      let '(w, st) := t_flush st in
      (TUMinus op' p e' w, st)
  (* e5 / e6, mparser.py:874-894 *)
  | NArith l op r =>
      let '(l', st) := at_node l st in
      let '(op', st) := mk_sym op st in
      let '(r', st) := at_node r st in
      let '(w, st) := t_flush st in
      (TArith l' op' r' w, st)
  (* e4, mparser.py:851-856 *)
  | NCmp l op r =>
      let '(l', st) := at_node l st in
      let '(op', st) := mk_sym op st in
      let '(r', st) := at_node r st in
      let '(w, st) := t_flush st in
      (TCmp l' op' r' w, st)
  (* e4, mparser.py:857-871:
         if self.accept('not'):
             ws = self.current_ws.copy()
             not_token = self.previous
             if self.accept('in'):
                 in_token = self.previous
                 self.current_ws = self.current_ws[len(ws):]
                 temp_node = EmptyNode(...); for w in ws: temp_node.append_whitespaces(w)
                 not_token.value += temp_node.whitespaces.value + in_token.value
                 operator = self.create_node(SymbolNode, not_token)
     With ws empty, temp_node.whitespaces is None: AttributeError ([t_bad]). *)
  | NNotIn l nt it r =>
      let '(l', st) := at_node l st in
      let st := t_accept st in
      let ws0 := t_pend st in
      let st := t_accept st in
      let st := mkT (t_chunks st) (skipn (length ws0) (t_pend st))
                    (t_bad st || match ws0 with [] => true | _ => false end) in
      let '(w, st) := t_flush st in
      let op' := mkSym nt (ttext nt ++ texts_ ws0 ++ ttext it) w in
      let '(r', st) := at_node r st in
      let '(w, st) := t_flush st in
      (TCmp l' op' r' w, st)
  (* e3 / e2, mparser.py:831-849 *)
  | NAnd l op r =>
      let '(l', st) := at_node l st in
      let '(op', st) := mk_sym op st in
      let '(r', st) := at_node r st in
      let '(w, st) := t_flush st in
      (TAnd l' op' r' w, st)
  | NOr l op r =>
      let '(l', st) := at_node l st in
      let '(op', st) := mk_sym op st in
      let '(r', st) := at_node r st in
      let '(w, st) := t_flush st in
      (TOr l' op' r' w, st)
  (* e1, mparser.py:816-828 *)
  | NTernary c q t colon f =>
      let '(c', st) := at_node c st in
      let '(q', st) := mk_sym q st in
      let '(t', st) := at_node t st in
      let '(colon', st) := mk_sym colon st in
      let '(f', st) := at_node f st in
      let '(w, st) := t_flush st in
      (TTernary c' q' t' colon' f' w, st)
  (* e1, mparser.py:799-815: left = e2() is the IdNode made by e10 *)
  | NAssign name op v =>
      let '(name', st) := mk_idn name st in
      let '(op', st) := mk_sym op st in
      let '(v', st) := at_node v st in
      let '(w, st) := t_flush st in
      (TAssign name' op' v' w, st)
  | NPlusAssign name op v =>
      let '(name', st) := mk_idn name st in
      let '(op', st) := mk_sym op st in
      let '(v', st) := at_node v st in
      let '(w, st) := t_flush st in
      (TPlusAssign name' op' v' w, st)
  (* line 1101-1104 + ifblock, mparser.py:1061-1071:
         accept('if'); if_node = create_node(SymbolNode, self.previous); condition = statement()
         clause = create_node(IfClauseNode, condition)          <- the clause takes what is pending here
         expect('eol'); block = codeblock()
         clause.ifs.append(create_node(IfNode, clause, if_node, condition, block))
         elseifblock(clause); clause.elseblock = elseblock()
         clause.endif = create_node(SymbolNode, self.current)   <- before block_expect('endif') *)
  | NIf i endif =>
      match i with
      | ICons kw cond eol b r =>
          let '(kw', st) := mk_sym kw st in
          let '(cond', st) := at_node cond st in
          let '(cw, st) := t_flush st in
          let st := t_accept st in
          let '(b', st) := mk_block (at_lines b) st in
          let '(iw, st) := t_flush st in
          let '(r', st) := at_ifs r st in
          let '(endif', st) := mk_sym_cur endif st in
          let st := t_accept st in
          (TIf (TICons kw' cond' b' iw r') None endif' cw, st)
      | INil =>
          let '(endif', st) := mk_sym_cur endif st in
          let st := t_accept st in
          (TIf TINil None endif' [], st)
      end
  (* the same with elseblock, mparser.py:1081-1087: accept('else'); else_; expect('eol');
     block = codeblock(); ElseNode(else_, block) built directly *)
  | NIfElse i els eol2 b2 endif =>
      match i with
      | ICons kw cond eol b r =>
          let '(kw', st) := mk_sym kw st in
          let '(cond', st) := at_node cond st in
          let '(cw, st) := t_flush st in
          let st := t_accept st in
          let '(b', st) := mk_block (at_lines b) st in
          let '(iw, st) := t_flush st in
          let '(r', st) := at_ifs r st in
          let '(els', st) := mk_sym els st in
          let st := t_accept st in
          let '(b2', st) := mk_block (at_lines b2) st in
          let '(endif', st) := mk_sym_cur endif st in
          let st := t_accept st in
          (TIf (TICons kw' cond' b' iw r') (Some (els', b2')) endif' cw, st)
      | INil =>
          let '(els', st) := mk_sym els st in
          let st := t_accept st in
          let '(b2', st) := mk_block (at_lines b2) st in
          let '(endif', st) := mk_sym_cur endif st in
          let st := t_accept st in
          (TIf TINil (Some (els', b2')) endif' [], st)
      end
  (* line 1105-1108 + foreachblock, mparser.py:1041-1059:
         accept('foreach'); foreach_; expect('id'); IdNode; [accept('comma'); comma; expect('id'); IdNode]
         expect('colon'); colon; items = statement(); block = codeblock()
         endforeach = create_node(SymbolNode, self.current)
         return create_node(ForeachClauseNode, ...)             <- both before block_expect('endforeach') *)
  | NForeach fe v1 cv2 colon items b endfe =>
      let '(fe', st) := mk_sym fe st in
      let '(v1', st) := mk_idn v1 st in
      let '(cv2', st) := match cv2 with
                         | Some (cm, v2) =>
                             let '(cm', st) := mk_sym cm st in
                             let '(v2', st) := mk_idn v2 st in
                             (Some (cm', v2'), st)
                         | None => (None, st)
                         end in
      let '(colon', st) := mk_sym colon st in
      let '(items', st) := at_node items st in
      let '(b', st) := mk_block (at_lines b) st in
      let '(endfe', st) := mk_sym_cur endfe st in
      let '(w, st) := t_flush st in
      let st := t_accept st in
      (TForeach fe' v1' cv2' colon' items' b' endfe' w, st)
  end

(* args, mparser.py:991-1012, and key_values, 974-989:
       s = self.statement()
       a = self.create_node(ArgumentNode, self.current)        <- after the FIRST statement
       while not isinstance(s, EmptyNode): ... *)
with at_args (a : args) (cms : list token) (st : tst) {struct a} : targs * tst :=
  match a with
  | ANil =>
      let '(w, st) := t_flush st in
      (TArgs TANil [] w, st)
  | APos n r =>
      let '(n', st) := at_node n st in
      let '(w, st) := t_flush st in
      match cms with
      | c :: cs =>
          let '(c', st) := mk_sym c st in
          let '(r', cl, st) := at_items r cs st in
          (TArgs (TAPos n' r') (c' :: cl) w, st)
      | [] =>
          let '(r', cl, st) := at_items r [] st in
          (TArgs (TAPos n' r') cl w, st)
      end
  | AKw k colon v r =>
      let '(k', st) := at_node k st in
      let '(w, st) := t_flush st in
      let '(colon', st) := mk_sym colon st in
      let '(v', st) := at_node v st in
      match cms with
      | c :: cs =>
          let '(c', st) := mk_sym c st in
          let '(r', cl, st) := at_items r cs st in
          (TArgs (TAKw k' colon' v' r') (c' :: cl) w, st)
      | [] =>
          let '(r', cl, st) := at_items r [] st in
          (TArgs (TAKw k' colon' v' r') cl w, st)
      end
  end
(* the following iterations of the loop: statement; accept('comma') + commas.append(create_node(...))
   or accept('colon') + colons.append(create_node(...)); statement; accept('comma') ... *)
with at_items (a : args) (cms : list token) (st : tst) {struct a} : titems * list sym * tst :=
  match a with
  | ANil => (TANil, [], st)
  | APos n r =>
      let '(n', st) := at_node n st in
      match cms with
      | c :: cs =>
          let '(c', st) := mk_sym c st in
          let '(r', cl, st) := at_items r cs st in
          (TAPos n' r', c' :: cl, st)
      | [] =>
          let '(r', cl, st) := at_items r [] st in
          (TAPos n' r', cl, st)
      end
  | AKw k colon v r =>
      let '(k', st) := at_node k st in
      let '(colon', st) := mk_sym colon st in
      let '(v', st) := at_node v st in
      match cms with
      | c :: cs =>
          let '(c', st) := mk_sym c st in
          let '(r', cl, st) := at_items r cs st in
          (TAKw k' colon' v' r', c' :: cl, st)
      | [] =>
          let '(r', cl, st) := at_items r [] st in
          (TAKw k' colon' v' r', cl, st)
      end
  end
(* one BLine = one iteration; returns the final pre_whitespaces and the lines from [last] on *)
with at_lines (b : block) (last : option tnode) (pre : wsl) (st : tst) {struct b} : wsl * tlines * tst :=
  match b with
  | BNil =>
      let '(last, pre, st) := blk_flush last pre st in
      (pre, opt_line last TLNil, st)
  | BLine n eol r =>
      let '(last, pre, st) := blk_flush last pre st in
      let '(n', st) := at_node n st in
      let st := match eol with Some _ => t_accept st | None => st end in
      if is_empty n then at_lines r last pre st
      else
        let '(pre', ls, st) := at_lines r (Some n') pre st in
        (pre', opt_line last ls, st)
  end
(* elseifblock, mparser.py:1073-1079: accept('elif'); elif_; s = statement(); expect('eol');
   b = codeblock(); clause.ifs.append(create_node(IfNode, s, elif_, s, b)) *)
with at_ifs (i : ifs) (st : tst) {struct i} : tifs * tst :=
  match i with
  | INil => (TINil, st)
  | ICons kw cond eol b r =>
      let '(kw', st) := mk_sym kw st in
      let '(cond', st) := at_node cond st in
      let st := t_accept st in
      let '(b', st) := mk_block (at_lines b) st in
      let '(iw, st) := t_flush st in
      let '(r', st) := at_ifs r st in
      (TICons kw' cond' b' iw r', st)
  end.

Definition at_block (b : block) (st : tst) : tblock * tst := mk_block (at_lines b) st.

Inductive tres := TOk (b : tblock) | TErr (p : pos) | TPyErr | TFuel.

(* Parser(code).parse() with the trivia: __init__ calls getsym() once (mparser.py:733), parse()
   (mparser.py:783-794) is codeblock() followed by expect('eof') (no token is read after the end of the stream). *)
Definition parse_with_trivia (s : str) : tres :=
  match parse s with
  | Ok b =>
      let '(ts, _) := lex_prefix (length s) s init_lst in
      let '(w0, cs) := chunk ts in
      let '(tb, st) := at_block b (mkT cs w0 false) in
      if t_bad st then TPyErr else TOk tb
  | Err p => TErr p
  | Fuel => TFuel
  end.
