(* Syntax/TriviaRender.v — canonical rendering of the trivia-annotated tree for the C02
   correspondence (mirrored by tv_* in harness/impl/c02.py, which walks the REAL node objects
   by their attributes, not through a visitor): per node, in a fixed traversal order, the node
   kind and the exact whitespace text attached to it (with the position of its first token).
   Argument lists are rendered as the implementation stores them: arguments, kwargs, colons,
   commas.  No proofs. *)
From MV Require Import Base.Strs Syntax.Lexer Syntax.Parser Syntax.Render Syntax.Trivia Syntax.RawPrint.
Open Scope N_scope.

Definition q (s : str) : str := 2 :: s ++ [3].
(* node.whitespaces: '-' for None, else @line:col of the WhitespaceNode and its value *)
Definition v_ws (w : wsl) : str :=
  match w with
  | [] => [45]
  | t :: _ => r_pos (tpos t) ++ q (texts_ w)
  end.
Definition v_sym (s : sym) : str := 121 :: q (sy_val s) ++ v_ws (sy_ws s).
Definition v_idn (i : idn) : str := 105 :: q (ttext (id_tok i)) ++ v_ws (id_ws i).
Definition v_syms (l : list sym) : str := concat (map v_sym l).

Fixpoint tv (n : tnode) : str :=
  match n with
  | TEmpty _ w => s2l "E" ++ v_ws w
  | TBool _ w => s2l "B" ++ v_ws w
  | TId t w => s2l "I" ++ q (ttext t) ++ v_ws w
  | TNum _ w => s2l "N" ++ v_ws w
  | TStr _ w => s2l "S" ++ v_ws w
  | TContinue _ _ w => s2l "Cont" ++ v_ws w
  | TBreak _ _ w => s2l "Brk" ++ v_ws w
  | TParen lp e rp w => s2l "P" ++ brack (v_sym lp ++ tv e ++ v_sym rp) ++ v_ws w
  | TArray lb a rb w => s2l "A" ++ brack (v_sym lb ++ tv_args a ++ v_sym rb) ++ v_ws w
  | TDict lc a rc w => s2l "D" ++ brack (v_sym lc ++ tv_args a ++ v_sym rc) ++ v_ws w
  | TFunc name lp a rp w => s2l "F" ++ brack (v_idn name ++ v_sym lp ++ tv_args a ++ v_sym rp) ++ v_ws w
  | TMethod obj dot name lp a rp w =>
      s2l "M" ++ brack (tv obj ++ v_sym dot ++ v_idn name ++ v_sym lp ++ tv_args a ++ v_sym rp) ++ v_ws w
  | TIndex obj lb idx rb w => s2l "X" ++ brack (tv obj ++ v_sym lb ++ tv idx ++ v_sym rb) ++ v_ws w
  | TNot op _ e w => s2l "Not" ++ brack (v_sym op ++ tv e) ++ v_ws w
  | TUMinus op _ e w => s2l "Neg" ++ brack (v_sym op ++ tv e) ++ v_ws w
  | TArith l op r w => s2l "Ar" ++ brack (tv l ++ v_sym op ++ tv r) ++ v_ws w
  | TCmp l op r w => s2l "Cmp" ++ brack (tv l ++ v_sym op ++ tv r) ++ v_ws w
  | TAnd l op r w => s2l "And" ++ brack (tv l ++ v_sym op ++ tv r) ++ v_ws w
  | TOr l op r w => s2l "Or" ++ brack (tv l ++ v_sym op ++ tv r) ++ v_ws w
  | TTernary c qm t colon f w => s2l "T" ++ brack (tv c ++ v_sym qm ++ tv t ++ v_sym colon ++ tv f) ++ v_ws w
  | TAssign name op v w => s2l "As" ++ brack (v_idn name ++ v_sym op ++ tv v) ++ v_ws w
  | TPlusAssign name op v w => s2l "PAs" ++ brack (v_idn name ++ v_sym op ++ tv v) ++ v_ws w
  | TIf i els endif w =>
      s2l "If" ++ brack (tv_ifs i ++
                         match els with
                         | Some (e, b) => s2l "El" ++ brack (v_sym e ++ tv_block b) ++ v_ws []
                         | None => s2l "E" ++ v_ws []
                         end ++ v_sym endif) ++ v_ws w
  | TForeach fe v1 cv2 colon items b endfe w =>
      s2l "Fe" ++ brack (v_sym fe ++ v_idn v1 ++
                         match cv2 with Some (_, v2) => v_idn v2 | None => [] end ++ semi ++
                         match cv2 with Some (cm, _) => v_sym cm | None => [] end ++ semi ++
                         v_sym colon ++ tv items ++ tv_block b ++ v_sym endfe) ++ v_ws w
  end
with tv_args (a : targs) : str :=
  match a with
  | TArgs items cms w =>
      s2l "G" ++ brack (tv_pos items ++ semi ++ tv_kw items ++ semi ++ tv_colons items ++ semi ++ v_syms cms) ++ v_ws w
  end
with tv_pos (a : titems) : str :=
  match a with
  | TANil => []
  | TAPos n r => tv n ++ tv_pos r
  | TAKw _ _ _ r => tv_pos r
  end
with tv_kw (a : titems) : str :=
  match a with
  | TANil => []
  | TAPos _ r => tv_kw r
  | TAKw k _ v r => tv k ++ 58 :: tv v ++ 44 :: tv_kw r
  end
with tv_colons (a : titems) : str :=
  match a with
  | TANil => []
  | TAPos _ r => tv_colons r
  | TAKw _ colon _ r => v_sym colon ++ tv_colons r
  end
with tv_block (b : tblock) : str :=
  match b with
  | TBlock pre ls => s2l "K" ++ brack (v_ws pre ++ semi ++ tv_lines ls) ++ v_ws []
  end
with tv_lines (l : tlines) : str :=
  match l with
  | TLNil => []
  | TLCons n r => tv n ++ tv_lines r
  end
with tv_ifs (i : tifs) : str :=
  match i with
  | TINil => []
  | TICons kw cond b w r => s2l "In" ++ brack (v_sym kw ++ tv cond ++ tv_block b) ++ v_ws w ++ tv_ifs r
  end.

Definition r_tres (r : tres) : str :=
  match r with
  | TOk b => s2l "OK:" ++ tv_block b ++ 4 :: raw_print b
  | TErr p => s2l "ERR" ++ r_pos p
  | TPyErr => s2l "PYERR"
  | TFuel => s2l "FUEL"
  end.
