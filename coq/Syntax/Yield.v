(* Syntax/Yield.v — the in-order token listing of a tree (what RawPrinter emits, at the
   level of significant tokens), in two variants: source order and RawPrinter's order
   (positional arguments before keyword arguments).  Definitions only. *)
From MV Require Import Base.Strs Syntax.Lexer Syntax.Parser.

Fixpoint interleave (items : list (list token)) (cms : list token) : list token :=
  match items with
  | [] => []
  | it :: r =>
      it ++ match cms with
            | c :: cs => c :: interleave r cs
            | [] => interleave r []
            end
  end.

Definition opt_tok (o : option token) : list token := match o with Some t => [t] | None => [] end.

Fixpoint yield (n : node) : list token :=
  match n with
  | NEmpty _ => []
  | NBool t | NId t | NNum t | NStr t => [t]
  | NContinue kw _ | NBreak kw _ => [kw]
  | NParen lp e rp => lp :: yield e ++ [rp]
  | NArray lb a cms rb => lb :: interleave (src_items a) cms ++ [rb]
  | NDict lc a cms rc => lc :: interleave (src_items a) cms ++ [rc]
  | NFunc name lp a cms rp => name :: lp :: interleave (src_items a) cms ++ [rp]
  | NMethod obj dot name lp a cms rp =>
      yield obj ++ dot :: name :: lp :: interleave (src_items a) cms ++ [rp]
  | NIndex obj lb idx rb => yield obj ++ lb :: yield idx ++ [rb]
  | NNot op _ e | NUMinus op _ e => op :: yield e
  | NArith l op r | NCmp l op r | NAnd l op r | NOr l op r => yield l ++ op :: yield r
  | NNotIn l nt it r => yield l ++ nt :: it :: yield r
  | NTernary c q t colon f => yield c ++ q :: yield t ++ colon :: yield f
  | NAssign name op v | NPlusAssign name op v => name :: op :: yield v
  | NIf i endif => yield_ifs i ++ [endif]
  | NIfElse i els eol b endif => yield_ifs i ++ els :: eol :: yield_block b ++ [endif]
  | NForeach fe v1 cv2 colon items b endfe =>
      fe :: v1 :: match cv2 with Some (cm, v2) => [cm; v2] | None => [] end ++
      colon :: yield items ++ yield_block b ++ [endfe]
  end
with src_items (a : args) : list (list token) :=
  match a with
  | ANil => []
  | APos n r => yield n :: src_items r
  | AKw k colon v r => (yield k ++ colon :: yield v) :: src_items r
  end
with yield_block (b : block) : list token :=
  match b with
  | BNil => []
  | BLine n eol r => yield n ++ opt_tok eol ++ yield_block r
  end
with yield_ifs (i : ifs) : list token :=
  match i with
  | INil => []
  | ICons kw c eol b r => kw :: yield c ++ eol :: yield_block b ++ yield_ifs r
  end.

(* RawPrinter.visit_ArgumentNode order: node.arguments first, then node.kwargs *)
Fixpoint pos_only (a : args) : args :=
  match a with
  | ANil => ANil
  | APos n r => APos n (pos_only r)
  | AKw _ _ _ r => pos_only r
  end.
Fixpoint kw_only (a : args) : args :=
  match a with
  | ANil => ANil
  | APos _ r => kw_only r
  | AKw k c v r => AKw k c v (kw_only r)
  end.
Fixpoint args_app (a b : args) : args :=
  match a with
  | ANil => b
  | APos n r => APos n (args_app r b)
  | AKw k c v r => AKw k c v (args_app r b)
  end.
Definition raw_order (a : args) : args := args_app (pos_only a) (kw_only a).

(* ArgumentNode.order_error: a positional argument after a keyword argument *)
Fixpoint has_kw (a : args) : bool :=
  match a with ANil => false | APos _ r => has_kw r | AKw _ _ _ _ => true end.
Fixpoint args_order_ok (a : args) : bool :=
  match a with
  | ANil => true
  | APos _ r => args_order_ok r
  | AKw _ _ _ r => match pos_only r with ANil => args_order_ok r | _ => false end
  end.

(* every argument list of the tree is in the order RawPrinter emits *)
Fixpoint order_ok (n : node) : bool :=
  match n with
  | NEmpty _ | NBool _ | NId _ | NNum _ | NStr _ | NContinue _ _ | NBreak _ _ => true
  | NParen _ e _ => order_ok e
  | NArray _ a _ _ | NDict _ a _ _ | NFunc _ _ a _ _ => args_order_ok a && order_ok_args a
  | NMethod obj _ _ _ a _ _ => order_ok obj && args_order_ok a && order_ok_args a
  | NIndex obj _ idx _ => order_ok obj && order_ok idx
  | NNot _ _ e | NUMinus _ _ e => order_ok e
  | NArith l _ r | NCmp l _ r | NAnd l _ r | NOr l _ r | NNotIn l _ _ r => order_ok l && order_ok r
  | NTernary c _ t _ f => order_ok c && order_ok t && order_ok f
  | NAssign _ _ v | NPlusAssign _ _ v => order_ok v
  | NIf i _ => order_ok_ifs i
  | NIfElse i _ _ b _ => order_ok_ifs i && order_ok_block b
  | NForeach _ _ _ _ items b _ => order_ok items && order_ok_block b
  end
with order_ok_args (a : args) : bool :=
  match a with
  | ANil => true
  | APos n r => order_ok n && order_ok_args r
  | AKw k _ v r => order_ok k && order_ok v && order_ok_args r
  end
with order_ok_block (b : block) : bool :=
  match b with
  | BNil => true
  | BLine n _ r => order_ok n && order_ok_block r
  end
with order_ok_ifs (i : ifs) : bool :=
  match i with
  | INil => true
  | ICons _ c _ b r => order_ok c && order_ok_block b && order_ok_ifs r
  end.
