(* Syntax/EscapeFacts.v — the string literal AstPrinter writes is read back as the same value:
   decode (escape v) = v for every string, the lexer takes the printed literal as exactly one
   'string' token whatever follows (except another quote), and the parser accepts it. *)
From MV Require Import Base.Strs Base.LexFacts Syntax.Lexer Syntax.Parser Syntax.AstPrint Syntax.LexerFacts.
From Coq Require Import Lia.
Open Scope N_scope.

Lemma escape_cons c v : escape (c :: v) = esc_char c ++ escape v.
Proof. reflexivity. Qed.

Lemma esc_char_cases c :
  (c = c_bs /\ esc_char c = [c_bs; c_bs]) \/ (c = c_sq /\ esc_char c = [c_bs; c_sq]) \/
  (c <> c_bs /\ c <> c_sq /\ esc_char c = [c]).
Proof.
  unfold esc_char. destruct (c =? c_bs) eqn:E1.
  - apply N.eqb_eq in E1. auto.
  - destruct (c =? c_sq) eqn:E2.
    + apply N.eqb_eq in E2. auto.
    + apply N.eqb_neq in E1, E2. auto.
Qed.

(* StringNode.escape() undoes AstPrinter.escape() *)
Theorem decode_escape v : decode 0 (escape v) = v.
Proof.
  induction v as [|c v IH]; [reflexivity|].
  rewrite escape_cons.
  destruct (esc_char_cases c) as [[-> ->] | [[-> ->] | (Hb & Hq & ->)]].
  - cbn. now rewrite IH.
  - cbn. now rewrite IH.
  - cbn [app decode]. apply N.eqb_neq in Hb. rewrite Hb. now rewrite IH.
Qed.

(* the lexer's 'string' regex stops exactly at the closing quote the printer wrote *)
Lemma scan_escape v rest : scan_str (escape v ++ c_sq :: rest) = Some (S (length (escape v))).
Proof.
  induction v as [|c v IH]; [reflexivity|].
  rewrite escape_cons.
  destruct (esc_char_cases c) as [[-> ->] | [[-> ->] | (Hb & Hq & ->)]].
  - cbn [app scan_str]. change (c_bs =? c_sq) with false. change (c_bs =? c_bs) with true.
    cbn match. change (c_bs =? c_nl) with false. cbn match. rewrite IH. cbn [length]. reflexivity.
  - cbn [app scan_str]. change (c_bs =? c_sq) with false. change (c_bs =? c_bs) with true.
    cbn match. change (c_sq =? c_nl) with false. cbn match. rewrite IH. cbn [length]. reflexivity.
  - cbn [app scan_str]. apply N.eqb_neq in Hb, Hq. rewrite Hq, Hb. rewrite IH. reflexivity.
Qed.

(* no escape sequence of the printed literal can be rejected (str_invalid) *)
Lemma bad_escape_escape v : bad_escape 0 (escape v) = false.
Proof.
  induction v as [|c v IH]; [reflexivity|].
  rewrite escape_cons.
  destruct (esc_char_cases c) as [[-> ->] | [[-> ->] | (Hb & Hq & ->)]].
  - cbn. exact IH.
  - cbn. exact IH.
  - cbn [app bad_escape]. apply N.eqb_neq in Hb. rewrite Hb. exact IH.
Qed.

Lemma removelast_snoc {A} (l : list A) x : removelast (l ++ [x]) = l.
Proof. apply removelast_last. Qed.

Lemma removelast3 {A} (l : list A) a b c :
  removelast (removelast (removelast (l ++ [a; b; c]))) = l.
Proof.
  change (l ++ [a; b; c]) with (l ++ [a] ++ [b] ++ [c]).
  rewrite !app_assoc. rewrite removelast_last. rewrite removelast_last. apply removelast_last.
Qed.

(* the value of the printed literal is the value that was printed, for all four string kinds *)
Theorem str_value_text f m v : str_value (str_kind f m) (str_text f m v) = v.
Proof.
  destruct f, m; cbn [str_kind str_text str_value app drop].
  - apply removelast3.
  - change (c_sq :: escape v ++ [c_sq]) with ((c_sq :: escape v) ++ [c_sq]).
    cbn [drop]. rewrite removelast_last. apply decode_escape.
  - apply removelast3.
  - rewrite removelast_last. apply decode_escape.
Qed.

Theorem str_text_valid f m v t : tk t = str_kind f m -> ttext t = str_text f m v -> str_invalid t = false.
Proof.
  intros Hk Ht. unfold str_invalid. rewrite Hk, Ht.
  destruct f, m; cbn [str_kind str_text str_body app drop]; try reflexivity.
  - rewrite removelast_last. apply bad_escape_escape.
  - rewrite removelast_last. apply bad_escape_escape.
Qed.

(* what the first character of an escaped, quoted string is not *)
Lemma escape_head_not_sq v x r : escape v = x :: r -> x <> c_sq.
Proof.
  destruct v as [|c v]; [discriminate|]. rewrite escape_cons.
  destruct (esc_char_cases c) as [[-> ->] | [[-> ->] | (Hb & Hq & ->)]]; cbn; intros H; inversion H; subst; auto; discriminate.
Qed.

Definition hd_not_sq (rest : str) : Prop := match rest with c :: _ => c <> c_sq | [] => True end.

(* The lexer reads 'escape v' followed by anything but a quote as one token of kind 'string'
   whose text is exactly the printed literal. *)
Theorem printed_string_first_match v rest :
  hd_not_sq rest ->
  first_match (str_text false false v ++ rest) = Some (RK KStr, length (str_text false false v)).
Proof.
  intros Hr. cbn [str_text app].
  set (body := escape v).
  assert (Hlen : length (c_sq :: body ++ [c_sq]) = S (S (length body))).
  { cbn. rewrite app_length. cbn. lia. }
  rewrite Hlen.
  replace (c_sq :: (body ++ [c_sq]) ++ rest) with (c_sq :: body ++ c_sq :: rest)
    by (rewrite <- app_assoc; reflexivity).
  unfold first_match.
  (* whitespace, f-strings, id, number, eol_cont do not start with a quote *)
  assert (Hms : m_mstr (c_sq :: body ++ c_sq :: rest) = None).
  { unfold m_mstr. destruct body as [|x r] eqn:Eb.
    - cbn [app prefixb]. change (c_sq =? c_sq) with true. cbn [andb].
      destruct rest as [|c r']; [reflexivity|]. cbn [prefixb].
      cbn in Hr. apply N.eqb_neq in Hr. rewrite N.eqb_sym in Hr. rewrite Hr. reflexivity.
    - pose proof (escape_head_not_sq v x r Eb) as Hx. apply N.eqb_neq in Hx. rewrite N.eqb_sym in Hx.
      cbn [app prefixb]. change (c_sq =? c_sq) with true. rewrite Hx. reflexivity. }
  assert (H1 : m_ws (c_sq :: body ++ c_sq :: rest) = None) by reflexivity.
  assert (H2 : m_mfstr (c_sq :: body ++ c_sq :: rest) = None) by reflexivity.
  assert (H3 : m_fstr (c_sq :: body ++ c_sq :: rest) = None).
  { unfold m_fstr. destruct (body ++ c_sq :: rest); reflexivity. }
  assert (H4 : m_id (c_sq :: body ++ c_sq :: rest) = None) by reflexivity.
  assert (H5 : m_num (c_sq :: body ++ c_sq :: rest) = None) by reflexivity.
  assert (H6 : m_eol_cont (c_sq :: body ++ c_sq :: rest) = None) by reflexivity.
  assert (H7 : m_comment (c_sq :: body ++ c_sq :: rest) = None) by reflexivity.
  assert (H8 : m_str (c_sq :: body ++ c_sq :: rest) = Some (S (S (length body)))).
  { unfold m_str. change (c_sq =? c_sq) with true. cbn match.
    unfold body. rewrite scan_escape. reflexivity. }
  rewrite H1, H2, H3, H4, H5, H6, Hms, H7, H8. reflexivity.
Qed.
