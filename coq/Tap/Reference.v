(* Tap/Reference.v — which lines of a stream are test lines "outside YAML blocks", stated
   without the parser's counters, plan and error logic, and the theorem that the subtests the
   parser reports are exactly those lines, in order, with the right number, name and status
   (C18, for every stream). *)
From MV Require Import Base.Strs Base.LexFacts Tap.Lines Tap.Machine Tap.Verdict Tap.Spec Tap.Proofs.
From Coq Require Import Lia.
Open Scope N_scope.

(* where we are in the stream, as TAP 13 describes it *)
Inductive mode := MMain | MAfterTest | MYaml (indent : str).

Record ref := mkref { r_version : N; r_lineno : N; r_mode : mode; r_last : N }.

Definition ref_init : ref := mkref 12 0 MMain 0.

(* the line is looked at as TAP *)
Definition ref_main (r : ref) (ln : N) (line : str) : ref * list (N * str * tres * option str) :=
  match line_class line with
  | Some (LTest ok num name dir) =>
      let n := line_number (r_last r) num in
      (mkref (r_version r) ln MAfterTest n,
       [(n, strip name, spec_status ok (dir_of dir), spec_explanation dir)])
  | Some (LVersion ds) =>
      (mkref (if (ln =? 1) && negb (too_long ds) then digits_val ds else r_version r) ln MMain (r_last r), [])
  | _ => (mkref (r_version r) ln MMain (r_last r), [])
  end.

Definition ref_step (r : ref) (line : str) : ref * list (N * str * tres * option str) :=
  let ln := r_lineno r + 1 in
  match r_mode r with
  | MMain => ref_main r ln line
  | MAfterTest =>
      (* a YAML block may start right after a test line, in TAP 13 *)
      if 13 <=? r_version r then
        match yaml_start line with
        | Some ind => (mkref (r_version r) ln (MYaml ind) (r_last r), [])
        | None => ref_main r ln line
        end
      else ref_main r ln line
  | MYaml ind =>
      if yaml_end line then (mkref (r_version r) ln MMain (r_last r), [])
      else if prefixb ind line then (mkref (r_version r) ln (MYaml ind) (r_last r), [])
      else ref_main r ln line            (* the block is broken off; the line counts *)
  end.

Fixpoint ref_tests (r : ref) (lines : list str) : list (N * str * tres * option str) :=
  match lines with
  | [] => []
  | l :: rest => let '(r', t) := ref_step r l in t ++ ref_tests r' rest
  end.

(* the parser state seen through the reference *)
Definition sim (r : ref) (s : state) : Prop :=
  r_version r = version s /\ r_lineno r = lineno s /\ r_last r = last_test s /\
  match r_mode r with
  | MMain => st s = Main
  | MAfterTest => st s = AfterTest
  | MYaml ind => st s = Yaml /\ yaml_indent s = ind
  end.

Lemma sim_main r s1 l s' e :
  r_version r = version s1 -> r_last r = last_test s1 -> st s1 = Main ->
  main_line s1 l = Ok (s', e) ->
  sim (fst (ref_main r (lineno s1) l)) s' /\ tests_of e = snd (ref_main r (lineno s1) l).
Proof.
  intros Hv Hl Hs H. pose proof (test_line_subtest _ _ _ _ H) as T.
  pose proof (main_line_frame _ _ _ _ H) as [L _].
  apply main_line_spec in H. unfold ref_main.
  destruct (line_class l) as [[ok num name dir|ds dir|m|ds|]|].
  - destruct T as [T [T1 [_ [T2 _]]]]. rewrite <- Hl in T, T1. split; [|exact T].
    destruct H as [n [_ [-> _]]]. unfold sim. simpl. repeat split; auto.
    destruct (late_now s1); simpl; auto.
  - destruct T as [T [T1 _]]. split; [|exact T]. unfold sim. simpl.
    destruct (cur_plan s1).
    + destruct H as [-> _]. auto.
    + destruct (too_long ds); [destruct H as [-> _]; auto|]. destruct H as [p [errs [-> _]]]. simpl. auto.
  - destruct T as [T [T1 _]]. split; [|exact T]. destruct H as [-> _]. unfold sim. simpl. auto.
  - destruct T as [T [T1 _]]. split; [|exact T]. unfold sim. simpl.
    destruct (N.eqb_spec (lineno s1) 1) as [E|E]; simpl in H.
    + destruct (too_long ds); destruct H as [-> _]; simpl; auto.
    + destruct H as [-> _]. auto.
  - destruct T as [T [T1 _]]. split; [|exact T]. destruct H as [-> _]. unfold sim. simpl. auto.
  - destruct T as [T [T1 _]]. split; [|exact T]. destruct H as [-> _]. unfold sim. simpl. auto.
Qed.

Lemma sim_step r s l s' e :
  sim r s -> parse_line s l = Ok (s', e) ->
  sim (fst (ref_step r l)) s' /\ tests_of e = snd (ref_step r l).
Proof.
  intros [Hv [Hn [Hl Hm]]] H. unfold parse_line, pre_line in H. simpl st in H. simpl version in H.
  simpl yaml_indent in H. unfold ref_step. rewrite Hn, Hv.
  destruct (r_mode r) as [| |ind].
  - (* main *)
    rewrite Hm in H.
    destruct (main_line (set_lineno s (lineno s + 1)) l) as [[s2 e2]|c] eqn:M; cbn [bind] in H; [|discriminate].
    inversion H; subst. apply (sim_main r) in M; auto.
  - rewrite Hm in H. destruct (13 <=? version s).
    + destruct (yaml_start l) as [i|].
      * inversion H; subst. unfold sim. simpl. repeat split; auto.
      * destruct (main_line (set_st (set_lineno s (lineno s + 1)) Main) l) as [[s2 e2]|c] eqn:M; cbn [bind] in H; [|discriminate].
        inversion H; subst. apply (sim_main r) in M; auto.
    + destruct (main_line (set_st (set_lineno s (lineno s + 1)) Main) l) as [[s2 e2]|c] eqn:M; cbn [bind] in H; [|discriminate].
      inversion H; subst. apply (sim_main r) in M; auto.
  - destruct Hm as [Hm Hi]. rewrite Hm, Hi in H. destruct (yaml_end l).
    + inversion H; subst. unfold sim. simpl. repeat split; auto.
    + destruct (prefixb ind l).
      * inversion H; subst. unfold sim. simpl. repeat split; auto.
      * destruct (main_line (set_st (set_lineno s (lineno s + 1)) Main) l) as [[s2 e2]|c] eqn:M; cbn [bind] in H; [|discriminate].
        inversion H; subst. apply (sim_main r) in M; auto.
Qed.

Lemma sim_run lines : forall r s s' e,
  sim r s -> run_lines s lines = Ok (s', e) -> tests_of e = ref_tests r lines.
Proof.
  induction lines as [|l lines IH]; intros r s s' e S H; simpl in H.
  - inversion H. reflexivity.
  - destruct (parse_line s l) as [[s1 e1]|c] eqn:H1; cbn [bind] in H; [|discriminate].
    destruct (run_lines s1 lines) as [[s2 e2]|c] eqn:H2; cbn [bind] in H; [|discriminate].
    inversion H; subst. destruct (sim_step _ _ _ _ _ S H1) as [S1 T1].
    simpl. destruct (ref_step r l) as [r' t]. simpl in *.
    rewrite tests_of_app, T1, (IH _ _ _ _ S1 H2). reflexivity.
Qed.

(* for every stream: the subtests reported are exactly the test lines outside YAML blocks, in
   order, each with its number (explicit | previous + 1), stripped name, directive-adjusted
   status and explanation *)
Theorem subtests_are_the_test_lines lines evs :
  parse lines = Ok evs -> tests_of evs = ref_tests ref_init lines.
Proof.
  intro H. apply parse_split in H. destruct H as [s [e [e2 [R [E [-> _]]]]]].
  apply eof_spec in E. destruct E as [Q _].
  rewrite tests_of_app, (quiet_tests _ Q), app_nil_r.
  eapply sim_run; [|exact R]. unfold sim, ref_init. simpl. auto.
Qed.

(* the reference on the stream the property text singles out (YAML after a SKIP line, then a late
   plan), and with an "ok" line inside the block: one subtest *)
Example ref_tests_example :
  ref_tests ref_init [s2l "TAP version 13"; s2l "ok 1 # SKIP x"; s2l "  ---"; s2l "  ok 2"; s2l "  ..."; s2l "1..1"]
  = [(1, [], SKIP, Some (s2l "x"))].
Proof. vm_compute. reflexivity. Qed.

(* ------------------------------------------------------------------ *)
(* Which lines are looked at as TAP: the fault theorems for ALL streams *)

(* the line is part of a YAML block (opens, continues or closes one) *)
Definition swallowed (r : ref) (line : str) : bool :=
  match r_mode r with
  | MMain => false
  | MAfterTest => (13 <=? r_version r) && (match yaml_start line with Some _ => true | None => false end)
  | MYaml ind => yaml_end line || prefixb ind line
  end.

Fixpoint ref_run (r : ref) (lines : list str) : ref :=
  match lines with [] => r | l :: rest => ref_run (fst (ref_step r l)) rest end.

Lemma sim_run_state lines : forall r s s' e,
  sim r s -> run_lines s lines = Ok (s', e) -> sim (ref_run r lines) s'.
Proof.
  induction lines as [|l lines IH]; intros r s s' e S H; simpl in H.
  - inversion H; subst. exact S.
  - destruct (parse_line s l) as [[s1 e1]|c] eqn:H1; cbn [bind] in H; [|discriminate].
    destruct (run_lines s1 lines) as [[s2 e2]|c] eqn:H2; cbn [bind] in H; [|discriminate].
    inversion H; subst. destruct (sim_step _ _ _ _ _ S H1) as [S1 _].
    simpl. eapply IH; eassumption.
Qed.

(* a line that is not part of a YAML block goes through main_line *)
Lemma visible_step r s x s' e :
  sim r s -> swallowed r x = false -> parse_line s x = Ok (s', e) ->
  exists s1 pre e', ctr s1 = ctr s /\ lineno s1 = lineno s + 1 /\
                    main_line s1 x = Ok (s', e') /\ e = pre ++ e'.
Proof.
  intros [Hv [Hn [Hl Hm]]] Hsw H. apply parse_line_spec in H.
  pose proof (pre_line_facts (set_lineno s (lineno s + 1)) x) as F.
  destruct H as [[Hp ->]|[s1 [pre [e' [Hp [Hmain ->]]]]]].
  - exfalso. unfold swallowed in Hsw. unfold pre_line in Hp. simpl st in Hp. simpl version in Hp.
    simpl yaml_indent in Hp. rewrite Hv in Hsw.
    destruct (r_mode r) as [| |ind].
    + rewrite Hm in Hp. discriminate.
    + rewrite Hm in Hp. destruct (13 <=? version s); [|discriminate].
      destruct (yaml_start x); discriminate.
    + destruct Hm as [Hm Hi]. rewrite Hm, Hi in Hp.
      destruct (yaml_end x); [discriminate|]. destruct (prefixb ind x); discriminate.
  - rewrite Hp in F. destruct F as [C [L _]]. exists s1, pre, e'. repeat split; auto.
Qed.

Lemma run_lines_frame lines : forall s s' e,
  run_lines s lines = Ok (s', e) ->
  lineno s' = lineno s + N.of_nat (length lines) /\ (cur_plan s <> None -> cur_plan s' = cur_plan s).
Proof.
  induction lines as [|l lines IH]; intros s s' e H; simpl in H.
  - inversion H; subst. simpl. split; [lia|auto].
  - destruct (parse_line s l) as [[s1 e1]|c] eqn:H1; cbn [bind] in H; [|discriminate].
    destruct (run_lines s1 lines) as [[s2 e2]|c] eqn:H2; cbn [bind] in H; [|discriminate].
    inversion H; subst. destruct (IH _ _ _ H2) as [L2 P2].
    assert (S1 : lineno s1 = lineno s + 1 /\ (cur_plan s <> None -> cur_plan s1 = cur_plan s)).
    { apply parse_line_spec in H1.
      pose proof (pre_line_facts (set_lineno s (lineno s + 1)) l) as F.
      destruct H1 as [[Hp ->]|[s3 [pre [e' [Hp [Hm ->]]]]]]; rewrite Hp in F.
      - destruct F as [C [L _]]. unfold ctr in C. inversion C. split; [exact L|]. intros _. simpl in *. congruence.
      - destruct F as [C [L _]]. unfold ctr in C. inversion C.
        destruct (main_line_frame _ _ _ _ Hm) as [L3 [_ P3]]. split; [simpl in *; congruence|].
        intro Hp0. rewrite P3; simpl in *; congruence. }
    destruct S1 as [L1 P1]. split.
    + rewrite L2, L1. simpl length. lia.
    + intro Hp. rewrite P2; rewrite P1; auto.
Qed.

(* the line x of ANY stream l1 ++ x :: l2, when it is not part of a YAML block *)
Lemma visible_focus l1 x l2 s' e :
  run_lines init (l1 ++ x :: l2) = Ok (s', e) -> swallowed (ref_run ref_init l1) x = false ->
  exists sa ea s1 pre sb eb ec,
    run_lines init l1 = Ok (sa, ea) /\ ctr s1 = ctr sa /\
    lineno s1 = N.of_nat (length l1) + 1 /\
    main_line s1 x = Ok (sb, eb) /\ run_lines sb l2 = Ok (s', ec) /\ e = ea ++ (pre ++ eb) ++ ec.
Proof.
  intros H Hsw. apply run_lines_app in H. destruct H as [sa [ea [e2 [Ra [Rb ->]]]]].
  assert (S0 : sim ref_init init) by (unfold sim; simpl; auto).
  pose proof (sim_run_state _ _ _ _ _ S0 Ra) as Sa.
  simpl in Rb. destruct (parse_line sa x) as [[sb eb]|c] eqn:H1; cbn [bind] in Rb; [|discriminate].
  destruct (run_lines sb l2) as [[sc ec]|c] eqn:H2; cbn [bind] in Rb; [|discriminate].
  inversion Rb; subst.
  destruct (visible_step _ _ _ _ _ Sa Hsw H1) as [s1 [pre [e' [C [L [Hm ->]]]]]].
  destruct (run_lines_frame _ _ _ _ Ra) as [La _]. simpl in La.
  exists sa, ea, s1, pre, sb, e', ec. repeat split; auto. rewrite L, La. reflexivity.
Qed.

(* Bail out! produces a bail-out event: every stream, every Bail out! line outside YAML blocks *)
Theorem bail_out_reported_all l1 x l2 m evs :
  swallowed (ref_run ref_init l1) x = false -> line_class x = Some (LBail m) ->
  parse (l1 ++ x :: l2) = Ok evs -> In (EBail m) evs.
Proof.
  intros Hsw Hc H. apply parse_run in H. destruct H as [s [e [e2 [R ->]]]].
  destruct (visible_focus _ _ _ _ _ R Hsw) as [sa [ea [s1 [pre [sb [eb [ec [_ [_ [_ [Hm [_ ->]]]]]]]]]]]].
  apply main_line_spec in Hm. rewrite Hc in Hm. destruct Hm as [_ ->].
  apply in_or_app. left. apply in_or_app. right. apply in_or_app. left. apply in_or_app. right. left. reflexivity.
Qed.

(* a second plan line produces an error event: every stream *)
Theorem second_plan_reported_all l1 x l2 y l3 d1 r1 d2 r2 evs :
  swallowed (ref_run ref_init l1) x = false ->
  swallowed (ref_run ref_init (l1 ++ x :: l2)) y = false ->
  line_class x = Some (LPlan d1 r1) -> line_class y = Some (LPlan d2 r2) ->
  parse (l1 ++ x :: l2 ++ y :: l3) = Ok evs ->
  In (EError KPlan2) evs \/ (too_long d1 = true /\ In (EError KBig) evs).
Proof.
  intros Hsx Hsy Hx Hy H. apply parse_run in H. destruct H as [s [e [e2 [R ->]]]].
  assert (E : l1 ++ x :: l2 ++ y :: l3 = (l1 ++ x :: l2) ++ y :: l3) by (rewrite <- app_assoc; reflexivity).
  rewrite E in R.
  destruct (visible_focus _ _ _ _ _ R Hsy) as [sa [ea [s1 [pre [sb [eb [ec [Ra [C [_ [Hm [_ ->]]]]]]]]]]]].
  destruct (visible_focus _ _ _ _ _ Ra Hsx) as [sa' [ea' [s1' [pre' [sb' [eb' [ec' [_ [_ [_ [Hm' [Rc ->]]]]]]]]]]]].
  apply main_line_spec in Hm'. rewrite Hx in Hm'.
  assert (Hcase : cur_plan sb' <> None \/ (too_long d1 = true /\ In (EError KBig) eb')).
  { destruct (cur_plan s1') eqn:E1.
    - destruct Hm' as [-> _]. left. congruence.
    - destruct (too_long d1).
      + destruct Hm' as [_ ->]. right. split; [reflexivity|left; reflexivity].
      + destruct Hm' as [p [errs [-> _]]]. left. simpl. discriminate. }
  destruct Hcase as [Hpb|[TL HB]].
  - left. destruct (run_lines_frame _ _ _ _ Rc) as [_ Pc].
    assert (Hpa : cur_plan s1 <> None).
    { unfold ctr in C. inversion C as [[C1 C2 C3 C4 C5 C6 C7]]. rewrite C3, (Pc Hpb). exact Hpb. }
    apply main_line_spec in Hm. rewrite Hy in Hm. destruct (cur_plan s1); [|congruence].
    destruct Hm as [_ ->].
    apply in_or_app. left. apply in_or_app. right. apply in_or_app. left. apply in_or_app. right. left. reflexivity.
  - right. split; [exact TL|].
    apply in_or_app. left. apply in_or_app. left. apply in_or_app. right. apply in_or_app. left.
    apply in_or_app. right. exact HB.
Qed.

(* a version line anywhere but on the first line produces an error event (every stream); on the
   first line it is accepted from 13 on *)
Theorem version_line_all l1 x l2 ds evs :
  swallowed (ref_run ref_init l1) x = false -> line_class x = Some (LVersion ds) ->
  parse (l1 ++ x :: l2) = Ok evs ->
  (l1 <> [] -> In (EError KVerPos) evs) /\
  (l1 = [] -> too_long ds = true -> In (EError KBig) evs) /\
  (l1 = [] -> too_long ds = false -> digits_val ds < 13 -> In (EError KVerLow) evs) /\
  (l1 = [] -> too_long ds = false -> 13 <= digits_val ds -> In (EVersion (digits_val ds)) evs).
Proof.
  intros Hsw Hc H. apply parse_run in H. destruct H as [s [e [e2 [R ->]]]].
  destruct (visible_focus _ _ _ _ _ R Hsw) as [sa [ea [s1 [pre [sb [eb [ec [_ [_ [L [Hm [_ ->]]]]]]]]]]]].
  apply main_line_spec in Hm. rewrite Hc in Hm.
  assert (IN : forall z, In z eb -> In z ((ea ++ (pre ++ eb) ++ ec) ++ e2)).
  { intros z Hz. apply in_or_app. left. apply in_or_app. right. apply in_or_app. left.
    apply in_or_app. right. exact Hz. }
  destruct (N.eqb_spec (lineno s1) 1) as [E|E]; simpl in Hm.
  - assert (l1 = []) by (destruct l1; [reflexivity|simpl length in L; lia]).
    split; [congruence|].
    destruct (too_long ds).
    + destruct Hm as [_ ->]. repeat split; intros; try discriminate. apply IN. left. reflexivity.
    + destruct Hm as [_ ->]. split; [intros; discriminate|].
      destruct (N.ltb_spec (digits_val ds) 13); split; intros; try lia; apply IN; left; reflexivity.
  - destruct Hm as [_ ->]. assert (l1 <> []) by (intros ->; simpl in L; lia).
    split; [intros _; apply IN; left; reflexivity|]. repeat split; congruence.
Qed.

(* the guard is about the reference reading only: a Bail out! inside a YAML block is swallowed,
   the same line after the block is not *)
Example swallowed_example :
  swallowed (ref_run ref_init [s2l "TAP version 13"; s2l "ok 1"; s2l "  ---"]) (s2l "  Bail out!") = true /\
  swallowed (ref_run ref_init [s2l "TAP version 13"; s2l "ok 1"; s2l "  ---"; s2l "  ..."]) (s2l "Bail out!") = false.
Proof. split; vm_compute; reflexivity. Qed.
