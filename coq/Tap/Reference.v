(* Tap/Reference.v — which lines of a stream are test lines "outside YAML blocks", stated
   without the parser's counters, plan and error logic, and the theorem that the subtests the
   parser reports are exactly those lines, in order, with the right number, name and status
   (C18, for every stream). *)
From MV Require Import Base.Strs Base.LexFacts Tap.Lines Tap.Machine Tap.Verdict Tap.Spec Tap.Proofs.
From Coq Require Import Lia.
Open Scope N_scope.

(* where we are in the stream, as TAP 13 describes it *)
Inductive mode := MMain | MAfterTest | MYaml (indent : str).

Record ref := mkref { r_version : N; r_lineno : N; r_mode : mode; r_last : N }.

Definition ref_init : ref := mkref 12 0 MMain 0.

(* the line is looked at as TAP *)
Definition ref_main (r : ref) (ln : N) (line : str) : ref * list (N * str * tres * option str) :=
  match line_class line with
  | Some (LTest ok num name dir) =>
      let n := match num with Some ds => digits_val ds | None => r_last r + 1 end in
      (mkref (r_version r) ln MAfterTest n,
       [(n, strip name, spec_status ok (dir_of dir), spec_explanation dir)])
  | Some (LVersion ds) =>
      (mkref (if ln =? 1 then digits_val ds else r_version r) ln MMain (r_last r), [])
  | _ => (mkref (r_version r) ln MMain (r_last r), [])
  end.

Definition ref_step (r : ref) (line : str) : ref * list (N * str * tres * option str) :=
  let ln := r_lineno r + 1 in
  match r_mode r with
  | MMain => ref_main r ln line
  | MAfterTest =>
      (* a YAML block may start right after a test line, in TAP 13 *)
      if 13 <=? r_version r then
        match yaml_start line with
        | Some ind => (mkref (r_version r) ln (MYaml ind) (r_last r), [])
        | None => ref_main r ln line
        end
      else ref_main r ln line
  | MYaml ind =>
      if yaml_end line then (mkref (r_version r) ln MMain (r_last r), [])
      else if prefixb ind line then (mkref (r_version r) ln (MYaml ind) (r_last r), [])
      else ref_main r ln line            (* the block is broken off; the line counts *)
  end.

Fixpoint ref_tests (r : ref) (lines : list str) : list (N * str * tres * option str) :=
  match lines with
  | [] => []
  | l :: rest => let '(r', t) := ref_step r l in t ++ ref_tests r' rest
  end.

(* the parser state seen through the reference *)
Definition sim (r : ref) (s : state) : Prop :=
  r_version r = version s /\ r_lineno r = lineno s /\ r_last r = last_test s /\
  match r_mode r with
  | MMain => st s = Main
  | MAfterTest => st s = AfterTest
  | MYaml ind => st s = Yaml /\ yaml_indent s = ind
  end.

Lemma sim_main r s1 l s' e :
  r_version r = version s1 -> r_last r = last_test s1 -> st s1 = Main ->
  main_line s1 l = Ok (s', e) ->
  sim (fst (ref_main r (lineno s1) l)) s' /\ tests_of e = snd (ref_main r (lineno s1) l).
Proof.
  intros Hv Hl Hs H. pose proof (test_line_subtest _ _ _ _ H) as T.
  pose proof (main_line_frame _ _ _ _ H) as [L _].
  apply main_line_spec in H. unfold ref_main.
  destruct (line_class l) as [[ok num name dir|ds dir|m|ds|]|].
  - destruct T as [T [T1 [_ T2]]]. rewrite <- Hl in T, T1. split; [|exact T].
    destruct H as [n [_ [-> _]]]. unfold sim. simpl. repeat split; auto.
    destruct (late_now s1); simpl; auto.
  - destruct T as [T [T1 _]]. split; [|exact T]. unfold sim. simpl.
    destruct (cur_plan s1).
    + destruct H as [-> _]. auto.
    + destruct H as [p [errs [-> _]]]. simpl. auto.
  - destruct T as [T [T1 _]]. split; [|exact T]. destruct H as [-> _]. unfold sim. simpl. auto.
  - destruct T as [T [T1 _]]. split; [|exact T]. unfold sim. simpl.
    destruct (N.eqb_spec (lineno s1) 1) as [E|E]; simpl in H.
    + destruct H as [-> _]. simpl. auto.
    + destruct H as [-> _]. auto.
  - destruct T as [T [T1 _]]. split; [|exact T]. destruct H as [-> _]. unfold sim. simpl. auto.
  - destruct T as [T [T1 _]]. split; [|exact T]. destruct H as [-> _]. unfold sim. simpl. auto.
Qed.

Lemma sim_step r s l s' e :
  sim r s -> parse_line s l = Ok (s', e) ->
  sim (fst (ref_step r l)) s' /\ tests_of e = snd (ref_step r l).
Proof.
  intros [Hv [Hn [Hl Hm]]] H. unfold parse_line, pre_line in H. simpl st in H. simpl version in H.
  simpl yaml_indent in H. unfold ref_step. rewrite Hn, Hv.
  destruct (r_mode r) as [| |ind].
  - (* main *)
    rewrite Hm in H.
    destruct (main_line (set_lineno s (lineno s + 1)) l) as [[s2 e2]|c] eqn:M; cbn [bind] in H; [|discriminate].
    inversion H; subst. apply (sim_main r) in M; auto.
  - rewrite Hm in H. destruct (13 <=? version s).
    + destruct (yaml_start l) as [i|].
      * inversion H; subst. unfold sim. simpl. repeat split; auto.
      * destruct (main_line (set_st (set_lineno s (lineno s + 1)) Main) l) as [[s2 e2]|c] eqn:M; cbn [bind] in H; [|discriminate].
        inversion H; subst. apply (sim_main r) in M; auto.
    + destruct (main_line (set_st (set_lineno s (lineno s + 1)) Main) l) as [[s2 e2]|c] eqn:M; cbn [bind] in H; [|discriminate].
      inversion H; subst. apply (sim_main r) in M; auto.
  - destruct Hm as [Hm Hi]. rewrite Hm, Hi in H. destruct (yaml_end l).
    + inversion H; subst. unfold sim. simpl. repeat split; auto.
    + destruct (prefixb ind l).
      * inversion H; subst. unfold sim. simpl. repeat split; auto.
      * destruct (main_line (set_st (set_lineno s (lineno s + 1)) Main) l) as [[s2 e2]|c] eqn:M; cbn [bind] in H; [|discriminate].
        inversion H; subst. apply (sim_main r) in M; auto.
Qed.

Lemma sim_run lines : forall r s s' e,
  sim r s -> run_lines s lines = Ok (s', e) -> tests_of e = ref_tests r lines.
Proof.
  induction lines as [|l lines IH]; intros r s s' e S H; simpl in H.
  - inversion H. reflexivity.
  - destruct (parse_line s l) as [[s1 e1]|c] eqn:H1; cbn [bind] in H; [|discriminate].
    destruct (run_lines s1 lines) as [[s2 e2]|c] eqn:H2; cbn [bind] in H; [|discriminate].
    inversion H; subst. destruct (sim_step _ _ _ _ _ S H1) as [S1 T1].
    simpl. destruct (ref_step r l) as [r' t]. simpl in *.
    rewrite tests_of_app, T1, (IH _ _ _ _ S1 H2). reflexivity.
Qed.

(* for every stream: the subtests reported are exactly the test lines outside YAML blocks, in
   order, each with its number (explicit | previous + 1), stripped name, directive-adjusted
   status and explanation *)
Theorem subtests_are_the_test_lines lines evs :
  parse lines = Ok evs -> tests_of evs = ref_tests ref_init lines.
Proof.
  intro H. apply parse_split in H. destruct H as [s [e [e2 [R [E [-> _]]]]]].
  apply eof_spec in E. destruct E as [Q _].
  rewrite tests_of_app, (quiet_tests _ Q), app_nil_r.
  eapply sim_run; [|exact R]. unfold sim, ref_init. simpl. auto.
Qed.

(* the reference on the stream the property text singles out (YAML after a SKIP line, then a late
   plan), and with an "ok" line inside the block: one subtest *)
Example ref_tests_example :
  ref_tests ref_init [s2l "TAP version 13"; s2l "ok 1 # SKIP x"; s2l "  ---"; s2l "  ok 2"; s2l "  ..."; s2l "1..1"]
  = [(1, [], SKIP, Some (s2l "x"))].
Proof. vm_compute. reflexivity. Qed.
