(* Tap/Entry.v — entry points used by the correspondence check of C18: every
   function takes its arguments as a list of strings and returns ONE canonical
   string.  The same rendering is produced by harness/impl/c18.py. *)
From MV Require Import Base.Strs Tap.Lines Tap.Machine Tap.Verdict.
Open Scope N_scope.

Definition SEP1 : str := [1].   (* between events *)
Definition SEP2 : str := [2].   (* between fields *)

Definition r_ostr (o : option str) : str :=
  match o with None => [78] | Some s => 83 :: s end.          (* N | S... *)

Definition r_tres (r : tres) : str :=
  match r with
  | PENDING => s2l "PENDING" | RUNNING => s2l "RUNNING" | OK => s2l "OK"
  | TIMEOUT => s2l "TIMEOUT" | INTERRUPT => s2l "INTERRUPT" | SKIP => s2l "SKIP"
  | FAIL => s2l "FAIL" | EXPECTEDFAIL => s2l "EXPECTEDFAIL"
  | UNEXPECTEDPASS => s2l "UNEXPECTEDPASS" | ERROR => s2l "ERROR" | IGNORED => s2l "IGNORED"
  end.

Definition r_ekind (k : ekind) : str :=
  match k with
  | KBig => s2l "big" | KLate => s2l "late" | KExceeds => s2l "exceeds" | KInvDir => s2l "invdir"
  | KPlan2 => s2l "plan2" | KPlanSkip => s2l "planskip" | KPlanDir => s2l "plandir"
  | KVerPos => s2l "verpos" | KVerLow => s2l "verlow" | KYaml => s2l "yaml"
  | KFew => s2l "few" | KMany => s2l "many" | KDup => s2l "dup" | KMissing => s2l "missing"
  end.

Definition r_event (e : event) : str :=
  match e with
  | ETest n name r ex => join SEP2 [[84]; N_dec n; name; r_tres r; r_ostr ex]
  | EError k => join SEP2 [[69]; r_ekind k]
  | EPlan p => join SEP2 [[80]; N_dec (p_num p); bool_str (p_late p); bool_str (p_skipped p); r_ostr (p_expl p)]
  | EBail m => join SEP2 [[66]; m]
  | EVersion v => join SEP2 [[86]; N_dec v]
  | EUnknown m ln => join SEP2 [[85]; m; N_dec ln]
  end.

Definition r_events (evs : list event) : str := join SEP1 (map r_event evs).

Definition r_exc (cls : str) : str := s2l "EXC:" ++ cls.

Definition r_dir (d : option (str * str)) : list str :=
  [r_ostr (option_map fst d); r_ostr (option_map snd d)].

Definition r_class (c : lclass) : str :=
  match c with
  | LTest ok num name dir => join SEP2 ([[84]; bool_str ok; r_ostr num; name] ++ r_dir dir)
  | LPlan ds dir => join SEP2 ([[80]; ds] ++ r_dir dir)
  | LBail m => join SEP2 [[66]; m]
  | LVersion ds => join SEP2 [[86]; ds]
  | LUnknown => [85]
  end.

Definition all_in_model (args : list str) : bool := forallb (forallb in_model) args.

Definition dec_Z (s : str) : Z :=
  match s with
  | 45 :: r => Z.opp (Z.of_N (digits_val r))
  | _ => Z.of_N (digits_val s)
  end.

Definition run (fn : str) (args : list str) : str :=
  if negb (all_in_model args) then s2l "OOM"
  else if str_eqb fn (s2l "parse") then
    match parse args with Ok evs => r_events evs | PyErr c => r_exc c end
  else if str_eqb fn (s2l "classify") then
    match args with [l] => r_class (classify l) | _ => s2l "?" end
  else if str_eqb fn (s2l "ystart") then
    match args with [l] => r_ostr (yaml_start l) | _ => s2l "?" end
  else if str_eqb fn (s2l "yend") then
    match args with [l] => bool_str (yaml_end l) | _ => s2l "?" end
  else if str_eqb fn (s2l "verdict") then
    (* args: returncode, expected_fail (T/F), lines... *)
    match args with
    | rc :: xf :: lines =>
        match run_verdict (dec_Z rc) (str_eqb xf [84]) lines with
        | Ok r => r_tres r
        | PyErr c => r_exc c
        end
    | _ => s2l "?" end
  else s2l "?".
