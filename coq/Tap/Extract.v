(* Extraction of the C18 model.  Only the ExtrOcamlBasic directives are used. *)
From Coq Require Extraction.
From Coq Require Import ExtrOcamlBasic.
From MV Require Import Tap.Entry.
Extraction "../extract/C18/model.ml" Tap.Entry.run.
