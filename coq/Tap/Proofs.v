(* Tap/Proofs.v — theorems about the TAP model (C18). *)
From MV Require Import Base.Strs Base.LexFacts Tap.Lines Tap.Machine Tap.Verdict Tap.Spec.
From Coq Require Import Lia Permutation.
Open Scope N_scope.

(* ------------------------------------------------------------------ *)
(* Reading event lists: behaviour under concatenation                  *)

Lemma tests_of_app a b : tests_of (a ++ b) = tests_of a ++ tests_of b.
Proof.
  induction a as [|e a IH]; simpl; [reflexivity|].
  destruct e; simpl; rewrite IH; reflexivity.
Qed.
Lemma numbers_app a b : numbers (a ++ b) = numbers a ++ numbers b.
Proof. unfold numbers. rewrite tests_of_app, map_app. reflexivity. Qed.
Lemma results_app a b : results (a ++ b) = results a ++ results b.
Proof. unfold results. rewrite tests_of_app, map_app. reflexivity. Qed.
Lemma count_tests_app a b : count_tests (a ++ b) = count_tests a + count_tests b.
Proof. unfold count_tests. rewrite tests_of_app, app_length. lia. Qed.
Lemma fold_max_app a b : fold_right N.max 0 (a ++ b) = N.max (fold_right N.max 0 a) (fold_right N.max 0 b).
Proof. induction a as [|x a IH]; simpl; [lia|]. rewrite IH. lia. Qed.
Lemma maxnum_app a b : maxnum (a ++ b) = N.max (maxnum a) (maxnum b).
Proof. unfold maxnum. rewrite numbers_app. apply fold_max_app. Qed.
Lemma has_error_app a b : has_error (a ++ b) = has_error a || has_error b.
Proof. apply existsb_app. Qed.
Lemma has_bail_app a b : has_bail (a ++ b) = has_bail a || has_bail b.
Proof. apply existsb_app. Qed.
Lemma has_test_app a b : has_test (a ++ b) = has_test a || has_test b.
Proof. apply existsb_app. Qed.
Lemma count_plans_app a b : count_plans (a ++ b) = (count_plans a + count_plans b)%nat.
Proof. unfold count_plans. rewrite filter_app, app_length. reflexivity. Qed.
Lemma faulty_app a b : faulty (a ++ b) = faulty a || faulty b.
Proof.
  unfold faulty. rewrite has_error_app, has_bail_app.
  destruct (has_error a), (has_error b), (has_bail a), (has_bail b); reflexivity.
Qed.
Lemma has_error_In evs : has_error evs = true <-> exists k, In (EError k) evs.
Proof.
  unfold has_error. rewrite existsb_exists. split.
  - intros [e [Hi He]]. destruct e; try discriminate. eauto.
  - intros [k Hk]. exists (EError k). auto.
Qed.
Lemma has_bail_In evs : has_bail evs = true <-> exists m, In (EBail m) evs.
Proof.
  unfold has_bail. rewrite existsb_exists. split.
  - intros [e [Hi He]]. destruct e; try discriminate. eauto.
  - intros [k Hk]. exists (EBail k). auto.
Qed.
Lemma has_test_count evs : has_test evs = (0 <? count_tests evs).
Proof.
  unfold count_tests. induction evs as [|e evs IH]; [reflexivity|].
  destruct e; simpl; try exact IH.
  symmetry. apply N.ltb_lt. lia.
Qed.
Lemma In_test_numbers n nm r ex evs : In (ETest n nm r ex) evs -> In n (numbers evs).
Proof.
  unfold numbers. induction evs as [|e evs IH]; simpl; [tauto|].
  intros [->|H]; simpl; [left; reflexivity|].
  destruct e; simpl; auto.
Qed.
Lemma In_le_fold_max n l : In n l -> n <= fold_right N.max 0 l.
Proof. induction l as [|x l IH]; simpl; [tauto|]. intros [->|H]; [lia|]. apply IH in H. lia. Qed.
Lemma In_plan_count p evs : In (EPlan p) evs -> (1 <= count_plans evs)%nat.
Proof.
  unfold count_plans. induction evs as [|e evs IH]; simpl; [tauto|].
  intros [->|H]; simpl; [lia|]. apply IH in H. destruct (is_plan e); simpl; lia.
Qed.

(* ------------------------------------------------------------------ *)
(* One line: what parse_line does, case by case                        *)

(* the fields the numbering/plan logic lives in *)
Definition ctr (s : state) :=
  (found_late_test s, bailed_out s, cur_plan s, num_tests s, last_test s, highest_test s, seen_tests s).

Lemma set_lineno_ctr s n : ctr (set_lineno s n) = ctr s.
Proof. reflexivity. Qed.

Lemma pre_line_facts s l :
  match pre_line s l with
  | Return s1 => ctr s1 = ctr s /\ lineno s1 = lineno s /\ version s1 = version s
  | Continue s1 pre =>
      ctr s1 = ctr s /\ lineno s1 = lineno s /\ version s1 = version s /\ st s1 = Main /\
      (pre = [] \/ (pre = [EError KYaml] /\ st s = Yaml))
  end.
Proof.
  unfold pre_line. destruct (st s) eqn:Hst.
  - repeat split; auto.
  - destruct (13 <=? version s); [destruct (yaml_start l)|]; repeat split; auto.
  - destruct (yaml_end l); [repeat split; auto|].
    destruct (prefixb (yaml_indent s) l); repeat split; auto.
Qed.

Definition late_now (s : state) : bool :=
  match cur_plan s with Some p => p_late p && negb (found_late_test s) | None => false end.
Definition test_state (s : state) (n : N) : state :=
  set_st (set_counts (if late_now s then set_late s true else s)
                     (num_tests s + 1) n (N.max (highest_test s) n) (add_seen n (seen_tests s))) AfterTest.
Definition test_events (s : state) (n : N) (ok : bool) (name : str) (dir : option (str * str)) (big : bool) : list event :=
  (if late_now s then [EError KLate] else []) ++ (if big then [EError KBig] else []) ++
  (match cur_plan s with Some p => if p_num p <? n then [EError KExceeds] else [] | None => [] end) ++
  parse_test ok n name (option_map fst dir) (option_map snd dir).

Lemma main_line_spec s l s' e : main_line s l = Ok (s', e) ->
  match line_class l with
  | None => s' = s /\ e = []
  | Some (LTest ok num name dir) =>
      exists n, n = line_number (last_test s) num /\ s' = test_state s n /\
                e = test_events s n ok name dir (num_big num)
  | Some (LPlan ds dir) =>
      match cur_plan s with
      | Some _ => s' = s /\ e = [EError KPlan2]
      | None =>
          if too_long ds then s' = s /\ e = [EError KBig]
          else exists p errs, s' = set_plan s (Some p) /\ e = errs ++ [EPlan p] /\
                               p_num p = digits_val ds /\ p_late p = (0 <? num_tests s) /\
                               forallb is_error errs = true /\
                               (forall k, In (EError k) errs -> k = KPlanSkip \/ k = KPlanDir)
      end
  | Some (LBail m) => s' = set_bailed s true /\ e = [EBail m]
  | Some (LVersion ds) =>
      if negb (lineno s =? 1) then s' = s /\ e = [EError KVerPos]
      else if too_long ds then s' = s /\ e = [EError KBig]
      else s' = set_version s (digits_val ds) /\
           e = if digits_val ds <? 13 then [EError KVerLow] else [EVersion (digits_val ds)]
  | Some LUnknown => s' = s /\ e = [EUnknown (rstrip l) (lineno s)]
  end.
Proof.
  unfold main_line, line_class.
  destruct (negb (nonempty (rstrip l)) || prefixb [35] (rstrip l)).
  { intro H. inversion H. auto. }
  destruct (classify (rstrip l)) as [ok num name dir|ds dir|m|ds|].
  - (* test *)
    intro H.
    assert (Hpre : (match cur_plan s with
            | Some p => if p_late p && negb (found_late_test s) then (set_late s true, [EError KLate]) else (s, [])
            | None => (s, []) end) = (if late_now s then set_late s true else s, if late_now s then [EError KLate] else [])).
    { unfold late_now. destruct (cur_plan s) as [p|]; [destruct (p_late p && negb (found_late_test s))|]; reflexivity. }
    rewrite Hpre in H. clear Hpre.
    assert (Hplan : cur_plan (if late_now s then set_late s true else s) = cur_plan s) by (destruct (late_now s); reflexivity).
    assert (Hnt : num_tests (if late_now s then set_late s true else s) = num_tests s) by (destruct (late_now s); reflexivity).
    assert (Hlt : last_test (if late_now s then set_late s true else s) = last_test s) by (destruct (late_now s); reflexivity).
    assert (Hht : highest_test (if late_now s then set_late s true else s) = highest_test s) by (destruct (late_now s); reflexivity).
    assert (Hsn : seen_tests (if late_now s then set_late s true else s) = seen_tests s) by (destruct (late_now s); reflexivity).
    exists (line_number (last_test s) num). split; [reflexivity|].
    assert (Hnum : (match num with
              | None => Ok (last_test (if late_now s then set_late s true else s) + 1)
              | Some ds => if too_long ds then Ok (last_test (if late_now s then set_late s true else s) + 1) else Ok (digits_val ds)
              end) = Ok (line_number (last_test s) num)).
    { unfold line_number. rewrite Hlt. destruct num as [ds|]; [destruct (too_long ds)|]; reflexivity. }
    rewrite Hnum in H. cbn [bind] in H.
    inversion H. unfold test_state, test_events, num_big. rewrite Hplan, Hnt, Hht, Hsn. auto.
  - (* plan *)
    destruct (cur_plan s) as [p|] eqn:Hp.
    { intro H. inversion H. auto. }
    destruct (too_long ds).
    { intro H. inversion H. auto. }
    cbn [bind].
    destruct dir as [[d x]|]; cbn [option_map snd].
    + destruct (prefixb (s2l "SKIP") (upper d)).
      * intro H. inversion H.
        exists (mkplan (digits_val ds) (0 <? num_tests s) true (Some x)), (if 0 <? digits_val ds then [EError KPlanSkip] else []).
        cbn [p_num p_late]. repeat split; auto; [destruct (0 <? digits_val ds); reflexivity|].
        intros k Hk. destruct (0 <? digits_val ds); simpl in Hk; [destruct Hk as [Hk|[]]; inversion Hk; auto|tauto].
      * intro H. inversion H.
        exists (mkplan (digits_val ds) (0 <? num_tests s) (digits_val ds =? 0) (Some x)), [EError KPlanDir].
        cbn [p_num p_late]. repeat split; auto.
        intros k [Hk|[]]. inversion Hk; auto.
    + intro H. inversion H. exists (mkplan (digits_val ds) (0 <? num_tests s) (digits_val ds =? 0) None), []. cbn [p_num p_late app forallb]. repeat split; auto. intros k [].
  - intro H. inversion H. auto.
  - destruct (negb (lineno s =? 1)).
    { intro H. inversion H. auto. }
    destruct (too_long ds).
    { intro H. inversion H. auto. }
    cbn [bind].
    destruct (digits_val ds <? 13); intro H; inversion H; auto.
  - intro H. inversion H. auto.
Qed.

Lemma parse_line_spec s l s' e : parse_line s l = Ok (s', e) ->
  (pre_line (set_lineno s (lineno s + 1)) l = Return s' /\ e = []) \/
  (exists s1 pre e', pre_line (set_lineno s (lineno s + 1)) l = Continue s1 pre /\
                     main_line s1 l = Ok (s', e') /\ e = pre ++ e').
Proof.
  unfold parse_line. destruct (pre_line (set_lineno s (lineno s + 1)) l) as [s1|s1 pre] eqn:Hp.
  - intro H. inversion H. left. auto.
  - destruct (main_line s1 l) as [[s2 e2]|c] eqn:Hm; simpl; [|discriminate].
    intro H. inversion H. subst. right. exists s1, pre, e2. auto.
Qed.

(* ------------------------------------------------------------------ *)
(* Ghost reading of the event list and the invariant tying it to the   *)
(* parser's counters                                                   *)

Fixpoint before_plan (evs : list event) : list event :=
  match evs with [] => [] | EPlan _ :: _ => [] | e :: r => e :: before_plan r end.
Fixpoint after_plan (evs : list event) : list event :=
  match evs with [] => [] | EPlan _ :: r => r | _ :: r => after_plan r end.

Definition quiet (x : list event) : Prop := forallb is_error x = true.

Lemma quiet_tests x : quiet x -> tests_of x = [].
Proof.
  unfold quiet. induction x as [|e x IH]; simpl; [reflexivity|].
  destruct e; simpl; try discriminate. exact IH.
Qed.
Lemma quiet_plans x : quiet x -> count_plans x = 0%nat.
Proof.
  unfold quiet, count_plans. induction x as [|e x IH]; simpl; [reflexivity|].
  destruct e; simpl; try discriminate. exact IH.
Qed.
Lemma quiet_bail x : quiet x -> has_bail x = false.
Proof.
  unfold quiet, has_bail. induction x as [|e x IH]; simpl; [reflexivity|].
  destruct e; simpl; try discriminate. exact IH.
Qed.
Lemma quiet_no_plan x p : quiet x -> ~ In (EPlan p) x.
Proof.
  unfold quiet. induction x as [|e x IH]; simpl; [tauto|].
  destruct e; simpl; try discriminate. intros H [H1|H1]; [discriminate|]. exact (IH H H1).
Qed.
Lemma quiet_app x y : quiet x -> quiet y -> quiet (x ++ y).
Proof. unfold quiet. intros. rewrite forallb_app. rewrite H, H0. reflexivity. Qed.
Lemma quiet_count x : quiet x -> count_tests x = 0.
Proof. intro H. unfold count_tests. rewrite (quiet_tests _ H). reflexivity. Qed.
Lemma quiet_maxnum x : quiet x -> maxnum x = 0.
Proof. intro H. unfold maxnum, numbers. rewrite (quiet_tests _ H). reflexivity. Qed.
Lemma quiet_has_test x : quiet x -> has_test x = false.
Proof. intro H. rewrite has_test_count, (quiet_count _ H). reflexivity. Qed.

Lemma before_plan_app0 a b : count_plans a = 0%nat -> before_plan (a ++ b) = a ++ before_plan b.
Proof.
  unfold count_plans. induction a as [|e a IH]; simpl; [reflexivity|].
  destruct e; simpl; intro H; try discriminate; rewrite IH by assumption; reflexivity.
Qed.
Lemma after_plan_app0 a b : count_plans a = 0%nat -> after_plan (a ++ b) = after_plan b.
Proof.
  unfold count_plans. induction a as [|e a IH]; simpl; [reflexivity|].
  destruct e; simpl; intro H; try discriminate; rewrite IH by assumption; reflexivity.
Qed.
Lemma before_plan_app1 a b : (1 <= count_plans a)%nat -> before_plan (a ++ b) = before_plan a.
Proof.
  unfold count_plans. induction a as [|e a IH]; simpl; [lia|].
  destruct e; simpl; intro H; try reflexivity; rewrite IH by assumption; reflexivity.
Qed.
Lemma after_plan_app1 a b : (1 <= count_plans a)%nat -> after_plan (a ++ b) = after_plan a ++ b.
Proof.
  unfold count_plans. induction a as [|e a IH]; simpl; [lia|].
  destruct e; simpl; intro H; try reflexivity; rewrite IH by assumption; reflexivity.
Qed.
Lemma after_plan_none a : count_plans a = 0%nat -> after_plan a = [].
Proof.
  unfold count_plans. induction a as [|e a IH]; simpl; [reflexivity|].
  destruct e; simpl; intro H; try discriminate; auto.
Qed.

Lemma count_plans_snoc acc e :
  count_plans (acc ++ [e]) = (count_plans acc + if is_plan e then 1 else 0)%nat.
Proof. rewrite count_plans_app. unfold count_plans at 2. simpl. destruct (is_plan e); reflexivity. Qed.

Record Inv (acc : list event) (s : state) : Prop := {
  inv_count : num_tests s = count_tests acc;
  inv_high : highest_test s = maxnum acc;
  inv_bail : bailed_out s = has_bail acc;
  inv_plan : forall p, In (EPlan p) acc -> cur_plan s = Some p;
  inv_plans : count_plans acc = match cur_plan s with Some _ => 1%nat | None => 0%nat end;
  inv_late0 : cur_plan s = None -> found_late_test s = false;
  inv_late1 : forall p, cur_plan s = Some p -> p_late p = has_test (before_plan acc);
  inv_late2 : forall p, cur_plan s = Some p -> p_late p = true ->
              if found_late_test s then In (EError KLate) acc else has_test (after_plan acc) = false
}.

Lemma Inv_init : Inv [] init.
Proof. split; simpl; auto; try tauto; discriminate. Qed.

Lemma Inv_ctr acc s s' : ctr s' = ctr s -> Inv acc s -> Inv acc s'.
Proof.
  unfold ctr. intros H [I1 I2 I3 I4 I5 I6 I7 I8]. inversion H as [[H1 H2 H3 H4 H5 H6 H7]].
  split; rewrite ?H1, ?H2, ?H3, ?H4, ?H5, ?H6; auto.
Qed.

Lemma Inv_quiet acc s x : quiet x -> Inv acc s -> Inv (acc ++ x) s.
Proof.
  intros Q [I1 I2 I3 I4 I5 I6 I7 I8]. split.
  - rewrite count_tests_app, (quiet_count _ Q). lia.
  - rewrite maxnum_app, (quiet_maxnum _ Q). lia.
  - rewrite has_bail_app, (quiet_bail _ Q), orb_false_r. exact I3.
  - intros p Hp. apply in_app_or in Hp. destruct Hp as [Hp|Hp]; [auto|]. exfalso. exact (quiet_no_plan _ _ Q Hp).
  - rewrite count_plans_app, (quiet_plans _ Q). lia.
  - exact I6.
  - intros p Hp. rewrite (I7 p Hp). rewrite Hp in I5.
    rewrite before_plan_app1 by lia. reflexivity.
  - intros p Hp Hl. specialize (I8 p Hp Hl). rewrite Hp in I5.
    destruct (found_late_test s).
    + apply in_or_app. left. exact I8.
    + rewrite after_plan_app1 by lia. rewrite has_test_app, I8, (quiet_has_test _ Q). reflexivity.
Qed.

(* parse_test always ends in exactly one Test event *)
Lemma parse_test_shape ok n name d x :
  exists errs r ex, parse_test ok n name d x = errs ++ [ETest n (strip name) r ex] /\ quiet errs.
Proof.
  unfold parse_test. destruct d as [d|].
  - destruct (prefixb (s2l "SKIP") (upper d)).
    + destruct ok; eexists [], _, _; split; reflexivity.
    + destruct (str_eqb (upper d) (s2l "TODO")).
      * eexists [], _, _; split; reflexivity.
      * eexists [EError KInvDir], _, _; split; reflexivity.
  - eexists [], _, _; split; reflexivity.
Qed.

Lemma test_events_shape s n ok name dir big :
  exists errs r ex, test_events s n ok name dir big = errs ++ [ETest n (strip name) r ex] /\ quiet errs /\
                    (late_now s = true -> In (EError KLate) errs).
Proof.
  unfold test_events.
  destruct (parse_test_shape ok n name (option_map fst dir) (option_map snd dir)) as [e3 [r [ex [-> Q3]]]].
  exists ((if late_now s then [EError KLate] else []) ++ (if big then [EError KBig] else []) ++
          (match cur_plan s with Some p => if p_num p <? n then [EError KExceeds] else [] | None => [] end) ++ e3), r, ex.
  split; [repeat rewrite <- app_assoc; reflexivity|]. split.
  - apply quiet_app; [destruct (late_now s); reflexivity|].
    apply quiet_app; [destruct big; reflexivity|].
    apply quiet_app; [|exact Q3].
    destruct (cur_plan s) as [p|]; [destruct (p_num p <? n)|]; reflexivity.
  - intros ->. left. reflexivity.
Qed.

Lemma main_inv acc s l s' e : Inv acc s -> main_line s l = Ok (s', e) -> Inv (acc ++ e) s'.
Proof.
  intros I H. apply main_line_spec in H.
  destruct (line_class l) as [[ok num name dir|ds dir|m|ds|]|].
  - (* test *)
    destruct H as [n [_ [-> ->]]].
    destruct (test_events_shape s n ok name dir (num_big num)) as [errs [r [ex [-> [Q HL]]]]].
    rewrite app_assoc.
    pose proof (Inv_quiet _ _ _ Q I) as [I1 I2 I3 I4 I5 I6 I7 I8].
    assert (Hpl : cur_plan (test_state s n) = cur_plan s).
    { unfold test_state. destruct (late_now s); reflexivity. }
    split; rewrite ?Hpl.
    + rewrite count_tests_app. unfold test_state; destruct (late_now s); simpl; rewrite I1; unfold count_tests; simpl; lia.
    + rewrite maxnum_app. unfold test_state; destruct (late_now s); simpl; rewrite I2; unfold maxnum; simpl; lia.
    + rewrite has_bail_app. simpl. rewrite orb_false_r. unfold test_state; destruct (late_now s); simpl; exact I3.
    + intros p Hp. apply in_app_or in Hp. destruct Hp as [Hp|[Hp|[]]]; [auto|discriminate].
    + rewrite count_plans_app. simpl. rewrite I5. destruct (cur_plan s); reflexivity.
    + intro Hn. unfold test_state, late_now. rewrite Hn. simpl. auto.
    + intros p Hp. rewrite (I7 p Hp). rewrite Hp in I5. rewrite (before_plan_app1 (acc ++ errs)) by lia. reflexivity.
    + intros p Hp Hl. specialize (I8 p Hp Hl). rewrite Hp in I5.
      unfold late_now in HL. rewrite Hp, Hl in HL.
      destruct (found_late_test s) eqn:Hf.
      * replace (found_late_test (test_state s n)) with true
          by (unfold test_state, late_now; rewrite Hp, Hl, Hf; simpl; auto).
        apply in_or_app. left. exact I8.
      * replace (found_late_test (test_state s n)) with true
          by (unfold test_state, late_now; rewrite Hp, Hl, Hf; simpl; auto).
        apply in_or_app. left. apply in_or_app. right. apply HL. reflexivity.
  - (* plan *)
    destruct (cur_plan s) as [p0|] eqn:Hp0.
    + destruct H as [-> ->]. apply Inv_quiet; [reflexivity|exact I].
    + destruct (too_long ds); [destruct H as [-> ->]; apply Inv_quiet; [reflexivity|exact I]|].
      destruct H as [p [errs [-> [-> [Hn [Hl [Q _]]]]]]].
      rewrite app_assoc.
      pose proof (Inv_quiet _ _ _ Q I) as [I1 I2 I3 I4 I5 I6 I7 I8].
      rewrite Hp0 in I5.
      split; simpl.
      * rewrite count_tests_app. unfold count_tests at 2. simpl. lia.
      * rewrite maxnum_app. unfold maxnum at 2. simpl. lia.
      * rewrite has_bail_app. simpl. rewrite orb_false_r. exact I3.
      * intros q Hq. apply in_app_or in Hq. destruct Hq as [Hq|[Hq|[]]].
        -- apply I4 in Hq. congruence.
        -- congruence.
      * rewrite count_plans_app, I5. reflexivity.
      * discriminate.
      * intros q Hq. inversion Hq; subst q. rewrite before_plan_app0 by assumption. simpl.
        rewrite app_nil_r. rewrite Hl, I1. symmetry. apply has_test_count.
      * intros q Hq Hlq. rewrite (I6 Hp0). rewrite after_plan_app0 by assumption. reflexivity.
  - (* bail *)
    destruct H as [-> ->]. destruct I as [I1 I2 I3 I4 I5 I6 I7 I8]. split; simpl; auto.
    + rewrite count_tests_app. unfold count_tests at 2. simpl. lia.
    + rewrite maxnum_app. unfold maxnum at 2. simpl. lia.
    + rewrite has_bail_app. simpl. rewrite orb_true_r. reflexivity.
    + intros p Hp. apply in_app_or in Hp. destruct Hp as [Hp|[Hp|[]]]; [auto|discriminate].
    + rewrite count_plans_snoc, I5. simpl. lia.
    + intros p Hp. rewrite (I7 p Hp). rewrite Hp in I5. rewrite before_plan_app1 by lia. reflexivity.
    + intros p Hp Hl. specialize (I8 p Hp Hl). rewrite Hp in I5. destruct (found_late_test s).
      * apply in_or_app. left. exact I8.
      * rewrite after_plan_app1 by lia. rewrite has_test_app, I8. reflexivity.
  - (* version *)
    destruct (negb (lineno s =? 1)).
    + destruct H as [-> ->]. apply Inv_quiet; [reflexivity|exact I].
    + destruct (too_long ds); [destruct H as [-> ->]; apply Inv_quiet; [reflexivity|exact I]|].
      destruct H as [-> ->].
      apply (Inv_ctr _ s); [reflexivity|].
      destruct (digits_val ds <? 13); [apply Inv_quiet; [reflexivity|exact I]|].
      destruct I as [I1 I2 I3 I4 I5 I6 I7 I8]. split; simpl; auto.
      * rewrite count_tests_app. unfold count_tests at 2. simpl. lia.
      * rewrite maxnum_app. unfold maxnum at 2. simpl. lia.
      * rewrite has_bail_app. simpl. rewrite orb_false_r. exact I3.
      * intros p Hp. apply in_app_or in Hp. destruct Hp as [Hp|[Hp|[]]]; [auto|discriminate].
      * rewrite count_plans_snoc, I5. simpl. lia.
      * intros p Hp. rewrite (I7 p Hp). rewrite Hp in I5. rewrite before_plan_app1 by lia. reflexivity.
      * intros p Hp Hl. specialize (I8 p Hp Hl). rewrite Hp in I5. destruct (found_late_test s).
        -- apply in_or_app. left. exact I8.
        -- rewrite after_plan_app1 by lia. rewrite has_test_app, I8. reflexivity.
  - (* unknown *)
    destruct H as [-> ->].
    destruct I as [I1 I2 I3 I4 I5 I6 I7 I8]. split; simpl; auto.
    + rewrite count_tests_app. unfold count_tests at 2. simpl. lia.
    + rewrite maxnum_app. unfold maxnum at 2. simpl. lia.
    + rewrite has_bail_app. simpl. rewrite orb_false_r. exact I3.
    + intros p Hp. apply in_app_or in Hp. destruct Hp as [Hp|[Hp|[]]]; [auto|discriminate].
    + rewrite count_plans_snoc, I5. simpl. lia.
    + intros p Hp. rewrite (I7 p Hp). rewrite Hp in I5. rewrite before_plan_app1 by lia. reflexivity.
    + intros p Hp Hl. specialize (I8 p Hp Hl). rewrite Hp in I5. destruct (found_late_test s).
      * apply in_or_app. left. exact I8.
      * rewrite after_plan_app1 by lia. rewrite has_test_app, I8. reflexivity.
  - destruct H as [-> ->]. rewrite app_nil_r. exact I.
Qed.

Lemma step_inv acc s l s' e : Inv acc s -> parse_line s l = Ok (s', e) -> Inv (acc ++ e) s'.
Proof.
  intros I H. apply parse_line_spec in H.
  destruct H as [[Hp ->]|[s1 [pre [e' [Hp [Hm ->]]]]]].
  - rewrite app_nil_r. pose proof (pre_line_facts (set_lineno s (lineno s + 1)) l) as F.
    rewrite Hp in F. destruct F as [F _]. apply (Inv_ctr _ s); [rewrite F; reflexivity|exact I].
  - pose proof (pre_line_facts (set_lineno s (lineno s + 1)) l) as F.
    rewrite Hp in F. destruct F as [F [_ [_ [_ Fp]]]].
    rewrite app_assoc. apply (main_inv _ s1 l); [|exact Hm].
    apply (Inv_ctr _ s); [rewrite F; reflexivity|].
    apply Inv_quiet; [|exact I]. destruct Fp as [->|[-> _]]; reflexivity.
Qed.

Lemma run_lines_inv lines : forall acc s s' e,
  Inv acc s -> run_lines s lines = Ok (s', e) -> Inv (acc ++ e) s'.
Proof.
  induction lines as [|l lines IH]; intros acc s s' e I H; simpl in H.
  - inversion H; subst. rewrite app_nil_r. exact I.
  - destruct (parse_line s l) as [[s1 e1]|c] eqn:H1; cbn [bind] in H; [|discriminate].
    destruct (run_lines s1 lines) as [[s2 e2]|c] eqn:H2; cbn [bind] in H; [|discriminate].
    inversion H; subst. rewrite app_assoc. eapply IH; [|exact H2].
    eapply step_inv; eassumption.
Qed.

(* parse = run + end-of-stream checks *)
Lemma parse_split lines evs : parse lines = Ok evs ->
  exists s e e2, run_lines init lines = Ok (s, e) /\ eof s = Ok e2 /\ evs = e ++ e2 /\ Inv e s.
Proof.
  unfold parse. destruct (run_lines init lines) as [[s e]|c] eqn:H1; cbn [bind]; [|discriminate].
  destruct (eof s) as [e2|c] eqn:H2; cbn [bind]; [|discriminate].
  intro H. inversion H. exists s, e, e2.
  split; [reflexivity|]. split; [exact H2|]. split; [reflexivity|].
  apply (run_lines_inv lines [] init); [exact Inv_init|exact H1].
Qed.

(* what the end-of-stream part emits *)
Lemma eof_spec s e2 : eof s = Ok e2 ->
  quiet e2 /\
  (st s = Yaml -> In (EError KYaml) e2) /\
  (bailed_out s = false -> forall p, cur_plan s = Some p -> num_tests s <> p_num p -> has_error e2 = true) /\
  (bailed_out s = false -> numbering_bad s = true -> has_error e2 = true).
Proof.
  unfold eof.
  set (ev1 := match st s with Yaml => [EError KYaml] | _ => [] end).
  assert (Q1 : quiet ev1) by (unfold ev1; destruct (st s); reflexivity).
  assert (Y1 : st s = Yaml -> In (EError KYaml) ev1) by (unfold ev1; intros ->; left; reflexivity).
  destruct (bailed_out s).
  { intro H. inversion H; subst. repeat split; auto; discriminate. }
  assert (NUM : forall e, (if numbering_bad s
                 then if py_str_ok (highest_test s)
                      then Ok (ev1 ++ [EError (numbering_kind s)])
                      else PyErr ValueError
                 else Ok ev1) = Ok e ->
                quiet e /\ (st s = Yaml -> In (EError KYaml) e) /\
                (numbering_bad s = true -> has_error e = true)).
  { intros e. destruct (numbering_bad s); simpl.
    - destruct (py_str_ok (highest_test s)); [|discriminate].
      intro H. inversion H; subst. repeat split.
      + apply quiet_app; [exact Q1|reflexivity].
      + intro Hy. apply in_or_app. left. auto.
      + intros _. rewrite has_error_app. simpl. apply orb_true_r.
    - intro H. inversion H; subst. repeat split; auto; discriminate. }
  destruct (cur_plan s) as [p|] eqn:Hp.
  - destruct (N.eqb_spec (num_tests s) (p_num p)) as [E|E]; simpl.
    + intro H. apply NUM in H. destruct H as [Q [Y Hh]]. repeat split; auto.
      intros _ q Hq. inversion Hq; subst q. congruence.
    + intro H. inversion H; subst. repeat split.
      * apply quiet_app; [exact Q1|reflexivity].
      * intro Hy. apply in_or_app. left. auto.
      * intros _ q _ _. rewrite has_error_app. simpl. apply orb_true_r.
      * intros _ _. rewrite has_error_app. simpl. apply orb_true_r.
  - intro H. apply NUM in H. destruct H as [Q [Y Hh]]. repeat split; auto. discriminate.
Qed.

Lemma numbering_bad_high s : highest_test s <> num_tests s -> numbering_bad s = true.
Proof.
  intro H. unfold numbering_bad. apply N.eqb_neq in H. rewrite H. reflexivity.
Qed.

(* ------------------------------------------------------------------ *)
(* Stream theorems read off the event list                             *)

(* a plan/count mismatch produces an error/bail-out event *)
Theorem plan_count_mismatch lines evs p :
  parse lines = Ok evs -> In (EPlan p) evs -> count_tests evs <> p_num p -> faulty evs = true.
Proof.
  intros H Hin Hne. apply parse_split in H. destruct H as [s [e [e2 [_ [He [-> I]]]]]].
  apply eof_spec in He. destruct He as [Q [_ [Hplan _]]].
  unfold faulty. rewrite has_error_app, has_bail_app.
  destruct (has_bail e) eqn:Hb; [rewrite orb_true_r; destruct (has_error e || has_error e2); reflexivity|].
  apply in_app_or in Hin. destruct Hin as [Hin|Hin]; [|exfalso; exact (quiet_no_plan _ _ Q Hin)].
  rewrite count_tests_app, (quiet_count _ Q), N.add_0_r in Hne.
  rewrite (Hplan (eq_trans (inv_bail _ _ I) Hb) p (inv_plan _ _ I p Hin)).
  - rewrite orb_true_r. reflexivity.
  - rewrite (inv_count _ _ I). exact Hne.
Qed.

(* the parser's own numbering check: highest number <> number of tests *)
Theorem numbering_partial lines evs :
  parse lines = Ok evs -> maxnum evs <> count_tests evs -> faulty evs = true.
Proof.
  intros H Hne. apply parse_split in H. destruct H as [s [e [e2 [_ [He [-> I]]]]]].
  apply eof_spec in He. destruct He as [Q [_ [_ Hnum]]].
  unfold faulty. rewrite has_error_app, has_bail_app.
  destruct (has_bail e) eqn:Hb; [rewrite orb_true_r; destruct (has_error e || has_error e2); reflexivity|].
  rewrite count_tests_app, (quiet_count _ Q), N.add_0_r in Hne.
  rewrite maxnum_app, (quiet_maxnum _ Q), N.max_0_r in Hne.
  rewrite (Hnum (eq_trans (inv_bail _ _ I) Hb)).
  - rewrite orb_true_r. reflexivity.
  - apply numbering_bad_high. rewrite (inv_count _ _ I), (inv_high _ _ I). exact Hne.
Qed.

(* a test number beyond the plan produces an error/bail-out event, wherever the plan is *)
Theorem number_beyond_plan lines evs p n nm r ex :
  parse lines = Ok evs -> In (EPlan p) evs -> In (ETest n nm r ex) evs -> p_num p < n ->
  faulty evs = true.
Proof.
  intros H Hp Ht Hlt.
  destruct (N.eq_dec (count_tests evs) (p_num p)) as [E|E].
  - apply (numbering_partial lines); [exact H|].
    apply In_test_numbers in Ht. apply In_le_fold_max in Ht. fold (maxnum evs) in Ht. lia.
  - eapply plan_count_mismatch; eassumption.
Qed.

(* at most one Plan event *)
Theorem single_plan_event lines evs : parse lines = Ok evs -> (count_plans evs <= 1)%nat.
Proof.
  intro H. apply parse_split in H. destruct H as [s [e [e2 [_ [He [-> I]]]]]].
  apply eof_spec in He. destruct He as [Q _].
  rewrite count_plans_app, (quiet_plans _ Q), (inv_plans _ _ I). destruct (cur_plan s); lia.
Qed.

(* a test after a late plan produces an error event *)
Theorem test_after_late_plan lines evs a p b :
  parse lines = Ok evs -> evs = a ++ EPlan p :: b -> has_test a = true -> has_test b = true ->
  has_error evs = true.
Proof.
  intros H Heq Ha Hb. pose proof (single_plan_event _ _ H) as H1.
  apply parse_split in H. destruct H as [s [e [e2 [_ [He [Hevs I]]]]]].
  apply eof_spec in He. destruct He as [Q _].
  assert (Ca : count_plans a = 0%nat).
  { rewrite Heq in H1. rewrite count_plans_app in H1. unfold count_plans at 2 in H1. simpl in H1. lia. }
  assert (Hin : In (EPlan p) e).
  { assert (Hx : In (EPlan p) evs) by (rewrite Heq; apply in_or_app; right; left; reflexivity).
    rewrite Hevs in Hx. apply in_app_or in Hx. destruct Hx as [Hx|Hx]; [exact Hx|].
    exfalso. exact (quiet_no_plan _ _ Q Hx). }
  pose proof (inv_plan _ _ I p Hin) as Hcp.
  assert (Hbp : before_plan evs = a /\ after_plan evs = b).
  { rewrite Heq. rewrite before_plan_app0, after_plan_app0 by assumption. simpl. rewrite app_nil_r. auto. }
  destruct Hbp as [Hbp Hap].
  assert (Ce : (1 <= count_plans e)%nat) by (apply (In_plan_count p); exact Hin).
  rewrite Hevs in Hbp, Hap. rewrite before_plan_app1 in Hbp by assumption. rewrite after_plan_app1 in Hap by assumption.
  pose proof (inv_late1 _ _ I p Hcp) as L1. rewrite Hbp, Ha in L1.
  pose proof (inv_late2 _ _ I p Hcp L1) as L2.
  assert (Hta : has_test (after_plan e) = true).
  { rewrite <- Hap in Hb. rewrite has_test_app, (quiet_has_test _ Q), orb_false_r in Hb. exact Hb. }
  rewrite Hevs, has_error_app.
  destruct (found_late_test s).
  - replace (has_error e) with true; [reflexivity|]. symmetry. apply has_error_In. eauto.
  - congruence.
Qed.

(* an unterminated YAML block at the end of the stream produces an error event *)
Theorem unterminated_yaml_eof lines s e evs :
  run_lines init lines = Ok (s, e) -> st s = Yaml -> parse lines = Ok evs -> In (EError KYaml) evs.
Proof.
  intros Hr Hy H. unfold parse in H. rewrite Hr in H. cbn [bind] in H.
  destruct (eof s) as [e2|c] eqn:He; cbn [bind] in H; [|discriminate].
  inversion H; subst. apply eof_spec in He. destruct He as [_ [Y _]].
  apply in_or_app. right. auto.
Qed.

(* ------------------------------------------------------------------ *)
(* No input makes the parser raise — except through CPython's limit on *)
(* int/str conversions                                                 *)

Lemma span_length p s : (length (fst (span p s)) + length (snd (span p s)) = length s)%nat.
Proof.
  induction s as [|c s IH]; simpl; [reflexivity|].
  destruct (p c); simpl; [|reflexivity].
  destruct (span p s) as [a b]; simpl in *. lia.
Qed.
Lemma span_fst_length p s : (length (fst (span p s)) <= length s)%nat.
Proof. pose proof (span_length p s). lia. Qed.
Lemma span_forall p s : forallb p (fst (span p s)) = true.
Proof.
  induction s as [|c s IH]; simpl; [reflexivity|].
  destruct (p c) eqn:E; simpl; [|reflexivity].
  destruct (span p s) as [a b]; simpl in *. rewrite E, IH. reflexivity.
Qed.
Lemma lstrip_length s : (length (lstrip s) <= length s)%nat.
Proof. induction s as [|c s IH]; simpl; [lia|]. destruct (is_space c); simpl; lia. Qed.
Lemma rstrip_length s : (length (rstrip s) <= length s)%nat.
Proof. unfold rstrip. rewrite rev_length. pose proof (lstrip_length (rev s)). rewrite rev_length in H. exact H. Qed.
Lemma drop_length n s : (length (drop n s) <= length s)%nat.
Proof. revert s; induction n as [|n IH]; intros [|c s]; simpl; try lia. specialize (IH s). lia. Qed.

Definition digits_ok (line ds : str) : Prop := all_digits ds = true /\ (length ds <= length line)%nat.

Lemma classify_digits line :
  match classify line with
  | LTest _ (Some ds) _ _ => digits_ok line ds
  | LPlan ds _ => digits_ok line ds
  | LVersion ds => digits_ok line ds
  | _ => True
  end.
Proof.
  assert (T : forall ok k, match test_body ok (drop k line) with
                           | LTest _ (Some ds) _ _ => digits_ok line ds | LTest _ None _ _ => True | _ => False end).
  { intros ok k. unfold test_body.
    pose proof (span_forall is_digit (lstrip (drop k line))) as F.
    pose proof (span_fst_length is_digit (lstrip (drop k line))) as G.
    pose proof (lstrip_length (drop k line)). pose proof (drop_length k line).
    destruct (span is_digit (lstrip (drop k line))) as [ds r1]. simpl in F, G.
    destruct ds as [|d ds].
    - destruct (span not_hash (lstrip (drop k line))). exact I.
    - destruct (span not_hash (lstrip r1)). split; [exact F|lia]. }
  unfold classify, re_test.
  destruct (prefixb (s2l "not ok") line).
  { specialize (T false 6%nat). destruct (test_body false (drop 6 line)) as [? [?|] ? ?| | | |]; tauto. }
  destruct (prefixb (s2l "ok") line).
  { specialize (T true 2%nat). destruct (test_body true (drop 2 line)) as [? [?|] ? ?| | | |]; tauto. }
  unfold re_plan. destruct (prefixb (s2l "1..") line).
  { pose proof (span_forall is_digit (drop 3 line)) as F.
    pose proof (span_fst_length is_digit (drop 3 line)) as G. pose proof (drop_length 3 line).
    destruct (span is_digit (drop 3 line)) as [ds r]. cbn [fst] in F, G.
    destruct ds as [|d ds]; cbv beta iota; [|split; [exact F|lia]].
    unfold re_bailout. destruct (prefixb (s2l "Bail out!") line); [exact I|].
    unfold re_version. destruct (prefixb (s2l "TAP version ") line); [|exact I].
    pose proof (span_forall is_digit (drop 12 line)) as F2.
    pose proof (span_fst_length is_digit (drop 12 line)) as G2. pose proof (drop_length 12 line).
    destruct (span is_digit (drop 12 line)) as [ds r']. cbn [fst] in F2, G2.
    destruct ds as [|d ds]; cbv beta iota; [exact I|split; [exact F2|lia]]. }
  unfold re_bailout. destruct (prefixb (s2l "Bail out!") line); [exact I|].
  unfold re_version. destruct (prefixb (s2l "TAP version ") line); [|exact I].
  pose proof (span_forall is_digit (drop 12 line)) as F2.
  pose proof (span_fst_length is_digit (drop 12 line)) as G2. pose proof (drop_length 12 line).
  destruct (span is_digit (drop 12 line)) as [ds r']. cbn [fst] in F2, G2.
  destruct ds as [|d ds]; cbv beta iota; [exact I|split; [exact F2|lia]].
Qed.

Lemma digit_val_le c : is_digit c = true -> digit_val c <= 9.
Proof. unfold is_digit, digit_val. rewrite andb_true_iff, !N.leb_le. lia. Qed.

Lemma digits_val_bound ds : all_digits ds = true -> digits_val ds < 10 ^ N.of_nat (length ds).
Proof.
  unfold digits_val, all_digits.
  assert (G : forall ds a, forallb is_digit ds = true ->
              fold_left (fun a c => a * 10 + digit_val c) ds a < (a + 1) * 10 ^ N.of_nat (length ds)).
  { induction ds0 as [|c ds0 IH]; intros a H; simpl length; simpl fold_left.
    - simpl. lia.
    - simpl in H. apply andb_true_iff in H. destruct H as [Hc H].
      apply digit_val_le in Hc. specialize (IH (a * 10 + digit_val c) H).
      rewrite Nat2N.inj_succ, N.pow_succ_r'.
      remember (10 ^ N.of_nat (length ds0)) as P.
      assert ((a * 10 + digit_val c + 1) * P <= (a + 1) * (10 * P)) by nia. lia. }
  intro H. specialize (G ds 0 H). lia.
Qed.

Definition Lim : N := 10 ^ 4299.
Lemma str_limit_Lim : str_limit = 10 * Lim.
Proof. unfold str_limit, Lim. change 4300 with (N.succ 4299). apply N.pow_succ_r'. Qed.
Lemma too_long_false ds : too_long ds = false -> (length ds <= 100)%nat.
Proof. unfold too_long, max_number_digits. intro H. apply Nat.ltb_ge in H. exact H. Qed.
Lemma digits_small line ds : digits_ok line ds -> too_long ds = false -> digits_val ds < Lim.
Proof.
  intros [A B] H. pose proof (digits_val_bound ds A) as D. apply too_long_false in H.
  assert (10 ^ N.of_nat (length ds) <= Lim); [|lia].
  unfold Lim. apply N.pow_le_mono_r; lia.
Qed.
Lemma Lim_pos : 0 < Lim.
Proof. unfold Lim. apply N.neq_0_lt_0. apply N.pow_nonzero. lia. Qed.
Lemma few_lines_Lim lines : few_lines lines -> N.of_nat (length lines) < Lim.
Proof. intro H. exact H. Qed.
Global Opaque Lim str_limit.

(* no line raises (the numbers the parser converts have at most 100 digits), and the numbers stay small *)
Lemma main_line_total s l k :
  last_test s < Lim + k -> highest_test s < Lim + k ->
  exists s' e, main_line s l = Ok (s', e) /\ last_test s' < Lim + (k + 1) /\ highest_test s' < Lim + (k + 1).
Proof.
  intros B1 B2. unfold main_line.
  destruct (negb (nonempty (rstrip l)) || prefixb [35] (rstrip l)).
  { eexists _, _. split; [reflexivity|]. lia. }
  pose proof (classify_digits (rstrip l)) as D.
  destruct (classify (rstrip l)) as [ok num name dir|ds dir|m|ds|].
  - set (sp := match cur_plan s with
               | Some p => if p_late p && negb (found_late_test s) then (set_late s true, [EError KLate]) else (s, [])
               | None => (s, []) end).
    assert (Hs : last_test (fst sp) = last_test s /\ highest_test (fst sp) = highest_test s).
    { unfold sp. destruct (cur_plan s) as [p|]; [destruct (p_late p && negb (found_late_test s))|]; split; reflexivity. }
    destruct sp as [s0 ev1]. simpl in Hs. destruct Hs as [Hs1 Hs2].
    destruct num as [ds|].
    + destruct (too_long ds) eqn:TL.
      * cbn [bind]. eexists _, _. split; [reflexivity|]. simpl. rewrite Hs1, Hs2. lia.
      * assert (Hd : digits_val ds < Lim) by (apply (digits_small (rstrip l)); assumption).
        cbn [bind]. eexists _, _. split; [reflexivity|]. simpl. rewrite Hs2. lia.
    + cbn [bind]. eexists _, _. split; [reflexivity|]. simpl. rewrite Hs1, Hs2. lia.
  - destruct (cur_plan s) as [p|].
    { eexists _, _. split; [reflexivity|]. lia. }
    destruct (too_long ds).
    { eexists _, _. split; [reflexivity|]. lia. }
    cbn [bind].
    destruct (match dir with
              | Some (d, _) => if prefixb (s2l "SKIP") (upper d)
                               then (if 0 <? digits_val ds then [EError KPlanSkip] else [], true)
                               else ([EError KPlanDir], digits_val ds =? 0)
              | None => ([], digits_val ds =? 0) end) as [evs sk].
    eexists _, _. split; [reflexivity|]. simpl. lia.
  - eexists _, _. split; [reflexivity|]. simpl. lia.
  - destruct (negb (lineno s =? 1)).
    { eexists _, _. split; [reflexivity|]. lia. }
    destruct (too_long ds).
    { eexists _, _. split; [reflexivity|]. lia. }
    cbn [bind]. destruct (digits_val ds <? 13); eexists _, _; (split; [reflexivity|]); simpl; lia.
  - eexists _, _. split; [reflexivity|]. lia.
Qed.

Lemma parse_line_total s l k :
  last_test s < Lim + k -> highest_test s < Lim + k ->
  exists s' e, parse_line s l = Ok (s', e) /\ last_test s' < Lim + (k + 1) /\ highest_test s' < Lim + (k + 1).
Proof.
  intros B1 B2. unfold parse_line.
  pose proof (pre_line_facts (set_lineno s (lineno s + 1)) l) as F.
  destruct (pre_line (set_lineno s (lineno s + 1)) l) as [s1|s1 pre].
  - destruct F as [F _]. unfold ctr in F. inversion F as [[F1 F2 F3 F4 F5 F6 F7]].
    exists s1, []. split; [reflexivity|]. rewrite F5, F6. simpl. lia.
  - destruct F as [F _]. unfold ctr in F. inversion F as [[F1 F2 F3 F4 F5 F6 F7]].
    destruct (main_line_total s1 l k) as [s' [e [Hm [C1 C2]]]].
    + rewrite F5. exact B1.
    + rewrite F6. exact B2.
    + rewrite Hm. cbn [bind]. eexists _, _. split; [reflexivity|]. auto.
Qed.

Lemma run_lines_total lines : forall s k,
  last_test s < Lim + k -> highest_test s < Lim + k ->
  exists s' e, run_lines s lines = Ok (s', e) /\ highest_test s' < Lim + (k + N.of_nat (length lines)).
Proof.
  induction lines as [|l lines IH]; intros s k B1 B2.
  - exists s, []. split; [reflexivity|]. simpl. lia.
  - destruct (parse_line_total s l k B1 B2) as [s1 [e1 [H1 [C1 C2]]]].
    destruct (IH s1 (k + 1) C1 C2) as [s2 [e2 [H2 C3]]].
    exists s2, (e1 ++ e2). simpl run_lines. rewrite H1. cbn [bind]. rewrite H2. cbn [bind].
    split; [reflexivity|]. simpl length. lia.
Qed.

Lemma eof_total s : highest_test s < str_limit -> exists e, eof s = Ok e.
Proof.
  intro H. unfold eof, py_str_ok. apply N.ltb_lt in H. rewrite H.
  destruct (bailed_out s); [eauto|].
  destruct (cur_plan s) as [p|]; [destruct (negb (num_tests s =? p_num p)); [eauto|]|];
    destruct (numbering_bad s); eauto.
Qed.

(* "No input makes the parser raise" (parser with the fix C18-int-max-str-digits): every stream of
   fewer than 10^4299 lines, whatever the lines are *)
Theorem no_raise lines : few_lines lines -> exists evs, parse lines = Ok evs.
Proof.
  intro H. apply few_lines_Lim in H.
  pose proof Lim_pos as Lim0.
  destruct (run_lines_total lines init 0) as [s [e [Hr Hh]]]; [simpl; lia|simpl; lia|].
  destruct (eof_total s) as [e2 He]; [rewrite str_limit_Lim; unfold str in *; lia|].
  exists (e ++ e2). unfold parse. rewrite Hr. cbn [bind]. rewrite He. reflexivity.
Qed.

(* no line ever raises; the only exception that can escape at all is the ValueError of str() at the
   end of a stream of 10^4299 lines or more *)
Lemma main_line_exc s l c : main_line s l = PyErr c -> c = ValueError.
Proof.
  intro H. destruct (main_line_total s l (last_test s + highest_test s + 1)) as [s' [e [E _]]]; try lia.
  rewrite E in H. discriminate.
Qed.

Lemma eof_exc s c : eof s = PyErr c -> c = ValueError.
Proof.
  unfold eof. destruct (bailed_out s); [discriminate|].
  assert (N : forall ev1, (if numbering_bad s
       then if py_str_ok (highest_test s)
            then Ok (ev1 ++ [EError (numbering_kind s)])
            else PyErr ValueError else Ok ev1) = PyErr c -> c = ValueError).
  { intro ev1. destruct (numbering_bad s); [|discriminate].
    destruct (py_str_ok (highest_test s)); [discriminate|]. intro H. inversion H. reflexivity. }
  destruct (cur_plan s) as [p|]; [destruct (negb (num_tests s =? p_num p)); [discriminate|]|]; apply N.
Qed.

Theorem only_value_error lines c : parse lines = PyErr c -> c = ValueError.
Proof.
  unfold parse.
  assert (R : forall lines s c, run_lines s lines = PyErr c -> c = ValueError).
  { induction lines0 as [|l lines0 IH]; intros s c0; simpl; [discriminate|].
    destruct (parse_line s l) as [[s1 e1]|c1] eqn:H1; cbn [bind].
    - destruct (run_lines s1 lines0) as [[s2 e2]|c2] eqn:H2; cbn [bind]; [discriminate|].
      intro H. inversion H. subst. eapply IH. exact H2.
    - intro H. inversion H. subst. unfold parse_line in H1.
      destruct (pre_line (set_lineno s (lineno s + 1)) l) as [s1|s1 pre]; [discriminate|].
      destruct (main_line s1 l) as [[s2 e2]|c2] eqn:Hm; cbn [bind] in H1; [discriminate|].
      inversion H1. subst. eapply main_line_exc. exact Hm. }
  destruct (run_lines init lines) as [[s e]|c1] eqn:H1; cbn [bind].
  - destruct (eof s) as [e2|c2] eqn:He; cbn [bind]; [discriminate|].
    intro H. inversion H. subst. eapply eof_exc. exact He.
  - intro H. inversion H. subst. eapply R. exact H1.
Qed.

(* the guard is met by any ordinary stream, e.g. one with a 4301-digit test number *)
Example few_lines_example : few_lines [s2l "ok " ++ repeat 57 4301; s2l "1..1"].
Proof. vm_compute. reflexivity. Qed.

(* ------------------------------------------------------------------ *)
(* The verdict of the whole test                                       *)

Definition okres (r : option tres) : Prop := r = None \/ r = Some FAIL \/ r = Some ERROR.

Lemma existsb_bad_not_all_skip l :
  existsb is_bad l = true -> forallb (fun r => tres_eqb r SKIP) l = false.
Proof.
  induction l as [|r l IH]; simpl; [discriminate|].
  destruct r; simpl; auto.
Qed.

Lemma fold_event_spec evs : forall r0 l0,
  okres r0 -> (r0 = Some FAIL -> existsb is_bad l0 = true) ->
  exists r', fold_left fold_event evs (r0, l0) = (r', l0 ++ results evs) /\ okres r' /\
             (r' = Some FAIL -> existsb is_bad (l0 ++ results evs) = true) /\
             (r' = None <-> (r0 = None /\ faulty evs = false /\ existsb is_bad (results evs) = false)).
Proof.
  induction evs as [|e evs IH]; intros r0 l0 H0 F0.
  - exists r0. simpl. rewrite app_nil_r. repeat split; auto; tauto.
  - destruct e as [n nm r ex|k|p|m|v|m ln]; simpl fold_left.
    + (* test *)
      assert (Hres : results (ETest n nm r ex :: evs) = r :: results evs) by reflexivity.
      rewrite Hres.
      destruct (IH (if is_bad r then Some FAIL else r0) (l0 ++ [r])) as [r' [E [O [F N]]]].
      * destruct (is_bad r); [right; left; reflexivity|exact H0].
      * rewrite existsb_app. simpl. destruct (is_bad r) eqn:B; [intros _; apply orb_true_r|].
        intro H. rewrite (F0 H). reflexivity.
      * exists r'. rewrite <- app_assoc in E, F. simpl in E, F. split; [exact E|]. split; [exact O|]. split; [exact F|].
        rewrite N. unfold faulty. simpl. destruct (is_bad r); split; intros [A [B C]]; try discriminate; auto.
    + destruct (IH (Some ERROR) l0) as [r' [E [O [F N]]]]; [right; right; reflexivity|discriminate|].
      exists r'. change (results (EError k :: evs)) with (results evs). split; [exact E|]. split; [exact O|]. split; [exact F|].
      rewrite N. unfold faulty. simpl. split; intros [A [B C]]; discriminate.
    + destruct (IH r0 l0 H0 F0) as [r' [E [O [F N]]]]. exists r'. change (results (EPlan p :: evs)) with (results evs). auto.
    + destruct (IH (Some ERROR) l0) as [r' [E [O [F N]]]]; [right; right; reflexivity|discriminate|].
      exists r'. change (results (EBail m :: evs)) with (results evs). split; [exact E|]. split; [exact O|]. split; [exact F|].
      rewrite N. unfold faulty. simpl. rewrite orb_true_r. split; intros [A [B C]]; discriminate.
    + destruct (IH r0 l0 H0 F0) as [r' [E [O [F N]]]]. exists r'. change (results (EVersion v :: evs)) with (results evs). auto.
    + destruct (IH r0 l0 H0 F0) as [r' [E [O [F N]]]]. exists r'. change (results (EUnknown m ln :: evs)) with (results evs). auto.
Qed.

(* reported bad iff some subtest is bad, an error/bail-out event occurred, or the exit status is not 0
   (for a test that is not marked should_fail) *)
Theorem verdict_bad rc evs :
  is_bad (verdict rc false evs) = existsb is_bad (results evs) || faulty evs || negb (Z.eqb rc 0).
Proof.
  unfold verdict, tap_parse.
  destruct (fold_event_spec evs None []) as [r' [E [O [F N]]]]; [left; reflexivity|discriminate|].
  rewrite E. simpl app in *.
  destruct O as [ -> | [ -> | -> ] ].
  - destruct N as [N _]. destruct (N eq_refl) as [_ [N1 N2]]. rewrite N1, N2. simpl.
    destruct (forallb (fun r => tres_eqb r SKIP) (results evs)); unfold complete; simpl;
      destruct (Z.eqb rc 0); reflexivity.
  - rewrite (existsb_bad_not_all_skip _ (F eq_refl)). rewrite (F eq_refl). simpl.
    unfold complete. simpl. rewrite andb_false_r. reflexivity.
  - assert (X : existsb is_bad (results evs) || faulty evs = true).
    { destruct (existsb is_bad (results evs)) eqn:A; [reflexivity|]. destruct (faulty evs) eqn:B; [reflexivity|].
      destruct N as [_ N]. discriminate N. auto. }
    rewrite X. simpl.
    destruct (forallb (fun r => tres_eqb r SKIP) (results evs)); unfold complete; simpl; rewrite andb_false_r; reflexivity.
Qed.

(* ------------------------------------------------------------------ *)
(* One test line = one subtest with the right number, name and status  *)

Lemma upper_app a b : upper (a ++ b) = upper a ++ upper b.
Proof. apply map_app. Qed.

Lemma ci_prefix_spec pat : forall s m rest,
  forallb is_lower pat = true -> ci_prefix pat s = Some (m, rest) ->
  s = m ++ rest /\ upper m = upper pat.
Proof.
  induction pat as [|p pat IH]; intros s m rest Hl H; simpl in H.
  - inversion H. auto.
  - destruct s as [|c s]; [discriminate|].
    simpl in Hl. apply andb_true_iff in Hl. destruct Hl as [Hp Hl].
    destruct ((c =? p) || (c =? p - 32)) eqn:E; [|discriminate].
    destruct (ci_prefix pat s) as [[m' rest']|] eqn:E2; [|discriminate].
    inversion H; subst. destruct (IH _ _ _ Hl E2) as [-> U]. split; [reflexivity|].
    simpl. f_equal; [|exact U].
    unfold upper_ascii. rewrite Hp.
    unfold is_lower in *. apply andb_true_iff in Hp. destruct Hp as [P1 P2].
    apply N.leb_le in P1, P2. apply orb_true_iff in E. destruct E as [E|E]; apply N.eqb_eq in E; subst c.
    + replace ((97 <=? p) && (p <=? 122)) with true; [reflexivity|].
      symmetry. apply andb_true_iff. split; apply N.leb_le; lia.
    + replace ((97 <=? p - 32) && (p - 32 <=? 122)) with false; [reflexivity|].
      symmetry. apply andb_false_iff. left. apply N.leb_gt. lia.
Qed.

Lemma dir_skip_kind r w x : dir_skip r = Some (w, x) -> dir_kind w = Some DSkip.
Proof.
  unfold dir_skip. destruct (ci_prefix (s2l "skip") r) as [[m rest]|] eqn:E; [|discriminate].
  apply ci_prefix_spec in E; [|reflexivity]. destruct E as [_ U].
  destruct (span not_space rest) as [run after].
  destruct (last_boundary true run) as [k|]; [|discriminate].
  intro H. inversion H; subst. unfold dir_kind. rewrite upper_app, U.
  change (upper (s2l "skip")) with (s2l "SKIP"). rewrite prefixb_app. reflexivity.
Qed.

Lemma dir_todo_kind r w x : dir_todo r = Some (w, x) -> dir_kind w = Some DTodo.
Proof.
  unfold dir_todo. destruct (ci_prefix (s2l "todo") r) as [[m rest]|] eqn:E; [|discriminate].
  apply ci_prefix_spec in E; [|reflexivity]. destruct E as [_ U].
  assert (K : dir_kind m = Some DTodo).
  { unfold dir_kind. rewrite U. reflexivity. }
  destruct rest as [|c rest]; [intro H; inversion H; subst; exact K|].
  destruct (is_word c); [discriminate|]. intro H; inversion H; subst; exact K.
Qed.

Lemma directive_kind s w x : directive s = Some (w, x) -> dir_kind w <> None.
Proof.
  unfold directive. destruct (lstrip s) as [|c r]; [discriminate|].
  destruct (c =? 35); [|discriminate].
  destruct (dir_skip (lstrip r)) as [[w' x']|] eqn:S.
  - intro H. inversion H; subst. rewrite (dir_skip_kind _ _ _ S). discriminate.
  - intro H. rewrite (dir_todo_kind _ _ _ H). discriminate.
Qed.

Lemma classify_dir line :
  match classify line with
  | LTest _ _ _ (Some (w, _)) => dir_kind w <> None
  | LPlan _ (Some (w, _)) => dir_kind w <> None
  | _ => True
  end.
Proof.
  assert (T : forall ok r, match test_body ok r with
                           | LTest _ _ _ (Some (w, _)) => dir_kind w <> None
                           | LPlan _ (Some (w, _)) => dir_kind w <> None
                           | _ => True end).
  { intros ok r. unfold test_body.
    destruct (span is_digit (lstrip r)) as [ds r1].
    destruct (match ds with [] => (None, lstrip r) | _ :: _ => (Some ds, lstrip r1) end) as [num r2].
    destruct (span not_hash r2) as [name r3].
    destruct (directive r3) as [[w x]|] eqn:D; [|exact I]. eapply directive_kind; exact D. }
  unfold classify, re_test.
  destruct (prefixb (s2l "not ok") line); [apply T|].
  destruct (prefixb (s2l "ok") line); [apply T|].
  unfold re_plan. destruct (prefixb (s2l "1..") line).
  - destruct (span is_digit (drop 3 line)) as [ds r]. destruct ds as [|d ds].
    + unfold re_bailout. destruct (prefixb (s2l "Bail out!") line); [exact I|].
      unfold re_version. destruct (prefixb (s2l "TAP version ") line); [|exact I].
      destruct (span is_digit (drop 12 line)) as [ds r']. destruct ds; exact I.
    + destruct (directive r) as [[w x]|] eqn:D; [|exact I]. eapply directive_kind; exact D.
  - unfold re_bailout. destruct (prefixb (s2l "Bail out!") line); [exact I|].
    unfold re_version. destruct (prefixb (s2l "TAP version ") line); [|exact I].
    destruct (span is_digit (drop 12 line)) as [ds r']. destruct ds; exact I.
Qed.

Definition dir_of (dir : option (str * str)) : option dkind :=
  match dir with Some (w, _) => dir_kind w | None => None end.
Definition dir_valid (dir : option (str * str)) : Prop :=
  match dir with Some (w, _) => dir_kind w <> None | None => True end.

Lemma parse_test_spec ok n name dir : dir_valid dir ->
  parse_test ok n name (option_map fst dir) (option_map snd dir) =
  [ETest n (strip name) (spec_status ok (dir_of dir)) (spec_explanation dir)].
Proof.
  destruct dir as [[w x]|]; cbn [option_map fst snd dir_valid dir_of spec_explanation].
  - unfold dir_kind, parse_test. intro V.
    destruct (prefixb (s2l "SKIP") (upper w)).
    + destruct ok; reflexivity.
    + destruct (str_eqb (upper w) (s2l "TODO")); [destruct ok; reflexivity|congruence].
  - intros _. destruct ok; reflexivity.
Qed.

Lemma line_class_dir l :
  match line_class l with
  | Some (LTest _ _ _ dir) => dir_valid dir
  | Some (LPlan _ dir) => dir_valid dir
  | _ => True
  end.
Proof.
  unfold line_class. destruct (negb (nonempty (rstrip l)) || prefixb [35] (rstrip l)); [exact I|].
  pose proof (classify_dir (rstrip l)) as C.
  destruct (classify (rstrip l)) as [ok num name [[w x]|]|ds [[w x]|]|m|ds|]; simpl; auto.
Qed.

(* each ok / not ok line that is looked at as TAP yields exactly one subtest with the number
   explicit | previous + 1, the stripped name, the directive-adjusted status and the stripped
   explanation; nothing else yields a subtest *)
Theorem test_line_subtest s l s' e :
  main_line s l = Ok (s', e) ->
  match line_class l with
  | Some (LTest ok num name dir) =>
      let n := line_number (last_test s) num in
      tests_of e = [(n, strip name, spec_status ok (dir_of dir), spec_explanation dir)] /\
      last_test s' = n /\ num_tests s' = num_tests s + 1 /\ st s' = AfterTest /\
      (num_big num = true -> In (EError KBig) e)
  | _ => tests_of e = [] /\ last_test s' = last_test s /\ num_tests s' = num_tests s
  end.
Proof.
  intro H. apply main_line_spec in H. pose proof (line_class_dir l) as V.
  destruct (line_class l) as [[ok num name dir|ds dir|m|ds|]|].
  - destruct H as [n [-> [-> ->]]].
    unfold test_events. rewrite (parse_test_spec _ _ _ _ V).
    rewrite !tests_of_app.
    replace (tests_of (if late_now s then [EError KLate] else [])) with (@nil (N * str * tres * option str))
      by (destruct (late_now s); reflexivity).
    replace (tests_of (if num_big num then [EError KBig] else [])) with (@nil (N * str * tres * option str))
      by (destruct (num_big num); reflexivity).
    replace (tests_of (match cur_plan s with Some p => if p_num p <? line_number (last_test s) num then [EError KExceeds] else [] | None => [] end))
      with (@nil (N * str * tres * option str))
      by (destruct (cur_plan s) as [p|]; [destruct (p_num p <? line_number (last_test s) num)|]; reflexivity).
    simpl. unfold test_state. repeat split; try (destruct (late_now s); reflexivity).
    intros ->. apply in_or_app. right. left. reflexivity.
  - destruct (cur_plan s) as [p0|].
    + destruct H as [-> ->]. auto.
    + destruct (too_long ds); [destruct H as [-> ->]; auto|].
      destruct H as [p [errs [-> [-> [_ [_ [Q _]]]]]]]. rewrite tests_of_app, (quiet_tests _ Q). simpl. auto.
  - destruct H as [-> ->]. auto.
  - destruct (negb (lineno s =? 1)).
    + destruct H as [-> ->]. auto.
    + destruct (too_long ds); [destruct H as [-> ->]; auto|].
      destruct H as [-> ->]. destruct (digits_val ds <? 13); auto.
  - destruct H as [-> ->]. auto.
  - destruct H as [-> ->]. auto.
Qed.

(* events of a whole stream satisfy P if every main step's and the end-of-stream events do *)
Lemma parse_events_forall (P : event -> Prop) :
  (forall s l s' e, main_line s l = Ok (s', e) -> Forall P e) ->
  (forall k, In k [KYaml; KFew; KMany; KDup; KMissing] -> P (EError k)) ->
  forall lines evs, parse lines = Ok evs -> Forall P evs.
Proof.
  intros HM HE.
  assert (R : forall lines s s' e, run_lines s lines = Ok (s', e) -> Forall P e).
  { induction lines as [|l lines IH]; intros s s' e H; simpl in H.
    - inversion H. constructor.
    - destruct (parse_line s l) as [[s1 e1]|c] eqn:H1; cbn [bind] in H; [|discriminate].
      destruct (run_lines s1 lines) as [[s2 e2]|c] eqn:H2; cbn [bind] in H; [|discriminate].
      inversion H; subst. apply Forall_app. split; [|eapply IH; exact H2].
      apply parse_line_spec in H1. destruct H1 as [[_ ->]|[s3 [pre [e' [Hp [Hm ->]]]]]]; [constructor|].
      apply Forall_app. split; [|eapply HM; exact Hm].
      pose proof (pre_line_facts (set_lineno s (lineno s + 1)) l) as F. rewrite Hp in F.
      destruct F as [_ [_ [_ [_ [->|[-> _]]]]]]; [constructor|].
      constructor; [apply HE; simpl; auto 10|constructor]. }
  intros lines evs H. unfold parse in H.
  destruct (run_lines init lines) as [[s e]|c] eqn:H1; cbn [bind] in H; [|discriminate].
  destruct (eof s) as [e2|c] eqn:H2; cbn [bind] in H; [|discriminate].
  inversion H; subst. apply Forall_app. split; [eapply R; exact H1|].
  unfold eof in H2.
  assert (Y : Forall P (match st s with Yaml => [EError KYaml] | _ => [] end)).
  { destruct (st s); constructor; [apply HE; simpl; auto 10|constructor]. }
  destruct (bailed_out s); [inversion H2; subst; exact Y|].
  assert (N : forall e, (if numbering_bad s
       then if py_str_ok (highest_test s)
            then Ok (match st s with Yaml => [EError KYaml] | _ => [] end ++
                     [EError (numbering_kind s)])
            else PyErr ValueError
       else Ok (match st s with Yaml => [EError KYaml] | _ => [] end)) = Ok e -> Forall P e).
  { intro e0. destruct (numbering_bad s); [|intro X; inversion X; subst; exact Y].
    destruct (py_str_ok (highest_test s)); [|discriminate]. intro X; inversion X; subst.
    apply Forall_app. split; [exact Y|]. constructor; [|constructor].
    apply HE. unfold numbering_kind. destruct ((highest_test s <? num_tests s) || negb (N.of_nat (length (seen_tests s)) =? num_tests s)); simpl; auto 10. }
  destruct (cur_plan s) as [p|]; [|apply N; exact H2].
  destruct (negb (num_tests s =? p_num p)); [|apply N; exact H2].
  inversion H2; subst. apply Forall_app. split; [exact Y|]. constructor; [|constructor].
  apply HE. destruct (num_tests s <? p_num p); simpl; auto 10.
Qed.

Definition tap_result (r : tres) : Prop :=
  r = OK \/ r = FAIL \/ r = SKIP \/ r = EXPECTEDFAIL \/ r = UNEXPECTEDPASS.

Definition event_sane (e : event) : Prop :=
  match e with
  | ETest _ name r ex => tap_result r /\ is_bad r = bad_subtest r
  | EError k => k <> KInvDir
  | _ => True
  end.

(* the "invalid directive" branch of parse_test is dead code for events coming from
   parse_line, and subtests only carry the five TAP results *)
Theorem events_sane lines evs : parse lines = Ok evs -> Forall event_sane evs.
Proof.
  apply parse_events_forall.
  - intros s l s' e H. apply main_line_spec in H. pose proof (line_class_dir l) as V.
    destruct (line_class l) as [[ok num name dir|ds dir|m|ds|]|].
    + destruct H as [n [_ [_ ->]]]. unfold test_events. rewrite (parse_test_spec _ _ _ _ V).
      apply Forall_app. split; [destruct (late_now s); repeat constructor; discriminate|].
      apply Forall_app. split; [destruct (num_big num); repeat constructor; discriminate|].
      apply Forall_app. split; [destruct (cur_plan s) as [p|]; [destruct (p_num p <? n)|]; repeat constructor; discriminate|].
      constructor; [|constructor]. simpl. unfold tap_result.
      destruct (dir_of dir) as [[|]|], ok; simpl; tauto.
    + destruct (cur_plan s).
      * destruct H as [_ ->]. repeat constructor. discriminate.
      * destruct (too_long ds); [destruct H as [_ ->]; repeat constructor; discriminate|].
        destruct H as [p [errs [_ [-> [_ [_ [Q K]]]]]]]. clear V.
        apply Forall_app. split; [|repeat constructor].
        apply Forall_forall. intros x Hx.
        pose proof (proj1 (forallb_forall _ _) Q x Hx) as E. destruct x; try discriminate.
        simpl. intro. subst. destruct (K _ Hx); discriminate.
    + destruct H as [_ ->]. repeat constructor.
    + destruct (negb (lineno s =? 1)).
      * destruct H as [_ ->]. repeat constructor. discriminate.
      * destruct (too_long ds); [destruct H as [_ ->]; repeat constructor; discriminate|].
        destruct H as [_ ->]. destruct (digits_val ds <? 13); repeat constructor. discriminate.
    + destruct H as [_ ->]. repeat constructor.
    + destruct H as [_ ->]. constructor.
  - intros k Hk. simpl in Hk. simpl. intuition congruence.
Qed.

(* ------------------------------------------------------------------ *)
(* Streams without YAML blocks: every line is looked at as TAP         *)

Lemma main_line_frame s l s' e : main_line s l = Ok (s', e) ->
  lineno s' = lineno s /\ (st s' = st s \/ st s' = AfterTest) /\
  (cur_plan s <> None -> cur_plan s' = cur_plan s).
Proof.
  intro H. apply main_line_spec in H.
  destruct (line_class l) as [[ok num name dir|ds dir|m|ds|]|].
  - destruct H as [n [_ [-> _]]]. unfold test_state. destruct (late_now s); simpl; auto.
  - destruct (cur_plan s) as [p0|] eqn:E.
    + destruct H as [-> _]. auto.
    + destruct (too_long ds); [destruct H as [-> _]; repeat split; auto|].
      destruct H as [p [errs [-> _]]]. simpl. repeat split; auto. congruence.
  - destruct H as [-> _]. simpl. auto.
  - destruct (negb (lineno s =? 1)).
    + destruct H as [-> _]. auto.
    + destruct (too_long ds); destruct H as [-> _]; simpl; auto.
  - destruct H as [-> _]. auto.
  - destruct H as [-> _]. auto.
Qed.

Lemma parse_line_no_yaml s l s' e :
  st s <> Yaml -> yaml_start l = None -> parse_line s l = Ok (s', e) ->
  exists s1, ctr s1 = ctr s /\ lineno s1 = lineno s + 1 /\ version s1 = version s /\
             main_line s1 l = Ok (s', e) /\ st s' <> Yaml.
Proof.
  intros Hs Hy H. unfold parse_line, pre_line in H. simpl st in H.
  destruct (st s) eqn:Est; [| |congruence].
  - destruct (main_line (set_lineno s (lineno s + 1)) l) as [[s2 e2]|c] eqn:Hm; cbn [bind] in H; [|discriminate].
    inversion H; subst. exists (set_lineno s (lineno s + 1)). repeat split; auto.
    apply main_line_frame in Hm. simpl in Hm. destruct Hm as [_ [[Hm|Hm] _]]; congruence.
  - rewrite Hy in H.
    assert (X : (if 13 <=? version (set_lineno s (lineno s + 1))
                 then Continue (set_st (set_lineno s (lineno s + 1)) Main) []
                 else Continue (set_st (set_lineno s (lineno s + 1)) Main) [])
                = Continue (set_st (set_lineno s (lineno s + 1)) Main) [])
      by (destruct (13 <=? version (set_lineno s (lineno s + 1))); reflexivity).
    rewrite X in H. clear X.
    destruct (main_line (set_st (set_lineno s (lineno s + 1)) Main) l) as [[s2 e2]|c] eqn:Hm; cbn [bind] in H; [|discriminate].
    inversion H; subst. exists (set_st (set_lineno s (lineno s + 1)) Main). repeat split; auto.
    apply main_line_frame in Hm. simpl in Hm. destruct Hm as [_ [[Hm|Hm] _]]; congruence.
Qed.

Lemma run_lines_app a : forall b s s' e,
  run_lines s (a ++ b) = Ok (s', e) ->
  exists s1 e1 e2, run_lines s a = Ok (s1, e1) /\ run_lines s1 b = Ok (s', e2) /\ e = e1 ++ e2.
Proof.
  induction a as [|l a IH]; intros b s s' e H.
  - exists s, [], e. auto.
  - simpl in H. destruct (parse_line s l) as [[s1 e1]|c] eqn:H1; cbn [bind] in H; [|discriminate].
    destruct (run_lines s1 (a ++ b)) as [[s2 e2]|c] eqn:H2; cbn [bind] in H; [|discriminate].
    inversion H; subst. destruct (IH _ _ _ _ H2) as [s3 [e3 [e4 [R1 [R2 ->]]]]].
    exists s3, (e1 ++ e3), e4. simpl. rewrite H1. cbn [bind]. rewrite R1. cbn [bind].
    rewrite app_assoc. auto.
Qed.

Lemma run_lines_no_yaml lines : forall s s' e,
  no_yaml lines -> st s <> Yaml -> run_lines s lines = Ok (s', e) ->
  st s' <> Yaml /\ lineno s' = lineno s + N.of_nat (length lines) /\
  (cur_plan s <> None -> cur_plan s' = cur_plan s).
Proof.
  induction lines as [|l lines IH]; intros s s' e Hn Hs H.
  - simpl in H. inversion H; subst. simpl. repeat split; auto. lia.
  - simpl in H. destruct (parse_line s l) as [[s1 e1]|c] eqn:H1; cbn [bind] in H; [|discriminate].
    destruct (run_lines s1 lines) as [[s2 e2]|c] eqn:H2; cbn [bind] in H; [|discriminate].
    inversion H; subst.
    apply parse_line_no_yaml in H1; [|exact Hs|apply Hn; left; reflexivity].
    destruct H1 as [s0 [C [L [_ [Hm Hs1]]]]].
    pose proof (main_line_frame _ _ _ _ Hm) as [L1 [_ P1]].
    destruct (IH _ _ _ (fun x Hx => Hn x (or_intror Hx)) Hs1 H2) as [A [B C2]].
    split; [exact A|]. split.
    + rewrite B, L1, L. simpl length. lia.
    + intro Hp. assert (Hp0 : cur_plan s0 = cur_plan s) by (unfold ctr in C; inversion C; reflexivity).
      rewrite C2; rewrite P1; rewrite ?Hp0; auto.
Qed.

(* the line x of a YAML-free stream l1 ++ x :: l2 is processed by main_line *)
Lemma no_yaml_focus l1 x l2 s s' e :
  no_yaml (l1 ++ x :: l2) -> st s <> Yaml -> run_lines s (l1 ++ x :: l2) = Ok (s', e) ->
  exists sa ea s1 sb eb ec,
    run_lines s l1 = Ok (sa, ea) /\ ctr s1 = ctr sa /\
    lineno s1 = lineno s + N.of_nat (length l1) + 1 /\
    (cur_plan s <> None -> cur_plan s1 = cur_plan s) /\
    main_line s1 x = Ok (sb, eb) /\ st sb <> Yaml /\
    run_lines sb l2 = Ok (s', ec) /\ e = ea ++ eb ++ ec.
Proof.
  intros Hn Hs H. apply run_lines_app in H. destruct H as [sa [ea [e2 [Ra [Rb ->]]]]].
  assert (Hn1 : no_yaml l1) by (intros y Hy; apply Hn; apply in_or_app; left; exact Hy).
  assert (Hn2 : no_yaml l2) by (intros y Hy; apply Hn; apply in_or_app; right; right; exact Hy).
  destruct (run_lines_no_yaml _ _ _ _ Hn1 Hs Ra) as [Hsa [La Pa]].
  simpl in Rb. destruct (parse_line sa x) as [[sb eb]|c] eqn:H1; cbn [bind] in Rb; [|discriminate].
  destruct (run_lines sb l2) as [[sc ec]|c] eqn:H2; cbn [bind] in Rb; [|discriminate].
  inversion Rb; subst.
  apply parse_line_no_yaml in H1; [|exact Hsa|apply Hn; apply in_or_app; right; left; reflexivity].
  destruct H1 as [s1 [C [L [_ [Hm Hsb]]]]].
  exists sa, ea, s1, sb, eb, ec. repeat split; auto.
  - rewrite L, La. reflexivity.
  - intro Hp. assert (Hp0 : cur_plan s1 = cur_plan sa) by (unfold ctr in C; inversion C; reflexivity).
    rewrite Hp0. auto.
Qed.

Lemma parse_run lines evs : parse lines = Ok evs ->
  exists s e e2, run_lines init lines = Ok (s, e) /\ evs = e ++ e2.
Proof.
  intro H. apply parse_split in H. destruct H as [s [e [e2 [R [_ [-> _]]]]]]. eauto.
Qed.

(* ------------------------------------------------------------------ *)
(* YAML blocks and diagnostics                                         *)

Definition yaml_body_line (ind : str) (l : str) : Prop := yaml_end l = false /\ prefixb ind l = true.

Lemma yaml_body_run ind body : forall s,
  st s = Yaml -> yaml_indent s = ind -> Forall (yaml_body_line ind) body ->
  exists s', run_lines s body = Ok (s', []) /\ ctr s' = ctr s /\ st s' = Yaml /\ yaml_indent s' = ind /\
             version s' = version s /\ lineno s' = lineno s + N.of_nat (length body).
Proof.
  induction body as [|l body IH]; intros s Hs Hi Hb.
  - exists s. simpl. repeat split; auto. lia.
  - inversion Hb as [|? ? [He Hp] Hb']; subst.
    assert (H1 : parse_line s l = Ok (set_lineno s (lineno s + 1), [])).
    { unfold parse_line, pre_line. simpl st. rewrite Hs, He. simpl yaml_indent. rewrite Hp. reflexivity. }
    destruct (IH (set_lineno s (lineno s + 1))) as [s' [R [C [S [Y [V L]]]]]]; auto.
    exists s'. simpl run_lines. rewrite H1. cbn [bind]. rewrite R. cbn [bind].
    repeat split; auto. rewrite L. simpl. lia.
Qed.

(* a YAML block after a test (TAP 13) is ignored: no event, and the parser is left as it was
   before the block, in state _MAIN, only the line counter has advanced *)
Theorem yaml_block_ignored s l0 ind body lend :
  st s = AfterTest -> 13 <= version s -> yaml_start l0 = Some ind ->
  Forall (yaml_body_line ind) body -> yaml_end lend = true ->
  exists s', run_lines s (l0 :: body ++ [lend]) = Ok (s', []) /\
             ctr s' = ctr s /\ st s' = Main /\ version s' = version s /\
             lineno s' = lineno s + N.of_nat (length body) + 2.
Proof.
  intros Hs Hv Hy Hb He.
  assert (H0 : parse_line s l0 = Ok (set_yaml (set_lineno s (lineno s + 1)) (lineno s + 1) ind, [])).
  { unfold parse_line, pre_line. simpl st. rewrite Hs. simpl version.
    apply N.leb_le in Hv. rewrite Hv, Hy. reflexivity. }
  destruct (yaml_body_run ind body (set_yaml (set_lineno s (lineno s + 1)) (lineno s + 1) ind))
    as [s1 [R [C [S [Y [V L]]]]]]; auto.
  assert (H2 : parse_line s1 lend = Ok (set_st (set_lineno s1 (lineno s1 + 1)) Main, [])).
  { unfold parse_line, pre_line. simpl st. rewrite S, He. reflexivity. }
  exists (set_st (set_lineno s1 (lineno s1 + 1)) Main).
  assert (R2 : run_lines s1 [lend] = Ok (set_st (set_lineno s1 (lineno s1 + 1)) Main, [])).
  { simpl. rewrite H2. reflexivity. }
  split.
  - simpl run_lines. rewrite H0. cbn [bind].
    assert (RA : run_lines (set_yaml (set_lineno s (lineno s + 1)) (lineno s + 1) ind) (body ++ [lend])
                 = Ok (set_st (set_lineno s1 (lineno s1 + 1)) Main, [])).
    { clear H0. revert R R2. generalize (set_yaml (set_lineno s (lineno s + 1)) (lineno s + 1) ind) as s0.
      clear. induction body as [|l body IH]; intros s0 R R2.
      - simpl in R. inversion R; subst. exact R2.
      - simpl in R. destruct (parse_line s0 l) as [[sa ea]|c] eqn:H1; cbn [bind] in R; [|discriminate].
        destruct (run_lines sa body) as [[sb eb]|c] eqn:H3; cbn [bind] in R; [|discriminate].
        inversion R; subst. apply app_eq_nil in H2. destruct H2 as [-> ->].
        simpl. rewrite H1. cbn [bind]. rewrite (IH sa H3 R2). reflexivity. }
    rewrite RA. reflexivity.
  - simpl. repeat split; auto. rewrite L. simpl. lia.
Qed.

(* a line that neither continues nor ends the block produces the "not terminated" error *)
Theorem yaml_block_broken s l s' e :
  st s = Yaml -> yaml_end l = false -> prefixb (yaml_indent s) l = false ->
  parse_line s l = Ok (s', e) -> exists e', e = EError KYaml :: e'.
Proof.
  intros Hs He Hp H. unfold parse_line, pre_line in H. simpl st in H. simpl yaml_indent in H.
  rewrite Hs, He, Hp in H.
  destruct (main_line (set_st (set_lineno s (lineno s + 1)) Main) l) as [[s2 e2]|c]; cbn [bind] in H; [|discriminate].
  inversion H. eauto.
Qed.

(* after a test, a line that does not open a YAML block is treated exactly as in state _MAIN *)
Theorem after_test_is_main s l :
  st s = AfterTest -> (yaml_start l = None \/ version s < 13) ->
  parse_line s l = parse_line (set_st s Main) l.
Proof.
  intros Hs H. unfold parse_line, pre_line. simpl st. rewrite Hs. simpl version.
  destruct H as [H|H].
  - rewrite H. destruct (13 <=? version s); reflexivity.
  - apply N.leb_gt in H. rewrite H. reflexivity.
Qed.

(* diagnostics and blank lines outside a YAML block are ignored *)
Theorem diagnostic_ignored s l s' e :
  st s <> Yaml -> yaml_start l = None -> line_class l = None ->
  parse_line s l = Ok (s', e) -> e = [] /\ ctr s' = ctr s /\ version s' = version s.
Proof.
  intros Hs Hy Hc H. apply parse_line_no_yaml in H; auto.
  destruct H as [s1 [C [_ [V [Hm _]]]]]. apply main_line_spec in Hm. rewrite Hc in Hm.
  destruct Hm as [-> ->]. auto.
Qed.

(* ------------------------------------------------------------------ *)
(* Numbering: what the highest-number check does and does not detect   *)

(* the set of numbers seen (fix C18-numbering-undetected) *)
Definition InvS (acc : list event) (s : state) : Prop :=
  NoDup (seen_tests s) /\ forall n, In n (seen_tests s) <-> In n (numbers acc).

Lemma memb_In c l : memb c l = true <-> In c l.
Proof.
  induction l as [|x l IH]; simpl; [split; [discriminate|tauto]|].
  rewrite orb_true_iff, IH, N.eqb_eq. split; intros [H|H]; auto.
Qed.

Lemma InvS_ctr acc s s' : ctr s' = ctr s -> InvS acc s -> InvS acc s'.
Proof. unfold ctr, InvS. intros C H. inversion C as [[C1 C2 C3 C4 C5 C6 C7]]. rewrite C7. exact H. Qed.

Lemma InvS_quiet acc s x : quiet x -> InvS acc s -> InvS (acc ++ x) s.
Proof.
  unfold InvS. intros Q [A B]. split; [exact A|]. intro n. rewrite numbers_app.
  unfold numbers at 2. rewrite (quiet_tests _ Q). simpl. rewrite app_nil_r. apply B.
Qed.

Lemma InvS_notest acc s s' e : tests_of [e] = [] -> seen_tests s' = seen_tests s -> InvS acc s -> InvS (acc ++ [e]) s'.
Proof.
  unfold InvS. intros T E [A B]. rewrite E. split; [exact A|]. intro n. rewrite numbers_app.
  unfold numbers at 2. rewrite T. simpl. rewrite app_nil_r. apply B.
Qed.

Lemma main_invS acc s l s' e : InvS acc s -> main_line s l = Ok (s', e) -> InvS (acc ++ e) s'.
Proof.
  intros I H. apply main_line_spec in H.
  destruct (line_class l) as [[ok num name dir|ds dir|m|ds|]|].
  - destruct H as [n [_ [-> ->]]].
    destruct (test_events_shape s n ok name dir (num_big num)) as [errs [r [ex [-> [Q _]]]]].
    rewrite app_assoc. pose proof (InvS_quiet _ _ _ Q I) as [A B].
    assert (E : seen_tests (test_state s n) = add_seen n (seen_tests s))
      by (unfold test_state; destruct (late_now s); reflexivity).
    unfold InvS. rewrite E. unfold add_seen. split.
    + destruct (memb n (seen_tests s)) eqn:M; [exact A|].
      constructor; [|exact A]. intro Hin. apply memb_In in Hin. congruence.
    + intro k. rewrite numbers_app. unfold numbers at 2. simpl. rewrite in_app_iff. simpl.
      destruct (memb n (seen_tests s)) eqn:M.
      * apply memb_In in M. rewrite <- B. split; [auto|]. intros [H|[->|[]]]; auto.
      * simpl. rewrite B. tauto.
  - destruct (cur_plan s).
    + destruct H as [-> ->]. apply InvS_quiet; [reflexivity|exact I].
    + destruct (too_long ds); [destruct H as [-> ->]; apply InvS_quiet; [reflexivity|exact I]|].
      destruct H as [p [errs [-> [-> [_ [_ [Q _]]]]]]]. rewrite app_assoc.
      apply (InvS_notest _ s); [reflexivity|reflexivity|]. apply InvS_quiet; assumption.
  - destruct H as [-> ->]. apply (InvS_notest _ s); [reflexivity|reflexivity|exact I].
  - destruct (negb (lineno s =? 1)).
    + destruct H as [-> ->]. apply InvS_quiet; [reflexivity|exact I].
    + destruct (too_long ds); [destruct H as [-> ->]; apply InvS_quiet; [reflexivity|exact I]|].
      destruct H as [-> ->]. destruct (digits_val ds <? 13); apply (InvS_notest _ s); try reflexivity; exact I.
  - destruct H as [-> ->]. apply (InvS_notest _ s); [reflexivity|reflexivity|exact I].
  - destruct H as [-> ->]. rewrite app_nil_r. exact I.
Qed.

Lemma step_invS acc s l s' e : InvS acc s -> parse_line s l = Ok (s', e) -> InvS (acc ++ e) s'.
Proof.
  intros I H. apply parse_line_spec in H.
  destruct H as [[Hp ->]|[s1 [pre [e' [Hp [Hm ->]]]]]].
  - rewrite app_nil_r. pose proof (pre_line_facts (set_lineno s (lineno s + 1)) l) as F.
    rewrite Hp in F. destruct F as [F _]. apply (InvS_ctr _ s); [rewrite F; reflexivity|exact I].
  - pose proof (pre_line_facts (set_lineno s (lineno s + 1)) l) as F.
    rewrite Hp in F. destruct F as [F [_ [_ [_ Fp]]]].
    rewrite app_assoc. apply (main_invS _ s1 l); [|exact Hm].
    apply (InvS_ctr _ s); [rewrite F; reflexivity|].
    apply InvS_quiet; [|exact I]. destruct Fp as [->|[-> _]]; reflexivity.
Qed.

Lemma run_lines_invS lines : forall acc s s' e,
  InvS acc s -> run_lines s lines = Ok (s', e) -> InvS (acc ++ e) s'.
Proof.
  induction lines as [|l lines IH]; intros acc s s' e I H; simpl in H.
  - inversion H; subst. rewrite app_nil_r. exact I.
  - destruct (parse_line s l) as [[s1 e1]|c] eqn:H1; cbn [bind] in H; [|discriminate].
    destruct (run_lines s1 lines) as [[s2 e2]|c] eqn:H2; cbn [bind] in H; [|discriminate].
    inversion H; subst. rewrite app_assoc. eapply IH; [|exact H2].
    eapply step_invS; eassumption.
Qed.

Fixpoint iota (a : N) (k : nat) : list N :=
  match k with O => [] | S k' => a :: iota (a + 1) k' end.
Lemma iota_length a k : length (iota a k) = k.
Proof. revert a; induction k as [|k IH]; intro a; simpl; [reflexivity|]. rewrite IH. reflexivity. Qed.
Lemma iota_In a k n : a <= n -> n < a + N.of_nat k -> In n (iota a k).
Proof.
  revert a; induction k as [|k IH]; intros a H1 H2; simpl; [lia|].
  destruct (N.eq_dec a n) as [->|E]; [left; reflexivity|]. right. apply IH; lia.
Qed.

(* "duplicate or missing numbers" (with the fix): whenever the numbers of the subtests are not
   exactly 1..k in some order, an error/bail-out event is produced — for every stream *)
Theorem numbering_full lines evs :
  parse lines = Ok evs ->
  ~ Permutation (numbers evs) (iota 1 (length (numbers evs))) -> faulty evs = true.
Proof.
  intros H Hnp. destruct (faulty evs) eqn:Fy; [reflexivity|exfalso]. apply Hnp. clear Hnp.
  assert (Hmax : maxnum evs = count_tests evs).
  { destruct (N.eq_dec (maxnum evs) (count_tests evs)) as [E|E]; [exact E|].
    rewrite (numbering_partial _ _ H E) in Fy. discriminate. }
  apply parse_split in H. destruct H as [s [e [e2 [R [He [-> I]]]]]].
  pose proof (run_lines_invS lines [] init s e) as IS. simpl in IS.
  destruct IS as [ND SB]; [split; [constructor|intro n; simpl; tauto]|exact R|].
  pose proof (eof_spec _ _ He) as [Q [_ [_ Hnum]]].
  assert (Hnb : numbering_bad s = false).
  { destruct (numbering_bad s) eqn:NB; [|reflexivity].
    unfold faulty in Fy. rewrite has_error_app, has_bail_app in Fy.
    destruct (has_bail e) eqn:Hb; [rewrite orb_true_r in Fy; destruct (has_error e || has_error e2); discriminate|].
    rewrite (Hnum (eq_trans (inv_bail _ _ I) Hb) eq_refl) in Fy. rewrite orb_true_r in Fy. discriminate. }
  unfold numbering_bad in Hnb. apply orb_false_iff in Hnb. destruct Hnb as [Hnb H0].
  apply orb_false_iff in Hnb. destruct Hnb as [_ Hlen].
  apply negb_false_iff in Hlen. apply N.eqb_eq in Hlen.
  assert (EN : numbers (e ++ e2) = numbers e).
  { rewrite numbers_app. unfold numbers at 2. rewrite (quiet_tests _ Q). apply app_nil_r. }
  rewrite EN. rewrite maxnum_app, (quiet_maxnum _ Q), N.max_0_r in Hmax.
  assert (CT : count_tests (e ++ e2) = N.of_nat (length (numbers e))).
  { rewrite count_tests_app, (quiet_count _ Q). unfold count_tests, numbers. rewrite map_length. lia. }
  assert (LEN : length (seen_tests s) = length (numbers e)).
  { rewrite (inv_count _ _ I) in Hlen. unfold count_tests, numbers in *. rewrite map_length. lia. }
  assert (NDn : NoDup (numbers e)).
  { apply (@NoDup_incl_NoDup N (seen_tests s)); [exact ND|lia|]. intros n Hn. apply SB. exact Hn. }
  apply NoDup_Permutation_bis; [exact NDn|rewrite iota_length; lia|].
  intros n Hn. apply iota_In.
  - destruct (N.eq_dec n 0) as [->|E]; [|lia].
    apply SB in Hn. apply memb_In in Hn. congruence.
  - apply In_le_fold_max in Hn. change (fold_right N.max 0 (numbers e)) with (maxnum e) in Hn.
    rewrite CT in Hmax. lia.
Qed.

(* numbers given in increasing order, starting at a or above *)
Fixpoint incr_from (a : N) (l : list N) : Prop :=
  match l with [] => True | x :: r => a <= x /\ incr_from (x + 1) r end.
Lemma incr_lower l : forall a, incr_from a l -> l <> [] ->
  a + N.of_nat (length l) <= fold_right N.max 0 l + 1.
Proof.
  induction l as [|x r IH]; intros a H Hne; [congruence|].
  destruct H as [H1 H2]. destruct r as [|y r'].
  - simpl. lia.
  - specialize (IH (x + 1) H2). simpl length in *. simpl fold_right in *.
    assert (y :: r' <> []) by discriminate. specialize (IH H). lia.
Qed.

Lemma incr_exact l : forall a, incr_from a l ->
  fold_right N.max 0 l + 1 <= a + N.of_nat (length l) -> l = iota a (length l).
Proof.
  induction l as [|x r IH]; intros a H Hb; [reflexivity|].
  destruct H as [H1 H2]. simpl length. simpl iota.
  assert (x = a).
  { destruct r as [|y r'].
    - simpl in Hb. lia.
    - pose proof (incr_lower (y :: r') (x + 1) H2) as L.
      assert (y :: r' <> []) by discriminate. specialize (L H).
      simpl length in *. simpl fold_right in *. lia. }
  subst x. f_equal. apply IH; [exact H2|].
  simpl length in Hb. simpl fold_right in Hb. lia.
Qed.

(* when the numbers come in increasing order from 1 or above (what TAP producers do), every
   gap is detected *)
Theorem numbering_increasing lines evs :
  parse lines = Ok evs -> incr_from 1 (numbers evs) ->
  numbers evs <> iota 1 (length (numbers evs)) -> faulty evs = true.
Proof.
  intros H Hi Hne. apply (numbering_partial lines); [exact H|].
  intro E. apply Hne. apply incr_exact; [exact Hi|].
  unfold maxnum in E. rewrite E. unfold count_tests, numbers. rewrite map_length. lia.
Qed.

Lemma results_sane evs : Forall event_sane evs -> existsb is_bad (results evs) = existsb bad_subtest (results evs).
Proof.
  unfold results. induction evs as [|e evs IH]; intro H; [reflexivity|].
  inversion H as [|? ? He Hr]; subst. specialize (IH Hr).
  destruct e; simpl in *; auto. destruct He as [_ ->]. rewrite IH. reflexivity.
Qed.

Theorem verdict_bad_subtests lines evs rc :
  parse lines = Ok evs ->
  is_bad (verdict rc false evs) = existsb bad_subtest (results evs) || faulty evs || negb (Z.eqb rc 0).
Proof.
  intro H. rewrite verdict_bad. rewrite (results_sane _ (events_sane _ _ H)). reflexivity.
Qed.

(* ------------------------------------------------------------------ *)
(* The verdict for both values of should_fail: which event decides      *)

(* the local variable res of TestRunTAP.parse after the loop: decided by the LAST event that is an
   Error/Bailout (ERROR) or a failing/unexpectedly passing subtest (FAIL) *)
Fixpoint last_res (evs : list event) : option tres :=
  match evs with
  | [] => None
  | e :: r =>
      match last_res r with
      | Some x => Some x
      | None => match e with
                | EError _ | EBail _ => Some ERROR
                | ETest _ _ t _ => if is_bad t then Some FAIL else None
                | _ => None
                end
      end
  end.

Lemma fold_event_last evs : forall r0 l0,
  fold_left fold_event evs (r0, l0) =
  (match last_res evs with Some x => Some x | None => r0 end, l0 ++ results evs).
Proof.
  induction evs as [|e evs IH]; intros r0 l0.
  - simpl. rewrite app_nil_r. reflexivity.
  - destruct e as [n nm t ex|k|p|m|v|m ln]; simpl fold_left; rewrite IH; simpl last_res;
      destruct (last_res evs); try reflexivity;
      try (change (results (ETest n nm t ex :: evs)) with (t :: results evs); rewrite <- app_assoc; simpl);
      try reflexivity.
    destruct (is_bad t); reflexivity.
Qed.

Definition all_skipped (evs : list event) : bool := forallb (fun r => tres_eqb r SKIP) (results evs).

Lemma last_res_cases evs r : last_res evs = Some r -> r = ERROR \/ r = FAIL.
Proof.
  revert r. induction evs as [|e evs IH]; intro r; simpl; [discriminate|].
  destruct (last_res evs) as [x|]; [intro H; inversion H; subst; apply IH; reflexivity|].
  destruct e as [n nm t ex|k|p|m|v|m ln]; try discriminate.
  - destruct (is_bad t); [intro H; inversion H; auto|discriminate].
  - intro H; inversion H; auto.
  - intro H; inversion H; auto.
Qed.

Lemma last_res_fail_not_all_skipped evs : last_res evs = Some FAIL -> all_skipped evs = false.
Proof.
  unfold all_skipped, results. induction evs as [|e evs IH]; simpl; [discriminate|].
  destruct (last_res evs) as [x|] eqn:L.
  - intro H. inversion H; subst. specialize (IH eq_refl).
    destruct e; simpl; auto. rewrite IH. apply andb_false_r.
  - destruct e as [n nm t ex|k|p|m|v|m ln]; try discriminate.
    destruct (is_bad t) eqn:B; [|discriminate]. intros _. simpl.
    destruct t; try discriminate; reflexivity.
Qed.

(* the result TestRunTAP reports, in closed form, for should_fail false and true *)
Theorem verdict_closed_form rc xf evs :
  verdict rc xf evs =
  match last_res evs with
  | Some ERROR => ERROR
  | Some _ => if xf then EXPECTEDFAIL else FAIL     (* a subtest failed after the last error *)
  | None =>
      if all_skipped evs then (if negb (Z.eqb rc 0) then ERROR else SKIP)
      else if negb (Z.eqb rc 0) then ERROR else if xf then UNEXPECTEDPASS else OK
  end.
Proof.
  unfold verdict, tap_parse. rewrite fold_event_last. simpl app.
  destruct (last_res evs) as [r|] eqn:E.
  - destruct (last_res_cases _ _ E) as [-> | ->].
    + destruct (forallb (fun r => tres_eqb r SKIP) (results evs)); unfold complete; simpl;
        rewrite andb_false_r; destruct xf; reflexivity.
    + pose proof (last_res_fail_not_all_skipped _ E) as A. unfold all_skipped in A. rewrite A.
      unfold complete. simpl. rewrite andb_false_r. destruct xf; reflexivity.
  - unfold all_skipped. destruct (forallb (fun r => tres_eqb r SKIP) (results evs)); unfold complete; simpl;
      destruct (Z.eqb rc 0); simpl; destruct xf; reflexivity.
Qed.

(* a test marked should_fail: bad iff the last deciding event is an error/bail-out, or no subtest
   failed and the run is not an all-skip with exit status 0 *)
Theorem verdict_should_fail evs rc :
  is_bad (verdict rc true evs) =
  match last_res evs with
  | Some ERROR => true
  | Some _ => false
  | None => negb (Z.eqb rc 0) || negb (all_skipped evs)
  end.
Proof.
  rewrite verdict_closed_form.
  destruct (last_res evs) as [r|] eqn:E.
  - destruct (last_res_cases _ _ E) as [-> | ->]; reflexivity.
  - destruct (all_skipped evs); destruct (Z.eqb rc 0); reflexivity.
Qed.

(* ------------------------------------------------------------------ *)
(* The whole TAP run (parser + TestRunTAP) and the conversion limit     *)

Lemma verdict_raises_small evs : maxnum evs < str_limit -> verdict_raises evs = false.
Proof.
  unfold verdict_raises, maxnum, numbers. induction evs as [|e evs IH]; simpl; intro H; [reflexivity|].
  destruct e as [n nm t ex|k|p|m|v|m ln]; simpl in *; auto.
  rewrite IH by lia. unfold py_str_ok.
  replace (n <? str_limit) with true by (symmetry; apply N.ltb_lt; lia).
  simpl. rewrite andb_false_r. reflexivity.
Qed.

Theorem run_verdict_total lines rc xf :
  few_lines lines -> exists r, run_verdict rc xf lines = Ok r.
Proof.
  intro H. apply few_lines_Lim in H.
  pose proof Lim_pos as Lim0.
  destruct (run_lines_total lines init 0) as [s [e [Hr Hh]]]; [simpl; lia|simpl; lia|].
  assert (Hs : highest_test s < str_limit) by (rewrite str_limit_Lim; unfold str in *; lia).
  destruct (eof_total s Hs) as [e2 He].
  pose proof (run_lines_inv lines [] init s e Inv_init Hr) as I. simpl in I.
  pose proof (eof_spec _ _ He) as [Q _].
  unfold run_verdict, parse. rewrite Hr. cbn [bind]. rewrite He. cbn [bind].
  rewrite verdict_raises_small; [eauto|].
  rewrite maxnum_app, (quiet_maxnum _ Q), N.max_0_r, <- (inv_high _ _ I). exact Hs.
Qed.
