(* Tap/Render.v — line round trip: the scanners of Tap/Lines.v read a test line written in the
   usual layout back as what was written (C18). *)
From MV Require Import Base.Strs Base.LexFacts Tap.Lines Tap.Machine Tap.Verdict Tap.Spec Tap.Proofs.
From Coq Require Import Lia.
Open Scope N_scope.

Lemma span_app_stop p a c r : forallb p a = true -> p c = false -> span p (a ++ c :: r) = (a, c :: r).
Proof.
  induction a as [|x a IH]; simpl; intros Ha Hc.
  - rewrite Hc. reflexivity.
  - apply andb_true_iff in Ha. destruct Ha as [Hx Ha]. rewrite Hx, (IH Ha Hc). reflexivity.
Qed.
Lemma span_all p a : forallb p a = true -> span p a = (a, []).
Proof.
  induction a as [|x a IH]; simpl; intros Ha; [reflexivity|].
  apply andb_true_iff in Ha. destruct Ha as [Hx Ha]. rewrite Hx, (IH Ha). reflexivity.
Qed.
Lemma lstrip_nonblank s : starts_nonblank s = true -> lstrip s = s.
Proof. destruct s as [|c s]; simpl; [reflexivity|]. intro H. apply negb_true_iff in H. rewrite H. reflexivity. Qed.
Lemma rstrip_snoc_space a : rstrip (a ++ [32]) = rstrip a.
Proof. unfold rstrip. rewrite rev_app_distr. reflexivity. Qed.
Lemma dotstar_no_lf s : no_lf s = true -> dotstar s = s.
Proof. intro H. unfold dotstar. rewrite (span_all _ _ H). reflexivity. Qed.

Lemma strip_snoc_space a : strip (a ++ [32]) = strip a.
Proof.
  unfold strip.
  assert (G : forall s, lstrip (s ++ [32]) = lstrip s ++ [32] \/ (lstrip (s ++ [32]) = [] /\ lstrip s = [])).
  { induction s as [|x s IH]; simpl; [right; auto|]. destruct (is_space x); [exact IH|left; reflexivity]. }
  destruct (G a) as [->|[-> ->]]; [apply rstrip_snoc_space|reflexivity].
Qed.

(* the directive part " # WORD[ explanation]" *)
Lemma directive_render d uc expl :
  no_lf expl = true -> starts_nonblank expl = true ->
  directive (s2l "# " ++ dir_word d uc ++ (match expl with [] => [] | _ => 32 :: expl end))
  = Some (dir_word d uc, expl).
Proof.
  intros Hl Hs. rewrite <- (dotstar_no_lf _ Hl) at 2.
  destruct expl as [|c expl].
  - destruct d, uc; reflexivity.
  - assert (Hc : is_space c = false) by (simpl in Hs; apply negb_true_iff in Hs; exact Hs).
    destruct d, uc; unfold directive, dir_skip, dir_todo; simpl; rewrite ?Hc; reflexivity.
Qed.

Definition num_text_ok (num : option str) : Prop :=
  match num with Some ds => all_digits ds = true /\ ds <> [] | None => True end.

(* what is written after "ok " / "not ok " *)
Definition test_tail (num : option str) (name : str) (dir : option (dkind * bool * str)) : str :=
  (match num with Some ds => ds ++ [32] | None => [] end) ++ name ++
  (match dir with
   | Some (d, uc, expl) => s2l " # " ++ dir_word d uc ++ (match expl with [] => [] | _ => 32 :: expl end)
   | None => []
   end).

Definition dir_text_ok (dir : option (dkind * bool * str)) : Prop :=
  match dir with Some (_, _, expl) => no_lf expl = true /\ starts_nonblank expl = true | None => True end.
Definition dir_groups (dir : option (dkind * bool * str)) : option (str * str) :=
  match dir with Some (d, uc, expl) => Some (dir_word d uc, expl) | None => None end.

Lemma name_dir_scan name dir :
  no_hash name = true -> dir_text_ok dir ->
  exists name', strip name' = strip name /\
    (let '(nm, r3) := span not_hash (name ++ match dir with
         | Some (d, uc, expl) => s2l " # " ++ dir_word d uc ++ (match expl with [] => [] | _ => 32 :: expl end)
         | None => [] end) in (nm, directive r3)) = (name', dir_groups dir).
Proof.
  intros Hn Hd. destruct dir as [[[d uc] expl]|].
  - destruct Hd as [Hl Hs].
    change (s2l " # " ++ dir_word d uc ++ match expl with [] => [] | _ :: _ => 32 :: expl end)
      with ([32] ++ 35 :: (32 :: dir_word d uc ++ match expl with [] => [] | _ :: _ => 32 :: expl end)).
    rewrite app_assoc. rewrite span_app_stop.
    + exists (name ++ [32]). split.
      * apply strip_snoc_space.
      * simpl dir_groups. f_equal. apply (directive_render d uc expl Hl Hs).
    + rewrite forallb_app. apply andb_true_iff. split; [exact Hn|reflexivity].
    + reflexivity.
  - rewrite app_nil_r. exists name. split; [reflexivity|]. rewrite (span_all _ _ Hn). reflexivity.
Qed.

Lemma digit_not_space c : is_digit c = true -> is_space c = false.
Proof.
  unfold is_digit. intro Hc. apply andb_true_iff in Hc. destruct Hc as [H1 H2]. apply N.leb_le in H1, H2.
  unfold is_space.
  repeat (apply orb_false_iff; split); try (apply andb_false_iff; left; apply N.leb_gt; lia);
    try (apply N.eqb_neq; lia); try (apply andb_false_iff; right; apply N.leb_gt; lia).
Qed.

(* a name as TAP producers write it: not empty, no '#', does not begin with a blank or a digit *)
Definition name_ok (name : str) : Prop := name <> [] /\ starts_plain name = true /\ no_hash name = true.

Lemma test_body_render ok num name dir :
  num_text_ok num -> name_ok name -> dir_text_ok dir ->
  exists name', strip name' = strip name /\
    test_body ok (32 :: test_tail num name dir) = LTest ok num name' (dir_groups dir).
Proof.
  intros Hnum [Hne [Hp Hn]] Hd. unfold test_body, test_tail.
  set (tail := match dir with
         | Some (d, uc, expl) => s2l " # " ++ dir_word d uc ++ (match expl with [] => [] | _ => 32 :: expl end)
         | None => [] end).
  destruct (name_dir_scan name dir Hn Hd) as [name' [Hs Hscan]]. fold tail in Hscan.
  assert (Hnb : lstrip (name ++ tail) = name ++ tail /\ span is_digit (name ++ tail) = ([], name ++ tail)).
  { destruct name as [|c name]; [congruence|]. simpl in Hp. apply andb_true_iff in Hp. destruct Hp as [Hc1 Hc2].
    apply negb_true_iff in Hc1, Hc2. simpl. rewrite Hc1, Hc2. auto. }
  destruct Hnb as [Hnb Hnd].
  exists name'. split; [exact Hs|].
  change (lstrip (32 :: ?x)) with (lstrip x).
  destruct num as [ds|].
  - destruct Hnum as [Hds Hne2]. destruct ds as [|d ds]; [congruence|].
    assert (Hd0 : is_space d = false).
    { simpl in Hds. apply andb_true_iff in Hds. destruct Hds as [Hd0 _]. apply digit_not_space. exact Hd0. }
    assert (E1 : lstrip (((d :: ds) ++ [32]) ++ name ++ tail) = (d :: ds) ++ 32 :: name ++ tail).
    { rewrite <- app_assoc. simpl. rewrite Hd0. reflexivity. }
    rewrite E1. rewrite span_app_stop; [|exact Hds|reflexivity].
    change (lstrip (32 :: name ++ tail)) with (lstrip (name ++ tail)). rewrite Hnb.
    destruct (span not_hash (name ++ tail)) as [nm r3]. inversion Hscan; subst. reflexivity.
  - change ([] ++ name ++ tail) with (name ++ tail). rewrite Hnb, Hnd.
    destruct (span not_hash (name ++ tail)) as [nm r3]. inversion Hscan; subst. reflexivity.
Qed.

(* round trip of a test line *)
Theorem classify_render_test ok num name dir :
  num_text_ok num -> name_ok name -> dir_text_ok dir ->
  exists name', strip name' = strip name /\
    classify (render_test ok num name dir) = LTest ok num name' (dir_groups dir).
Proof.
  intros Hnum Hname Hd.
  destruct (test_body_render ok num name dir Hnum Hname Hd) as [name' [Hs Hb]].
  exists name'. split; [exact Hs|].
  assert (E : render_test ok num name dir
              = (if ok then s2l "ok" else s2l "not ok") ++ 32 :: test_tail num name dir).
  { unfold render_test, test_tail. destruct dir as [[[d uc] expl]|]; reflexivity. }
  rewrite E. unfold classify, re_test. destruct ok.
  - change (prefixb (s2l "not ok") (s2l "ok" ++ 32 :: test_tail num name dir)) with false.
    change (prefixb (s2l "ok") (s2l "ok" ++ 32 :: test_tail num name dir)) with true.
    cbv iota. change (drop 2 (s2l "ok" ++ 32 :: test_tail num name dir)) with (32 :: test_tail num name dir).
    rewrite Hb. reflexivity.
  - change (prefixb (s2l "not ok") (s2l "not ok" ++ 32 :: test_tail num name dir)) with true.
    cbv iota. change (drop 6 (s2l "not ok" ++ 32 :: test_tail num name dir)) with (32 :: test_tail num name dir).
    rewrite Hb. reflexivity.
Qed.

(* ... and the subtest it yields: the number written (or the previous one + 1), the name, the
   status of the directive table, the explanation *)
Theorem render_test_subtest s ok num name dir s' e :
  num_text_ok num -> name_ok name -> dir_text_ok dir ->
  let l := render_test ok num name dir in
  rstrip l = l ->
  main_line s l = Ok (s', e) ->
  tests_of e = [(line_number (last_test s) num,
                 strip name,
                 spec_status ok (match dir with Some (d, _, _) => Some d | None => None end),
                 match dir with Some (_, _, expl) => if nonempty expl then Some (strip expl) else None | None => None end)].
Proof.
  intros Hnum Hname Hd l Hr H.
  destruct (classify_render_test ok num name dir Hnum Hname Hd) as [name' [Hs Hc]].
  fold l in Hc.
  pose proof (test_line_subtest _ _ _ _ H) as T.
  assert (LC : line_class l = Some (LTest ok num name' (dir_groups dir))).
  { unfold line_class. rewrite Hr, Hc.
    replace (negb (nonempty l) || prefixb [35] l) with false; [reflexivity|].
    unfold l, render_test. destruct ok; reflexivity. }
  rewrite LC in T. destruct T as [T _]. rewrite T, Hs. f_equal. f_equal; [f_equal|].
  - destruct dir as [[[d uc] expl]|]; [|reflexivity]. destruct d, uc; reflexivity.
  - destruct dir as [[[d uc] expl]|]; reflexivity.
Qed.

(* round trips of the other line forms *)
Definition render_plan (ds : str) (dir : option (dkind * bool * str)) : str :=
  s2l "1.." ++ ds ++
  (match dir with
   | Some (d, uc, expl) => s2l " # " ++ dir_word d uc ++ (match expl with [] => [] | _ => 32 :: expl end)
   | None => []
   end).

Lemma directive_space x : directive (32 :: x) = directive x.
Proof. reflexivity. Qed.

Theorem classify_render_plan ds dir :
  all_digits ds = true -> ds <> [] -> dir_text_ok dir ->
  classify (render_plan ds dir) = LPlan ds (dir_groups dir).
Proof.
  intros Hds Hne Hd. unfold render_plan, classify.
  change (re_test (s2l "1.." ++ ?x)) with (@None lclass). cbv iota.
  unfold re_plan. change (prefixb (s2l "1..") (s2l "1.." ++ ?x)) with true. cbv iota.
  change (drop 3 (s2l "1.." ++ ?x)) with x.
  destruct dir as [[[d uc] expl]|].
  - destruct Hd as [Hl Hs].
    change (s2l " # " ++ dir_word d uc ++ match expl with [] => [] | _ :: _ => 32 :: expl end)
      with (32 :: (s2l "# " ++ dir_word d uc ++ match expl with [] => [] | _ :: _ => 32 :: expl end)).
    rewrite span_app_stop; [|exact Hds|reflexivity].
    destruct ds as [|c ds]; [congruence|].
    rewrite directive_space, (directive_render d uc expl Hl Hs). reflexivity.
  - rewrite app_nil_r, (span_all _ _ Hds). destruct ds as [|c ds]; [congruence|]. reflexivity.
Qed.

Theorem classify_render_bail msg :
  no_lf msg = true -> starts_nonblank msg = true ->
  classify (s2l "Bail out! " ++ msg) = LBail msg.
Proof.
  intros Hl Hs. unfold classify.
  change (re_test (s2l "Bail out! " ++ msg)) with (@None lclass).
  change (re_plan (s2l "Bail out! " ++ msg)) with (@None lclass). cbv iota.
  unfold re_bailout. change (prefixb (s2l "Bail out!") (s2l "Bail out! " ++ msg)) with true. cbv iota.
  change (drop 9 (s2l "Bail out! " ++ msg)) with (32 :: msg).
  change (lstrip (32 :: msg)) with (lstrip msg).
  rewrite (lstrip_nonblank _ Hs), (dotstar_no_lf _ Hl). reflexivity.
Qed.

Theorem classify_render_version ds :
  all_digits ds = true -> ds <> [] ->
  classify (s2l "TAP version " ++ ds) = LVersion ds.
Proof.
  intros Hds Hne. unfold classify.
  change (re_test (s2l "TAP version " ++ ds)) with (@None lclass).
  change (re_plan (s2l "TAP version " ++ ds)) with (@None lclass).
  change (re_bailout (s2l "TAP version " ++ ds)) with (@None lclass). cbv iota.
  unfold re_version. change (prefixb (s2l "TAP version ") (s2l "TAP version " ++ ds)) with true. cbv iota.
  change (drop 12 (s2l "TAP version " ++ ds)) with ds.
  rewrite (span_all _ _ Hds). destruct ds as [|c ds]; [congruence|]. reflexivity.
Qed.

(* a diagnostic line is no TAP line at all *)
Lemma rstrip_keeps_first (t : str) (c : char) :
  is_space c = false -> exists r, rev (lstrip (t ++ [c])) = c :: r.
Proof.
  intro Hc. induction t as [|x t IH]; simpl.
  - rewrite Hc. exists []. reflexivity.
  - destruct (is_space x); [exact IH|].
    simpl. rewrite rev_app_distr. simpl. eauto.
Qed.

Theorem line_class_diag (text : str) : line_class (35 :: text) = None.
Proof.
  unfold line_class, rstrip. simpl rev.
  destruct (rstrip_keeps_first (rev text) 35 eq_refl) as [r Hr]. rewrite Hr. reflexivity.
Qed.
