(* Tap/Verdict.v — how a TAP test as a whole gets its result
   (mesonbuild/mtest.py:283-288 is_ok/is_bad, 1049-1061 TestRun._complete,
   1152-1157 TestRunTAP.complete, 1159-1198 TestRunTAP.parse).  No proofs. *)
From MV Require Export Tap.Machine.
Open Scope N_scope.

(* mtest.py:286-288 *)
Definition is_bad (r : tres) : bool :=
  match r with FAIL | TIMEOUT | INTERRUPT | UNEXPECTEDPASS | ERROR => true | _ => false end.

Definition tres_eqb (a b : tres) : bool :=
  match a, b with
  | PENDING, PENDING | RUNNING, RUNNING | OK, OK | TIMEOUT, TIMEOUT | INTERRUPT, INTERRUPT
  | SKIP, SKIP | FAIL, FAIL | EXPECTEDFAIL, EXPECTEDFAIL | UNEXPECTEDPASS, UNEXPECTEDPASS
  | ERROR, ERROR | IGNORED, IGNORED => true
  | _, _ => false
  end.

(* mtest.py:1164-1179: the loop over the parser's events; acc = (res, results) where
   res : option tres is the local variable and results the list self.results
   (only the result member of each Test is used afterwards). *)
Definition fold_event (acc : option tres * list tres) (e : event) : option tres * list tres :=
  let '(res, results) := acc in
  match e with
  | EVersion _ => (res, results)                                   (* :1165 *)
  | EBail _ => (Some ERROR, results)                               (* :1167-1168 *)
  | ETest _ _ r _ =>                                               (* :1170-1173 *)
      ((if is_bad r then Some FAIL else res), results ++ [r])
  | EUnknown _ _ => (res, results)                                 (* :1175 warnings only *)
  | EError _ => (Some ERROR, results)                              (* :1177-1179 *)
  | EPlan _ => (res, results)                                      (* no branch *)
  end.

(* TestRunTAP.parse: self_res is self.res when the parser is done (RUNNING unless
   the run was already marked TIMEOUT/INTERRUPT) *)
Definition tap_parse (self_res : tres) (evs : list event) : tres :=
  let '(res, results) := fold_left fold_event evs (None, []) in
  let res :=                                                       (* :1192-1195 *)
    if forallb (fun r => tres_eqb r SKIP) results then
      (match res with Some ERROR => res | _ => Some SKIP end)
    else res in
  match res with                                                   (* :1197-1198 *)
  | Some r => if tres_eqb self_res RUNNING then r else self_res
  | None => self_res
  end.

(* TestRunTAP.complete :1152-1157 followed by TestRun._complete :1049-1056
   (needs_parsing and interactive console never occur together with parsing:
   mtest.py:1650 parses only when not interactive) *)
Definition complete (returncode : Z) (expected_fail : bool) (self_res : tres) : tres :=
  let r := if negb (Z.eqb returncode 0) && negb (is_bad self_res) then ERROR else self_res in
  let r := if tres_eqb r RUNNING then OK else r in                 (* :1050-1051 *)
  if expected_fail then                                            (* :1055-1056 *)
    match r with OK => UNEXPECTEDPASS | FAIL => EXPECTEDFAIL | _ => r end
  else r.

(* mtest.py:1174: the loop logs every subtest as  i.name or f'subtest {i.number}' ; for an unnamed
   subtest the f-string formats the number, and str(int) raises ValueError beyond 4300 digits
   (the exception leaves TestRunTAP.parse: no result is reported at all) *)
Definition log_raises (e : event) : bool :=
  match e with
  | ETest n name _ _ => negb (nonempty name) && negb (py_str_ok n)
  | _ => false
  end.
Definition verdict_raises (evs : list event) : bool := existsb log_raises evs.

Definition verdict (returncode : Z) (expected_fail : bool) (evs : list event) : tres :=
  complete returncode expected_fail (tap_parse RUNNING evs).

(* the observable of a whole TAP test: a result, or the escaping exception *)
Definition run_verdict (returncode : Z) (expected_fail : bool) (lines : list str) : result tres :=
  bind (parse lines) (fun evs =>
  if verdict_raises evs then PyErr ValueError else Ok (verdict returncode expected_fail evs)).
