(* Tap/Spec.v — the vocabulary in which the property C18 is stated: what can be
   read off an event list, what a line "is" once blanks and diagnostics are set
   aside, the directive table of TAP, and the layout of well-formed lines.
   Definitions only. *)
From MV Require Export Tap.Machine Tap.Verdict.
Open Scope N_scope.

(* ---- reading an event list ------------------------------------------------ *)
Definition is_test (e : event) : bool := match e with ETest _ _ _ _ => true | _ => false end.
Definition is_error (e : event) : bool := match e with EError _ => true | _ => false end.
Definition is_bail (e : event) : bool := match e with EBail _ => true | _ => false end.
Definition is_plan (e : event) : bool := match e with EPlan _ => true | _ => false end.
Definition is_unknown (e : event) : bool := match e with EUnknown _ _ => true | _ => false end.

Definition has_test (evs : list event) : bool := existsb is_test evs.
Definition has_error (evs : list event) : bool := existsb is_error evs.
Definition has_bail (evs : list event) : bool := existsb is_bail evs.
(* "an error/bail-out event" *)
Definition faulty (evs : list event) : bool := has_error evs || has_bail evs.

(* the subtests, in order: (number, name, result, explanation) *)
Fixpoint tests_of (evs : list event) : list (N * str * tres * option str) :=
  match evs with
  | [] => []
  | ETest n name r ex :: t => (n, name, r, ex) :: tests_of t
  | _ :: t => tests_of t
  end.
Definition numbers (evs : list event) : list N := map (fun t => fst (fst (fst t))) (tests_of evs).
Definition results (evs : list event) : list tres := map (fun t => snd (fst t)) (tests_of evs).
Definition count_tests (evs : list event) : N := N.of_nat (length (tests_of evs)).
Definition maxnum (evs : list event) : N := fold_right N.max 0 (numbers evs).
Definition count_plans (evs : list event) : nat := length (filter is_plan evs).

(* "some subtest failed or unexpectedly passed" *)
Definition bad_subtest (r : tres) : bool :=
  match r with FAIL | UNEXPECTEDPASS => true | _ => false end.

(* ---- lines ------------------------------------------------------------------ *)
(* what a line is once it is looked at as TAP (mtest.py:425-429): None for blank
   lines and diagnostics *)
Definition line_class (l : str) : option lclass :=
  let r := rstrip l in
  if negb (nonempty r) || prefixb [35] r then None else Some (classify r).

(* the directive table of TAP 12/13 *)
Inductive dkind := DSkip | DTodo.
Definition spec_status (ok : bool) (d : option dkind) : tres :=
  match d, ok with
  | Some DSkip, true => SKIP
  | Some DTodo, true => UNEXPECTEDPASS
  | Some DTodo, false => EXPECTEDFAIL
  | _, true => OK
  | _, false => FAIL
  end.
(* the directive word as the regex delivers it *)
Definition dir_kind (word : str) : option dkind :=
  if prefixb (s2l "SKIP") (upper word) then Some DSkip
  else if str_eqb (upper word) (s2l "TODO") then Some DTodo else None.

Definition spec_explanation (dir : option (str * str)) : option str :=
  match dir with
  | Some (_, e) => if nonempty e then Some (strip e) else None
  | None => None
  end.

(* streams in which no line can open a YAML block *)
Definition no_yaml (lines : list str) : Prop := forall l, In l lines -> yaml_start l = None.

(* the only guard left on "the parser never raises" (with the fix C18-int-max-str-digits): the
   stream has fewer than 10^4299 lines, so that counting up from a 100-digit number cannot reach
   the 4300 digits str() refuses *)
Definition few_lines (lines : list str) : Prop := N.of_nat (length lines) < 10 ^ 4299.

(* the number a test line gets: the one written, or previous + 1 when none is written or the
   written one has more than 100 digits (then with an Error event) *)
Definition num_big (num : option str) : bool :=
  match num with Some ds => too_long ds | None => false end.
Definition line_number (last : N) (num : option str) : N :=
  match num with
  | Some ds => if too_long ds then last + 1 else digits_val ds
  | None => last + 1
  end.

(* ---- layout of lines a TAP producer writes ---------------------------------- *)
Definition all_digits (ds : str) : bool := forallb is_digit ds.
Definition no_hash (s : str) : bool := forallb not_hash s.
Definition no_lf (s : str) : bool := forallb not_lf s.
Definition starts_plain (s : str) : bool :=        (* does not begin with a blank or a digit *)
  match s with [] => true | c :: _ => negb (is_space c) && negb (is_digit c) end.
Definition starts_nonblank (s : str) : bool :=
  match s with [] => true | c :: _ => negb (is_space c) end.

Definition dir_word (d : dkind) (upper_case : bool) : str :=
  match d, upper_case with
  | DSkip, true => s2l "SKIP" | DSkip, false => s2l "skip"
  | DTodo, true => s2l "TODO" | DTodo, false => s2l "todo"
  end.

(* "ok 3 name # SKIP why" ; num as its digit string *)
Definition render_test (ok : bool) (num : option str) (name : str)
           (dir : option (dkind * bool * str)) : str :=
  (if ok then s2l "ok" else s2l "not ok") ++ [32] ++
  (match num with Some ds => ds ++ [32] | None => [] end) ++ name ++
  (match dir with
   | Some (d, uc, expl) => s2l " # " ++ dir_word d uc ++ (match expl with [] => [] | _ => 32 :: expl end)
   | None => []
   end).
