(* Tap/WellFormed.v — a well-formed TAP 12/13 stream is reported without any Error,
   Bailout or UnknownLine event (C18). *)
From MV Require Import Base.Strs Base.LexFacts Tap.Lines Tap.Machine Tap.Verdict Tap.Spec Tap.Proofs.
From Coq Require Import Lia.
Open Scope N_scope.

Definition clean_ev (e : event) : bool := negb (is_error e || is_bail e || is_unknown e).
Definition clean (evs : list event) : Prop := forallb clean_ev evs = true.

Lemma clean_app a b : clean a -> clean b -> clean (a ++ b).
Proof. unfold clean. intros. rewrite forallb_app, H, H0. reflexivity. Qed.

(* the number written on the k-th test line, if any, is k *)
Definition num_ok (num : option str) (k : N) : Prop :=
  match num with None => True | Some ds => digits_val ds = k /\ too_long ds = false end.
(* a plan carries no directive, or is the skip-all plan "1..0 # SKIP why" *)
Definition plan_dir_ok (n : N) (dir : option (str * str)) : Prop :=
  match dir with None => True | Some (w, _) => n = 0 /\ dir_kind w = Some DSkip end.

Definition silent (l : str) : Prop := line_class l = None /\ yaml_start l = None.

(* wf v13 k p lines: the rest of a well-formed stream after k tests; p = Some n when the plan
   1..n has been seen (before the first test).  v13: the stream began with "TAP version 13". *)
Inductive wf (v13 : bool) : N -> option N -> list str -> Prop :=
| wf_end_noplan k : wf v13 k None []
| wf_end_plan k : wf v13 k (Some k) []
| wf_silent k p l r : silent l -> wf v13 k p r -> wf v13 k p (l :: r)
| wf_test k p l r ok num name dir :
    line_class l = Some (LTest ok num name dir) -> yaml_start l = None -> num_ok num (k + 1) ->
    match p with Some n => k + 1 <= n | None => True end ->
    wf v13 (k + 1) p r -> wf v13 k p (l :: r)
| wf_test_yaml k p l r ok num name dir l0 ind body lend :
    v13 = true ->
    line_class l = Some (LTest ok num name dir) -> yaml_start l = None -> num_ok num (k + 1) ->
    match p with Some n => k + 1 <= n | None => True end ->
    yaml_start l0 = Some ind -> Forall (yaml_body_line ind) body -> yaml_end lend = true ->
    wf v13 (k + 1) p r -> wf v13 k p (l :: (l0 :: body ++ [lend]) ++ r)
| wf_plan_first l r ds dir :
    line_class l = Some (LPlan ds dir) -> yaml_start l = None -> too_long ds = false ->
    plan_dir_ok (digits_val ds) dir ->
    wf v13 0 (Some (digits_val ds)) r -> wf v13 0 None (l :: r)
| wf_plan_last k l r ds dir :
    line_class l = Some (LPlan ds dir) -> yaml_start l = None -> too_long ds = false ->
    plan_dir_ok (digits_val ds) dir -> digits_val ds = k ->
    Forall silent r -> wf v13 k None (l :: r).

(* the parser state after k tests of a well-formed stream *)
Record R (v13 : bool) (k : N) (p : option N) (s : state) : Prop := {
  r_num : num_tests s = k;
  r_last : last_test s = k;
  r_high : highest_test s = k;
  r_bail : bailed_out s = false;
  r_st : st s <> Yaml;
  r_ver : (13 <=? version s) = v13;
  r_seen : N.of_nat (length (seen_tests s)) = k /\ (forall n, In n (seen_tests s) -> 1 <= n <= k);
  r_plan : match p with
           | None => cur_plan s = None
           | Some n => exists pl, cur_plan s = Some pl /\ p_num pl = n
           end }.
(* no late plan so far *)
Definition NoLate (s : state) : Prop := forall pl, cur_plan s = Some pl -> p_late pl = false.
Lemma NoLate_ctr s s1 : ctr s1 = ctr s -> NoLate s -> NoLate s1.
Proof. unfold ctr, NoLate. intros C H pl Hp. inversion C as [[C1 C2 C3 C4 C5 C6 C7]]. apply H. congruence. Qed.

Lemma line_class_Some l c : line_class l = Some c ->
  (negb (nonempty (rstrip l)) || prefixb [35] (rstrip l)) = false /\ classify (rstrip l) = c.
Proof.
  unfold line_class. destruct (negb (nonempty (rstrip l)) || prefixb [35] (rstrip l)); [discriminate|].
  intro H. inversion H. auto.
Qed.

(* entering a line when no YAML block can start: parse_line = main_line after bookkeeping *)
Lemma parse_line_main s l :
  st s <> Yaml -> yaml_start l = None ->
  exists s1, ctr s1 = ctr s /\ version s1 = version s /\ st s1 = Main /\ lineno s1 = lineno s + 1 /\
             parse_line s l = bind (main_line s1 l) (fun '(s'', evs') => Ok (s'', [] ++ evs')).
Proof.
  intros Hs Hy. unfold parse_line, pre_line. simpl st.
  destruct (st s) eqn:E; [| |congruence].
  - exists (set_lineno s (lineno s + 1)). repeat split; auto.
  - rewrite Hy. exists (set_st (set_lineno s (lineno s + 1)) Main).
    destruct (13 <=? version (set_lineno s (lineno s + 1))); repeat split; auto.
Qed.

Lemma R_ctr v13 k p s s1 : ctr s1 = ctr s -> version s1 = version s -> st s1 <> Yaml -> R v13 k p s -> R v13 k p s1.
Proof.
  unfold ctr. intros C V S [A B C' D E F SN G]. inversion C as [[C1 C2 C3 C4 C5 C6 C7]].
  split; rewrite ?C1, ?C2, ?C3, ?C4, ?C5, ?C6, ?C7, ?V; auto.
Qed.

Lemma silent_step v13 k p s l : silent l -> R v13 k p s ->
  exists s', parse_line s l = Ok (s', []) /\ R v13 k p s' /\ ctr s' = ctr s.
Proof.
  intros [Hc Hy] HR. destruct (parse_line_main s l (r_st _ _ _ _ HR) Hy) as [s1 [C [V [S [_ ->]]]]].
  unfold main_line. unfold line_class in Hc.
  destruct (negb (nonempty (rstrip l)) || prefixb [35] (rstrip l)); [|discriminate].
  cbn [bind]. exists s1. split; [reflexivity|]. split; [|exact C]. apply (R_ctr _ _ _ s); auto. congruence.
Qed.

Lemma silent_run v13 k p r : Forall silent r -> forall s, R v13 k p s ->
  exists s', run_lines s r = Ok (s', []) /\ R v13 k p s'.
Proof.
  induction 1 as [|l r Hl Hr IH]; intros s HR.
  - exists s. auto.
  - destruct (silent_step _ _ _ _ _ Hl HR) as [s1 [H1 [R1 _]]].
    destruct (IH s1 R1) as [s2 [H2 R2]].
    exists s2. simpl. rewrite H1. cbn [bind]. rewrite H2. auto.
Qed.

Lemma test_step v13 k p s l ok num name dir :
  line_class l = Some (LTest ok num name dir) -> yaml_start l = None -> num_ok num (k + 1) ->
  match p with Some n => k + 1 <= n | None => True end ->
  R v13 k p s -> NoLate s ->
  exists s' e, parse_line s l = Ok (s', e) /\ clean e /\ R v13 (k + 1) p s' /\ st s' = AfterTest /\
               cur_plan s' = cur_plan s.
Proof.
  intros Hc Hy Hn Hp HR NL. pose proof (line_class_dir l) as V. rewrite Hc in V.
  destruct (parse_line_main s l (r_st _ _ _ _ HR) Hy) as [s1 [C [Ve [S [_ ->]]]]].
  assert (R1 : R v13 k p s1) by (apply (R_ctr _ _ _ s); auto; congruence).
  assert (NL1 : NoLate s1) by (apply (NoLate_ctr s); assumption).
  assert (CP : cur_plan s1 = cur_plan s) by (unfold ctr in C; inversion C; reflexivity).
  destruct R1 as [A B C' D E F SN G].
  apply line_class_Some in Hc. destruct Hc as [Hc1 Hc2].
  unfold main_line. rewrite Hc1, Hc2.
  assert (Hpre : (match cur_plan s1 with
            | Some p0 => if p_late p0 && negb (found_late_test s1) then (set_late s1 true, [EError KLate]) else (s1, [])
            | None => (s1, []) end) = (s1, [])).
  { destruct p as [n|]; [destruct G as [pl [G1 G2]]; rewrite G1, (NL1 pl G1); reflexivity|rewrite G; reflexivity]. }
  rewrite Hpre.
  assert (Hnum : (match num with None => Ok (last_test s1 + 1)
                  | Some ds => if too_long ds then Ok (last_test s1 + 1) else Ok (digits_val ds) end) = Ok (k + 1)).
  { destruct num as [ds|]; [destruct Hn as [Hn1 Hn2]; rewrite Hn2, Hn1; reflexivity|rewrite B; reflexivity]. }
  assert (Hbig : (if match num with Some ds => too_long ds | None => false end then [EError KBig] else []) = []).
  { destruct num as [ds|]; [destruct Hn as [_ Hn2]; rewrite Hn2|]; reflexivity. }
  rewrite Hnum, Hbig. cbn [bind]. rewrite (parse_test_spec _ _ _ _ V).
  assert (Hex : (match cur_plan (set_counts s1 (num_tests s1 + 1) (k + 1) (N.max (highest_test s1) (k + 1)) (add_seen (k + 1) (seen_tests s1))) with
                 | Some p0 => if p_num p0 <? k + 1 then [EError KExceeds] else []
                 | None => [] end) = []).
  { simpl cur_plan. destruct p as [n|]; [destruct G as [pl [G1 G2]]; rewrite G1, G2|rewrite G; reflexivity].
    replace (n <? k + 1) with false; [reflexivity|]. symmetry. apply N.ltb_ge. exact Hp. }
  rewrite Hex. eexists _, _. split; [reflexivity|]. split; [reflexivity|]. split; [|split; [reflexivity|exact CP]].
  destruct SN as [SN1 SN2].
  assert (M : memb (k + 1) (seen_tests s1) = false).
  { destruct (memb (k + 1) (seen_tests s1)) eqn:M; [|reflexivity]. apply memb_In in M. apply SN2 in M. lia. }
  split; simpl; auto; try lia; try discriminate.
  unfold add_seen. rewrite M. split; [simpl length; lia|].
  intros n0 [<-|Hn0]; [lia|apply SN2 in Hn0; lia].
Qed.

Lemma plan_step v13 k s l ds dir :
  line_class l = Some (LPlan ds dir) -> yaml_start l = None -> too_long ds = false ->
  plan_dir_ok (digits_val ds) dir -> R v13 k None s ->
  exists s' e pl, parse_line s l = Ok (s', e) /\ clean e /\ ctr s' = ctr (set_plan s (Some pl)) /\
                  version s' = version s /\ st s' <> Yaml /\
                  p_num pl = digits_val ds /\ p_late pl = (0 <? k).
Proof.
  intros Hc Hy Hl Hd HR.
  destruct (parse_line_main s l (r_st _ _ _ _ HR) Hy) as [s1 [C [Ve [S [_ ->]]]]].
  assert (R1 : R v13 k None s1) by (apply (R_ctr _ _ _ s); auto; congruence).
  destruct R1 as [A B C' D E F SN G]. simpl in G.
  apply line_class_Some in Hc. destruct Hc as [Hc1 Hc2].
  unfold main_line. rewrite Hc1, Hc2, G, Hl. cbn [bind].
  assert (Hdir : exists sk, (match dir with
            | Some (d, _) => if prefixb (s2l "SKIP") (upper d)
                             then (if 0 <? digits_val ds then [EError KPlanSkip] else [], true)
                             else ([EError KPlanDir], digits_val ds =? 0)
            | None => ([], digits_val ds =? 0) end) = (@nil event, sk)).
  { destruct dir as [[w x]|]; [|eauto]. destruct Hd as [Hd1 Hd2]. unfold dir_kind in Hd2.
    destruct (prefixb (s2l "SKIP") (upper w)).
    - rewrite Hd1. eauto.
    - destruct (str_eqb (upper w) (s2l "TODO")); discriminate. }
  destruct Hdir as [sk ->].
  eexists _, _, (mkplan (digits_val ds) (0 <? num_tests s1) sk (option_map snd dir)).
  split; [reflexivity|]. split; [reflexivity|].
  unfold ctr in *. inversion C as [[C1 C2 C3 C4 C5 C6 C7]]. simpl.
  split; [congruence|]. split; [exact Ve|]. split; [rewrite S; discriminate|]. split; [reflexivity|].
  rewrite A. reflexivity.
Qed.

Lemma eof_clean v13 k p s : R v13 k p s -> match p with Some n => n = k | None => True end -> eof s = Ok [].
Proof.
  intros [A B C D E F SN G] Hp. unfold eof. rewrite D.
  assert (Y : match st s with Yaml => [EError KYaml] | _ => [] end = []) by (destruct (st s); congruence).
  rewrite Y. destruct SN as [SN1 SN2].
  assert (NB : numbering_bad s = false).
  { unfold numbering_bad. rewrite A, C, SN1, N.eqb_refl. simpl.
    destruct (memb 0 (seen_tests s)) eqn:M; [|reflexivity]. apply memb_In in M. apply SN2 in M. lia. }
  rewrite NB, A.
  destruct p as [n|]; [destruct G as [pl [G1 G2]]; rewrite G1, G2, Hp, N.eqb_refl; reflexivity|rewrite G; reflexivity].
Qed.

Lemma run_lines_cons s l r :
  run_lines s (l :: r) = bind (parse_line s l) (fun '(s', e1) =>
                         bind (run_lines s' r) (fun '(s'', e2) => Ok (s'', e1 ++ e2))).
Proof. reflexivity. Qed.

Lemma run_block_then s1 blk r s2 s3 e3 :
  run_lines s1 blk = Ok (s2, []) -> run_lines s2 r = Ok (s3, e3) -> run_lines s1 (blk ++ r) = Ok (s3, e3).
Proof.
  revert s1. induction blk as [|b blk IHb]; intros s1 H2 H3.
  - simpl in H2. inversion H2; subst. exact H3.
  - simpl in H2. destruct (parse_line s1 b) as [[sa ea]|c] eqn:Ha; cbn [bind] in H2; [|discriminate].
    destruct (run_lines sa blk) as [[sb eb]|c] eqn:Hb; cbn [bind] in H2; [|discriminate].
    inversion H2; subst. apply app_eq_nil in H1. destruct H1 as [-> ->].
    simpl. rewrite Ha. cbn [bind]. rewrite (IHb sa Hb H3). reflexivity.
Qed.

Lemma wf_run v13 k p lines : wf v13 k p lines -> forall s, R v13 k p s -> NoLate s ->
  exists s' e, run_lines s lines = Ok (s', e) /\ clean e /\ eof s' = Ok [].
Proof.
  induction 1 as [k|k|k p l r Hl Hw IH|k p l r ok num name dir Hc Hy Hn Hp Hw IH
                  |k p l r ok num name dir l0 ind body lend Hv Hc Hy Hn Hp Hy0 Hb He Hw IH
                  |l r ds dir Hc Hy Hl Hd Hw IH|k l r ds dir Hc Hy Hl Hd Hk Hs]; intros s HR NL.
  - exists s, []. split; [reflexivity|]. split; [reflexivity|]. eapply eof_clean; [exact HR|exact I].
  - exists s, []. split; [reflexivity|]. split; [reflexivity|]. eapply eof_clean; [exact HR|reflexivity].
  - destruct (silent_step _ _ _ _ _ Hl HR) as [s1 [H1 [R1 C1]]].
    destruct (IH s1 R1 (NoLate_ctr _ _ C1 NL)) as [s2 [e2 [H2 [C2 E2]]]].
    exists s2, e2. simpl. rewrite H1. cbn [bind]. rewrite H2. auto.
  - destruct (test_step _ _ _ _ _ _ _ _ _ Hc Hy Hn Hp HR NL) as [s1 [e1 [H1 [C1 [R1 [_ P1]]]]]].
    assert (NL1 : NoLate s1) by (intros pl Hpl; apply NL; congruence).
    destruct (IH s1 R1 NL1) as [s2 [e2 [H2 [C2 E2]]]].
    exists s2, (e1 ++ e2). simpl. rewrite H1. cbn [bind]. rewrite H2. cbn [bind].
    split; [reflexivity|]. split; [apply clean_app; assumption|exact E2].
  - destruct (test_step _ _ _ _ _ _ _ _ _ Hc Hy Hn Hp HR NL) as [s1 [e1 [H1 [C1 [R1 [S1 P1]]]]]].
    assert (NL1 : NoLate s1) by (intros pl Hpl; apply NL; congruence).
    assert (V1 : 13 <= version s1).
    { apply N.leb_le. rewrite (r_ver _ _ _ _ R1). exact Hv. }
    destruct (yaml_block_ignored s1 l0 ind body lend S1 V1 Hy0 Hb He) as [s2 [H2 [C2 [S2 [Ve2 _]]]]].
    assert (R2 : R v13 (k + 1) p s2) by (apply (R_ctr _ _ _ s1); auto; congruence).
    destruct (IH s2 R2 (NoLate_ctr _ _ C2 NL1)) as [s3 [e3 [H3 [C3 E3]]]].
    exists s3, (e1 ++ e3). rewrite run_lines_cons, H1. cbn [bind].
    rewrite (run_block_then _ _ _ _ _ _ H2 H3). cbn [bind].
    split; [reflexivity|]. split; [apply clean_app; assumption|exact E3].
  - destruct (plan_step _ _ _ _ _ _ Hc Hy Hl Hd HR) as [s1 [e1 [pl [H1 [C1 [Ct [Ve [S1 [P1 P2]]]]]]]]].
    unfold ctr in Ct. simpl in Ct. inversion Ct as [[X1 X2 X3 X4 X5 X6 X7]].
    assert (R1 : R v13 0 (Some (digits_val ds)) s1).
    { destruct HR as [A B C D E F SN G]. split; try congruence; try (rewrite X7; exact SN). exists pl. auto. }
    assert (NL1 : NoLate s1) by (intros q Hq; rewrite X3 in Hq; inversion Hq; subst q; rewrite P2; reflexivity).
    destruct (IH s1 R1 NL1) as [s2 [e2 [H2 [C2 E2]]]].
    exists s2, (e1 ++ e2). simpl. rewrite H1. cbn [bind]. rewrite H2. cbn [bind].
    split; [reflexivity|]. split; [apply clean_app; assumption|exact E2].
  - destruct (plan_step _ _ _ _ _ _ Hc Hy Hl Hd HR) as [s1 [e1 [pl [H1 [C1 [Ct [Ve [S1 [P1 P2]]]]]]]]].
    unfold ctr in Ct. simpl in Ct. inversion Ct as [[X1 X2 X3 X4 X5 X6 X7]].
    assert (R1 : R v13 k (Some k) s1).
    { destruct HR as [A B C D E F SN G]. split; try congruence; try (rewrite X7; exact SN). exists pl. split; congruence. }
    destruct (silent_run _ _ _ _ Hs s1 R1) as [s2 [H2 R2]].
    exists s2, (e1 ++ []). simpl. rewrite H1. cbn [bind]. rewrite H2. cbn [bind].
    split; [reflexivity|]. split; [apply clean_app; [assumption|reflexivity]|].
    eapply eof_clean; [exact R2|reflexivity].
Qed.

(* a well-formed TAP 12 stream (no version line): tests numbered 1..k in order, one plan before
   the first or after the last test (or none), diagnostics and blank lines anywhere *)
Theorem well_formed_clean lines :
  wf false 0 None lines -> exists evs, parse lines = Ok evs /\ clean evs.
Proof.
  intro W. destruct (wf_run _ _ _ _ W init) as [s [e [H [C E]]]].
  - split; simpl; auto; try discriminate. split; [reflexivity|intros n []].
  - intros pl Hpl. discriminate.
  - exists (e ++ []). unfold parse. rewrite H. cbn [bind]. rewrite E. cbn [bind].
    split; [reflexivity|]. apply clean_app; [exact C|reflexivity].
Qed.

(* a well-formed TAP 13 stream: "TAP version 13" first, then as above, with YAML blocks allowed
   after test lines *)
Theorem well_formed_clean_v13 v ds lines :
  line_class v = Some (LVersion ds) -> yaml_start v = None -> too_long ds = false -> 13 <= digits_val ds ->
  wf true 0 None lines -> exists evs, parse (v :: lines) = Ok evs /\ clean evs.
Proof.
  intros Hc Hy Hl Hv W.
  destruct (parse_line_main init v) as [s1 [C [Ve [S [L1 E1]]]]]; [discriminate|exact Hy|].
  apply line_class_Some in Hc. destruct Hc as [Hc1 Hc2].
  unfold main_line in E1. rewrite Hc1, Hc2 in E1. simpl lineno in L1. rewrite L1 in E1.
  simpl negb in E1. cbv iota in E1. rewrite Hl in E1. cbn [bind] in E1.
  replace (digits_val ds <? 13) with false in E1 by (symmetry; apply N.ltb_ge; exact Hv).
  cbn [bind app] in E1.
  unfold ctr in C. simpl in C. inversion C as [[X1 X2 X3 X4 X5 X6 X7]].
  destruct (wf_run _ _ _ _ W (set_version s1 (digits_val ds))) as [s2 [e [H [Cl E]]]].
  - split; simpl; auto; try congruence; [apply N.leb_le; exact Hv|].
    rewrite X7. simpl. split; [reflexivity|intros n []].
  - intros pl Hpl. simpl in Hpl. congruence.
  - exists ((EVersion (digits_val ds) :: e) ++ []). unfold parse. simpl run_lines. rewrite E1. cbn [bind].
    rewrite H. cbn [bind]. rewrite E. cbn [bind]. split; [reflexivity|].
    apply clean_app; [|reflexivity]. unfold clean. simpl. exact Cl.
Qed.

(* the definition is inhabited by an ordinary TAP 13 stream (plan first, YAML block, diagnostic,
   TODO directive) and by a TAP 12 stream with the plan at the end *)
Example wf_example_v13 :
  wf true 0 None [s2l "1..2"; s2l "ok 1 - a"; s2l "  ---"; s2l "  x: y"; s2l "  ..."; s2l "# diag";
                  s2l "not ok 2 b # TODO later"; s2l ""].
Proof.
  eapply wf_plan_first; [vm_compute; reflexivity|reflexivity|vm_compute; lia|exact I|].
  change [s2l "ok 1 - a"; s2l "  ---"; s2l "  x: y"; s2l "  ..."; s2l "# diag"; s2l "not ok 2 b # TODO later"; s2l ""]
    with (s2l "ok 1 - a" :: (s2l "  ---" :: [s2l "  x: y"] ++ [s2l "  ..."]) ++
          [s2l "# diag"; s2l "not ok 2 b # TODO later"; s2l ""]).
  eapply wf_test_yaml; [reflexivity|vm_compute; reflexivity|reflexivity|split; [vm_compute; reflexivity|vm_compute; lia]
                        |vm_compute; discriminate|vm_compute; reflexivity| |vm_compute; reflexivity|].
  { constructor; [split; vm_compute; reflexivity|constructor]. }
  apply wf_silent; [split; vm_compute; reflexivity|].
  eapply wf_test; [vm_compute; reflexivity|reflexivity|split; [vm_compute; reflexivity|vm_compute; lia]
                   |vm_compute; discriminate|].
  apply wf_silent; [split; vm_compute; reflexivity|].
  apply wf_end_plan.
Qed.

Example wf_example_v12 :
  wf false 0 None [s2l "ok"; s2l "ok 2 second # SKIP no libfoo"; s2l "1..2"; s2l "# done"].
Proof.
  eapply wf_test; [vm_compute; reflexivity|reflexivity|exact I|exact I|].
  eapply wf_test; [vm_compute; reflexivity|reflexivity|split; [vm_compute; reflexivity|vm_compute; lia]|exact I|].
  eapply wf_plan_last; [vm_compute; reflexivity|reflexivity|vm_compute; lia|exact I|vm_compute; reflexivity|].
  constructor; [split; vm_compute; reflexivity|constructor].
Qed.
