(* Tap/Machine.v — executable model of TAPParser (mesonbuild/mtest.py:315-502):
   the fields of the class, parse_test, parse_line (both the per-line part and
   the end-of-stream part) and parse.  No proofs in this file. *)
From MV Require Export Base.Strs Tap.Lines.
Open Scope N_scope.

(* Python exceptions that can escape *)
Inductive result (A : Type) := Ok (a : A) | PyErr (cls : str).
Arguments Ok {A} a.
Arguments PyErr {A} cls.
Definition bind {A B} (r : result A) (f : A -> result B) : result B :=
  match r with Ok a => f a | PyErr c => PyErr c end.

Definition ValueError : str := s2l "ValueError".

(* CPython 3.11+: int(str) and str(int) raise ValueError beyond
   sys.int_info.default_max_str_digits = 4300 digits (value read from the running
   interpreter by the adapter on every run).  With the fix pending/C18-int-max-str-digits.diff
   the parser never converts a number of more than _MAX_NUMBER_DIGITS = 100 digits: it yields
   an Error event instead, so int() cannot raise; str() of highest_test (end-of-stream message,
   subtest log) could only raise after about 10^4300 unnumbered test lines. *)
Definition max_number_digits : nat := 100.
Definition too_long (ds : str) : bool := Nat.ltb max_number_digits (length ds).   (* len(num) > _MAX_NUMBER_DIGITS *)
Definition str_limit : N := 10 ^ 4300.
Definition py_str_ok (n : N) : bool := n <? str_limit.

(* mtest.py:264-277 TestResult (the members a TAP run can produce) *)
Inductive tres := PENDING | RUNNING | OK | TIMEOUT | INTERRUPT | SKIP | FAIL
                | EXPECTEDFAIL | UNEXPECTEDPASS | ERROR | IGNORED.

(* the messages of TAPParser.Error, reduced to their kind *)
Inductive ekind := KBig | KLate | KExceeds | KInvDir | KPlan2 | KPlanSkip | KPlanDir
                 | KVerPos | KVerLow | KYaml | KFew | KMany | KDup | KMissing.

Record plan := mkplan { p_num : N; p_late : bool; p_skipped : bool; p_expl : option str }.

Inductive event :=
| ETest (number : N) (name : str) (res : tres) (expl : option str)
| EError (k : ekind)
| EPlan (p : plan)
| EBail (msg : str)
| EVersion (v : N)
| EUnknown (msg : str) (lineno : N).

Inductive pstate := Main | AfterTest | Yaml.

(* mtest.py:356-366: the class attributes are the initial field values *)
Record state := mkstate {
  found_late_test : bool;
  bailed_out : bool;
  cur_plan : option plan;
  lineno : N;
  num_tests : N;
  last_test : N;
  highest_test : N;
  yaml_lineno : N;
  yaml_indent : str;
  st : pstate;
  version : N;
  seen_tests : list N }.   (* fix C18-numbering-undetected: the set of numbers seen *)

Definition init : state := mkstate false false None 0 0 0 0 0 [] Main 12 [].

Definition set_late s v := mkstate v (bailed_out s) (cur_plan s) (lineno s) (num_tests s) (last_test s) (highest_test s) (yaml_lineno s) (yaml_indent s) (st s) (version s) (seen_tests s).
Definition set_bailed s v := mkstate (found_late_test s) v (cur_plan s) (lineno s) (num_tests s) (last_test s) (highest_test s) (yaml_lineno s) (yaml_indent s) (st s) (version s) (seen_tests s).
Definition set_plan s v := mkstate (found_late_test s) (bailed_out s) v (lineno s) (num_tests s) (last_test s) (highest_test s) (yaml_lineno s) (yaml_indent s) (st s) (version s) (seen_tests s).
Definition set_lineno s v := mkstate (found_late_test s) (bailed_out s) (cur_plan s) v (num_tests s) (last_test s) (highest_test s) (yaml_lineno s) (yaml_indent s) (st s) (version s) (seen_tests s).
Definition set_counts s n l h sn := mkstate (found_late_test s) (bailed_out s) (cur_plan s) (lineno s) n l h (yaml_lineno s) (yaml_indent s) (st s) (version s) sn.
(* set.add *)
Definition add_seen (n : N) (l : list N) : list N := if memb n l then l else n :: l.
Definition set_yaml s ln ind := mkstate (found_late_test s) (bailed_out s) (cur_plan s) (lineno s) (num_tests s) (last_test s) (highest_test s) ln ind Yaml (version s) (seen_tests s).
Definition set_st s v := mkstate (found_late_test s) (bailed_out s) (cur_plan s) (lineno s) (num_tests s) (last_test s) (highest_test s) (yaml_lineno s) (yaml_indent s) v (version s) (seen_tests s).
Definition set_version s v := mkstate (found_late_test s) (bailed_out s) (cur_plan s) (lineno s) (num_tests s) (last_test s) (highest_test s) (yaml_lineno s) (yaml_indent s) (st s) v (seen_tests s).

(* str.upper() — only 'startswith("SKIP")' and '== "TODO"' are ever observed, and
   the first four characters of a directive are ASCII letters (regex), so the
   ASCII restriction is not observable. *)
Definition upper_ascii (c : char) : char := if is_lower c then c - 32 else c.
Definition upper (s : str) : str := map upper_ascii s.
Definition nonempty (s : str) : bool := match s with [] => false | _ => true end.

Definition okfail (ok : bool) : tres := if ok then OK else FAIL.

(* mtest.py:368-384 parse_test *)
Definition parse_test (ok : bool) (num : N) (name : str)
           (directive : option str) (explanation : option str) : list event :=
  let name := strip name in                                        (* :370 *)
  let explanation :=                                               (* :371 *)
    match explanation with
    | Some e => if nonempty e then Some (strip e) else None
    | None => None
    end in
  match directive with                                             (* :372 *)
  | Some d =>
      let d := upper d in                                          (* :373 *)
      if prefixb (s2l "SKIP") d then                               (* :374 *)
        if ok then [ETest num name SKIP explanation]               (* :375-377 *)
        else [ETest num name (okfail ok) explanation]              (* falls to :384 *)
      else if str_eqb d (s2l "TODO") then                          (* :378-380 *)
        [ETest num name (if ok then UNEXPECTEDPASS else EXPECTEDFAIL) explanation]
      else                                                         (* :381-382, then :384 *)
        [EError KInvDir; ETest num name (okfail ok) explanation]
  | None => [ETest num name (okfail ok) explanation]               (* :384 *)
  end.

(* mtest.py:402-426: what happens before the line is looked at as TAP.
   Return: the generator returns; Continue: falls through to :428. *)
Inductive pre_res := Return (s : state) | Continue (s : state) (evs : list event).

Definition pre_line (s : state) (line : str) : pre_res :=
  match st s with
  | AfterTest =>                                                   (* :406 *)
      if 13 <=? version s then                                     (* :407 *)
        match yaml_start line with                                 (* :408 *)
        | Some ind => Return (set_yaml s (lineno s) ind)           (* :410-413 *)
        | None => Continue (set_st s Main) []                      (* :414 *)
        end
      else Continue (set_st s Main) []
  | Yaml =>                                                        (* :416 *)
      if yaml_end line then Return (set_st s Main)                 (* :417-419 *)
      else if prefixb (yaml_indent s) line then Return s           (* :420-421 *)
      else Continue (set_st s Main) [EError KYaml]                 (* :422-423 *)
  | Main => Continue s []
  end.

(* mtest.py:425-480: the line in state _MAIN *)
Definition main_line (s : state) (line0 : str) : result (state * list event) :=
  let line := rstrip line0 in                                      (* :425 *)
  if negb (nonempty line) || prefixb [35] line then Ok (s, [])     (* :428-429 *)
  else
    match classify line with
    | LTest ok num name dir =>                                     (* :431-443 *)
        let '(s, ev1) :=
          match cur_plan s with
          | Some p => if p_late p && negb (found_late_test s)      (* :433-435 *)
                      then (set_late s true, [EError KLate]) else (s, [])
          | None => (s, [])
          end in
        let n := num_tests s + 1 in                                (* :436 *)
        (* :437 with the fix: an over-long number is an error and the line counts as unnumbered *)
        let big := match num with Some ds => too_long ds | None => false end in
        let evb := if big then [EError KBig] else [] in
        bind (match num with
              | None => Ok (last_test s + 1)
              | Some ds => if too_long ds then Ok (last_test s + 1) else Ok (digits_val ds)
              end) (fun lt =>
        let h := N.max (highest_test s) lt in                      (* :438 *)
        let s := set_counts s n lt h (add_seen lt (seen_tests s)) in
        let ev2 :=
          match cur_plan s with                                    (* :439-440 *)
          | Some p => if p_num p <? lt then [EError KExceeds] else []
          | None => []
          end in
        let ev3 := parse_test ok lt name (option_map fst dir) (option_map snd dir) in  (* :441-442 *)
        Ok (set_st s AfterTest, ev1 ++ evb ++ ev2 ++ ev3))         (* :443 *)
    | LPlan ds dir =>                                              (* :446-462 *)
        match cur_plan s with
        | Some _ => Ok (s, [EError KPlan2])                        (* :448-449 *)
        | None =>
            if too_long ds then Ok (s, [EError KBig]) else         (* fix: no conversion *)
            bind (Ok (digits_val ds)) (fun n =>                    (* :451 *)
            let '(evs, skipped) :=
              match dir with                                       (* :453 *)
              | Some (d, _) =>
                  if prefixb (s2l "SKIP") (upper d) then           (* :454 *)
                    ((if 0 <? n then [EError KPlanSkip] else []), true)   (* :455-457 *)
                  else ([EError KPlanDir], n =? 0)                 (* :458-459 *)
              | None => ([], n =? 0)                               (* :452 *)
              end in
            let p := mkplan n (0 <? num_tests s) skipped (option_map snd dir) in  (* :460-461 *)
            Ok (set_plan s (Some p), evs ++ [EPlan p]))            (* :462 *)
        end
    | LBail msg => Ok (set_bailed s true, [EBail msg])             (* :465-468 *)
    | LVersion ds =>                                               (* :471-481 *)
        if negb (lineno s =? 1) then Ok (s, [EError KVerPos])      (* :473-475 *)
        else
          if too_long ds then Ok (s, [EError KBig]) else           (* fix: no conversion *)
          bind (Ok (digits_val ds)) (fun v =>                      (* :476 *)
          let s := set_version s v in
          if v <? 13 then Ok (s, [EError KVerLow])                 (* :477-478 *)
          else Ok (s, [EVersion v]))                               (* :480 *)
    | LUnknown => Ok (s, [EUnknown line (lineno s)])               (* :484 *)
    end.

(* the end-of-stream numbering check (with the fix C18-numbering-undetected): the numbers must be
   exactly 1..num_tests in any order, i.e. highest == count, as many distinct numbers as tests, no 0 *)
Definition numbering_bad (s : state) : bool :=
  negb (highest_test s =? num_tests s) ||
  negb (N.of_nat (length (seen_tests s)) =? num_tests s) || memb 0 (seen_tests s).
Definition numbering_kind (s : state) : ekind :=
  if (highest_test s <? num_tests s) || negb (N.of_nat (length (seen_tests s)) =? num_tests s)
  then KDup else KMissing.

(* mtest.py:486-502: parse_line(None) *)
Definition eof (s : state) : result (list event) :=
  let ev1 := match st s with Yaml => [EError KYaml] | _ => [] end in      (* :487-488 *)
  if bailed_out s then Ok ev1                                             (* :490-491 *)
  else
    let numbering :=                                                      (* :500-504, as fixed *)
      if numbering_bad s then
        (* the message is an f-string that formats self.highest_test *)
        if py_str_ok (highest_test s) then Ok (ev1 ++ [EError (numbering_kind s)])
        else PyErr ValueError
      else Ok ev1 in
    match cur_plan s with
    | Some p =>
        if negb (num_tests s =? p_num p) then                             (* :493-498 *)
          Ok (ev1 ++ [EError (if num_tests s <? p_num p then KFew else KMany)])
        else numbering
    | None => numbering
    end.

(* mtest.py:398-400 parse_line with a line *)
Definition parse_line (s : state) (line : str) : result (state * list event) :=
  let s := set_lineno s (lineno s + 1) in                                 (* :403 *)
  match pre_line s line with
  | Return s' => Ok (s', [])
  | Continue s' evs =>
      bind (main_line s' line) (fun '(s'', evs') => Ok (s'', evs ++ evs'))
  end.

Fixpoint run_lines (s : state) (lines : list str) : result (state * list event) :=
  match lines with
  | [] => Ok (s, [])
  | l :: r =>
      bind (parse_line s l) (fun '(s', e1) =>
      bind (run_lines s' r) (fun '(s'', e2) => Ok (s'', e1 ++ e2)))
  end.

(* mtest.py:393-396 parse: list(TAPParser().parse(lines)) *)
Definition parse (lines : list str) : result (list event) :=
  bind (run_lines init lines) (fun '(s, e) =>
  bind (eof s) (fun e2 => Ok (e ++ e2))).
