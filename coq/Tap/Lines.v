(* Tap/Lines.v — hand-written scanners for the line regexes of TAPParser
   (mesonbuild/mtest.py:348-354), used with re.match (anchored at the start of the
   line only, NOT at its end).  No proofs in this file.
   (In this comment a blank is inserted between a star and a closing parenthesis.)

     _RE_BAILOUT    = r'Bail out!\s*(.* )'
     _RE_DIRECTIVE  = r'(?:\s*\#\s*([Ss][Kk][Ii][Pp]\S*|[Tt][Oo][Dd][Oo])\b\s*(.* ))?'
     _RE_PLAN       = r'1\.\.([0-9]+)' + _RE_DIRECTIVE
     _RE_TEST       = r'((?:not )?ok)\s*(?:([0-9]+)\s* )?([^#]* )' + _RE_DIRECTIVE
     _RE_VERSION    = r'TAP version ([0-9]+)'
     _RE_YAML_START = r'(\s+)---.*'
     _RE_YAML_END   = r'\s+\.\.\.\s*'

   Character classes: \s = Python str.isspace() = Strs.is_space (all 29 code
   points; checked against the running Python by harness/impl/c18.py on every
   run); [0-9] = ASCII digits; '.' = any code point but LF (no DOTALL);
   \w (only used through \b) = [A-Za-z0-9_] plus the code points listed in
   [extra_word].  Lines containing a non-ASCII code point outside
   is_space/extra_word/extra_other are out of the model ([in_model]); the entry
   point answers OOM for them and the generators avoid them. *)
From MV Require Export Base.Strs.
Open Scope N_scope.

Definition extra_word : list char := [233; 1046; 20013].          (* é Ж 中 : \w *)
Definition extra_other : list char := [8364; 171; 8594; 128512].  (* € « → emoji : neither \w nor \s *)
Definition is_word (c : char) : bool := is_alnum c || (c =? 95) || memb c extra_word.
Definition in_model (c : char) : bool :=
  (c <? 128) || is_space c || memb c extra_word || memb c extra_other.

Definition not_space (c : char) : bool := negb (is_space c).
Definition not_hash (c : char) : bool := negb (c =? 35).
Definition not_lf (c : char) : bool := negb (c =? 10).

(* greedy X* for a character class X: (matched, rest) *)
Fixpoint span (p : char -> bool) (s : str) : str * str :=
  match s with
  | c :: r => if p c then let '(a, b) := span p r in (c :: a, b) else ([], s)
  | [] => ([], [])
  end.

(* the final dot-star group of a pattern: everything up to the first LF *)
Definition dotstar (s : str) : str := fst (span not_lf s).

(* [Ss][Kk][Ii][Pp] / [Tt][Oo][Dd][Oo]: pat is given in lower case *)
Fixpoint ci_prefix (pat : str) (s : str) : option (str * str) :=
  match pat with
  | [] => Some ([], s)
  | p :: pat' =>
      match s with
      | c :: r =>
          if (c =? p) || (c =? p - 32) then
            match ci_prefix pat' r with
            | Some (m, rest) => Some (c :: m, rest)
            | None => None
            end
          else None
      | [] => None
      end
  end.

(* \S*\b with backtracking: [run] is the maximal run of non-blank characters
   (it is followed by a blank or by the end of the string, i.e. by a non-word
   position); the regex engine takes the LONGEST prefix of the run after which
   \b holds.  prev_word: is the character before the run a word character. *)
Fixpoint last_boundary (prev_word : bool) (run : str) : option nat :=
  match run with
  | [] => if prev_word then Some O else None
  | c :: r =>
      match last_boundary (is_word c) r with
      | Some k => Some (S k)
      | None => if xorb prev_word (is_word c) then Some O else None
      end
  end.

(* the body of _RE_DIRECTIVE tried at s: Some (group 1, group 2) of the directive
   regex (groups 4,5 of _RE_TEST; 2,3 of _RE_PLAN), None when the optional group
   does not participate (both groups None in Python). *)
Definition dir_skip (r : str) : option (str * str) :=
  match ci_prefix (s2l "skip") r with
  | Some (m, rest) =>
      let '(run, after) := span not_space rest in
      match last_boundary true run with      (* 'p'/'P' is a word character *)
      | Some k => Some (m ++ firstn k run, dotstar (lstrip (skipn k run ++ after)))
      | None => None
      end
  | None => None
  end.

Definition dir_todo (r : str) : option (str * str) :=
  match ci_prefix (s2l "todo") r with
  | Some (m, rest) =>
      match rest with
      | c :: _ => if is_word c then None else Some (m, dotstar (lstrip rest))
      | [] => Some (m, [])
      end
  | None => None
  end.

Definition directive (s : str) : option (str * str) :=
  match lstrip s with                  (* \s* *)
  | c :: r =>
      if c =? 35 then                  (* \# *)
        let r := lstrip r in           (* \s* *)
        match dir_skip r with
        | Some g => Some g
        | None => dir_todo r
        end
      else None
  | [] => None
  end.

Inductive lclass :=
| LTest (ok : bool) (num : option str) (name : str) (dir : option (str * str))
| LPlan (num : str) (dir : option (str * str))
| LBail (msg : str)
| LVersion (num : str)
| LUnknown.

(* after '((?:not )?ok)':  blanks, optional digits and blanks, the not-# run, DIRECTIVE *)
Definition test_body (ok : bool) (r : str) : lclass :=
  let r := lstrip r in
  let '(ds, r1) := span is_digit r in
  let '(num, r2) := match ds with [] => (None, r) | _ => (Some ds, lstrip r1) end in
  let '(name, r3) := span not_hash r2 in
  LTest ok num name (directive r3).

Definition re_test (line : str) : option lclass :=
  if prefixb (s2l "not ok") line then Some (test_body false (drop 6 line))
  else if prefixb (s2l "ok") line then Some (test_body true (drop 2 line))
  else None.

Definition re_plan (line : str) : option lclass :=
  if prefixb (s2l "1..") line then
    let '(ds, r) := span is_digit (drop 3 line) in
    match ds with [] => None | _ => Some (LPlan ds (directive r)) end
  else None.

Definition re_bailout (line : str) : option lclass :=
  if prefixb (s2l "Bail out!") line then Some (LBail (dotstar (lstrip (drop 9 line))))
  else None.

Definition re_version (line : str) : option lclass :=
  if prefixb (s2l "TAP version ") line then
    let '(ds, _) := span is_digit (drop 12 line) in
    match ds with [] => None | _ => Some (LVersion ds) end
  else None.

(* the order in which parse_line tries the regexes: mtest.py:431,445,464,470 *)
Definition classify (line : str) : lclass :=
  match re_test line with
  | Some c => c
  | None =>
      match re_plan line with
      | Some c => c
      | None =>
          match re_bailout line with
          | Some c => c
          | None =>
              match re_version line with
              | Some c => c
              | None => LUnknown
              end
          end
      end
  end.

(* _RE_YAML_START.match(line): Some (group 1) *)
Definition yaml_start (line : str) : option str :=
  let '(ws, r) := span is_space line in
  match ws with
  | [] => None
  | _ => if prefixb (s2l "---") r then Some ws else None
  end.

(* _RE_YAML_END.match(line) *)
Definition yaml_end (line : str) : bool :=
  let '(ws, r) := span is_space line in
  match ws with
  | [] => false
  | _ => prefixb (s2l "...") r
  end.
