(* Quote/Proofs.v — lemmas and theorems of C03: the encoders of Quote/{Sh,Ninja,Rule}.v
   are inverted by the reference decoders of Quote/{Sh,Ninja,Rsp,Spec}.v, for ALL
   argument strings / lists. *)
From MV Require Import Base.Strs Base.LexFacts Quote.Sh Quote.Ninja Quote.Rsp Quote.Rule Quote.Spec Quote.Templ.
From Coq Require Import Lia ZifyBool.
Open Scope N_scope.

(* ------------------------------------------------------------------ generic list facts *)

Lemma join_cons2 (sep x y : str) (r : list str) :
  join sep (x :: y :: r) = x ++ sep ++ join sep (y :: r).
Proof. reflexivity. Qed.

Lemma memb_false_app c a b : memb c (a ++ b) = memb c a || memb c b.
Proof. induction a as [|x a IH]; simpl; [reflexivity|]. rewrite IH. rewrite orb_assoc. reflexivity. Qed.

Lemma existsb_memb c s : existsb (fun x => x =? c) s = memb c s.
Proof. induction s as [|x s IH]; simpl; [reflexivity|]. rewrite IH. rewrite (N.eqb_sym x c). reflexivity. Qed.

Lemma str_eqb_false_ne a b : str_eqb a b = false -> a <> b.
Proof. intros H E. subst. rewrite str_eqb_refl in H. discriminate. Qed.

(* ------------------------------------------------------------------ character classes *)

Lemma sh_safe_plain c : sh_safe c = true ->
  is_blank c = false /\ (c =? 39) = false /\ (c =? 34) = false /\ (c =? 92) = false /\
  (c =? 38) = false /\ memb c sh_meta = false.
Proof.
  unfold sh_safe, is_alnum, is_alpha, is_lower, is_upper, is_digit, is_blank, shlex_safe_extra, sh_meta.
  cbn [memb]. lia.
Qed.

Lemma sh_safe_gplain c : sh_safe c = true ->
  is_cspace c = false /\ (c =? 92) = false /\ (c =? 39) = false /\ (c =? 34) = false.
Proof.
  unfold sh_safe, is_alnum, is_alpha, is_lower, is_upper, is_digit, is_cspace, shlex_safe_extra.
  cbn [memb]. lia.
Qed.

Lemma sh_safe_not_nl c : sh_safe c = true -> nbad c = false.
Proof.
  unfold sh_safe, is_alnum, is_alpha, is_lower, is_upper, is_digit, nbad, shlex_safe_extra.
  cbn [memb]. lia.
Qed.

(* ------------------------------------------------------------------ sh: one quoted word *)

Lemma replace_sq_cons c s :
  replace_sq (c :: s) = (if c =? 39 then sq_splice else [c]) ++ replace_sq s.
Proof. reflexivity. Qed.

Lemma replace_sq_app a b : replace_sq (a ++ b) = replace_sq a ++ replace_sq b.
Proof. unfold replace_sq. apply flat_map_app. Qed.

Lemma shw_sq_body : forall s acc rest,
  shw (SSq acc) (replace_sq s ++ 39 :: rest) = shw (SWd (rev s ++ acc)) rest.
Proof.
  induction s as [|c s IH]; intros acc rest.
  - cbn. reflexivity.
  - rewrite replace_sq_cons. destruct (c =? 39) eqn:E.
    + apply N.eqb_eq in E. subst c. unfold sq_splice.
      cbn. rewrite IH.
      rewrite <- app_assoc. reflexivity.
    + cbn [app]. cbn [shw]. rewrite E. rewrite IH.
      cbn [rev]. rewrite <- app_assoc. reflexivity.
Qed.

Lemma shw_safe_run : forall s acc rest, forallb sh_safe s = true ->
  shw (SWd acc) (s ++ rest) = shw (SWd (rev s ++ acc)) rest.
Proof.
  induction s as [|c s IH]; intros acc rest H.
  - reflexivity.
  - cbn [forallb] in H. apply andb_true_iff in H. destruct H as [Hc Hs].
    destruct (sh_safe_plain c Hc) as (B & Q1 & Q2 & Q3 & Q4 & M).
    cbn [app shw]. rewrite B, Q1, Q2, Q3, Q4, M. rewrite (IH _ _ Hs).
    cbn [rev]. rewrite <- app_assoc. reflexivity.
Qed.

(* the shell reads shlex.quote(s) as the single word s, whatever follows *)
Lemma shw_quote_word : forall s rest,
  shw SOut (shlex_quote s ++ rest) = shw (SWd (rev s)) rest.
Proof.
  intros s rest. unfold shlex_quote. destruct s as [|c s].
  - reflexivity.
  - destruct (forallb sh_safe (c :: s)) eqn:S.
    + pose proof S as S'. cbn [forallb] in S'. apply andb_true_iff in S'. destruct S' as [Hc Hs].
      destruct (sh_safe_plain c Hc) as (B & Q1 & Q2 & Q3 & Q4 & M).
      cbn [app shw]. rewrite B, Q1, Q2, Q3, Q4, M. rewrite (shw_safe_run _ _ _ Hs).
      reflexivity.
    + change ((39 :: replace_sq (c :: s) ++ [39]) ++ rest)
        with (39 :: (replace_sq (c :: s) ++ [39]) ++ rest).
      rewrite <- app_assoc. cbn [shw is_blank N.eqb Pos.eqb orb]. cbn [app].
      rewrite shw_sq_body. rewrite app_nil_r. reflexivity.
Qed.

Lemma sh_quote_single s : sh_tokens (shlex_quote s) = ShOk [W s].
Proof.
  unfold sh_tokens. rewrite <- (app_nil_r (shlex_quote s)). rewrite shw_quote_word.
  cbn. rewrite rev_involutive. reflexivity.
Qed.

Lemma sh_andand : sh_tokens andand = ShOk [AndAnd].
Proof. reflexivity. Qed.

(* ------------------------------------------------------------------ sh: blank-joined chunks compose *)

Lemma emit_ok t r ts : emit t r = ShOk ts -> exists ts', r = ShOk ts' /\ ts = t :: ts'.
Proof. destruct r; simpl; intros H; inversion H; eauto. Qed.

Lemma shw_compose : forall a b tb st ta,
  shw SOut b = ShOk tb -> shw st a = ShOk ta -> shw st (a ++ 32 :: b) = ShOk (ta ++ tb).
Proof.
  intros a b tb. induction a as [|c a IH]; intros st ta Hb Ha.
  - destruct st; cbn in Ha; try discriminate; inversion Ha; subst; cbn; rewrite ?Hb; reflexivity.
  - cbn [app].
    destruct st; cbn [shw] in Ha |- *;
      repeat match type of Ha with
             | (if ?x then _ else _) = _ => destruct x
             end;
      try discriminate;
      try (apply emit_ok in Ha; destruct Ha as (ts' & Ha & ->); rewrite (IH _ _ Hb Ha); reflexivity);
      try (apply IH; assumption).
Qed.

Lemma sh_tokens_compose a b ta tb :
  sh_tokens a = ShOk ta -> sh_tokens b = ShOk tb -> sh_tokens (a ++ 32 :: b) = ShOk (ta ++ tb).
Proof. intros Ha Hb. unfold sh_tokens in *. apply shw_compose; assumption. Qed.

(* chunks that each tokenise, joined by single blanks, tokenise to the concatenation *)
Lemma sh_tokens_join : forall chunks tss,
  Forall2 (fun c ts => sh_tokens c = ShOk ts) chunks tss ->
  sh_tokens (join [32] chunks) = ShOk (concat tss).
Proof.
  induction chunks as [|x chunks IH]; intros tss H; inversion H as [|? t ? tr Hx Hr]; subst.
  - reflexivity.
  - destruct chunks as [|y chunks].
    + inversion Hr; subst. cbn. rewrite app_nil_r. exact Hx.
    + rewrite join_cons2. cbn [concat]. cbn [app].
      apply sh_tokens_compose; [exact Hx | apply IH; exact Hr].
Qed.

(* universal.py join_args: the shell gives back exactly the list, for ALL lists *)
Theorem sh_join_args_roundtrip : forall args, sh_tokens (join_args args) = ShOk (map W args).
Proof.
  intros args. unfold join_args.
  replace (map W args) with (concat (map (fun a => [W a]) args)).
  - apply sh_tokens_join. induction args; constructor; [apply sh_quote_single | assumption].
  - induction args; cbn; congruence.
Qed.

(* ------------------------------------------------------------------ ninja: quoting is undone by evaluation *)

Lemma nclean_cons c s : nclean (c :: s) = negb (nbad c) && nclean s.
Proof. unfold nclean. cbn [existsb]. rewrite negb_orb. reflexivity. Qed.

Lemma nclean_app a b : nclean (a ++ b) = nclean a && nclean b.
Proof. unfold nclean. rewrite existsb_app, negb_orb. reflexivity. Qed.

Lemma nclean_memb s : nclean s = true -> memb 10 s = false /\ memb 13 s = false.
Proof.
  induction s as [|c s IH]; [split; reflexivity|].
  rewrite nclean_cons. intros H. apply andb_true_iff in H. destruct H as [Hc Hs].
  destruct (IH Hs) as [A B]. cbn [memb]. rewrite A, B. unfold nbad in Hc.
  split; lia.
Qed.

Lemma memb_nclean s : memb 10 s || memb 13 s = false -> nclean s = true.
Proof.
  induction s as [|c s IH]; [reflexivity|].
  cbn [memb]. intros H. rewrite nclean_cons. rewrite IH by lia. unfold nbad. lia.
Qed.

Lemma nq_sub_id cls s : (forall c, memb c cls = true -> memb c s = false) -> nq_sub cls s = s.
Proof.
  induction s as [|c s IH]; intros H; [reflexivity|].
  unfold nq_sub in *. cbn [flat_map].
  destruct (memb c cls) eqn:E.
  - specialize (H c E). cbn [memb] in H. rewrite N.eqb_refl in H. discriminate.
  - cbn [app]. f_equal. apply IH. intros d Hd. specialize (H d Hd). cbn [memb] in H.
    apply orb_false_iff in H. apply H.
Qed.

(* ninja_quote on text ninja can carry: never an error, and it is the substitution *)
Lemma ninja_quote_var_ok t : nclean t = true -> ninja_quote false t = QOk (nq_sub nq_var_class t).
Proof.
  intros H. destruct (nclean_memb t H) as [A B]. unfold ninja_quote. rewrite A, B. cbn [orb andb].
  destruct (memb 32 t || memb 36 t) eqn:E; [reflexivity|].
  apply orb_false_iff in E. destruct E as [E1 E2].
  rewrite nq_sub_id; [reflexivity|].
  intros c Hc. unfold nq_var_class in Hc. cbn [memb] in Hc.
  assert (c = 10 \/ c = 32 \/ c = 36) as [->|[->| ->]] by lia; assumption.
Qed.

Lemma ninja_quote_err t : nclean t = false -> forall b, ninja_quote b t = QErr.
Proof.
  intros H b. unfold ninja_quote.
  destruct (memb 10 t || memb 13 t) eqn:E; [reflexivity|].
  rewrite (memb_nclean t E) in H. discriminate.
Qed.

(* pieces of a value: literal text (ninja-quoted) or a reference $name *)
Inductive piece := PLit (t : str) | PVar (n : str).
Definition piece_ok (p : piece) : bool :=
  match p with
  | PLit t => nclean t
  | PVar n => match n with [] => false | _ => forallb is_simple_var n end
  end.
Definition render_piece (p : piece) : str :=
  match p with PLit t => nq_sub nq_var_class t | PVar n => 36 :: n end.
Definition piece_val (env : list (str * str)) (p : piece) : str :=
  match p with PLit t => t | PVar n => lookup env n end.

Lemma neval_lit : forall env t rest, nclean t = true ->
  neval env NLit (nq_sub nq_var_class t ++ rest) = napp t (neval env NLit rest).
Proof.
  intros env t. induction t as [|c t IH]; intros rest H.
  - cbn. destruct (neval env NLit rest); reflexivity.
  - rewrite nclean_cons in H. apply andb_true_iff in H. destruct H as [Hc Ht].
    apply negb_true_iff in Hc.
    unfold nq_sub in *. cbn [flat_map]. unfold nq_var_class at 1. cbn [memb].
    assert (CASES : c = 32 \/ c = 36 \/ ((c =? 10) || ((c =? 32) || ((c =? 36) || false)) = false /\ (c =? 36) = false))
      by (unfold nbad in Hc; lia).
    destruct CASES as [->|[->|[E1 E2]]].
    + cbn. rewrite (IH _ Ht). destruct (neval env NLit rest); reflexivity.
    + cbn. rewrite (IH _ Ht). destruct (neval env NLit rest); reflexivity.
    + rewrite E1. cbn [app neval]. rewrite E2, Hc. rewrite (IH _ Ht).
      destruct (neval env NLit rest); reflexivity.
Qed.

Lemma simple_var_not_special c : is_simple_var c = true ->
  (c =? 36) = false /\ (c =? 32) = false /\ (c =? 58) = false /\ (c =? 10) = false /\ (c =? 123) = false.
Proof. unfold is_simple_var, is_alnum, is_alpha, is_lower, is_upper, is_digit. lia. Qed.

Lemma neval_var_run : forall env n acc rest, forallb is_simple_var n = true ->
  neval env (NVar acc) (n ++ rest) = neval env (NVar (rev n ++ acc)) rest.
Proof.
  intros env n. induction n as [|c n IH]; intros acc rest H; [reflexivity|].
  cbn [forallb] in H. apply andb_true_iff in H. destruct H as [Hc Hn].
  cbn [app neval]. rewrite Hc. rewrite (IH _ _ Hn). cbn [rev]. rewrite <- app_assoc. reflexivity.
Qed.

Lemma neval_var_end env n : n <> [] -> forallb is_simple_var n = true ->
  neval env NLit (36 :: n) = NOk (lookup env n).
Proof.
  intros Hne H. destruct n as [|c n]; [congruence|].
  cbn [forallb] in H. apply andb_true_iff in H. destruct H as [Hc Hn].
  destruct (simple_var_not_special c Hc) as (A & B & C & D & E).
  cbn [neval]. cbn [N.eqb Pos.eqb]. rewrite A, B, C, D, E, Hc.
  pose proof (neval_var_run env n [c] [] Hn) as R. rewrite app_nil_r in R. rewrite R. cbn [neval].
  rewrite rev_app_distr, rev_involutive. reflexivity.
Qed.

Lemma neval_var_blank env n rest : n <> [] -> forallb is_simple_var n = true ->
  neval env NLit (36 :: n ++ 32 :: rest) = napp (lookup env n) (ncons 32 (neval env NLit rest)).
Proof.
  intros Hne H. destruct n as [|c n]; [congruence|].
  cbn [forallb] in H. apply andb_true_iff in H. destruct H as [Hc Hn].
  destruct (simple_var_not_special c Hc) as (A & B & C & D & E).
  cbn [app neval]. cbn [N.eqb Pos.eqb]. rewrite A, B, C, D, E, Hc.
  rewrite (neval_var_run _ _ _ _ Hn). cbn [neval]. cbn [is_simple_var is_alnum is_alpha is_lower is_upper is_digit N.leb N.eqb N.compare Pos.compare Pos.compare_cont Pos.eqb andb orb nbad].
  rewrite rev_app_distr, rev_involutive. reflexivity.
Qed.

Lemma neval_blank env rest : neval env NLit (32 :: rest) = ncons 32 (neval env NLit rest).
Proof. reflexivity. Qed.

(* a value made of blank-separated pieces evaluates piecewise *)
Lemma neval_pieces env : forall ps, forallb piece_ok ps = true ->
  neval env NLit (join [32] (map render_piece ps)) = NOk (join [32] (map (piece_val env) ps)).
Proof.
  induction ps as [|p ps IH]; intros H; [reflexivity|].
  cbn [forallb] in H. apply andb_true_iff in H. destruct H as [Hp Hps].
  destruct ps as [|p2 ps].
  - cbn [map join]. destruct p as [t|n]; cbn [piece_ok render_piece piece_val] in *.
    + rewrite <- (app_nil_r (nq_sub _ t)). rewrite neval_lit by assumption. cbn. rewrite app_nil_r. reflexivity.
    + destruct n as [|c n]; [discriminate|]. apply neval_var_end; [discriminate | assumption].
  - cbn [map]. rewrite !join_cons2. specialize (IH Hps). cbn [map] in IH.
    destruct p as [t|n]; cbn [piece_ok render_piece piece_val] in *.
    + rewrite neval_lit by assumption. cbn [app]. rewrite neval_blank, IH. reflexivity.
    + destruct n as [|c n]; [discriminate|].
      cbn [app]. change (36 :: c :: n ++ 32 :: ?r) with (36 :: (c :: n) ++ 32 :: r).
      rewrite neval_var_blank; [| discriminate | assumption]. rewrite IH. reflexivity.
Qed.

(* special case: only literals *)
Lemma neval_join_lits env (ts : list str) : forallb nclean ts = true ->
  neval env NLit (join [32] (map (nq_sub nq_var_class) ts)) = NOk (join [32] ts).
Proof.
  intros H. pose proof (neval_pieces env (map PLit ts)) as P.
  rewrite !map_map in P. cbn [render_piece piece_val] in P.
  rewrite (map_id ts) in P. apply P.
  rewrite forallb_forall in *. intros p Hp. apply in_map_iff in Hp. destruct Hp as (t & <- & Ht).
  cbn. apply H. exact Ht.
Qed.

Theorem ninja_var_roundtrip env t : nclean t = true ->
  exists q, ninja_quote false t = QOk q /\ ninja_eval env q = NOk t.
Proof.
  intros H. exists (nq_sub nq_var_class t). split; [apply ninja_quote_var_ok; exact H|].
  unfold ninja_eval. rewrite <- (app_nil_r (nq_sub _ t)). rewrite neval_lit by exact H. cbn.
  rewrite app_nil_r. reflexivity.
Qed.

(* ------------------------------------------------------------------ the quote functions keep text ninja-clean *)

Lemma nclean_replace_sq s : nclean (replace_sq s) = nclean s.
Proof.
  induction s as [|c s IH]; [reflexivity|].
  rewrite replace_sq_cons, nclean_app, nclean_cons, IH.
  destruct (c =? 39) eqn:E; [|unfold nclean; cbn [existsb]; rewrite orb_false_r; reflexivity].
  apply N.eqb_eq in E. subst. reflexivity.
Qed.

Lemma nclean_shlex_quote s : nclean (shlex_quote s) = nclean s.
Proof.
  unfold shlex_quote. destruct s as [|c s]; [reflexivity|].
  destruct (forallb sh_safe (c :: s)); [reflexivity|].
  rewrite nclean_cons, nclean_app, nclean_replace_sq. cbn. rewrite andb_true_r. reflexivity.
Qed.

Lemma nclean_dbl_bs s : nclean (dbl_bs s) = nclean s.
Proof.
  induction s as [|c s IH]; [reflexivity|].
  unfold dbl_bs in *. cbn [flat_map]. rewrite nclean_app, nclean_cons, IH.
  destruct (c =? 92) eqn:E; [|unfold nclean; cbn [existsb]; rewrite orb_false_r; reflexivity].
  apply N.eqb_eq in E. subst. reflexivity.
Qed.

Lemma nclean_apply_qf qf s : nclean (apply_qf qf s) = nclean s.
Proof. destruct qf; cbn; [apply nclean_shlex_quote|]. unfold gcc_rsp_quote. rewrite nclean_shlex_quote. apply nclean_dbl_bs. Qed.

(* ------------------------------------------------------------------ NinjaBuildElement.write: a variable line *)

(* what one element is rendered as before ninja quoting *)
Definition enc (qf : qfun) (i : str) : str := if str_eqb i andand then i else apply_qf qf i.

Lemma nclean_enc qf i : nclean (enc qf i) = nclean i.
Proof. unfold enc. destruct (str_eqb i andand); [reflexivity | apply nclean_apply_qf]. Qed.

Lemma write_elem_ok qf i : nclean i = true ->
  write_elem qf true i = QOk (nq_sub nq_var_class (enc qf i)).
Proof.
  intros H. unfold write_elem, enc. cbn [negb orb].
  destruct (str_eqb i andand); apply ninja_quote_var_ok; [exact H | rewrite nclean_apply_qf; exact H].
Qed.

Lemma write_elem_err qf sq i : nclean i = false -> write_elem qf sq i = QErr.
Proof.
  intros H. unfold write_elem.
  destruct (negb sq || str_eqb i andand); apply ninja_quote_err; [exact H | rewrite nclean_apply_qf; exact H].
Qed.

Lemma qmap_ok (f : str -> qres) (g : str -> str) : forall l,
  (forall x, In x l -> f x = QOk (g x)) -> qmap f l = Some (map g l).
Proof.
  induction l as [|x l IH]; intros H; [reflexivity|].
  cbn [qmap map]. rewrite (H x (or_introl eq_refl)). rewrite IH; [reflexivity|].
  intros y Hy. apply H. right. exact Hy.
Qed.

Lemma qmap_err (f : str -> qres) : forall l x, In x l -> f x = QErr -> qmap f l = None.
Proof.
  induction l as [|y l IH]; intros x Hin Hx; [destruct Hin|].
  cbn [qmap]. destruct Hin as [->|Hin].
  - rewrite Hx. reflexivity.
  - rewrite (IH x Hin Hx). destruct (f y); reflexivity.
Qed.

Lemma write_elems_ok qf elems : forallb nclean elems = true ->
  write_elems qf true elems = QOk (join [32] (map (nq_sub nq_var_class) (map (enc qf) elems))).
Proof.
  intros H. unfold write_elems.
  rewrite (qmap_ok _ (fun i => nq_sub nq_var_class (enc qf i))).
  - cbn [qjoin]. rewrite map_map. reflexivity.
  - intros x Hx. apply write_elem_ok. rewrite forallb_forall in H. apply H. exact Hx.
Qed.

Lemma write_elems_eval env qf elems : forallb nclean elems = true ->
  exists line, write_elems qf true elems = QOk line /\
               ninja_eval env line = NOk (join [32] (map (enc qf) elems)).
Proof.
  intros H. eexists. split; [apply write_elems_ok; exact H|].
  unfold ninja_eval. apply neval_join_lits.
  rewrite forallb_forall in *. intros x Hx. apply in_map_iff in Hx. destruct Hx as (i & <- & Hi).
  rewrite nclean_enc. apply H. exact Hi.
Qed.

Lemma sh_enc_list elems :
  sh_tokens (join [32] (map (enc QfShell) elems)) = ShOk (map tok_of elems).
Proof.
  replace (map tok_of elems) with (concat (map (fun a => [tok_of a]) elems))
    by (induction elems; cbn; congruence).
  apply sh_tokens_join. induction elems as [|a elems IH]; constructor; [|exact IH].
  unfold enc, tok_of. destruct (str_eqb a andand) eqn:E.
  - apply str_eqb_eq in E. subst. reflexivity.
  - cbn [apply_qf]. apply sh_quote_single.
Qed.

(* MAIN (plain commands): for every element list ninja can carry, the line meson writes,
   evaluated by ninja and split by /bin/sh, is the list itself - an element that is exactly
   && becoming the AND-list operator and nothing else ever becoming an operator *)
Theorem command_elements_roundtrip env elems : forallb nclean elems = true ->
  exists line, write_elems QfShell true elems = QOk line /\
               ninja_sh env line = Some (map tok_of elems).
Proof.
  intros H. destruct (write_elems_eval env QfShell elems H) as (line & Hw & He).
  exists line. split; [exact Hw|]. unfold ninja_sh. rewrite He, sh_enc_list. reflexivity.
Qed.

(* what is not representable is rejected, never mangled *)
Theorem command_elements_reject qf sq elems : forallb nclean elems = false ->
  write_elems qf sq elems = QErr.
Proof.
  intros H. unfold write_elems.
  assert (exists x, In x elems /\ nclean x = false) as (x & Hin & Hx).
  { induction elems as [|y l IH]; [discriminate|]. cbn [forallb] in H.
    destruct (nclean y) eqn:E.
    - destruct (IH H) as (x & Hin & Hx). exists x. split; [right; exact Hin | exact Hx].
    - exists y. split; [left; reflexivity | exact E]. }
  rewrite (qmap_err _ _ x Hin (write_elem_err qf sq x Hx)). reflexivity.
Qed.

(* ------------------------------------------------------------------ GCC response files *)

Definition gplain (c : char) : bool :=
  negb (is_cspace c) && negb (c =? 92) && negb (c =? 39) && negb (c =? 34).

Lemma gplain_split c : gplain c = true ->
  is_cspace c = false /\ (c =? 92) = false /\ (c =? 39) = false /\ (c =? 34) = false.
Proof. unfold gplain. lia. Qed.

Lemma sh_safe_is_gplain c : sh_safe c = true -> gplain c = true.
Proof. intros H. destruct (sh_safe_gplain c H) as (A & B & C & D). unfold gplain. rewrite A, B, C, D. reflexivity. Qed.

(* a chunk q of a response file "reads as" the argument s: from the start of an argument
   it leaves the reader inside that argument, unquoted, with s accumulated *)
Definition reads_as (q s : str) : Prop :=
  forall ia rest, gba ia GN false [] (q ++ rest) = gba true GN false (rev s) rest.

Lemma gba_plain_run : forall s ia acc rest, forallb gplain s = true -> s <> [] \/ ia = true ->
  gba ia GN false acc (s ++ rest) = gba true GN false (rev s ++ acc) rest.
Proof.
  induction s as [|c s IH]; intros ia acc rest H Hne.
  - destruct Hne as [Hne| ->]; [congruence | reflexivity].
  - cbn [forallb] in H. apply andb_true_iff in H. destruct H as [Hc Hs].
    destruct (gplain_split c Hc) as (A & B & C & D).
    cbn [app gba]. rewrite A, B, C, D. rewrite (IH true _ _ Hs (or_intror eq_refl)).
    cbn [rev]. rewrite <- app_assoc. reflexivity.
Qed.

Lemma gba_sq_body : forall s acc rest,
  gba true GS false acc (replace_sq (dbl_bs s) ++ 39 :: rest) = gba true GN false (rev s ++ acc) rest.
Proof.
  induction s as [|c s IH]; intros acc rest; [reflexivity|].
  unfold dbl_bs. cbn [flat_map]. fold (dbl_bs s). rewrite replace_sq_app, <- app_assoc.
  destruct (c =? 92) eqn:E92.
  - apply N.eqb_eq in E92. subst c. cbn. rewrite IH. rewrite <- app_assoc. reflexivity.
  - rewrite replace_sq_cons. cbn [replace_sq flat_map]. rewrite app_nil_r.
    destruct (c =? 39) eqn:E39.
    + apply N.eqb_eq in E39. subst c. cbn. rewrite IH. rewrite <- app_assoc. reflexivity.
    + cbn [app gba]. rewrite E92, E39. rewrite IH. cbn [rev]. rewrite <- app_assoc. reflexivity.
Qed.

Lemma dbl_bs_safe_id s : forallb sh_safe (dbl_bs s) = true -> dbl_bs s = s.
Proof.
  induction s as [|c s IH]; [reflexivity|].
  unfold dbl_bs. cbn [flat_map]. fold (dbl_bs s). rewrite forallb_app.
  destruct (c =? 92) eqn:E.
  - apply N.eqb_eq in E. subst. cbn. discriminate.
  - intros H. apply andb_true_iff in H. destruct H as [_ H]. cbn [app]. f_equal. apply IH. exact H.
Qed.

Lemma dbl_bs_nil s : dbl_bs s = [] -> s = [].
Proof. destruct s as [|c s]; [reflexivity|]. unfold dbl_bs. cbn [flat_map]. destruct (c =? 92); discriminate. Qed.

Lemma reads_gcc_rsp_quote s : reads_as (gcc_rsp_quote s) s.
Proof.
  intros ia rest. unfold gcc_rsp_quote, shlex_quote.
  destruct (dbl_bs s) as [|c d] eqn:D.
  - apply dbl_bs_nil in D. subst. reflexivity.
  - destruct (forallb sh_safe (c :: d)) eqn:S.
    + rewrite <- D in S. pose proof (dbl_bs_safe_id s S) as I. rewrite I in D. rewrite <- D.
      rewrite gba_plain_run.
      * rewrite app_nil_r. reflexivity.
      * rewrite <- I. rewrite forallb_forall in *. intros x Hx. apply sh_safe_is_gplain. apply S. exact Hx.
      * left. rewrite D. discriminate.
    + rewrite <- D. change ((39 :: replace_sq (dbl_bs s) ++ [39]) ++ rest)
        with (39 :: (replace_sq (dbl_bs s) ++ [39]) ++ rest).
      rewrite <- app_assoc. cbn [gba is_cspace N.eqb N.leb N.compare Pos.compare Pos.compare_cont Pos.eqb andb orb]. cbn [app].
      rewrite gba_sq_body. rewrite app_nil_r. reflexivity.
Qed.

Lemma reads_andand : reads_as andand andand.
Proof. intros ia rest. reflexivity. Qed.

Lemma reads_enc_rsp i : reads_as (enc QfRsp i) i.
Proof.
  unfold enc. destruct (str_eqb i andand) eqn:E.
  - apply str_eqb_eq in E. subst. apply reads_andand.
  - apply reads_gcc_rsp_quote.
Qed.

Lemma gcc_join_chunks : forall qs ss, Forall2 reads_as qs ss ->
  gcc_rsp_args (join [32] qs) = ss.
Proof.
  unfold gcc_rsp_args.
  induction qs as [|q qs IH]; intros ss H; inversion H as [|? s ? sr Hq Hr]; subst; [reflexivity|].
  destruct qs as [|q2 qs].
  - inversion Hr; subst. cbn [join]. rewrite <- (app_nil_r q). rewrite Hq. cbn. rewrite rev_involutive. reflexivity.
  - rewrite join_cons2. rewrite Hq. cbn [app gba]. cbn. rewrite rev_involutive. f_equal. apply IH. exact Hr.
Qed.

(* MAIN (response files): the line meson writes for a response-file statement, evaluated by
   ninja and read by GCC's @file reader, is the element list itself *)
Theorem rsp_elements_roundtrip env elems : forallb nclean elems = true ->
  exists line content, write_elems QfRsp true elems = QOk line /\
                       ninja_eval env line = NOk content /\
                       gcc_rsp_args content = elems.
Proof.
  intros H. destruct (write_elems_eval env QfRsp elems H) as (line & Hw & He).
  exists line, (join [32] (map (enc QfRsp) elems)). split; [exact Hw|]. split; [exact He|].
  apply gcc_join_chunks. clear. induction elems; cbn [map]; [constructor | constructor; [apply reads_enc_rsp | assumption]].
Qed.

Theorem gcc_rsp_quote_roundtrip args : gcc_rsp_args (join [32] (map gcc_rsp_quote args)) = args.
Proof. apply gcc_join_chunks. induction args; cbn [map]; [constructor | constructor; [apply reads_gcc_rsp_quote | assumption]]. Qed.

(* ------------------------------------------------------------------ escape_extra_args: the -D rule *)

Definition is_define (a : str) : bool := prefixb dash_D a || prefixb slash_D a.

Lemma c_unescape_dbl : forall s, c_unescape_bs (dbl_bs s) = s.
Proof.
  induction s as [|c s IH]; [reflexivity|].
  unfold dbl_bs. cbn [flat_map]. fold (dbl_bs s).
  destruct (c =? 92) eqn:E.
  - apply N.eqb_eq in E. subst. cbn [app]. cbn [c_unescape_bs N.eqb Pos.eqb andb]. rewrite IH. reflexivity.
  - cbn [app]. cbn [c_unescape_bs]. rewrite E. cbn [andb]. rewrite IH.
    destruct (dbl_bs s) eqn:D; [|reflexivity]. apply dbl_bs_nil in D. subst. reflexivity.
Qed.

Theorem escape_extra_args_spec : forall args,
  Forall2 (fun a o => if is_define a then o = dbl_bs a /\ c_unescape_bs o = a else o = a)
          args (escape_extra_args args).
Proof.
  induction args as [|a args IH]; [constructor|].
  unfold escape_extra_args. cbn [map]. constructor; [|exact IH].
  unfold is_define. destruct (prefixb dash_D a || prefixb slash_D a); [|reflexivity].
  split; [reflexivity | apply c_unescape_dbl].
Qed.

Theorem escape_extra_args_length args : length (escape_extra_args args) = length args.
Proof. unfold escape_extra_args. apply map_length. Qed.

(* ------------------------------------------------------------------ backslash normalisation *)

Theorem bs_norm_spec : forall s,
  Forall2 (fun c d => d = if c =? 92 then 47 else c) s (bs_norm s).
Proof. induction s as [|c s IH]; [constructor|]. unfold bs_norm. cbn [map]. constructor; [reflexivity | exact IH]. Qed.

Theorem bs_norm_no_backslash s : memb 92 (bs_norm s) = false.
Proof.
  induction s as [|c s IH]; [reflexivity|]. unfold bs_norm in *. cbn [map memb]. rewrite IH.
  destruct (c =? 92) eqn:E; [reflexivity|]. rewrite N.eqb_sym, E. reflexivity.
Qed.

Theorem bs_norm_id s : memb 92 s = false -> bs_norm s = s.
Proof.
  induction s as [|c s IH]; [reflexivity|]. cbn [memb]. intros H. apply orb_false_iff in H. destruct H as [H1 H2].
  unfold bs_norm in *. cbn [map]. rewrite N.eqb_sym, H1. f_equal. apply IH. exact H2.
Qed.

(* ------------------------------------------------------------------ as_meson_exe_cmdline *)

Lemma nclean_has_nl s : nclean s = negb (has_nl s).
Proof.
  induction s as [|c s IH]; [reflexivity|].
  rewrite nclean_cons, IH. unfold has_nl, nbad. cbn [memb].
  destruct (memb 10 s), (memb 13 s); lia.
Qed.

Lemma no_nl_all_clean l : existsb has_nl l = false -> forallb nclean l = true.
Proof.
  induction l as [|a l IH]; [reflexivity|]. cbn [existsb forallb]. intros H.
  apply orb_false_iff in H. destruct H as [H1 H2]. rewrite nclean_has_nl, H1, (IH H2). reflexivity.
Qed.

Lemma all_clean_no_nl l : forallb nclean l = true -> existsb has_nl l = false.
Proof.
  induction l as [|a l IH]; [reflexivity|]. cbn [existsb forallb]. intros H.
  apply andb_true_iff in H. destruct H as [H1 H2]. rewrite nclean_has_nl in H1.
  apply negb_true_iff in H1. rewrite H1, (IH H2). reflexivity.
Qed.

(* "an argument containing a newline always takes the pickled route": also for env values *)
Theorem exe_newline_pickled x :
  existsb has_nl (x_exe_cmd x ++ x_args x) = true \/
  existsb has_nl (map env_assign (env_dict (x_env x))) = true ->
  exists p, as_meson_exe x = RPickle p.
Proof.
  intros [H|H]; unfold as_meson_exe; rewrite H.
  - rewrite !andb_false_r. cbn [andb negb]. rewrite !orb_true_r. cbn [orb negb]. eexists. reflexivity.
  - cbn [negb]. rewrite !andb_false_r.
    destruct (x_env x) as [|kv l] eqn:E; [cbn in H; discriminate|].
    rewrite !orb_true_r. cbn [negb]. eexists. reflexivity.
Qed.

Definition opt_clean (o : option str) : bool := match o with Some s => nclean s | None => true end.
Definition exe_guard (x : exe_in) : bool :=
  forallb nclean (x_exe_cmd x) && forallb nclean (x_build_cmd x) && nclean (x_datafile x) &&
  opt_clean (x_capture x) && opt_clean (x_feed x).

Lemma forallb_opt_args flag o : nclean flag = true -> opt_clean o = true ->
  forallb nclean (opt_args flag o) = true.
Proof. intros Hf Ho. destruct o; cbn in *; [rewrite Hf, Ho|]; reflexivity. Qed.

(* whatever the arguments and environment values contain, the command list handed to the
   ninja writer is representable: ninja_quote's rejection is unreachable for custom commands *)
Theorem exe_cmdline_clean x : exe_guard x = true ->
  forallb nclean (route_cmdline x (as_meson_exe x)) = true.
Proof.
  unfold exe_guard. intros G.
  repeat (apply andb_true_iff in G; destruct G as [G ?]).
  rename G into Gexe, H2 into Gbuild, H1 into Gdat, H0 into Gcap, H into Gfeed.
  unfold as_meson_exe.
  set (cmd := x_exe_cmd x ++ x_args x).
  destruct (existsb has_nl cmd) eqn:NL.
  - (* newline in the command: pickled *)
    rewrite !andb_false_r. cbn [andb negb]. rewrite !orb_true_r. cbn [orb negb route_cmdline].
    rewrite forallb_app, Gbuild. cbn. rewrite Gdat. reflexivity.
  - pose proof (no_nl_all_clean _ NL) as CMD.
    match goal with |- context [if ?c then REnv _ _ else _] => destruct c eqn:C1 end.
    + (* env route *)
      apply andb_true_iff in C1. destruct C1 as [_ C1]. apply negb_true_iff in C1.
      cbn [route_cmdline forallb]. rewrite forallb_app, (no_nl_all_clean _ C1), CMD. reflexivity.
    + match goal with |- context [if ?c then _ else RPickle _] => destruct c eqn:C2 end.
      * match goal with |- context [if ?c then RPlain _ else _] => destruct c eqn:C3 end.
        -- cbn [route_cmdline]. exact CMD.
        -- cbn [route_cmdline]. rewrite !forallb_app, Gbuild, CMD.
           rewrite !forallb_opt_args; try reflexivity.
           ++ destruct (nonempty_opt (x_feed x)); [exact Gfeed | reflexivity].
           ++ destruct (nonempty_opt (x_capture x)); [exact Gcap | reflexivity].
      * cbn [route_cmdline]. rewrite forallb_app, Gbuild. cbn. rewrite Gdat. reflexivity.
Qed.

(* ------------------------------------------------------------------ what finally runs for a custom command *)

Definition no_andand (l : list str) : bool := negb (existsb (fun a => str_eqb a andand) l).
Definition opt_ok (o : option str) : bool := match o with Some [] => false | _ => true end.
Definition no_eq (s : str) : bool := negb (memb 61 s).

Definition opt_no_andand (o : option str) : bool :=
  match o with Some s => negb (str_eqb s andand) | None => true end.

Definition run_guard (x : exe_in) : bool :=
  exe_guard x && opt_no_andand (x_capture x) && opt_no_andand (x_feed x) &&
  opt_ok (x_workdir x) && opt_ok (x_capture x) && opt_ok (x_feed x) &&
  no_andand (x_exe_cmd x ++ x_args x) && no_andand (x_build_cmd x) &&
  no_andand (map env_assign (env_dict (x_env x))) &&
  forallb (fun kv => no_eq (fst kv)) (x_env x) &&
  match x_exe_cmd x with e :: _ => no_eq e | [] => false end.

Lemma split_cmds_words l : split_cmds (map W l) = [l].
Proof. induction l as [|w l IH]; [reflexivity|]. cbn [map split_cmds]. rewrite IH. reflexivity. Qed.

Lemma tok_of_words l : no_andand l = true -> map tok_of l = map W l.
Proof.
  unfold no_andand. induction l as [|a l IH]; [reflexivity|]. cbn [existsb map]. intros H.
  apply negb_true_iff in H. apply orb_false_iff in H. destruct H as [H1 H2].
  unfold tok_of at 1. rewrite H1. f_equal. apply IH. rewrite H2. reflexivity.
Qed.

Lemma no_andand_app a b : no_andand (a ++ b) = no_andand a && no_andand b.
Proof. unfold no_andand. rewrite existsb_app, negb_orb. reflexivity. Qed.

(* a representable list without && reaches the process as is *)
Lemma plain_list_runs L : forallb nclean L = true -> no_andand L = true ->
  exists line, write_elems QfShell true L = QOk line /\ ninja_sh [] line = Some (map W L).
Proof.
  intros C A. destruct (command_elements_roundtrip [] L C) as (line & Hw & Hs).
  exists line. split; [exact Hw|]. rewrite Hs, (tok_of_words L A). reflexivity.
Qed.

Lemma split_eq_assign k v : no_eq k = true -> split_eq (env_assign (k, v)) = Some (k, v).
Proof.
  unfold env_assign, no_eq. cbn [fst snd]. induction k as [|c k IH]; intros H.
  - reflexivity.
  - cbn [memb] in H. apply negb_true_iff in H. apply orb_false_iff in H. destruct H as [H1 H2].
    cbn [app split_eq]. rewrite N.eqb_sym, H1. rewrite IH; [reflexivity|]. rewrite H2. reflexivity.
Qed.

Lemma split_eq_none s : no_eq s = true -> split_eq s = None.
Proof.
  unfold no_eq. induction s as [|c s IH]; intros H; [reflexivity|].
  cbn [memb] in H. apply negb_true_iff in H. apply orb_false_iff in H. destruct H as [H1 H2].
  cbn [split_eq]. rewrite N.eqb_sym, H1. rewrite IH; [reflexivity|]. rewrite H2. reflexivity.
Qed.

Lemma env_prog_assigns : forall d e rest,
  forallb (fun kv => no_eq (fst kv)) d = true -> no_eq e = true ->
  env_prog (map env_assign d ++ e :: rest) = (d, e :: rest).
Proof.
  induction d as [|[k v] d IH]; intros e rest Hd He.
  - cbn [map app env_prog]. rewrite (split_eq_none e He). reflexivity.
  - cbn [forallb fst] in Hd. apply andb_true_iff in Hd. destruct Hd as [Hk Hd].
    cbn [map app env_prog]. rewrite (split_eq_assign k v Hk). rewrite (IH _ _ Hd He). reflexivity.
Qed.

Lemma dict_set_keys P d k v :
  forallb (fun kv : str * str => P (fst kv)) d = true -> P k = true ->
  forallb (fun kv : str * str => P (fst kv)) (dict_set d k v) = true.
Proof.
  induction d as [|[k' v'] d IH]; intros Hd Hk.
  - cbn. rewrite Hk. reflexivity.
  - cbn [forallb fst] in Hd. apply andb_true_iff in Hd. destruct Hd as [H1 H2].
    cbn [dict_set]. destruct (str_eqb k' k); cbn [forallb fst]; rewrite H1; [exact H2 | apply IH; assumption].
Qed.

Lemma env_dict_keys P ops :
  forallb (fun kv : str * str => P (fst kv)) ops = true ->
  forallb (fun kv : str * str => P (fst kv)) (env_dict ops) = true.
Proof.
  unfold env_dict. generalize (@nil (str * str)) (eq_refl : forallb (fun kv : str * str => P (fst kv)) [] = true).
  induction ops as [|[k v] ops IH]; intros d Hd H; [exact Hd|].
  cbn [forallb fst] in H. apply andb_true_iff in H. destruct H as [Hk Hops].
  cbn [fold_left fst snd]. apply IH; [apply dict_set_keys; assumption | exact Hops].
Qed.

Lemma drop_prefix_app p l : drop_prefix p (p ++ l) = Some l.
Proof. induction p as [|a p IH]; [reflexivity|]. cbn [app drop_prefix]. rewrite str_eqb_refl. exact IH. Qed.

Lemma exe_parse_wrap c f e rest :
  exe_parse (opt_args s_capture c ++ opt_args s_feed f ++ s_dashdash :: e :: rest) = Some (c, f, e :: rest).
Proof. destruct c, f; reflexivity. Qed.

Lemma opt_ok_eff o : opt_ok o = true -> (if nonempty_opt o then o else None) = o.
Proof. destruct o as [[|c s]|]; cbn; intros H; congruence. Qed.

(* MAIN (custom commands): for every command, argument list, environment, capture and feed,
   the process that meson's chosen route finally starts gets exactly the specified argv and
   environment assignments, whatever characters they contain *)
Theorem custom_command_argv x : run_guard x = true ->
  run_route x (as_meson_exe x) =
    Ran (env_dict (x_env x)) (x_workdir x) (x_capture x) (x_feed x) (x_exe_cmd x ++ x_args x).
Proof.
  unfold run_guard. remember (exe_guard x) as g eqn:Hg. intros G.
  repeat (apply andb_true_iff in G; destruct G as [G ?]).
  rewrite Hg in G. clear Hg g.
  rename G into Gg, H8 into AAcap, H7 into AAfeed, H6 into Owd, H5 into Ocap, H4 into Ofeed, H3 into Acmd,
         H2 into Abuild, H1 into Aenv, H0 into Keys, H into Ehead.
  pose proof (exe_cmdline_clean x Gg) as CLEAN.
  destruct (x_exe_cmd x) as [|e erest] eqn:EXE; [discriminate|].
  revert CLEAN. unfold as_meson_exe. rewrite EXE.
  set (cmd := (e :: erest) ++ x_args x) in *.
  match goal with |- context [if ?c then REnv _ _ else _] => destruct c eqn:C1 end.
  - (* env route *)
    intros CLEAN. cbn [run_route].
    repeat (apply andb_true_iff in C1; destruct C1 as [C1 ?]).
    destruct (plain_list_runs (route_cmdline x (REnv (map env_assign (env_dict (x_env x))) cmd))) as (line & Hw & Hs);
      [exact CLEAN | cbn [route_cmdline]; change (s_env :: ?l) with ([s_env] ++ l); rewrite !no_andand_app, Aenv, Acmd; reflexivity |].
    rewrite Hw, Hs. unfold single_cmd. rewrite split_cmds_words. cbn [route_cmdline]. rewrite str_eqb_refl.
    unfold cmd at 1. cbn [app]. rewrite env_prog_assigns; [| apply env_dict_keys; exact Keys | exact Ehead].
    (* only_env: no workdir, capture, feed *)
    rename H1 into OE.
    apply andb_true_iff in OE. destruct OE as [OE Nfeed]. apply andb_true_iff in OE. destruct OE as [OE Ncap].
    apply andb_true_iff in OE. destruct OE as [OE _]. apply andb_true_iff in OE. destruct OE as [_ Nwd].
    apply negb_true_iff in Nfeed, Ncap, Nwd.
    rewrite <- (opt_ok_eff _ Owd), <- (opt_ok_eff _ Ocap), <- (opt_ok_eff _ Ofeed).
    rewrite Nfeed, Ncap, Nwd. reflexivity.
  - match goal with |- context [if ?c then _ else RPickle _] => destruct c eqn:C2 end.
    + (* not forced: r_env = false, r_workdir = false *)
      apply negb_true_iff in C2.
      apply orb_false_iff in C2. destruct C2 as [C2 Nenv]. apply orb_false_iff in C2. destruct C2 as [C2 _].
      apply orb_false_iff in C2. destruct C2 as [_ Nwd].
      assert (ENV : x_env x = []) by (destruct (x_env x); [reflexivity | discriminate]).
      rewrite ENV. cbn [env_dict fold_left].
      rewrite <- (opt_ok_eff _ Owd). rewrite Nwd.
      match goal with |- context [if ?c then RPlain _ else _] => destruct c eqn:C3 end.
      * intros CLEAN. cbn [run_route].
        destruct (plain_list_runs cmd) as (line & Hw & Hs); [exact CLEAN | exact Acmd |].
        cbn [route_cmdline]. rewrite Hw, Hs. unfold single_cmd. rewrite split_cmds_words.
        apply andb_true_iff in C3. destruct C3 as [C3 C4]. apply negb_true_iff in C3, C4.
        rewrite <- (opt_ok_eff _ Ocap), <- (opt_ok_eff _ Ofeed). rewrite C3, C4. reflexivity.
      * intros CLEAN. cbn [run_route].
        match type of CLEAN with forallb nclean (route_cmdline x ?r) = true => set (R := r) in * end.
        destruct (plain_list_runs (route_cmdline x R)) as (line & Hw & Hs); [exact CLEAN | |].
        { unfold R. cbn [route_cmdline]. rewrite !no_andand_app, Abuild, Acmd.
          unfold opt_no_andand in AAcap, AAfeed.
          destruct (nonempty_opt (x_capture x)), (nonempty_opt (x_feed x)), (x_capture x), (x_feed x);
            cbn [opt_args]; unfold no_andand; cbn [existsb];
            rewrite ?orb_false_r;
            repeat match goal with H : negb (str_eqb ?s andand) = true |- _ => apply negb_true_iff in H; rewrite H end;
            reflexivity. }
        rewrite Hw, Hs. unfold single_cmd. rewrite split_cmds_words. unfold R. cbn [route_cmdline].
        rewrite (app_assoc (x_build_cmd x)). rewrite drop_prefix_app.
        unfold cmd. cbn [app]. rewrite exe_parse_wrap.
        rewrite (opt_ok_eff _ Ocap), (opt_ok_eff _ Ofeed). reflexivity.
    + intros _. cbn [run_route p_env p_workdir p_capture p_feed p_cmd].
      rewrite (opt_ok_eff _ Owd). reflexivity.
Qed.

(* ------------------------------------------------------------------ NinjaRule command strings *)

(* the shapes rule commands are built from: a literal word, or a reference $n to a
   variable of the build statement (ARGS, LINK_ARGS, COMMAND, in, out, DEPFILE ...) *)
Inductive citem := CLit (s : str) | CVar (n : str).
Definition citem_ritem (it : citem) : ritem :=
  match it with CLit s => RStr s | CVar n => RStr (36 :: n) end.
Definition citem_ok (it : citem) : bool :=
  match it with
  | CLit s => nclean s && negb (prefixb [36] s)
  | CVar n => match n with [] => false | _ => forallb is_word n end && negb (str_mem n raw_names)
  end.
Definition citem_piece (qf : qfun) (it : citem) : piece :=
  match it with CLit s => PLit (enc qf s) | CVar n => PVar n end.

Lemma is_word_simple c : is_word c = true -> is_simple_var c = true.
Proof. unfold is_word, is_simple_var. intros H. apply orb_true_iff in H. destruct H as [H|H]; rewrite H; rewrite ?orb_true_r; reflexivity. Qed.

Lemma take_word_all n : forallb is_word n = true -> take_word n = n.
Proof.
  induction n as [|c n IH]; [reflexivity|]. cbn [forallb take_word]. intros H.
  apply andb_true_iff in H. destruct H as [Hc Hn]. rewrite Hc, (IH Hn). reflexivity.
Qed.

Lemma classify_plain s : str_eqb s andand = false -> prefixb [36] s = false -> classify s = QBoth.
Proof.
  intros E D. unfold classify. rewrite E. destruct s as [|c s]; [reflexivity|].
  cbn [prefixb] in D. rewrite andb_true_r in D. apply N.eqb_neq in D.
  destruct c as [|p]; [reflexivity|].
  do 6 (destruct p as [p|p|]; try reflexivity). exfalso. apply D. reflexivity.
Qed.

Lemma classify_andand : classify andand = QNotShell.
Proof. reflexivity. Qed.

Lemma strip_brace_word c n : is_word c = true ->
  match c :: n with 123 :: r2 => r2 | _ => c :: n end = c :: n.
Proof.
  intros Hc.
  assert (NB : c <> 123) by (unfold is_word, is_alnum, is_alpha, is_lower, is_upper, is_digit in Hc; lia).
  destruct c as [|p]; [reflexivity|].
  do 7 (destruct p as [p|p|]; try reflexivity). exfalso. apply NB. reflexivity.
Qed.

Lemma classify_var c n : forallb is_word (c :: n) = true -> str_mem (c :: n) raw_names = false ->
  classify (36 :: c :: n) = QNone.
Proof.
  intros Hw Hr. unfold classify.
  change (str_eqb (36 :: c :: n) andand) with false. cbv iota.
  pose proof Hw as Hw'. cbn [forallb] in Hw'. apply andb_true_iff in Hw'. destruct Hw' as [Hc _].
  change (match 36 :: c :: n with
          | 36 :: r => if str_mem (take_word match r with 123 :: r2 => r2 | _ => r end) raw_names then QNotNinja else QNone
          | _ => QBoth end)
    with (if str_mem (take_word match c :: n with 123 :: r2 => r2 | _ => c :: n end) raw_names then QNotNinja else QNone).
  rewrite (strip_brace_word c n Hc). rewrite (take_word_all _ Hw), Hr. reflexivity.
Qed.

Lemma quoter_citem qf it : citem_ok it = true ->
  quoter qf (citem_ritem it) = QOk (render_piece (citem_piece qf it)) /\ piece_ok (citem_piece qf it) = true.
Proof.
  destruct it as [s|n]; cbn [citem_ok citem_ritem citem_piece render_piece piece_ok]; intros H.
  - apply andb_true_iff in H. destruct H as [Hc Hd]. apply negb_true_iff in Hd.
    rewrite nclean_enc. split; [|exact Hc].
    unfold quoter, enc. cbn [item_quoting item_str].
    destruct (str_eqb s andand) eqn:E.
    + apply str_eqb_eq in E. subst s. rewrite classify_andand. apply ninja_quote_var_ok. reflexivity.
    + rewrite (classify_plain s E Hd). apply ninja_quote_var_ok. rewrite nclean_apply_qf. exact Hc.
  - apply andb_true_iff in H. destruct H as [Hw Hr]. apply negb_true_iff in Hr.
    destruct n as [|c n]; [discriminate|].
    split.
    + unfold quoter. cbn [item_quoting item_str]. rewrite (classify_var c n Hw Hr). reflexivity.
    + rewrite forallb_forall in *. intros d Hd. apply is_word_simple. apply Hw. exact Hd.
Qed.

Lemma qmap_items_ok qf : forall items, forallb citem_ok items = true ->
  qmap_items (quoter qf) (map citem_ritem items) = Some (map render_piece (map (citem_piece qf) items)) /\
  forallb piece_ok (map (citem_piece qf) items) = true.
Proof.
  induction items as [|it items IH]; intros H; [split; reflexivity|].
  cbn [forallb] in H. apply andb_true_iff in H. destruct H as [Hi Hs].
  destruct (quoter_citem qf it Hi) as [Q P]. destruct (IH Hs) as [Q' P'].
  cbn [map qmap_items forallb]. rewrite Q, Q', P, P'. split; reflexivity.
Qed.

(* per-Quoting-mode theorem for rule commands: literals are shell+ninja quoted, $var references
   are passed through; after ninja and /bin/sh the command is the literals and, in place of each
   reference, whatever the referenced variable's value tokenises to *)
Theorem rule_command_tokens env items (vals : str -> list tok) :
  forallb citem_ok items = true ->
  (forall n, In (CVar n) items -> sh_tokens (lookup env n) = ShOk (vals n)) ->
  exists cs, command_str (map citem_ritem items) [] = QOk cs /\
             ninja_sh env cs =
               Some (concat (map (fun it => match it with CLit s => [tok_of s] | CVar n => vals n end) items)).
Proof.
  intros Hok Hv. destruct (qmap_items_ok QfShell items Hok) as [Q P].
  unfold command_str. rewrite app_nil_r, Q. cbn [qjoin]. eexists. split; [reflexivity|].
  unfold ninja_sh, ninja_eval. rewrite (neval_pieces env _ P).
  rewrite (sh_tokens_join _ (map (fun it => match it with CLit s => [tok_of s] | CVar n => vals n end) items)); [reflexivity|].
  clear Q P Hok. induction items as [|it items IH]; cbn [map]; [constructor|].
  constructor.
  - destruct it as [s|n]; cbn [citem_piece piece_val].
    + exact (sh_enc_list [s]).
    + apply Hv. left. reflexivity.
  - apply IH. intros n Hn. apply Hv. right. exact Hn.
Qed.

(* the whole path for compiler / linker / custom rules: the build statement's variables are
   written by NinjaBuildElement.write and evaluated by ninja when the statement is read;
   the rule's command then expands to exactly: the rule's literal words, and in place of
   each $VAR the element list the backend stored under VAR *)
Theorem edge_command_argv fenv env items (elems : str -> list str) :
  forallb citem_ok items = true ->
  (forall n, In (CVar n) items ->
     exists line, write_elems QfShell true (elems n) = QOk line /\ ninja_eval fenv line = NOk (lookup env n)) ->
  exists cs, command_str (map citem_ritem items) [] = QOk cs /\
             ninja_sh env cs =
               Some (concat (map (fun it => match it with CLit s => [tok_of s] | CVar n => map tok_of (elems n) end) items)).
Proof.
  intros Hok Hb. apply rule_command_tokens; [exact Hok|].
  intros n Hn. destruct (Hb n Hn) as (line & Hw & He).
  destruct (forallb nclean (elems n)) eqn:C.
  - destruct (write_elems_eval fenv QfShell (elems n) C) as (line' & Hw' & He').
    rewrite Hw in Hw'. inversion Hw'; subst line'. rewrite He in He'. inversion He' as [E]. rewrite E.
    apply sh_enc_list.
  - rewrite (command_elements_reject QfShell true _ C) in Hw. discriminate.
Qed.

(* ------------------------------------------------------------------ && is the only operator *)

Theorem tok_of_andand_iff a : tok_of a = AndAnd <-> a = andand.
Proof.
  unfold tok_of. destruct (str_eqb a andand) eqn:E.
  - apply str_eqb_eq in E. split; intros; [exact E | reflexivity].
  - split; [discriminate|]. intros ->. rewrite str_eqb_refl in E. discriminate.
Qed.

(* ------------------------------------------------------------------ the known finding: newline / CR in a ninja-carried list *)

(* full strength ("whatever it contains ... newlines") is false for lists that have to be carried
   by a ninja variable (compiler and linker arguments): the writer rejects them *)
Theorem command_elements_newline_refuted :
  exists elems, write_elems QfShell true elems = QErr /\ write_elems QfRsp true elems = QErr.
Proof. exists [[45; 68; 88; 61; 97; 10; 98]]. split; vm_compute; reflexivity. Qed.

(* the guard of the _partial theorems is satisfiable by non-trivial input *)
Example guard_satisfiable :
  forallb nclean [s2l "a b"; s2l "$x"; s2l "it's"; s2l "#;&|<>*?`"; [233; 8364]; andand; []] = true.
Proof. vm_compute. reflexivity. Qed.

Example run_guard_satisfiable :
  run_guard {| x_exe_cmd := [s2l "/usr/bin/prog"]; x_args := [s2l "a b"; [97; 10; 98]; s2l "$x"];
               x_workdir := None; x_capture := Some (s2l "out.txt"); x_feed := None;
               x_env := [(s2l "K", [108; 49; 10; 108; 50])]; x_can_use_env := true; x_force := false;
               x_has_env_prog := true; x_build_cmd := [s2l "/usr/bin/meson"]; x_datafile := s2l "d.dat" |} = true.
Proof. vm_compute. reflexivity. Qed.

(* ------------------------------------------------------------------ NinjaRule: the response-file variant *)

(* a chunk of a response file that reads as a whole list of arguments *)
Definition reads_list (q : str) (ss : list str) : Prop :=
  (forall rest, gba false GN false [] (q ++ 32 :: rest) = ss ++ gba false GN false [] rest) /\
  gba false GN false [] q = ss.

Lemma reads_as_list q s : reads_as q s -> reads_list q [s].
Proof.
  intros H. split.
  - intros rest. rewrite H. cbn. rewrite rev_involutive. reflexivity.
  - rewrite <- (app_nil_r q). rewrite H. cbn. rewrite rev_involutive. reflexivity.
Qed.

Lemma reads_list_join : forall qs sss, Forall2 reads_list qs sss -> reads_list (join [32] qs) (concat sss).
Proof.
  induction qs as [|q qs IH]; intros sss H; inversion H as [|? ss ? sr Hq Hr]; subst.
  - split; reflexivity.
  - destruct qs as [|q2 qs].
    + inversion Hr; subst. cbn [join concat]. rewrite app_nil_r. exact Hq.
    + rewrite join_cons2. cbn [concat]. destruct Hq as [Hq1 Hq2]. destruct (IH _ Hr) as [I1 I2]. split.
      * intros rest. rewrite <- app_assoc. cbn [app]. rewrite Hq1. rewrite <- app_assoc. rewrite I1, app_assoc. reflexivity.
      * cbn [app]. rewrite Hq1, I2. reflexivity.
Qed.

Lemma reads_enc_list elems : reads_list (join [32] (map (enc QfRsp) elems)) elems.
Proof.
  replace elems with (concat (map (fun a => [a]) elems)) at 2 by (induction elems; cbn; congruence).
  apply reads_list_join. induction elems; cbn [map]; [constructor | constructor; [apply reads_as_list, reads_enc_rsp | assumption]].
Qed.

(* rspfile_content of a rule whose args are literal words and $VAR references: after ninja's
   evaluation GCC reads from the file exactly the literals and, in place of each reference,
   the element list stored under VAR by NinjaBuildElement.write (response-file quoting) *)
Theorem rsp_rule_content_args fenv env items (elems : str -> list str) :
  forallb citem_ok items = true ->
  (forall n, In (CVar n) items ->
     exists line, write_elems QfRsp true (elems n) = QOk line /\ ninja_eval fenv line = NOk (lookup env n)) ->
  exists cs content, rspfile_content (map citem_ritem items) = QOk cs /\
                     ninja_eval env cs = NOk content /\
                     gcc_rsp_args content =
                       concat (map (fun it => match it with CLit s => [s] | CVar n => elems n end) items).
Proof.
  intros Hok Hb. destruct (qmap_items_ok QfRsp items Hok) as [Q P].
  unfold rspfile_content. rewrite Q. cbn [qjoin]. eexists. eexists. split; [reflexivity|].
  unfold ninja_eval. rewrite (neval_pieces env _ P). split; [reflexivity|].
  apply (reads_list_join (map (piece_val env) (map (citem_piece QfRsp) items))
                         (map (fun it => match it with CLit s => [s] | CVar n => elems n end) items)).
  clear Q P Hok. induction items as [|it items IH]; cbn [map]; [constructor|].
  constructor.
  - destruct it as [s|n]; cbn [citem_piece piece_val].
    + apply reads_as_list, reads_enc_rsp.
    + destruct (Hb n (or_introl eq_refl)) as (line & Hw & He).
      destruct (forallb nclean (elems n)) eqn:C.
      * destruct (write_elems_eval fenv QfRsp (elems n) C) as (line' & Hw' & He').
        rewrite Hw in Hw'. inversion Hw'; subst line'. rewrite He in He'. inversion He' as [E]. rewrite E.
        apply reads_enc_list.
      * rewrite (command_elements_reject QfRsp true _ C) in Hw. discriminate.
  - apply IH. intros n Hn. apply Hb. right. exact Hn.
Qed.

(* ================================================================== extension round *)

(* ------------------------------------------------------------------ build lines: path mode *)

Definition pathok (p : str) : bool :=
  match p with [] => false | _ => nclean p && negb (memb 124 p) end.

Definition tail_ok (tail : str) : Prop :=
  tail = [] \/ exists c t, tail = c :: t /\ path_end c = true.

Lemma np_body : forall p acc tail, nclean p = true -> memb 124 p = false ->
  npaths (PIn acc) (nq_sub nq_build_class p ++ tail) = npaths (PIn (rev p ++ acc)) tail.
Proof.
  induction p as [|c p IH]; intros acc tail H B; [reflexivity|].
  rewrite nclean_cons in H. apply andb_true_iff in H. destruct H as [Hc Hp]. apply negb_true_iff in Hc.
  cbn [memb] in B. apply orb_false_iff in B. destruct B as [Bc Bp].
  unfold nq_sub in *. cbn [flat_map]. unfold nq_build_class at 1. cbn [memb].
  assert (CASES : c = 32 \/ c = 36 \/ c = 58 \/
                  ((c =? 10) || ((c =? 32) || ((c =? 36) || ((c =? 58) || false))) = false /\
                   (c =? 32) = false /\ path_end c = false /\ (c =? 13) = false /\ (c =? 36) = false))
    by (unfold nbad in Hc; unfold path_end; lia).
  destruct CASES as [->|[->|[->|(E0 & E1 & E2 & E3 & E4)]]].
  - cbn. rewrite (IH _ _ Hp Bp). rewrite <- app_assoc. reflexivity.
  - cbn. rewrite (IH _ _ Hp Bp). rewrite <- app_assoc. reflexivity.
  - cbn. rewrite (IH _ _ Hp Bp). rewrite <- app_assoc. reflexivity.
  - rewrite E0. cbn [app npaths]. rewrite E1, E2, E3, E4. rewrite (IH _ _ Hp Bp).
    cbn [rev]. rewrite <- app_assoc. reflexivity.
Qed.

Lemma np_start p tail : pathok p = true ->
  npaths PSkip (nq_sub nq_build_class p ++ tail) = npaths (PIn (rev p)) tail.
Proof.
  unfold pathok. destruct p as [|c p]; [discriminate|]. intros H.
  apply andb_true_iff in H. destruct H as [H B]. apply negb_true_iff in B.
  rewrite nclean_cons in H. apply andb_true_iff in H. destruct H as [Hc Hp]. apply negb_true_iff in Hc.
  cbn [memb] in B. apply orb_false_iff in B. destruct B as [Bc Bp].
  unfold nq_sub. cbn [flat_map]. fold (nq_sub nq_build_class p). unfold nq_build_class at 1. cbn [memb].
  assert (CASES : c = 32 \/ c = 36 \/ c = 58 \/
                  ((c =? 10) || ((c =? 32) || ((c =? 36) || ((c =? 58) || false))) = false /\
                   (c =? 32) = false /\ path_end c = false /\ (c =? 13) = false /\ (c =? 36) = false))
    by (unfold nbad in Hc; unfold path_end; lia).
  destruct CASES as [->|[->|[->|(E0 & E1 & E2 & E3 & E4)]]].
  - cbn. rewrite (np_body _ _ _ Hp Bp). reflexivity.
  - cbn. rewrite (np_body _ _ _ Hp Bp). reflexivity.
  - cbn. rewrite (np_body _ _ _ Hp Bp). reflexivity.
  - rewrite E0. cbn [app npaths]. rewrite E1, E2, E3, E4. rewrite (np_body _ _ _ Hp Bp). reflexivity.
Qed.

Lemma np_tail_skip tail : tail_ok tail -> npaths PSkip tail = POk [] tail.
Proof.
  intros [->|(c & t & -> & Hc)]; [reflexivity|]. cbn [npaths]. rewrite Hc.
  assert ((c =? 32) = false) by (unfold path_end in Hc; lia). rewrite H. reflexivity.
Qed.

Lemma np_tail_in acc tail : tail_ok tail -> npaths (PIn acc) tail = POk [rev acc] tail.
Proof.
  intros [->|(c & t & -> & Hc)]; [reflexivity|]. cbn [npaths]. rewrite Hc.
  assert ((c =? 32) = false) by (unfold path_end in Hc; lia). rewrite H. reflexivity.
Qed.

Definition qpaths (ps : list str) : str := join [32] (map (nq_sub nq_build_class) ps).

(* a list of paths written on a build line is read back by ninja as exactly that list,
   up to the terminator (':' '|' newline or end) *)
Theorem path_list_roundtrip : forall ps tail, forallb pathok ps = true -> tail_ok tail ->
  ninja_paths (qpaths ps ++ tail) = POk ps tail.
Proof.
  unfold ninja_paths, qpaths. induction ps as [|p ps IH]; intros tail H T.
  - apply np_tail_skip. exact T.
  - cbn [forallb] in H. apply andb_true_iff in H. destruct H as [Hp Hps].
    destruct ps as [|p2 ps].
    + cbn [map join]. rewrite (np_start _ _ Hp). rewrite (np_tail_in _ _ T). rewrite rev_involutive. reflexivity.
    + cbn [map]. rewrite join_cons2. rewrite <- app_assoc. rewrite (np_start _ _ Hp).
      cbn [app npaths N.eqb Pos.eqb]. specialize (IH tail Hps T). cbn [map] in IH.
      rewrite IH. cbn. rewrite rev_involutive. reflexivity.
Qed.

(* the same when the list is followed by " | ..." / " || ...": the separating blank is skipped *)
Theorem path_list_roundtrip_blank : forall ps tail, forallb pathok ps = true -> tail_ok tail ->
  ninja_paths (qpaths ps ++ 32 :: tail) = POk ps tail.
Proof.
  unfold ninja_paths, qpaths. induction ps as [|p ps IH]; intros tail H T.
  - cbn. apply np_tail_skip. exact T.
  - cbn [forallb] in H. apply andb_true_iff in H. destruct H as [Hp Hps].
    destruct ps as [|p2 ps].
    + cbn [map join]. rewrite (np_start _ _ Hp). cbn [npaths N.eqb Pos.eqb]. rewrite (np_tail_skip _ T). cbn.
      rewrite rev_involutive. reflexivity.
    + cbn [map]. rewrite join_cons2. rewrite <- app_assoc. rewrite (np_start _ _ Hp).
      cbn [app npaths N.eqb Pos.eqb]. specialize (IH tail Hps T). cbn [map] in IH.
      rewrite IH. cbn. rewrite rev_involutive. reflexivity.
Qed.

Lemma ninja_quote_build_ok p : pathok p = true -> ninja_quote true p = QOk (nq_sub nq_build_class p).
Proof.
  unfold pathok. destruct p as [|c0 p0]; [discriminate|]. set (p := c0 :: p0). intros H.
  apply andb_true_iff in H. destruct H as [H B]. apply negb_true_iff in B.
  destruct (nclean_memb p H) as [A1 A2]. unfold ninja_quote. rewrite A1, A2, B. cbn [orb andb].
  destruct (memb 32 p || memb 36 p || memb 58 p) eqn:E; [reflexivity|].
  apply orb_false_iff in E. destruct E as [E E3]. apply orb_false_iff in E. destruct E as [E1 E2].
  rewrite nq_sub_id; [reflexivity|].
  intros c Hc. unfold nq_build_class in Hc. cbn [memb] in Hc.
  assert (c = 10 \/ c = 32 \/ c = 36 \/ c = 58) as [->|[->|[->| ->]]] by lia; assumption.
Qed.

Lemma quote_paths_ok ps : forallb pathok ps = true -> quote_paths ps = QOk (qpaths ps).
Proof.
  intros H. unfold quote_paths, qpaths. rewrite (qmap_ok _ (nq_sub nq_build_class)); [reflexivity|].
  intros x Hx. apply ninja_quote_build_ok. rewrite forallb_forall in H. apply H. exact Hx.
Qed.

Lemma bs_slash_app a b : bs_slash (a ++ b) = bs_slash a ++ bs_slash b.
Proof. unfold bs_slash. apply map_app. Qed.

Lemma bs_slash_nq_sub p : bs_slash (nq_sub nq_build_class p) = nq_sub nq_build_class (bs_slash p).
Proof.
  induction p as [|c p IH]; [reflexivity|].
  unfold nq_sub in *. cbn [flat_map bs_slash map]. fold (bs_slash p). rewrite bs_slash_app, IH. f_equal.
  unfold nq_build_class. cbn [memb].
  destruct (c =? 92) eqn:E.
  - apply N.eqb_eq in E. subst. reflexivity.
  - destruct ((c =? 10) || ((c =? 32) || ((c =? 36) || ((c =? 58) || false)))) eqn:M; cbn [bs_slash map]; rewrite E; reflexivity.
Qed.

Lemma bs_slash_qpaths ps : bs_slash (qpaths ps) = qpaths (map bs_slash ps).
Proof.
  unfold qpaths. induction ps as [|p ps IH]; [reflexivity|].
  destruct ps as [|p2 ps].
  - cbn [map join]. apply bs_slash_nq_sub.
  - cbn [map]. rewrite !join_cons2. rewrite !bs_slash_app, bs_slash_nq_sub. cbn [map] in IH. rewrite IH. reflexivity.
Qed.

Lemma pathok_bs_slash p : pathok (bs_slash p) = pathok p.
Proof.
  unfold pathok. destruct p as [|c p]; [reflexivity|]. set (q := c :: p). cbn [bs_slash map]. fold (bs_slash p).
  change ((if c =? 92 then 47 else c) :: bs_slash p) with (bs_slash q).
  assert (G : forall s, nclean (bs_slash s) = nclean s /\ memb 124 (bs_slash s) = memb 124 s).
  { induction s as [|d s [I1 I2]]; [split; reflexivity|]. cbn [bs_slash map]. fold (bs_slash s).
    rewrite !nclean_cons, I1. cbn [memb]. rewrite I2. unfold nbad.
    destruct (d =? 92) eqn:E; [apply N.eqb_eq in E; subst; split; reflexivity | split; reflexivity]. }
  destruct (G q) as [G1 G2]. rewrite G1, G2. reflexivity.
Qed.

Lemma forallb_pathok_bs ps : forallb pathok (map bs_slash ps) = forallb pathok ps.
Proof. induction ps as [|p ps IH]; [reflexivity|]. cbn [map forallb]. rewrite pathok_bs_slash, IH. reflexivity. Qed.

Lemma qpaths_nonempty ps : ps <> [] -> forallb pathok ps = true -> qpaths ps <> [].
Proof.
  destruct ps as [|p ps]; [congruence|]. intros _ H. cbn [forallb] in H. apply andb_true_iff in H. destruct H as [Hp _].
  unfold pathok in Hp. destruct p as [|c p]; [discriminate|].
  unfold qpaths. destruct ps; cbn [map join]; unfold nq_sub; cbn [flat_map];
    destruct (memb c nq_build_class); discriminate.
Qed.

Definition seg (sep : str) (ps : list str) : str :=
  match ps with [] => [] | _ => sep ++ qpaths (map bs_slash ps) end.

(* the first line of a build statement, explicitly: every path list is written as the
   ninja-quoted, blank-joined list of the paths with backslashes turned into slashes *)
Theorem build_line_form outs imp rule ins deps ords :
  forallb pathok outs = true -> forallb pathok imp = true -> forallb pathok ins = true ->
  forallb pathok deps = true -> forallb pathok ords = true ->
  build_line outs imp rule ins deps ords =
    QOk (s2l "build " ++ qpaths (map bs_slash outs) ++ seg (s2l " | ") imp ++ s2l ": " ++ bs_slash rule ++ [32] ++
         qpaths (map bs_slash ins) ++ seg (s2l " | ") deps ++ seg (s2l " || ") ords ++ [10]).
Proof.
  intros Ho Hi Hn Hd Hr. unfold build_line.
  rewrite (quote_paths_ok ins Hn), (quote_paths_ok outs Ho), (quote_paths_ok imp Hi). cbn [qbind].
  assert (D : (match deps with [] => QOk [] | _ => qbind (quote_paths deps) (fun d => QOk (s2l " | " ++ d)) end)
              = QOk (match deps with [] => [] | _ => s2l " | " ++ qpaths deps end))
    by (destruct deps; [reflexivity | rewrite (quote_paths_ok _ Hd); reflexivity]).
  assert (O : (match ords with [] => QOk [] | _ => qbind (quote_paths ords) (fun d => QOk (s2l " || " ++ d)) end)
              = QOk (match ords with [] => [] | _ => s2l " || " ++ qpaths ords end))
    by (destruct ords; [reflexivity | rewrite (quote_paths_ok _ Hr); reflexivity]).
  rewrite D, O. cbn [qbind]. f_equal.
  assert (I : (match qpaths imp with [] => [] | _ => s2l " | " ++ qpaths imp end)
              = match imp with [] => [] | _ => s2l " | " ++ qpaths imp end).
  { destruct imp as [|i imp]; [reflexivity|].
    destruct (qpaths (i :: imp)) eqn:Q; [|reflexivity].
    exfalso. apply (qpaths_nonempty (i :: imp)); [discriminate | exact Hi | exact Q]. }
  rewrite I. rewrite !bs_slash_app. rewrite !bs_slash_qpaths.
  unfold seg.
  destruct imp, deps, ords; cbn [map]; rewrite ?bs_slash_app, ?bs_slash_qpaths; reflexivity.
Qed.

(* ------------------------------------------------------------------ the _RSP rule's own command line *)

Lemma neval_pieces_then env : forall ps rest, forallb piece_ok ps = true ->
  neval env NLit (join [32] (map render_piece ps) ++ 32 :: rest) =
    napp (join [32] (map (piece_val env) ps)) (ncons 32 (neval env NLit rest)).
Proof.
  induction ps as [|p ps IH]; intros rest H.
  - cbn [map join app]. rewrite neval_blank. destruct (neval env NLit rest); reflexivity.
  - cbn [forallb] in H. apply andb_true_iff in H. destruct H as [Hp Hps].
    destruct ps as [|p2 ps].
    + cbn [map join]. destruct p as [t|n]; cbn [piece_ok render_piece piece_val] in *.
      * rewrite neval_lit by assumption. rewrite neval_blank. reflexivity.
      * destruct n as [|c n]; [discriminate|]. cbn [app].
        change (36 :: c :: n ++ 32 :: rest) with (36 :: (c :: n) ++ 32 :: rest).
        rewrite neval_var_blank; [reflexivity | discriminate | assumption].
    + cbn [map]. rewrite !join_cons2. specialize (IH rest Hps). cbn [map] in IH.
      destruct p as [t|n]; cbn [piece_ok render_piece piece_val] in *.
      * rewrite <- !app_assoc. rewrite neval_lit by assumption. cbn [app]. rewrite neval_blank.
        rewrite IH. destruct (neval env NLit rest); cbn; rewrite <- ?app_assoc; reflexivity.
      * destruct n as [|c n]; [discriminate|].
        rewrite <- !app_assoc. cbn [app]. change (36 :: c :: n ++ 32 :: ?r) with (36 :: (c :: n) ++ 32 :: r).
        rewrite neval_var_blank; [| discriminate | assumption]. rewrite IH.
        destruct (neval env NLit rest); cbn; rewrite <- ?app_assoc; reflexivity.
Qed.

Definition s_out : str := s2l "out".
Definition s_dot_rsp : str := s2l ".rsp".

Lemma neval_at_out_rsp env : neval env NLit (s2l "@$out.rsp") = NOk (64 :: lookup env s_out ++ s_dot_rsp).
Proof. cbn. reflexivity. Qed.

Lemma sh_safe_word w : w <> [] -> forallb sh_safe w = true -> sh_tokens w = ShOk [W w].
Proof.
  intros Hne H. pose proof (sh_quote_single w) as Q. unfold shlex_quote in Q.
  destruct w as [|c w]; [congruence|]. rewrite H in Q. exact Q.
Qed.

(* the command line of a response-file rule: `<command words> @$out.rsp` reaches the compiler
   as the command words followed by the single word @<out>.rsp *)
Theorem rsp_command_tokens env items (vals : str -> list tok) :
  forallb citem_ok items = true ->
  (forall n, In (CVar n) items -> sh_tokens (lookup env n) = ShOk (vals n)) ->
  forallb sh_safe (lookup env s_out) = true ->
  exists cs, rsp_command (map citem_ritem items) = QOk cs /\
             ninja_sh env cs =
               Some (concat (map (fun it => match it with CLit s => [tok_of s] | CVar n => vals n end) items)
                     ++ [W (64 :: lookup env s_out ++ s_dot_rsp)]).
Proof.
  intros Hok Hv Hout. destruct (qmap_items_ok QfShell items Hok) as [Q P].
  unfold rsp_command. rewrite Q. cbn [qjoin qbind]. eexists. split; [reflexivity|].
  unfold ninja_sh, ninja_eval, rsp_suffix.
  change (s2l " @$out.rsp") with (32 :: s2l "@$out.rsp").
  rewrite (neval_pieces_then env _ _ P). rewrite neval_at_out_rsp. cbn [ncons napp].
  rewrite (sh_tokens_compose _ _ (concat (map (fun it => match it with CLit s => [tok_of s] | CVar n => vals n end) items))
                             [W (64 :: lookup env s_out ++ s_dot_rsp)]); [reflexivity | |].
  - apply sh_tokens_join. clear Q P Hok. induction items as [|it items IH]; cbn [map]; [constructor|].
    constructor.
    + destruct it as [s|n]; cbn [citem_piece piece_val]; [exact (sh_enc_list [s]) | apply Hv; left; reflexivity].
    + apply IH. intros n Hn. apply Hv. right. exact Hn.
  - apply sh_safe_word; [discriminate|]. cbn [forallb]. rewrite forallb_app, Hout. reflexivity.
Qed.

(* GCC replaces an argument @file by the arguments read from the file (expandargv) *)
Definition expand_at (fname content : str) (argv : list str) : list str :=
  flat_map (fun a => if str_eqb a (64 :: fname) then gcc_rsp_args content else [a]) argv.

Lemma expand_at_words fname content ws :
  forallb (fun a => negb (str_eqb a (64 :: fname))) ws = true ->
  expand_at fname content (ws ++ [64 :: fname]) = ws ++ gcc_rsp_args content.
Proof.
  intros H. unfold expand_at. rewrite flat_map_app. cbn [flat_map]. rewrite str_eqb_refl, app_nil_r. f_equal.
  induction ws as [|w ws IH]; [reflexivity|]. cbn [forallb] in H. apply andb_true_iff in H. destruct H as [Hw Hws].
  apply negb_true_iff in Hw. cbn [flat_map]. rewrite Hw. cbn [app]. f_equal. apply IH. exact Hws.
Qed.

(* MAIN (response-file statements, whole path): the compiler is started by /bin/sh with the
   rule's command words and @<out>.rsp; ninja has written rspfile_content into that file; after
   GCC's @file expansion the arguments are the command words followed by the rule's argument
   words and, for each $VAR, exactly the element list stored under VAR *)
Theorem rsp_statement_argv fenv env (cmdw : list str) (aitems : list citem) (elems : str -> list str) :
  forallb citem_ok (map CLit cmdw) = true -> no_andand cmdw = true ->
  forallb citem_ok aitems = true ->
  (forall n, In (CVar n) aitems ->
     exists line, write_elems QfRsp true (elems n) = QOk line /\ ninja_eval fenv line = NOk (lookup env n)) ->
  forallb sh_safe (lookup env s_out) = true ->
  forallb (fun a => negb (str_eqb a (64 :: lookup env s_out ++ s_dot_rsp))) cmdw = true ->
  exists cs cc content argv,
    rsp_command (map citem_ritem (map CLit cmdw)) = QOk cs /\
    rspfile_content (map citem_ritem aitems) = QOk cc /\
    ninja_eval env cc = NOk content /\
    option_map split_cmds (ninja_sh env cs) = Some [argv] /\
    expand_at (lookup env s_out ++ s_dot_rsp) content argv =
      cmdw ++ concat (map (fun it => match it with CLit s => [s] | CVar n => elems n end) aitems).
Proof.
  intros Hc Ha Hai Hb Hout Hne.
  destruct (rsp_command_tokens env (map CLit cmdw) (fun _ => []) Hc) as (cs & Hcs & Hsh);
    [intros n Hn; apply in_map_iff in Hn; destruct Hn as (x & Hx & _); discriminate | exact Hout |].
  destruct (rsp_rule_content_args fenv env aitems elems Hai Hb) as (cc & content & Hcc & Hev & Hargs).
  exists cs, cc, content, (cmdw ++ [64 :: lookup env s_out ++ s_dot_rsp]).
  split; [exact Hcs|]. split; [exact Hcc|]. split; [exact Hev|]. split.
  - rewrite Hsh. cbn [option_map]. f_equal.
    assert (E : concat (map (fun it => match it with CLit s => [tok_of s] | CVar _ => [] end) (map CLit cmdw)) = map W cmdw).
    { rewrite <- (tok_of_words cmdw Ha). clear. induction cmdw; cbn; congruence. }
    rewrite E. change [W (64 :: lookup env s_out ++ s_dot_rsp)] with (map W [64 :: lookup env s_out ++ s_dot_rsp]).
    rewrite <- map_app. apply split_cmds_words.
  - rewrite expand_at_words by exact Hne. rewrite Hargs. reflexivity.
Qed.

(* ------------------------------------------------------------------ @TEMPLATE@ substitution *)

(* every key of the dictionary is a template name: it starts with @ *)
Definition keys_at (d : tdict) : bool :=
  forallb (fun kv : str * tval => match fst kv with 64 :: _ => true | _ => false end) d.
Definition no_at (s : str) : bool := negb (memb 64 s).

Lemma prefixb_at_false k s : no_at s = true -> prefixb (64 :: k) s = false.
Proof.
  destruct s as [|c s]; [reflexivity|]. unfold no_at. cbn [memb prefixb]. intros H.
  apply negb_true_iff in H. apply orb_false_iff in H. destruct H as [H _]. rewrite H. reflexivity.
Qed.

Lemma no_at_tail c s : no_at (c :: s) = true -> no_at s = true.
Proof. unfold no_at. cbn [memb]. intros H. apply negb_true_iff in H. apply orb_false_iff in H. destruct H as [_ H]. rewrite H. reflexivity. Qed.

Lemma at_head (c : char) (k : str) : (match c :: k with 64 :: _ => true | _ => false end) = true -> c = 64.
Proof.
  destruct c as [|p]; [discriminate|]. do 7 (destruct p as [p|p|]; try discriminate). reflexivity.
Qed.

Lemma try_keys_no_at d s : keys_at d = true -> no_at s = true -> try_keys d s = None.
Proof.
  induction d as [|[k v] d IH]; intros K H; [reflexivity|].
  cbn [keys_at forallb fst] in K. apply andb_true_iff in K. destruct K as [Kk Kd].
  destruct k as [|c k]; [discriminate|]. apply (at_head c k) in Kk. subst c.
  cbn [try_keys]. unfold char in *. rewrite (prefixb_at_false k s H). apply IH; assumption.
Qed.

Lemma sub_go_no_at d : forall s, keys_at d = true -> no_at s = true -> sub_go d O s = Some s.
Proof.
  induction s as [|c s IH]; intros K H; [reflexivity|].
  cbn [sub_go]. rewrite (try_keys_no_at d (c :: s) K H). rewrite (IH K (no_at_tail _ _ H)). reflexivity.
Qed.

Lemma tlookup_no_at d s : keys_at d = true -> no_at s = true -> tlookup d s = None.
Proof.
  induction d as [|[k v] d IH]; intros K H; [reflexivity|].
  cbn [keys_at forallb fst] in K. apply andb_true_iff in K. destruct K as [Kk Kd].
  cbn [tlookup]. destruct (str_eqb k s) eqn:E; [|apply IH; assumption].
  apply str_eqb_eq in E. subst k. destruct s as [|c s]; [discriminate|].
  apply (at_head c s) in Kk. subst c. unfold no_at in H. cbn in H. discriminate.
Qed.

Lemma find_numbered_no_at k s : no_at s = true -> find_numbered (64 :: k) s = None.
Proof.
  induction s as [|c s IH]; intros H; [reflexivity|].
  cbn [find_numbered]. rewrite (prefixb_at_false k (c :: s) H). apply IH. exact (no_at_tail _ _ H).
Qed.

Lemma contains_no_at k s : no_at s = true -> contains (64 :: k) s = false.
Proof.
  induction s as [|c s IH]; intros H; [reflexivity|].
  cbn [contains]. rewrite (prefixb_at_false k (c :: s) H). apply IH. exact (no_at_tail _ _ H).
Qed.

Lemma existsb_false_all {A} (f : A -> bool) l : (forall x, In x l -> f x = false) -> existsb f l = false.
Proof.
  induction l as [|a l IH]; intros H; [reflexivity|]. cbn [existsb].
  rewrite (H a (or_introl eq_refl)). apply IH. intros x Hx. apply H. right. exact Hx.
Qed.

Lemma check_errors_no_at cmd d : forallb no_at cmd = true -> check_errors cmd d = false.
Proof.
  intros H. rewrite forallb_forall in H. unfold check_errors.
  assert (N : forall k, existsb (fun s => match find_numbered (64 :: k) s with Some _ => true | None => false end) cmd = false)
    by (intros k; apply existsb_false_all; intros x Hx; rewrite (find_numbered_no_at k x (H x Hx)); reflexivity).
  assert (B : forall k, existsb (fun s => match find_numbered (64 :: k) s with Some m => negb (has_key d m) | None => false end) cmd = false)
    by (intros k; apply existsb_false_all; intros x Hx; rewrite (find_numbered_no_at k x (H x Hx)); reflexivity).
  assert (C : forall k, existsb (contains (64 :: k)) cmd = false)
    by (intros k; apply existsb_false_all; intros x Hx; apply contains_no_at; apply H; exact Hx).
  change p_input with (64 :: s2l "INPUT"). change p_output with (64 :: s2l "OUTPUT").
  change t_plainname with (64 :: s2l "PLAINNAME@"). change t_basename with (64 :: s2l "BASENAME@").
  change t_outdir with (64 :: s2l "OUTDIR@").
  rewrite !N, !B, !C.
  destruct (tlookup d t_input) as [[?|[|? [|? ?]]]|], (tlookup d t_output); reflexivity.
Qed.

Lemma sub_cmd_no_at d : forall cmd, keys_at d = true -> forallb no_at cmd = true -> sub_cmd d cmd = Some cmd.
Proof.
  induction cmd as [|a cmd IH]; intros K H; [reflexivity|].
  cbn [forallb] in H. apply andb_true_iff in H. destruct H as [Ha Hc].
  cbn [sub_cmd]. rewrite (IH K Hc), (tlookup_no_at d a K Ha), (sub_go_no_at d a K Ha). reflexivity.
Qed.

(* "@TEMPLATE@ placeholders are substituted" is the ONLY thing this stage does: a command
   whose strings contain no @ passes the error check and comes out unchanged - same
   strings, same count, same order - for every template dictionary *)
Theorem substitute_values_identity cmd d : keys_at d = true -> forallb no_at cmd = true ->
  substitute_values cmd d = SOk cmd.
Proof.
  intros K H. unfold substitute_values. rewrite (check_errors_no_at cmd d H).
  destruct d; [reflexivity|]. rewrite (sub_cmd_no_at _ cmd K H). reflexivity.
Qed.

Lemma str_replace_no_at k new s : no_at s = true -> str_replace (64 :: k) new s = s.
Proof. intros H. unfold str_replace. rewrite sub_go_no_at; [reflexivity | reflexivity | exact H]. Qed.

(* eval_custom_target_command on such a command: the backslash normalisation and nothing else *)
Theorem eval_custom_cmd_plain sr br cs d cmd : keys_at d = true -> forallb no_at cmd = true ->
  eval_custom_cmd sr br cs d cmd = SOk (map bs_norm cmd).
Proof.
  intros K H. unfold eval_custom_cmd.
  assert (P : map (pre_subst sr br cs) cmd = cmd).
  { rewrite forallb_forall in H. rewrite <- (map_id cmd) at 2. apply map_ext_in. intros a Ha.
    unfold pre_subst, t_source_root, t_build_root, t_cur_src.
    change (s2l "@SOURCE_ROOT@") with (64 :: s2l "SOURCE_ROOT@").
    change (s2l "@BUILD_ROOT@") with (64 :: s2l "BUILD_ROOT@").
    change (s2l "@CURRENT_SOURCE_DIR@") with (64 :: s2l "CURRENT_SOURCE_DIR@").
    rewrite (str_replace_no_at _ sr a (H a Ha)), (str_replace_no_at _ br a (H a Ha)), (str_replace_no_at _ cs a (H a Ha)). reflexivity. }
  rewrite P, (substitute_values_identity cmd d K H). reflexivity.
Qed.

(* an element that is exactly a list-valued template (@INPUT@ / @OUTPUT@) is replaced, in
   place, by all the files; the elements around it are substituted independently *)
Theorem sub_cmd_list_template d k l : tlookup d k = Some (TList l) ->
  forall a b a' b', sub_cmd d a = Some a' -> sub_cmd d b = Some b' ->
  sub_cmd d (a ++ k :: b) = Some (a' ++ l ++ b').
Proof.
  intros Hk. induction a as [|x a IH]; intros b a' b' Ha Hb.
  - cbn in Ha. inversion Ha; subst. cbn [app sub_cmd]. rewrite Hb, Hk. reflexivity.
  - cbn [app sub_cmd] in Ha |- *. destruct (sub_cmd d a) as [ra|] eqn:Ea; [|discriminate].
    rewrite (IH b ra b' eq_refl Hb).
    destruct (tlookup d x) as [[o|lx]|]; [| |destruct (sub_go d O x)]; inversion Ha; subst;
      rewrite <- ?app_assoc; reflexivity.
Qed.

(* a matched placeholder is replaced by its value and the scan resumes AFTER the
   placeholder: the inserted value is never rescanned *)
Lemma sub_go_skip d : forall k r, sub_go d (length k) (k ++ r) = sub_go d O r.
Proof. induction k as [|c k IH]; intros r; [reflexivity|]. cbn [length app sub_go]. apply IH. Qed.

Theorem sub_go_placeholder d k v r : k <> [] -> try_keys d (k ++ r) = Some (TStr v, length k) ->
  sub_go d O (k ++ r) = option_map (app v) (sub_go d O r).
Proof.
  intros Hne Ht. destruct k as [|c k]; [congruence|].
  cbn [app] in Ht |- *. cbn [sub_go]. rewrite Ht. cbn [tval_text length pred].
  rewrite sub_go_skip. destruct (sub_go d O r); reflexivity.
Qed.

(* ------------------------------------------------------------------ tests *)

(* the arguments of test() reach the test process unchanged, contiguous and in order: there is
   no quoting layer at all (create_subprocess_exec); only the wrapper / interpreter in front
   and --test-args behind are added *)
Theorem test_cmdline_args w f a t :
  test_cmdline w f a t = (w ++ f) ++ a ++ t /\ (w = [] -> t = [] -> test_cmdline w f a t = f ++ a).
Proof. split; [reflexivity|]. intros -> ->. unfold test_cmdline. cbn [app]. rewrite app_nil_r. reflexivity. Qed.

(* ------------------------------------------------------------------ leftmost-key-match semantics *)

(* no template key matches at any position inside the prefix p (looking at the whole rest of
   the argument: a key may not even start in p and run into what follows) *)
Definition key_free_before (d : tdict) (p rest : str) : Prop :=
  forall p1 p2, p = p1 ++ p2 -> p2 <> [] -> try_keys d (p2 ++ rest) = None.

(* every occurrence of a template key at a position that is not inside an earlier key match is
   replaced: the text before it is copied, the value inserted, the scan resumes behind the key.
   In particular an unknown @WORD@ in front of it - `owner@HOST@INPUT@` - cannot hide it. *)
Theorem sub_go_leftmost d : forall p k v r,
  k <> [] -> key_free_before d p (k ++ r) ->
  try_keys d (k ++ r) = Some (TStr v, length k) ->
  sub_go d O (p ++ k ++ r) = option_map (fun t => p ++ v ++ t) (sub_go d O r).
Proof.
  induction p as [|c p IH]; intros k v r Hk Hfree Hm.
  - cbn [app]. rewrite (sub_go_placeholder d k v r Hk Hm). destruct (sub_go d O r); reflexivity.
  - cbn [app sub_go].
    pose proof (Hfree [] (c :: p) eq_refl ltac:(discriminate)) as N. cbn [app] in N. rewrite N.
    rewrite (IH k v r Hk); [destruct (sub_go d O r); reflexivity | | exact Hm].
    intros p1 p2 E Hne. apply (Hfree (c :: p1) p2); [rewrite E; reflexivity | exact Hne].
Qed.

(* the same for a list-valued key with exactly one file (@INPUT@ / @OUTPUT@ inside a string) *)
Theorem sub_go_leftmost_list d : forall p k x r,
  k <> [] -> key_free_before d p (k ++ r) ->
  try_keys d (k ++ r) = Some (TList [x], length k) ->
  sub_go d O (p ++ k ++ r) = option_map (fun t => p ++ x ++ t) (sub_go d O r).
Proof.
  induction p as [|c p IH]; intros k x r Hk Hfree Hm.
  - destruct k as [|c0 k]; [congruence|]. cbn [app] in Hm |- *. cbn [sub_go]. rewrite Hm. cbn [tval_text length pred].
    rewrite sub_go_skip. destruct (sub_go d O r); reflexivity.
  - cbn [app sub_go].
    pose proof (Hfree [] (c :: p) eq_refl ltac:(discriminate)) as N. cbn [app] in N. rewrite N.
    rewrite (IH k x r Hk); [destruct (sub_go d O r); reflexivity | | exact Hm].
    intros p1 p2 E Hne. apply (Hfree (c :: p1) p2); [rewrite E; reflexivity | exact Hne].
Qed.

(* the seeded example, in the model: one input a.c *)
Example owner_host_input :
  sub_go [(s2l "@INPUT@", TList [s2l "a.c"]); (s2l "@INPUT0@", TStr (s2l "a.c"))] O (s2l "owner@HOST@INPUT@")
  = Some (s2l "owner@HOSTa.c").
Proof. vm_compute. reflexivity. Qed.
