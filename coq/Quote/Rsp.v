(* Quote/Rsp.v — reference semantics of GCC's response-file reader
   (libiberty expandargv/buildargv, argv.c): whitespace separates arguments,
   a backslash ALWAYS escapes the next character (also inside quotes), single
   and double quotes group.  The encoder gcc_rsp_quote is in Quote/Ninja.v.
   Validated against the real gcc in the sandbox by harness/check_C03.py.
   No proofs here. *)
From MV Require Import Base.Strs.
Open Scope N_scope.

(* ISSPACE in the C locale: space \t \n \v \f \r *)
Definition is_cspace (c : char) : bool := (c =? 32) || ((9 <=? c) && (c <=? 13)).

Inductive gq := GN | GS | GD.

(* argv.c buildargv: inarg = an argument has been started (copybuf in use);
   q = squote/dquote flags; bs = bsquote flag; acc = copybuf reversed.
   A file holding only whitespace yields no argument (expandargv's
   only_whitespace test), which is what the (inarg = false) start state gives. *)
Fixpoint gba (inarg : bool) (q : gq) (bs : bool) (acc : str) (s : str) : list str :=
  match s with
  | [] => if inarg then [rev acc] else []
  | c :: r =>
      if bs then gba true q false (c :: acc) r
      else if c =? 92 then gba true q true acc r
      else match q with
           | GS => if c =? 39 then gba true GN false acc r else gba true GS false (c :: acc) r
           | GD => if c =? 34 then gba true GN false acc r else gba true GD false (c :: acc) r
           | GN =>
               if is_cspace c then
                 (if inarg then rev acc :: gba false GN false [] r else gba false GN false [] r)
               else if c =? 39 then gba true GS false acc r
               else if c =? 34 then gba true GD false acc r
               else gba true GN false (c :: acc) r
           end
  end.

Definition gcc_rsp_args (content : str) : list str := gba false GN false [] content.
