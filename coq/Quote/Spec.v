(* Quote/Spec.v — what "the executed process's argv" means: the reference
   pipeline  build.ninja text --ninja--> command string --/bin/sh--> tokens,
   GCC's response-file reading, env(1), meson's exe wrapper (meson_exe.py) and a
   C compiler's reading of a string literal.  Declarative side of C03; the
   theorems in Quote/Proofs.v relate the encoders (Model) to these decoders. *)
From MV Require Import Base.Strs Quote.Sh Quote.Ninja Quote.Rsp Quote.Rule.
Open Scope N_scope.

(* an element that is exactly && is the AND-list operator, everything else one word *)
Definition tok_of (a : str) : tok := if str_eqb a andand then AndAnd else W a.

(* ninja evaluates the variable line, /bin/sh -c splits the result *)
Definition ninja_sh (env : list (str * str)) (line : str) : option (list tok) :=
  match ninja_eval env line with
  | NOk cmd => match sh_tokens cmd with ShOk ts => Some ts | _ => None end
  | NErr => None
  end.

(* strings ninja can carry at all *)
Definition nclean (s : str) : bool := negb (existsb nbad s).

(* ---------------------------------------------------------------- env(1) *)
Fixpoint split_eq (s : str) : option (str * str) :=
  match s with
  | [] => None
  | c :: r => if c =? 61 then Some ([], r)
              else match split_eq r with Some (k, v) => Some (c :: k, v) | None => None end
  end.

(* env NAME=VALUE... COMMAND ARG...: leading operands containing '=' are assignments *)
Fixpoint env_prog (args : list str) : list (str * str) * list str :=
  match args with
  | [] => ([], [])
  | a :: r => match split_eq a with
              | Some kv => let '(e, cmd) := env_prog r in (kv :: e, cmd)
              | None => ([], args)
              end
  end.

(* ---------------------------------------------------------------- meson --internal exe *)
(* meson_exe.run (scripts/meson_exe.py:97-115) on the command lines that
   as_meson_exe_cmdline produces: [--capture C] [--feed F] -- cmd... *)
Fixpoint drop_prefix (p l : list str) : option (list str) :=
  match p, l with
  | [], _ => Some l
  | x :: p', y :: l' => if str_eqb x y then drop_prefix p' l' else None
  | _ :: _, [] => None
  end.

Definition exe_parse (args : list str) : option (option str * option str * list str) :=
  let '(c, r1) := match args with
                  | f :: v :: r => if str_eqb f s_capture then (Some v, r) else (None, args)
                  | _ => (None, args) end in
  let '(f, r2) := match r1 with
                  | g :: v :: r => if str_eqb g s_feed then (Some v, r) else (None, r1)
                  | _ => (None, r1) end in
  match r2 with
  | d :: cmd => if str_eqb d s_dashdash then Some (c, f, cmd) else None
  | [] => None
  end.

(* ---------------------------------------------------------------- outcome of a custom command *)
Inductive outcome :=
| Ran (env : list (str * str)) (workdir capture feed : option str) (argv : list str)
| Stuck.

Definition single_cmd (ts : list tok) : option (list str) :=
  match split_cmds ts with [argv] => Some argv | _ => None end.

Definition run_route (x : exe_in) (r : route) : outcome :=
  match r with
  | RPickle p =>
      (* pickle.load + run_exe: subprocess.Popen(cmd_args, env, cwd) — no shell *)
      Ran (p_env p) (p_workdir p) (p_capture p) (p_feed p) (p_cmd p)
  | _ =>
      match write_elems QfShell true (route_cmdline x r) with
      | QErr => Stuck
      | QOk line =>
          match ninja_sh [] line with
          | None => Stuck
          | Some ts =>
              match single_cmd ts with
              | None => Stuck
              | Some argv =>
                  match r with
                  | RPlain _ => Ran [] None None None argv
                  | REnv _ _ =>
                      match argv with
                      | e :: rest => if str_eqb e s_env
                                     then let '(ev, cmd) := env_prog rest in Ran ev None None None cmd
                                     else Stuck
                      | [] => Stuck
                      end
                  | RWrap _ _ _ =>
                      match drop_prefix (x_build_cmd x ++ [s_internal; s_exe]) argv with
                      | Some rest => match exe_parse rest with
                                     | Some (c, f, cmd) => Ran [] None c f cmd
                                     | None => Stuck
                                     end
                      | None => Stuck
                      end
                  | RPickle _ => Stuck
                  end
              end
          end
      end
  end.

(* ---------------------------------------------------------------- C string literal *)
(* how a C compiler reads the body of a string literal, restricted to the
   escape the -D rule is about: \\ denotes one backslash *)
Fixpoint c_unescape_bs (s : str) : str :=
  match s with
  | [] => []
  | c :: r =>
      match r with
      | d :: r' => if (c =? 92) && (d =? 92) then 92 :: c_unescape_bs r' else c :: c_unescape_bs r
      | [] => [c]
      end
  end.
