(* Quote/Sh.v — model of shlex.quote (= mesonlib.quote_arg on POSIX,
   mesonbuild/utils/universal.py:1448-1457) and the reference semantics of the
   POSIX shell's word splitting for the quoting fragment (the decoder the
   property observes through: /bin/sh -c <command>).  No proofs here. *)
From MV Require Import Base.Strs.
Open Scope N_scope.

(* ------------------------------------------------------------------ encoder *)

(* shlex._find_unsafe = re.compile(r'[^\w@%+=:,./-]', re.ASCII): the characters
   of the class besides \w (= [A-Za-z0-9_] under re.ASCII):  % + , - . / : = @ (ascending) *)
Definition shlex_safe_extra : list char := [37; 43; 44; 45; 46; 47; 58; 61; 64].

Definition sh_safe (c : char) : bool :=
  is_alnum c || (c =? 95) || memb c shlex_safe_extra.

(* the replacement text of s.replace(SQ, SQ DQ SQ DQ SQ), SQ = single quote, DQ = double quote *)
Definition sq_splice : str := [39; 34; 39; 34; 39].

Definition replace_sq (s : str) : str :=
  flat_map (fun c => if c =? 39 then sq_splice else [c]) s.

(* shlex.quote (Lib/shlex.py):
     if not s: return SQ SQ
     if _find_unsafe(s) is None: return s
     return SQ + s.replace(SQ, SQ DQ SQ DQ SQ) + SQ                            *)
Definition shlex_quote (s : str) : str :=
  match s with
  | [] => [39; 39]
  | _ => if forallb sh_safe s then s
         else 39 :: replace_sq s ++ [39]
  end.

(* universal.py:1456-1457  join_args *)
Definition join_args (args : list str) : str := join [32] (map shlex_quote args).

(* ------------------------------------------------------------------ decoder *)

(* What /bin/sh makes of a command string, for the fragment
   { blanks, single quotes, double quotes with \-escapes, unquoted \c, the && operator }.
   Any other unquoted shell metacharacter gives ShUnsupported: the round-trip
   theorems show the encoders never expose one. *)
Inductive tok := W (w : str) | AndAnd.

Inductive shres := ShOk (ts : list tok) | ShUnsupported | ShUnterminated.

Inductive shst :=
| SOut                 (* between words *)
| SWd (acc : str)      (* inside a word, acc reversed *)
| SSq (acc : str)      (* inside single quotes *)
| SDq (acc : str)      (* inside double quotes *)
| SDqB (acc : str)     (* after a backslash inside double quotes *)
| SBs (acc : str)      (* after an unquoted backslash *)
| SAmp.                (* after one unquoted & *)

(*  $ ` * ? [ ~ # ; | < > ( ) { } ! newline   (& is handled by SAmp) *)
Definition sh_meta : list char :=
  [36; 96; 42; 63; 91; 126; 35; 59; 124; 60; 62; 40; 41; 123; 125; 33; 10].

Definition is_blank (c : char) : bool := (c =? 32) || (c =? 9).

Definition emit (t : tok) (r : shres) : shres :=
  match r with ShOk ts => ShOk (t :: ts) | e => e end.

Fixpoint shw (st : shst) (s : str) : shres :=
  match s with
  | [] =>
      match st with
      | SOut => ShOk []
      | SWd acc => ShOk [W (rev acc)]
      | SSq _ | SDq _ | SDqB _ => ShUnterminated
      | SBs _ => ShUnsupported
      | SAmp => ShUnsupported
      end
  | c :: r =>
      match st with
      | SOut =>
          if is_blank c then shw SOut r
          else if c =? 39 then shw (SSq []) r
          else if c =? 34 then shw (SDq []) r
          else if c =? 92 then shw (SBs []) r
          else if c =? 38 then shw SAmp r
          else if memb c sh_meta then ShUnsupported
          else shw (SWd [c]) r
      | SWd acc =>
          if is_blank c then emit (W (rev acc)) (shw SOut r)
          else if c =? 39 then shw (SSq acc) r
          else if c =? 34 then shw (SDq acc) r
          else if c =? 92 then shw (SBs acc) r
          else if c =? 38 then emit (W (rev acc)) (shw SAmp r)
          else if memb c sh_meta then ShUnsupported
          else shw (SWd (c :: acc)) r
      | SAmp =>
          if c =? 38 then emit AndAnd (shw SOut r) else ShUnsupported
      | SSq acc =>
          if c =? 39 then shw (SWd acc) r else shw (SSq (c :: acc)) r
      | SDq acc =>
          if c =? 34 then shw (SWd acc) r
          else if c =? 92 then shw (SDqB acc) r
          else if (c =? 36) || (c =? 96) then ShUnsupported
          else shw (SDq (c :: acc)) r
      | SDqB acc =>
          (* POSIX 2.2.3: inside double quotes a backslash escapes only $ ` DQ \ newline *)
          if (c =? 36) || (c =? 96) || (c =? 34) || (c =? 92) then shw (SDq (c :: acc)) r
          else if c =? 10 then shw (SDq acc) r
          else shw (SDq (c :: 92 :: acc)) r
      | SBs acc =>
          (* unquoted backslash: next character literal; \newline (continuation) not in the fragment *)
          if c =? 10 then ShUnsupported else shw (SWd (c :: acc)) r
      end
  end.

Definition sh_tokens (s : str) : shres := shw SOut s.

(* the simple commands of an AND-list: words between && operators *)
Fixpoint split_cmds (ts : list tok) : list (list str) :=
  match ts with
  | [] => [[]]
  | AndAnd :: r => [] :: split_cmds r
  | W w :: r => match split_cmds r with
                | c :: cs => (w :: c) :: cs
                | [] => [[w]]
                end
  end.
