(* Extraction of the C03 model.  Only the ExtrOcamlBasic directives are used. *)
From Coq Require Extraction.
From Coq Require Import ExtrOcamlBasic.
From MV Require Import Quote.Entry.
Extraction "../extract/C03/model.ml" Quote.Entry.run.
