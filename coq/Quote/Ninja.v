(* Quote/Ninja.v — model of ninja_quote and of NinjaBuildElement.write's variable
   lines (mesonbuild/backend/ninjabackend.py:106-128, 380-443), and the reference
   semantics of ninja's evaluation of a variable value (lexer ReadEvalString in
   non-path mode + EdgeEnv lookup; written from the Ninja manual/lexer, trusted:
   no ninja binary exists in the sandbox).  No proofs here.

   The model follows the code WITH the two pending fixes applied
   (pending/C03-carriage-return.diff): ninja_quote rejects a carriage return
   like a newline. *)
From MV Require Import Base.Strs Quote.Sh.
Open Scope N_scope.

(* ------------------------------------------------------------------ encoder *)

(* ninjabackend.py:112-113
   NINJA_QUOTE_BUILD_PAT = re.compile(r"[$ :\n]"); NINJA_QUOTE_VAR_PAT = re.compile(r"[$ \n]") *)
Definition nq_build_class : list char := [10; 32; 36; 58].   (* ascending *)
Definition nq_var_class : list char := [10; 32; 36].

(* ninjabackend.py:110 *)
Definition raw_names : list str :=
  [s2l "DEPFILE_UNQUOTED"; s2l "DESC"; s2l "description"; s2l "dyndep"; s2l "pool"; s2l "targetdep"]   (* sorted *).

Inductive qres := QOk (s : str) | QErr.     (* QErr = MesonException *)

Definition nq_sub (cls : list char) (text : str) : str :=
  flat_map (fun c => if memb c cls then [36; c] else [c]) text.

(* ninjabackend.py:115-128 *)
Definition ninja_quote (is_build_line : bool) (text : str) : qres :=
  if memb 10 text || memb 13 text then QErr                                   (* :116-122 *)
  else if is_build_line && memb 124 text then QErr   (* '|' cannot be written on a build line (fix f36fbec) *)
  else if memb 32 text || memb 36 text || (is_build_line && memb 58 text)     (* :125 *)
  then QOk (nq_sub (if is_build_line then nq_build_class else nq_var_class) text)  (* :124,126 *)
  else QOk text.                                                              (* :128 *)

Definition qbind (r : qres) (f : str -> qres) : qres :=
  match r with QOk s => f s | QErr => QErr end.

Fixpoint qmap (f : str -> qres) (l : list str) : option (list str) :=
  match l with
  | [] => Some []
  | x :: r => match f x, qmap f r with
              | QOk y, Some ys => Some (y :: ys)
              | _, _ => None
              end
  end.

Definition qjoin (o : option (list str)) : qres :=
  match o with Some l => QOk (join [32] l) | None => QErr end.

(* the quote function chosen at ninjabackend.py:416-422 (POSIX): quote_func = shlex.quote,
   or gcc_rsp_quote when the statement uses a response file *)
Definition dbl_bs (s : str) : str := flat_map (fun c => if c =? 92 then [92; 92] else [c]) s.
(* ninjabackend.py:93-101 *)
Definition gcc_rsp_quote (s : str) : str := shlex_quote (dbl_bs s).

Inductive qfun := QfShell | QfRsp.
Definition apply_qf (qf : qfun) (s : str) : str :=
  match qf with QfShell => shlex_quote s | QfRsp => gcc_rsp_quote s end.

Definition andand : str := [38; 38].

(* ninjabackend.py:424-442: one " name = e1 e2 ...\n" line (the value part) *)
Definition write_elem (qf : qfun) (should_quote : bool) (i : str) : qres :=
  if negb should_quote || str_eqb i andand          (* :436 "Hackety hack hack" *)
  then ninja_quote false i                          (* :437 *)
  else ninja_quote false (apply_qf qf i).           (* :439 *)

Definition write_elems (qf : qfun) (should_quote : bool) (elems : list str) : qres :=
  qjoin (qmap (write_elem qf should_quote) elems).

Definition should_quote_name (name : str) : bool := negb (str_mem name raw_names).  (* :426 *)

(* ------------------------------------------------------------------ decoder *)

Inductive nres := NOk (s : str) | NErr.

Definition ncons (c : char) (r : nres) : nres :=
  match r with NOk s => NOk (c :: s) | NErr => NErr end.
Definition napp (p : str) (r : nres) : nres :=
  match r with NOk s => NOk (p ++ s) | NErr => NErr end.

Fixpoint lookup (env : list (str * str)) (name : str) : str :=
  match env with
  | [] => []                                   (* undefined ninja variables are empty *)
  | (k, v) :: r => if str_eqb k name then v else lookup r name
  end.

(* lexer: simple_varname = [a-zA-Z0-9_-]+ ; varname = [a-zA-Z0-9_.-]+ *)
Definition is_simple_var (c : char) : bool := is_alnum c || (c =? 95) || (c =? 45).
Definition is_brace_var (c : char) : bool := is_simple_var c || (c =? 46).

(* characters that cannot occur inside a value: newline ends it and a bare CR is a
   lexing error (the text class is [^$ :\r\n|\000]+).  NUL (unexpected EOF) is left
   out: no argv, environment or meson command line can carry a NUL at all. *)
Definition nbad (c : char) : bool := (c =? 10) || (c =? 13).

Inductive nst :=
| NLit
| NDollar
| NVar (acc : str)       (* $name, acc reversed *)
| NBrace (acc : str)     (* ${name *)
| NCont.                 (* after $<newline>: skipping the indentation *)

Fixpoint neval (env : list (str * str)) (st : nst) (s : str) : nres :=
  match s with
  | [] =>
      match st with
      | NLit | NCont => NOk []
      | NVar acc => NOk (lookup env (rev acc))
      | NDollar | NBrace _ => NErr
      end
  | c :: r =>
      let lit := if c =? 36 then neval env NDollar r
                 else if nbad c then NErr
                 else ncons c (neval env NLit r) in
      match st with
      | NLit => lit
      | NDollar =>
          if c =? 36 then ncons 36 (neval env NLit r)          (* $$ *)
          else if c =? 32 then ncons 32 (neval env NLit r)     (* "$ " *)
          else if c =? 58 then ncons 58 (neval env NLit r)     (* $: *)
          else if c =? 10 then neval env NCont r               (* $\n *)
          else if c =? 123 then neval env (NBrace []) r        (* ${ *)
          else if is_simple_var c then neval env (NVar [c]) r
          else NErr                                            (* bad $-escape *)
      | NVar acc =>
          if is_simple_var c then neval env (NVar (c :: acc)) r
          else napp (lookup env (rev acc)) lit
      | NBrace acc =>
          if c =? 125 then
            match acc with
            | [] => NErr
            | _ => napp (lookup env (rev acc)) (neval env NLit r)
            end
          else if is_brace_var c then neval env (NBrace (c :: acc)) r
          else NErr
      | NCont => if c =? 32 then neval env NCont r else lit
      end
  end.

Definition ninja_eval (env : list (str * str)) (s : str) : nres := neval env NLit s.

(* ------------------------------------------------------------------ build lines *)

(* ninjabackend.py:380-414: the first line of a build statement.  deps / orderdeps arrive
   sorted (the code sorts the sets); the whole line then has its backslashes turned into
   slashes (:406).  POSIX branch. *)
Definition bs_slash (s : str) : str := map (fun c => if c =? 92 then 47 else c) s.

Definition quote_paths (ps : list str) : qres := qjoin (qmap (ninja_quote true) ps).

Definition build_line (outs implicit : list str) (rulename : str) (ins deps orderdeps : list str) : qres :=
  qbind (quote_paths ins) (fun ins' =>                                          (* :383 *)
  qbind (quote_paths outs) (fun outs' =>                                        (* :384 *)
  qbind (quote_paths implicit) (fun imp' =>                                     (* :385 *)
  let imp'' := match imp' with [] => [] | _ => s2l " | " ++ imp' end in         (* :386-387 *)
  qbind (match deps with [] => QOk [] | _ => qbind (quote_paths deps) (fun d => QOk (s2l " | " ++ d)) end) (fun d' =>      (* :395-396 *)
  qbind (match orderdeps with [] => QOk [] | _ => qbind (quote_paths orderdeps) (fun d => QOk (s2l " || " ++ d)) end) (fun o' =>  (* :397-399 *)
  QOk (bs_slash (s2l "build " ++ outs' ++ imp'' ++ s2l ": " ++ rulename ++ [32] ++ ins' ++ d' ++ o' ++ [10]))))))).   (* :394,400,406 *)

(* reference semantics: ninja's lexer reading a path list (ReadEvalString in path mode,
   one path after the other): an unescaped blank ends a path, an unescaped ':' '|' or
   newline ends the list (and is left in the input).  $-references inside paths are
   outside the fragment (meson never writes one). *)
Inductive pst := PSkip | PIn (acc : str) | PDollar (acc : str).
Inductive pres := POk (paths : list str) (rest : str) | PErr.

Definition pcons (p : str) (r : pres) : pres :=
  match r with POk ps rest => POk (p :: ps) rest | PErr => PErr end.

Definition path_end (c : char) : bool := (c =? 58) || (c =? 124) || (c =? 10).

Fixpoint npaths (st : pst) (s : str) : pres :=
  match s with
  | [] => match st with
          | PSkip => POk [] []
          | PIn acc => POk [rev acc] []
          | PDollar _ => PErr
          end
  | c :: r =>
      match st with
      | PSkip =>
          if c =? 32 then npaths PSkip r
          else if path_end c then POk [] s
          else if c =? 13 then PErr
          else if c =? 36 then npaths (PDollar []) r
          else npaths (PIn [c]) r
      | PIn acc =>
          if c =? 32 then pcons (rev acc) (npaths PSkip r)
          else if path_end c then POk [rev acc] s
          else if c =? 13 then PErr
          else if c =? 36 then npaths (PDollar acc) r
          else npaths (PIn (c :: acc)) r
      | PDollar acc =>
          if (c =? 36) || (c =? 32) || (c =? 58) then npaths (PIn (c :: acc)) r else PErr
      end
  end.

Definition ninja_paths (s : str) : pres := npaths PSkip s.
