(* Quote/Rule.v — model of NinjaRule's quoting classes and command strings
   (mesonbuild/backend/ninjabackend.py:148-275), of Backend.escape_extra_args
   (backends.py:1007-1016), of the backslash normalisation at the end of
   eval_custom_target_command (backends.py:1710) and of the wrapping decision
   Backend.as_meson_exe_cmdline (backends.py:723-827).  POSIX branch only.
   No proofs here.

   as_meson_exe follows the code WITH the pending fixes applied
   (pending/C03-env-newline.diff, pending/C03-carriage-return.diff). *)
From MV Require Import Base.Strs Quote.Sh Quote.Ninja.
Open Scope N_scope.

(* ------------------------------------------------------------ NinjaRule *)

Inductive quoting := QBoth | QNotShell | QNotNinja | QNone.     (* :148-153 *)

(* a rule command element: a plain str (classified by strToCommandArg) or an
   explicit NinjaCommandArg(s, quoting) *)
Inductive ritem := RStr (s : str) | RArg (s : str) (q : quoting).

Definition is_word (c : char) : bool := is_alnum c || (c =? 95).   (* \w, ASCII part *)
Fixpoint take_word (s : str) : str :=
  match s with
  | c :: r => if is_word c then c :: take_word r else []
  | [] => []
  end.

(* :185-206 strToCommandArg *)
Definition classify (c : str) : quoting :=
  if str_eqb c andand then QNotShell                                  (* :191-193 *)
  else match c with
       | 36 :: r =>                                                   (* :194 startswith('$') *)
           let r' := match r with 123 :: r2 => r2 | _ => r end in     (* regex: dollar, optional brace, word characters *)
           if str_mem (take_word r') raw_names then QNotNinja          (* :201-204 *)
           else QNone                                                 (* :197-200 *)
       | _ => QBoth                                                   (* :206 *)
       end.

Definition item_str (x : ritem) : str := match x with RStr s => s | RArg s _ => s end.
Definition item_quoting (x : ritem) : quoting :=
  match x with RStr s => classify s | RArg _ q => q end.

(* :227-235 _quoter *)
Definition quoter (qf : qfun) (x : ritem) : qres :=
  match item_quoting x with
  | QNone => QOk (item_str x)
  | QNotNinja => QOk (apply_qf qf (item_str x))
  | QNotShell => ninja_quote false (item_str x)
  | QBoth => ninja_quote false (apply_qf qf (item_str x))
  end.

Fixpoint qmap_items (f : ritem -> qres) (l : list ritem) : option (list str) :=
  match l with
  | [] => Some []
  | x :: r => match f x, qmap_items f r with
              | QOk y, Some ys => Some (y :: ys)
              | _, _ => None
              end
  end.

(* :220  command_str = ' '.join([self._quoter(x) for x in self.command + self.args]) *)
Definition command_str (command args : list ritem) : qres :=
  qjoin (qmap_items (quoter QfShell) (command ++ args)).

(* :252-260 the _RSP variant (GCC syntax): command, rspfile_content *)
Definition rsp_suffix : str := s2l " @$out.rsp".
Definition rsp_command (command : list ritem) : qres :=
  qbind (qjoin (qmap_items (quoter QfShell) command)) (fun s => QOk (s ++ rsp_suffix)).
Definition rspfile_content (args : list ritem) : qres :=
  qjoin (qmap_items (quoter QfRsp) args).

(* ------------------------------------------------------------ escape_extra_args *)

Definition dash_D : str := [45; 68].
Definition slash_D : str := [47; 68].

(* backends.py:1007-1016 *)
Definition escape_extra_args (args : list str) : list str :=
  map (fun arg => if prefixb dash_D arg || prefixb slash_D arg then dbl_bs arg else arg) args.

(* ------------------------------------------------------------ backslash normalisation *)

(* backends.py:1710  cmd = [i.replace('\\', '/') ...] *)
Definition bs_norm (s : str) : str := map (fun c => if c =? 92 then 47 else c) s.

(* ------------------------------------------------------------ as_meson_exe_cmdline *)

(* Python dict assignment (insertion order, update in place) *)
Fixpoint dict_set (d : list (str * str)) (k v : str) : list (str * str) :=
  match d with
  | [] => [(k, v)]
  | (k', v') :: r => if str_eqb k' k then (k', v) :: r else (k', v') :: dict_set r k v
  end.
(* EnvironmentVariables.get_env({}) for 'set' operations (core.py:147-154, 134-135) *)
Definition env_dict (ops : list (str * str)) : list (str * str) :=
  fold_left (fun d kv => dict_set d (fst kv) (snd kv)) ops [].

Record exe_in := {
  x_exe_cmd : list str;        (* exe.get_command() / [path]                    *)
  x_args : list str;           (* cmd_args                                      *)
  x_workdir : option str;
  x_capture : option str;
  x_feed : option str;
  x_env : list (str * str);    (* env.set(k, v) operations in order             *)
  x_can_use_env : bool;        (* env.can_use_env (no append/prepend/unset)     *)
  x_force : bool;              (* force_serialize argument                      *)
  x_has_env_prog : bool;       (* shutil.which('env')                           *)
  x_build_cmd : list str;      (* environment.get_build_command()               *)
  x_datafile : str             (* meson-private/meson_exe_<name>_<digest>.dat   *)
}.

Record pickled := {
  p_cmd : list str; p_env : list (str * str); p_workdir : option str;
  p_capture : option str; p_feed : option str
}.

Inductive route :=
| RPlain (cmd : list str)
| REnv (envlist : list str) (cmd : list str)
| RWrap (capture feed : option str) (cmd : list str)
| RPickle (p : pickled).

Definition has_nl (s : str) : bool := memb 10 s || memb 13 s.
Definition is_some {A} (o : option A) : bool := match o with Some _ => true | None => false end.
Definition nonempty_opt (o : option str) : bool :=
  match o with Some (_ :: _) => true | _ => false end.

Definition env_assign (kv : str * str) : str := fst kv ++ 61 :: snd kv.     (* f'{k}={v}' *)

(* backends.py:738-827.  Reasons not modelled (never arise for a native POSIX
   build with the defaults): extra_paths (Windows), exe_wrapper (cross),
   separator != ' ', rsp file for rspable custom targets. *)
Definition as_meson_exe (x : exe_in) : route :=
  let cmd := x_exe_cmd x ++ x_args x in                               (* es.cmd_args *)
  let r_workdir := nonempty_opt (x_workdir x) in                       (* :749 *)
  let r_newline := existsb has_nl cmd in                               (* :752 (+ '\r': pending fix) *)
  let r_env := match x_env x with [] => false | _ => true end in       (* :755 *)
  let can_use_env := r_env && x_can_use_env x && negb (x_force x) in   (* :770 *)
  let force := x_force x || r_workdir || r_newline || r_env in         (* :771 *)
  let capture := nonempty_opt (x_capture x) in                         (* :773 *)
  let feed := nonempty_opt (x_feed x) in                               (* :775 *)
  let only_env := r_env && negb r_workdir && negb r_newline && negb capture && negb feed in  (* :778 *)
  let envlist := map env_assign (env_dict (x_env x)) in                (* :779-781 *)
  if can_use_env && only_env && x_has_env_prog x && negb (existsb has_nl envlist)  (* :778 (+ pending fix) *)
  then REnv envlist cmd                                                (* :782 *)
  else if negb force then                                              (* :787 *)
    (if negb capture && negb feed then RPlain cmd                      (* :788-789 *)
     else RWrap (if capture then x_capture x else None)
                (if feed then x_feed x else None) cmd)                 (* :790-799 *)
  else RPickle {| p_cmd := cmd; p_env := env_dict (x_env x);
                  p_workdir := (if r_workdir then x_workdir x else None);   (* backends.py:703 workdir or build_dir *)
                  p_capture := x_capture x; p_feed := x_feed x |}.     (* :801-827 *)

Definition s_env : str := s2l "env".
Definition s_internal : str := s2l "--internal".
Definition s_exe : str := s2l "exe".
Definition s_capture : str := s2l "--capture".
Definition s_feed : str := s2l "--feed".
Definition s_unpickle : str := s2l "--unpickle".
Definition s_dashdash : str := [45; 45].

Definition opt_args (flag : str) (o : option str) : list str :=
  match o with Some v => [flag; v] | None => [] end.

(* the command list handed to NinjaBuildElement.add_item('COMMAND', ...) *)
Definition route_cmdline (x : exe_in) (r : route) : list str :=
  match r with
  | RPlain cmd => cmd
  | REnv envlist cmd => s_env :: envlist ++ cmd
  | RWrap c f cmd =>
      x_build_cmd x ++ [s_internal; s_exe] ++ opt_args s_capture c ++ opt_args s_feed f
        ++ [s_dashdash] ++ cmd
  | RPickle _ => x_build_cmd x ++ [s_internal; s_exe; s_unpickle; x_datafile x]
  end.

(* ------------------------------------------------------------ tests (mtest.py:1534-1563, 1583) *)

(* SingleTestRunner: cmd = get_wrapper(options) + test.fname (native build, no exe wrapper),
   and run() starts  cmd + test.cmd_args + options.test_args  with create_subprocess_exec
   (no shell).  test.cmd_args are the str arguments of test() as they are
   (backends.py:1318-1332). *)
Definition test_cmdline (wrapper fname cmd_args test_args : list str) : list str :=
  (wrapper ++ fname) ++ cmd_args ++ test_args.
