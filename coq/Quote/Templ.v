(* Quote/Templ.v — model of the @TEMPLATE@ substitution applied to custom_target /
   run_target commands: mesonlib.substitute_values with its error check
   (mesonbuild/utils/universal.py:2051-2156), Python's str.replace, and the body of
   Backend.eval_custom_target_command for str elements (backends.py:1661-1711:
   @SOURCE_ROOT@, @BUILD_ROOT@, @CURRENT_SOURCE_DIR@, then the template dictionary, then
   the backslash normalisation).  The dictionary itself (get_filenames_templates_dict,
   os.path based) is an input.  No proofs here. *)
From MV Require Import Base.Strs Quote.Rule.
Open Scope N_scope.

Inductive tval := TStr (s : str) | TList (l : list str).
Definition tdict := list (str * tval).

Fixpoint tlookup (d : tdict) (k : str) : option tval :=
  match d with
  | [] => None
  | (k', v) :: r => if str_eqb k' k then Some v else tlookup r k
  end.

Inductive sres := SOk (l : list str) | SErr.     (* SErr = MesonException *)

(* ---- re.search(pre + '([0-9]+)?@', s).group(): leftmost match, as text *)
Fixpoint take_digits (s : str) : str * str :=
  match s with
  | c :: r => if is_digit c then let '(d, t) := take_digits r in (c :: d, t) else ([], s)
  | [] => ([], [])
  end.

Fixpoint find_numbered (pre : str) (s : str) : option str :=
  match s with
  | [] => None
  | _ :: r =>
      if prefixb pre s then
        let '(d, t) := take_digits (drop (length pre) s) in
        match t with
        | 64 :: _ => Some (pre ++ d ++ [64])
        | _ => find_numbered pre r
        end
      else find_numbered pre r
  end.

(* plain substring test: re.search of a regex without metacharacters *)
Fixpoint contains (pat : str) (s : str) : bool :=
  match s with
  | [] => match pat with [] => true | _ => false end
  | _ :: r => prefixb pat s || contains pat r
  end.

Definition t_input : str := s2l "@INPUT@".
Definition t_output : str := s2l "@OUTPUT@".
Definition p_input : str := s2l "@INPUT".
Definition p_output : str := s2l "@OUTPUT".
Definition t_plainname : str := s2l "@PLAINNAME@".
Definition t_basename : str := s2l "@BASENAME@".
Definition t_outdir : str := s2l "@OUTDIR@".

Definition has_key (d : tdict) (k : str) : bool := match tlookup d k with Some _ => true | None => false end.

(* universal.py:2051-2083 _substitute_values_check_errors: true = raises *)
Definition check_errors (cmd : list str) (d : tdict) : bool :=
  let any_numbered pre := existsb (fun s => match find_numbered pre s with Some _ => true | None => false end) cmd in
  let any_plain t := existsb (contains t) cmd in
  let bad_numbered pre := existsb (fun s => match find_numbered pre s with
                                            | Some m => negb (has_key d m) | None => false end) cmd in
  let in_err :=
    match tlookup d t_input with
    | None => any_numbered p_input || any_plain t_plainname || any_plain t_basename      (* :2055-2059 *)
    | Some v =>
        let many := match v with TList (_ :: _ :: _) => true | _ => false end in
        (many && (any_plain t_plainname || any_plain t_basename))                        (* :2061-2066 *)
        || bad_numbered p_input                                                          (* :2068-2074 *)
    end in
  let out_err :=
    match tlookup d t_output with
    | None => any_numbered p_output || any_plain t_outdir                                (* :2075-2079 *)
    | Some _ => bad_numbered p_output                                                    (* :2082-2089 *)
    end in
  in_err || out_err.

(* ---- value_rx.sub(replace, vv): one left-to-right pass, alternatives tried in dict order,
   the replacement text is not rescanned.  skip = characters of a matched key still to drop. *)
Fixpoint try_keys (d : tdict) (s : str) : option (tval * nat) :=
  match d with
  | [] => None
  | (k, v) :: r =>
      match k with
      | [] => try_keys r s
      | _ => if prefixb k s then Some (v, length k) else try_keys r s
      end
  end.

(* None = the replace callback raises (list-valued template with several files inside a string) *)
Definition tval_text (v : tval) : option str :=
  match v with
  | TStr s => Some s
  | TList [x] => Some x
  | TList [] => Some []        (* not reachable: the dictionary never holds an empty list *)
  | TList _ => None
  end.

Fixpoint sub_go (d : tdict) (skip : nat) (s : str) : option str :=
  match s with
  | [] => Some []
  | c :: r =>
      match skip with
      | S k => sub_go d k r
      | O =>
          match try_keys d s with
          | Some (v, n) =>
              match tval_text v, sub_go d (pred n) r with
              | Some t, Some rest => Some (t ++ rest)
              | _, _ => None
              end
          | None => match sub_go d O r with Some rest => Some (c :: rest) | None => None end
          end
      end
  end.

(* universal.py:2126-2156 *)
Fixpoint sub_cmd (d : tdict) (cmd : list str) : option (list str) :=
  match cmd with
  | [] => Some []
  | vv :: r =>
      match sub_cmd d r with
      | None => None
      | Some rest =>
          match tlookup d vv with
          | Some (TList l) => Some (l ++ rest)                    (* :2139-2146 exactly @INPUT@ / @OUTPUT@ *)
          | Some (TStr o) => Some (o :: rest)                     (* :2147-2150 *)
          | None => match sub_go d O vv with                      (* :2151-2154 *)
                    | Some t => Some (t :: rest)
                    | None => None
                    end
          end
      end
  end.

Definition substitute_values (cmd : list str) (d : tdict) : sres :=
  if check_errors cmd d then SErr                                  (* :2106 *)
  else match d with
       | [] => SOk cmd                                             (* :2107-2108 *)
       | _ => match sub_cmd d cmd with Some l => SOk l | None => SErr end
       end.

(* ---- Python str.replace(old, new): leftmost, non-overlapping, no rescan *)
Definition str_replace (old new : str) (s : str) : str :=
  match sub_go [(old, TStr new)] O s with Some t => t | None => s end.

Definition t_source_root : str := s2l "@SOURCE_ROOT@".
Definition t_build_root : str := s2l "@BUILD_ROOT@".
Definition t_cur_src : str := s2l "@CURRENT_SOURCE_DIR@".

(* backends.py:1661-1667 (str elements; @DEPFILE@ / @PRIVATE_DIR@ are not modelled) *)
Definition pre_subst (source_root build_root cur_src : str) (i : str) : str :=
  str_replace t_cur_src cur_src (str_replace t_build_root build_root (str_replace t_source_root source_root i)).

(* backends.py:1644-1711 for a command made of strings *)
Definition eval_custom_cmd (source_root build_root cur_src : str) (d : tdict) (cmd : list str) : sres :=
  match substitute_values (map (pre_subst source_root build_root cur_src) cmd) d with
  | SOk l => SOk (map bs_norm l)                                   (* :1710 *)
  | SErr => SErr
  end.
