(* Quote/Entry.v — entry points used by the C03 correspondence: every function
   takes its arguments as a list of strings and returns one canonical string.
   The conventions are mirrored in harness/impl/c03.py and harness/check_C03.py. *)
From MV Require Import Base.Strs Quote.Sh Quote.Ninja Quote.Rsp Quote.Rule Quote.Spec Quote.Templ.
Open Scope N_scope.

Definition SEP1 : str := [1].   (* between fields *)
Definition MARK : str := [3].   (* between argument sections *)

(* list rendering: every element is followed by code point 2 *)
Definition tlist (l : list str) : str := concat (map (fun a => a ++ [2]) l).

Definition exc : str := s2l "EXC:MesonException".
Definition render_q (r : qres) : str := match r with QOk s => 79 :: s | QErr => exc end.   (* "O…" *)
Definition render_n (r : nres) : str := match r with NOk s => 79 :: s | NErr => [69] end.  (* "O…" | "E" *)
Definition render_tok (t : tok) : str := match t with W w => 87 :: w | AndAnd => [65] end.  (* "W…" | "A" *)
Definition render_sh (r : shres) : str :=
  match r with
  | ShOk ts => 79 :: tlist (map render_tok ts)
  | ShUnsupported => [85]      (* "U" *)
  | ShUnterminated => [84]     (* "T" *)
  end.
Definition render_opt (o : option str) : str := match o with Some s => 83 :: s | None => [] end.  (* "S…" | "" *)
Definition parse_opt (s : str) : option str := match s with 83 :: r => Some r | _ => None end.
Definition flag (s : str) (n : nat) : bool := match nth_error s n with Some 84 => true | _ => false end.

Definition render_chars (l : list char) : str := join [44] (map N_dec l).

Fixpoint split_mark (l : list str) : list str * list str :=
  match l with
  | [] => ([], [])
  | x :: r => if str_eqb x MARK then ([], r)
              else let '(a, b) := split_mark r in (x :: a, b)
  end.

Fixpoint pairs (l : list str) : list (str * str) :=
  match l with
  | k :: v :: r => (k, v) :: pairs r
  | _ => []
  end.

Definition parse_qf (s : str) : qfun := match s with 82 :: _ => QfRsp | _ => QfShell end.   (* "R" | "S" *)

(* rule item: first character B/H/N/X = explicit Quoting.both/notShell/notNinja/none, S = plain str *)
Definition parse_item (s : str) : ritem :=
  match s with
  | 66 :: r => RArg r QBoth
  | 72 :: r => RArg r QNotShell
  | 78 :: r => RArg r QNotNinja
  | 88 :: r => RArg r QNone
  | _ :: r => RStr r
  | [] => RStr []
  end.

Definition render_route (x : exe_in) (r : route) : str :=
  let kind := match r with RPlain _ => [80] | REnv _ _ => [69] | RWrap _ _ _ => [87] | RPickle _ => [75] end in
  let tail := match r with
              | RPickle p => [tlist (p_cmd p); tlist (map env_assign (p_env p));
                              render_opt (p_workdir p); render_opt (p_capture p); render_opt (p_feed p)]
              | _ => []
              end in
  join SEP1 (kind :: tlist (route_cmdline x r) :: tail).

Definition render_outcome (o : outcome) : str :=
  match o with
  | Stuck => [33]
  | Ran e w c f argv => join SEP1 [tlist (map env_assign e); render_opt w; render_opt c; render_opt f; tlist argv]
  end.

(* exe: flags workdir capture feed datafile, then sections exe_cmd MARK args MARK env k v ... MARK build_cmd *)
Definition parse_exe (args : list str) : option exe_in :=
  match args with
  | flags :: wd :: cap :: feed :: dat :: rest =>
      let '(ec, r1) := split_mark rest in
      let '(ar, r2) := split_mark r1 in
      let '(ev, bc) := split_mark r2 in
      Some {| x_exe_cmd := ec; x_args := ar; x_workdir := parse_opt wd; x_capture := parse_opt cap;
              x_feed := parse_opt feed; x_env := pairs ev; x_can_use_env := flag flags 0;
              x_force := flag flags 1; x_has_env_prog := flag flags 2; x_build_cmd := bc;
              x_datafile := dat |}
  | _ => None
  end.

Definition render_p (r : pres) : str :=
  match r with POk ps rest => 79 :: tlist ps ++ SEP1 ++ rest | PErr => [69] end.
Definition render_s (r : sres) : str := match r with SOk l => 79 :: tlist l | SErr => exc end.

Fixpoint split_on (c : char) (s : str) : list str :=
  match s with
  | [] => [[]]
  | x :: r => if x =? c then [] :: split_on c r
              else match split_on c r with h :: t => (x :: h) :: t | [] => [[x]] end
  end.

(* dictionary entry: key 0x02 "S" 0x02 value   |   key 0x02 "L" 0x02 v1 0x02 v2 ... *)
Definition parse_entry (e : str) : str * tval :=
  match split_on 2 e with
  | k :: [83] :: v :: _ => (k, TStr v)
  | k :: [76] :: vs => (k, TList vs)
  | k :: _ => (k, TStr [])
  | [] => ([], TStr [])
  end.

Definition q : str := [63].

Definition run (fn : str) (args : list str) : str :=
  if str_eqb fn (s2l "tables") then
    join SEP1 [render_chars shlex_safe_extra; render_chars nq_var_class; render_chars nq_build_class;
               tlist raw_names]
  else if str_eqb fn (s2l "shq") then
    match args with [s] => shlex_quote s | _ => q end
  else if str_eqb fn (s2l "nq") then
    match args with [b; s] => render_q (ninja_quote (flag b 0) s) | _ => q end
  else if str_eqb fn (s2l "rspq") then
    match args with [s] => gcc_rsp_quote s | _ => q end
  else if str_eqb fn (s2l "elems") then
    match args with
    | qf :: name :: es => render_q (write_elems (parse_qf qf) (should_quote_name name) es)
    | _ => q end
  else if str_eqb fn (s2l "rule") then
    match args with
    | _ :: _ =>
        let '(c, a) := split_mark args in
        let c := map parse_item c in
        let a := map parse_item a in
        match command_str c a with
        | QErr => exc       (* the NinjaRule constructor raises *)
        | QOk _ => join SEP1 [render_q (command_str c a); render_q (rsp_command c); render_q (rspfile_content a)]
        end
    | _ => q end
  else if str_eqb fn (s2l "esc") then tlist (escape_extra_args args)
  else if str_eqb fn (s2l "bsn") then
    match args with [s] => bs_norm s | _ => q end
  else if str_eqb fn (s2l "exe") then
    match parse_exe args with
    | Some x => render_route x (as_meson_exe x)
    | None => q end
  else if str_eqb fn (s2l "exerun") then
    match parse_exe args with
    | Some x => render_outcome (run_route x (as_meson_exe x))
    | None => q end
  else if str_eqb fn (s2l "shtok") then
    match args with [s] => render_sh (sh_tokens s) | _ => q end
  else if str_eqb fn (s2l "neval") then
    match args with line :: ev => render_n (ninja_eval (pairs ev) line) | _ => q end
  else if str_eqb fn (s2l "nsh") then
    match args with
    | line :: ev => match ninja_eval (pairs ev) line with
                    | NOk cmd => render_sh (sh_tokens cmd)
                    | NErr => [69] end
    | _ => q end
  else if str_eqb fn (s2l "rspargs") then
    match args with [s] => tlist (gcc_rsp_args s) | _ => q end
  else if str_eqb fn (s2l "nrsp") then
    match args with
    | line :: ev => match ninja_eval (pairs ev) line with
                    | NOk c => 79 :: tlist (gcc_rsp_args c)
                    | NErr => [69] end
    | _ => q end
  else if str_eqb fn (s2l "npaths") then
    match args with [s] => render_p (ninja_paths s) | _ => q end
  else if str_eqb fn (s2l "bline") then
    match args with
    | rule :: rest =>
        let '(outs, r1) := split_mark rest in
        let '(imp, r2) := split_mark r1 in
        let '(ins, r3) := split_mark r2 in
        let '(deps, ords) := split_mark r3 in
        render_q (build_line outs imp rule ins deps ords)
    | _ => q end
  else if str_eqb fn (s2l "subst") then
    let '(cmd, d) := split_mark args in
    render_s (substitute_values cmd (map parse_entry d))
  else if str_eqb fn (s2l "evalcmd") then
    match args with
    | sr :: br :: cs :: rest =>
        let '(cmd, d0) := split_mark rest in
        let '(d, _) := split_mark d0 in      (* further sections (inputs, outputs) are for the adapter *)
        render_s (eval_custom_cmd sr br cs (map parse_entry d) cmd)
    | _ => q end
  else if str_eqb fn (s2l "testcmd") then
    let '(w, r1) := split_mark args in
    let '(f, r2) := split_mark r1 in
    let '(a, t) := split_mark r2 in
    tlist (test_cmdline w f a t)
  else if str_eqb fn (s2l "cunesc") then
    match args with [s] => c_unescape_bs s | _ => q end
  else q.
