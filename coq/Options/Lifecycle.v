(* Options/Lifecycle.v — the build-directory lifecycle of option state (C08).
   Model only, no proofs.

   What is transcribed (file:line of /repo):
     options.py:1008-1070   OptionStore.set_option      (value / augment write)
     options.py:1072-1108   OptionStore.set_user_option (key resolution)
     options.py:1110-1136   OptionStore.set_from_configure_command (-D / -U)
     options.py:896-917     OptionStore.add_project_option (yielding link)
     options.py:839-872     resolve_option / get_option_and_value_for
     options.py:1258-1290   initialize_from_top_level_project_call
     options.py:1301-1388   initialize_from_subproject_call (five merge passes)
     options.py:1390-1417   update_project_options (new / type change / choices change / removal)
     cmdline.py:55-113      read / write / update_cmd_line_file
     msetup.py:85-115       --wipe: keep cmd_line.txt, empty the directory
     msetup.py:165-190      validate_dirs (already configured -> mconf.run_impl / no-op)
     msetup.py:191-204      generate: set_from_configure_command on reconfigure
     msetup.py:206-228      check_unused_options
     msetup.py:230-348      _generate: interpreter run, dump coredata, unknown-option check,
                            cmd_line.txt, intro files, postconf scripts, rollback on failure
     mconf.py:70-118        Conf.__init__: reload changed option files
     mconf.py:372-403       run_impl: set, update cmd_line.txt, save, refresh intro file
     interpreterbase.py:674-703  _load_option_file
     interpreter.py:1293-1308    func_project: option file, first-invocation initialisation

   The option store is a small abstract one (NOT Options/Store.v): the options that
   the generated project family can touch - the project options of the top-level
   project "" and of one subproject, and two global builtin options that may carry a
   per-subproject override (augment).  Everything that is specific to other builtin
   options (prefix, buildtype expansion, deprecated names, read-only, pending compiler /
   base / backend options, build-machine keys, machine files) is outside this model; the
   generators never produce it.  [self.project_options] is not a separate field: it is
   the set of keys of [options] that carry a subproject (add_project_option and remove
   are its only writers and keep exactly that relation).

   Five behaviours are modelled AS REPAIRED by pending/C08-*.diff (see those files):
     (yield-links)  update_project_options keeps the parent link / yielding flag of an
        option object that is replaced because its choices changed, and unlinks the
        children of a removed top-level option; so the parent of a yielding option is
        always the CURRENT top-level option of the same name, and [oparent] is a flag.
     (recorded-after-partial) a first configuration into a partial build directory
        (cmd_line.txt survived a failed --wipe) records the merged command line.
     (drop-override-bool-parent) -U re-yields whenever the option has a parent (the code
        tested bool(parent), the VALUE of a boolean parent).
     (unyield-dirty) set_option reports a change when an option stops yielding or an
        override is created, so that `meson configure` saves it.
     (removed-option-recorded) a reconfigure judges only the options given now with
        check_unused_options (a recorded -D whose option was removed from the option file no
        longer makes every reconfigure fail), and `meson configure -U` of such a key drops
        the record.
   Two behaviours are modelled AS THEY ARE (known findings):
     cmd_line.txt does not preserve blanks at the ends of a recorded value;
     a failure after cmd_line.txt / the intro files were written (postconf script) rolls
        back coredata.dat only. *)
From MV Require Import Base.Strs Options.Kinds.
Open Scope N_scope.

(* ------------------------------------------------------------------- keys *)
(* OptionKey(name, subproject): None = global, Some "" = top-level project,
   Some s = subproject s.  Host machine only. *)
Record key := mkKey { ksub : option str; kname : str }.

Definition osub_eqb (a b : option str) : bool :=
  match a, b with
  | None, None => true
  | Some x, Some y => str_eqb x y
  | _, _ => false
  end.
Definition key_eqb (a b : key) : bool :=
  osub_eqb (ksub a) (ksub b) && str_eqb (kname a) (kname b).

Definition as_root (k : key) : key := mkKey (Some []) (kname k).       (* options.py:289 *)
Definition no_sub (k : key) : key := mkKey None (kname k).             (* evolve(subproject=None) *)
Definition in_sub (k : key) (s : str) : key := mkKey (Some s) (kname k).
(* Python truthiness of key.subproject *)
Definition sub_truthy (k : key) : bool :=
  match ksub k with Some (_ :: _) => true | _ => false end.
Definition sub_is (k : key) (s : str) : bool := osub_eqb (ksub k) (Some s).
Definition sub_none (k : key) : bool := match ksub k with None => true | _ => false end.

(* Python dict in insertion order *)
Section Dict.
  Context {V : Type}.
  Fixpoint dget (d : list (key * V)) (k : key) : option V :=
    match d with
    | [] => None
    | (k', v) :: r => if key_eqb k k' then Some v else dget r k
    end.
  Fixpoint dset (d : list (key * V)) (k : key) (v : V) : list (key * V) :=
    match d with
    | [] => [(k, v)]
    | (k', v') :: r => if key_eqb k k' then (k', v) :: r else (k', v') :: dset r k v
    end.
  Fixpoint dpop (d : list (key * V)) (k : key) : list (key * V) :=
    match d with
    | [] => []
    | (k', v') :: r => if key_eqb k k' then r else (k', v') :: dpop r k
    end.
  Definition dmem (d : list (key * V)) (k : key) : bool :=
    match dget d k with Some _ => true | None => false end.
  (* d.update(e) *)
  Definition dupdate (d e : list (key * V)) : list (key * V) :=
    fold_left (fun acc kv => dset acc (fst kv) (snd kv)) e d.
  (* dict(list of pairs) *)
  Definition dict_of (l : list (key * V)) : list (key * V) := dupdate [] l.
End Dict.

(* ---------------------------------------------------------------- options *)
Record opt := mkOpt {
  okind : kind;
  oval : pv;          (* UserOption.value *)
  oyield : bool;      (* UserOption.yielding *)
  oparent : bool }.   (* UserOption.parent is not None; the parent is options[as_root key] *)

Record store := mkStore {
  options : list (key * opt);      (* OptionStore.options *)
  augments : list (key * pv) }.    (* OptionStore.augments *)

Definition set_options (s : store) (x : list (key * opt)) : store := mkStore x (augments s).
Definition set_augments (s : store) (x : list (key * pv)) : store := mkStore (options s) x.

(* self.is_project_option(key)  =  key in self.project_options *)
Definition is_project_option (s : store) (k : key) : bool :=
  dmem (options s) k && negb (sub_none k).

(* the two global builtin options of the family (options.py:650-725):
   werror: UserBooleanOption(False); warning_level: UserComboOption('1', 0..3, everything) *)
Definition WERROR : str := s2l "werror".
Definition WLEVEL : str := s2l "warning_level".
Definition wlevel_choices : list str :=
  [s2l "0"; s2l "1"; s2l "2"; s2l "3"; s2l "everything"].
Definition init_store : store :=
  mkStore [(mkKey None WERROR, mkOpt KBool (PBool false) false false);
           (mkKey None WLEVEL, mkOpt (KCombo wlevel_choices) (PStr (s2l "1")) false false)] [].

(* names that reach accept_as_pending_option's tables (compiler / base / backend
   options, options.py:1292-1299) contain '_' ; they are outside the model *)
Definition in_model_name (n : str) : bool := negb (memb 95 n) && negb (memb 46 n) && negb (memb 58 n).

(* resolve_option  (options.py:839-856); KeyError is reported by the callers *)
Definition resolve_option (s : store) (k : key) : option (key * opt) :=
  match dget (options s) k with
  | Some o => Some (k, o)
  | None =>
      if is_project_option s k then None
      else match dget (options s) (no_sub k) with
           | Some o => Some (no_sub k, o)
           | None => None
           end
  end.

(* get_option_and_value_for / get_value_for  (options.py:858-881) *)
Definition get_value_for (s : store) (k : key) : res pv :=
  match resolve_option s k with
  | None => Err EKey
  | Some (_, o) =>
      match dget (augments s) k with
      | Some v => Ok v
      | None =>
          if oyield o then
            match dget (options s) (as_root k) with
            | Some p => if oparent o then Ok (oval p) else Err EAttr
            | None => Err EAttr                       (* option_object.parent is None *)
            end
          else Ok (oval o)
      end
  end.

(* set_option  (options.py:1008-1070) restricted to the family: no prefix / builtin
   directory sanitising, no deprecation, not read-only, not buildtype.  Returns the
   new store and [changed]. *)
Definition set_option (s : store) (k : key) (v : pv) : res (store * bool) :=
  match resolve_option s k with
  | None => Err EMeson                                  (* Unknown option *)
  | Some (_, o) =>
      do nv <- validate (okind o) v;
      match dget (options s) k with
      | Some _ =>                                       (* key in self.options *)
          let o' := mkOpt (okind o) nv false (oparent o) in
          (* repaired (pending/C08-unyield-dirty.diff): an option that stops yielding counts as changed *)
          Ok (set_options s (dset (options s) k o'), negb (pv_eqb (oval o) nv) || oyield o)
      | None =>                                         (* an augment *)
          let old := match dget (augments s) k with Some a => a | None => oval o end in
          (* repaired: a new override counts as changed *)
          Ok (set_augments s (dset (augments s) k nv),
              negb (pv_eqb old nv) || negb (dmem (augments s) k))
      end
  end.

(* set_user_option  (options.py:1072-1108) *)
Definition set_user_option (s : store) (k : key) (v : pv) : res (store * bool) :=
  if dmem (options s) k then set_option s k v
  else if negb (sub_none k) && dmem (options s) (no_sub k) then set_option s k v
  else if negb (in_model_name (kname k)) then Err EOOM      (* accept_as_pending_option *)
  else if sub_none k then set_option s (as_root k) v
  else Err EMeson.                                      (* Unknown option *)

(* set_from_configure_command  (options.py:1110-1136): -D name=value / -U name *)
Fixpoint set_from_configure_command (s : store) (args : list (key * option str)) (dirty : bool)
  : res (store * bool) :=
  match args with
  | [] => Ok (s, dirty)
  | (k, Some v) :: r =>
      do sc <- set_user_option s k (PStr v);
      set_from_configure_command (fst sc) r (dirty || snd sc)
  | (k, None) :: r =>
      if dmem (augments s) k then
        set_from_configure_command (set_augments s (dpop (augments s) k)) r true
      else
        match dget (options s) k with
        | None => Err EMeson                            (* Unknown option *)
        | Some o =>
            let o' := mkOpt (okind o) (oval o) (oparent o) (oparent o) in
            set_from_configure_command (set_options s (dset (options s) k o')) r
              (dirty || (negb (oyield o) && oparent o))
        end
  end.

(* ----------------------------------------------------------- option files *)
(* one option() call of meson.options, already evaluated by OptionInterpreter:
   the default is a typed value that satisfies the kind *)
Record decl := mkDecl { dname : str; dkind : kind; ddef : pv; dyield : bool }.

Definition olist_eqb (a b : option (list str)) : bool :=
  match a, b with
  | None, None => true
  | Some x, Some y => list_str_eqb x y
  | _, _ => false
  end.
Definition oZ_eqb (a b : option Z) : bool :=
  match a, b with
  | None, None => true
  | Some x, Some y => Z.eqb x y
  | _, _ => false
  end.

(* choices_are_different  (options.py:559-578), for two kinds of the same class *)
Definition choices_differ (a b : kind) : bool :=
  match a, b with
  | KCombo x, KCombo y => negb (list_str_eqb x y)
  | KArray x, KArray y => negb (olist_eqb x y)
  | KInt m1 x1, KInt m2 x2 => negb (oZ_eqb m1 m2) || negb (oZ_eqb x1 x2)
  | _, _ => false
  end.

(* equality of option-file contents (stands for the sha1 of the file, mconf.py:96-98) *)
Definition kind_eqb (a b : kind) : bool :=
  match a, b with
  | KString, KString | KBool, KBool | KFeature, KFeature => true
  | KInt m1 x1, KInt m2 x2 => oZ_eqb m1 m2 && oZ_eqb x1 x2
  | KCombo x, KCombo y => list_str_eqb x y
  | KArray x, KArray y => olist_eqb x y
  | _, _ => false
  end.
Definition pv_same (a b : pv) : bool :=
  match a, b with
  | PStr x, PStr y => str_eqb x y
  | PBool x, PBool y => Bool.eqb x y
  | PInt x, PInt y => Z.eqb x y
  | PList x, PList y => list_str_eqb x y
  | _, _ => false
  end.
Definition decl_eqb (a b : decl) : bool :=
  str_eqb (dname a) (dname b) && kind_eqb (dkind a) (dkind b) && pv_same (ddef a) (ddef b) &&
  Bool.eqb (dyield a) (dyield b).
Fixpoint list_eqb_decl (a b : list decl) : bool :=
  match a, b with
  | [], [] => true
  | x :: a', y :: b' => decl_eqb x y && list_eqb_decl a' b'
  | _, _ => false
  end.

(* add_project_option  (options.py:896-917) for a key that is not in the store *)
Definition add_project_option (s : store) (k : key) (d : decl) : store :=
  let linked :=
    dyield d && sub_truthy k &&
    match dget (options s) (as_root k) with
    | Some p => same_class (okind p) (dkind d)
    | None => false
    end in
  set_options s (dset (options s) k (mkOpt (dkind d) (ddef d) linked linked)).

(* the children of the top-level option [root] lose their parent (repaired removal) *)
Definition unlink1 (root k : key) (o : opt) : opt :=
  if oparent o && sub_truthy k && key_eqb (as_root k) root
  then mkOpt (okind o) (oval o) false false else o.
Definition unlink_children (root : key) (l : list (key * opt)) : list (key * opt) :=
  map (fun ko => (fst ko, unlink1 root (fst ko) (snd ko))) l.

Definition decl_mem (n : str) (ds : list decl) : bool := existsb (fun d => str_eqb (dname d) n) ds.

(* the removal loop of update_project_options (options.py:1412-1417) *)
Fixpoint remove_undeclared (ds : list decl) (sub : str) (todo : list (key * opt)) (s : store) : store :=
  match todo with
  | [] => s
  | (k, _) :: r =>
      if sub_is k sub && negb (decl_mem (kname k) ds) then
        let l := dpop (options s) k in
        let l := match sub with [] => unlink_children k l | _ => l end in
        remove_undeclared ds sub r (set_options s l)
      else remove_undeclared ds sub r s
  end.

(* update_project_options  (options.py:1390-1417) *)
Fixpoint update_decls (s : store) (sub : str) (ds : list decl) : res store :=
  match ds with
  | [] => Ok s
  | d :: r =>
      let k := mkKey (Some sub) (dname d) in
      match dget (options s) k with
      | None => update_decls (add_project_option s k d) sub r
      | Some old =>
          if negb (same_class (okind old) (dkind d)) then
            do sc <- set_option s k (ddef d);              (* type changed *)
            update_decls (fst sc) sub r
          else if choices_differ (okind old) (dkind d) then
            let v := match validate (dkind d) (oval old) with
                     | Ok v' => v'
                     | Err _ => ddef d                      (* warning, new default *)
                     end in
            update_decls (set_options s (dset (options s) k
                            (mkOpt (dkind d) v (oyield old) (oparent old)))) sub r
          else update_decls s sub r
      end
  end.

Definition update_project_options (s : store) (ds : list decl) (sub : str) : res store :=
  do s1 <- update_decls s sub ds;
  Ok (remove_undeclared ds sub (options s1) s1).

(* ------------------------------------------------- first-invocation passes *)
Definition sdict := list (key * str).     (* command line / default_options: key -> string *)

(* initialize_from_top_level_project_call  (options.py:1258-1290), no prefix, no
   machine file.  Returns the store and pending_subproject_options. *)
Fixpoint top_defaults (s : store) (pend : sdict) (l : sdict) : res (store * sdict) :=
  match l with
  | [] => Ok (s, pend)
  | (k, v) :: r =>
      if sub_truthy k then top_defaults s (dset pend k v) r
      else do sc <- set_user_option s k (PStr v); top_defaults (fst sc) pend r
  end.
Fixpoint top_cmdline (s : store) (l : sdict) : res store :=
  match l with
  | [] => Ok s
  | (k, v) :: r =>
      if sub_truthy k then top_cmdline s r
      else do sc <- set_user_option s k (PStr v); top_cmdline (fst sc) r
  end.
Definition init_top (s : store) (project_defaults cmd_line : sdict) : res (store * sdict) :=
  do sp <- top_defaults s [] project_defaults;
  do s2 <- top_cmdline (fst sp) cmd_line;
  Ok (s2, snd sp).

(* initialize_from_subproject_call  (options.py:1301-1388) *)
Fixpoint sub_defaults (sub : str) (acc : sdict) (l : sdict) : res sdict :=
  match l with
  | [] => Ok acc
  | (k, v) :: r =>
      if sub_is k sub then Err EMeson                        (* subproject name not needed *)
      else match ksub k with
           | None => sub_defaults sub (dset acc (in_sub k sub) v) r
           | Some _ => Err EOOM                              (* other subprojects: not modelled *)
           end
  end.
Definition sub_drop_global (s : store) (sub : str) (acc : sdict) (cmd : sdict) : sdict :=
  fold_left (fun a kv =>
               if sub_none (fst kv) && negb (is_project_option s (as_root (fst kv)))
               then dpop a (in_sub (fst kv) sub) else a) cmd acc.
Definition sub_take (sub : str) (acc : sdict) (l : sdict) : sdict :=
  fold_left (fun a kv => if sub_is (fst kv) sub then dset a (fst kv) (snd kv) else a) l acc.
Fixpoint sub_apply (s : store) (l : sdict) : res store :=
  match l with
  | [] => Ok s
  | (k, v) :: r =>
      if dmem (augments s) k then sub_apply s r
      else do sc <- set_user_option s k (PStr v); sub_apply (fst sc) r
  end.
Definition init_sub (s : store) (sub : str) (spcall_defaults project_defaults cmd_line pend : sdict)
  : res store :=
  do o1 <- sub_defaults sub [] project_defaults;
  let o2 := sub_drop_global s sub o1 cmd_line in
  let o3 := sub_take sub o2 pend in
  do o4 <- sub_defaults sub o3 spcall_defaults;
  let o5 := sub_take sub o4 cmd_line in
  sub_apply s o5.

(* --------------------------------------------------------- the build files *)
(* the generated project family:
     project('p', default_options: TOPDEF)
     subproject('sub', default_options: CALLDEF)       # project('sub', default_options: SUBDEF)
     if get_option('late') meson.add_postconf_script(find_program('false')) endif
     if get_option('boom') error(...) endif *)
Record projcfg := mkCfg { topdef : sdict; subdef : sdict; calldef : sdict }.
Record files := mkFiles { ftop : list decl; fsub : list decl }.

Definition SUB : str := s2l "sub".
Definition BOOM : key := mkKey (Some []) (s2l "boom").
Definition LATE : key := mkKey (Some []) (s2l "late").

Definition truthy_opt (s : store) (k : key) : res bool :=
  match get_value_for s k with
  | Ok (PBool b) => Ok b
  | Ok _ => Err EMeson                 (* `if` on a non-boolean *)
  | Err EKey => Err EMeson             (* get_option of an option that does not exist *)
  | Err e => Err e
  end.

(* the options_files bookkeeping of coredata (hash of each option file as last loaded) *)
Record cdata := mkCd { cstore : store; seen : files }.

(* Interpreter.run for the family (interpreter.py:1293-1308, interpreterbase.py:674-703).
   Ok (cd, late): the interpreter finished; late = a failing postconf script was added. *)
Definition run_build (pj : projcfg) (fs : files) (first : bool) (s : store) (udo : sdict)
  : res (cdata * bool) :=
  do s1 <- update_project_options s (ftop fs) [];
  do sp <- (if first then init_top s1 (topdef pj) udo else Ok (s1, []));
  do s3 <- update_project_options (fst sp) (fsub fs) SUB;
  do s4 <- (if first then init_sub s3 SUB (calldef pj) (subdef pj) udo (snd sp) else Ok s3);
  do late <- truthy_opt s4 LATE;
  do boom <- truthy_opt s4 BOOM;
  if boom then Err EMeson else Ok (mkCd s4 fs, late).

(* check_unused_options  (msetup.py:206-228); known subprojects = {sub} *)
Definition known_option (s : store) (k : key) : bool :=
  dmem (options s) k || dmem (options s) (no_sub k) ||
  (sub_truthy k && negb (sub_is k SUB)) ||
  (sub_none k && is_project_option s (as_root k)).
Definition check_unused (s : store) (udo : sdict) : bool :=
  forallb (fun kv => known_option s (fst kv)) udo.

(* ------------------------------------------------------ the build directory *)
Record bdir := mkB {
  cd : option cdata;          (* meson-private/coredata.dat *)
  cl : option sdict;          (* meson-private/cmd_line.txt, [options] *)
  intro : option store }.     (* meson-info/intro-buildoptions.json: written from this store - every
                                 option with its effective value (get_value_for: the stored value, or the
                                 parent's value when it yields) and (mintro._list_buildoptions) every
                                 augment under its subproject-qualified name with the overriding value;
                                 the projection to names is done by harness/check_C08.py:canon_model *)

Definition empty_dir : bdir := mkB None None None.

Definition cl_or_empty (b : bdir) : sdict := match cl b with Some l => l | None => [] end.

(* update_cmd_line_file  (cmdline.py:96-113) *)
(* cmd_line.txt is an INI file: configparser strips blanks at both ends of a value when the
   file is read back (known finding: such a value is not recorded faithfully).  The model keeps
   the [options] section as it reads back, so values are stripped when they are written. *)
Definition strip_vals (d : sdict) : sdict := map (fun kv => (fst kv, strip (snd kv))) d.

Definition update_cmd_line (l : sdict) (args : list (key * option str)) : sdict :=
  fold_left (fun a kv => match snd kv with
                         | Some v => dset a (fst kv) (strip v)
                         | None => dpop a (fst kv)
                         end) args l.

Definition some_vals (d : sdict) : list (key * option str) := map (fun kv => (fst kv, Some (snd kv))) d.

Inductive outcome := Done | Failed.

(* msetup._generate on a directory without coredata.dat  (first invocation) *)
Definition first_configure (pj : projcfg) (fs : files) (b : bdir) (d : sdict) : bdir * outcome :=
  let udo := dupdate (cl_or_empty b) d in                   (* read_cmd_line_file *)
  match run_build pj fs true init_store udo with
  | Err _ => (b, Failed)
  | Ok (c, late) =>
      if negb (check_unused (cstore c) udo) then (b, Failed)   (* coredata.dat unlinked *)
      else if late then (mkB None (Some (strip_vals udo)) (Some (cstore c)), Failed)
      else (mkB (Some c) (Some (strip_vals udo)) (Some (cstore c)), Done)
  end.

(* mconf.Conf.__init__ : reload an option file whose hash changed *)
Definition reload_changed (c : cdata) (fs : files) : res cdata :=
  do s1 <- (if list_eqb_decl (ftop (seen c)) (ftop fs) then Ok (cstore c)
            else update_project_options (cstore c) (ftop fs) []);
  do s2 <- (if list_eqb_decl (fsub (seen c)) (fsub fs) then Ok s1
            else update_project_options s1 (fsub fs) SUB);
  Ok (mkCd s2 fs).

(* repaired (pending/C08-removed-option-recorded.diff): -U of a key that is neither an override nor
   an option any more, but is still recorded in cmd_line.txt, only drops the record *)
Definition stale_drop (s : store) (rec : sdict) (a : key * option str) : bool :=
  match snd a with
  | None => negb (dmem (augments s) (fst a)) && negb (dmem (options s) (fst a)) && dmem rec (fst a)
  | Some _ => false
  end.
Definition live_args (s : store) (rec : sdict) (args : list (key * option str)) : list (key * option str) :=
  filter (fun a => negb (stale_drop s rec a)) args.

(* mconf.run_impl  (mconf.py:372-403) *)
Definition configure (fs : files) (b : bdir) (args : list (key * option str)) : bdir * outcome :=
  match cd b with
  | None => (b, Failed)                                      (* build.load fails *)
  | Some c =>
      match reload_changed c fs with
      | Err _ => (b, Failed)
      | Ok c1 =>
          match args with
          | [] => (b, Done)                                  (* print only *)
          | _ =>
              match set_from_configure_command (cstore c1) (live_args (cstore c1) (cl_or_empty b) args) false with
              | Err _ => (b, Failed)
              | Ok (s2, dirty) =>
                  let cl' := Some (update_cmd_line (cl_or_empty b) args) in
                  if dirty then (mkB (Some (mkCd s2 (seen c1))) cl' (Some s2), Done)
                  else (mkB (cd b) cl' (intro b), Done)
              end
          end
      end
  end.

(* meson setup --reconfigure  (msetup.py:191-204, 230-348) *)
Definition reconfigure (pj : projcfg) (fs : files) (b : bdir) (d : sdict) : bdir * outcome :=
  match cd b with
  | None => first_configure pj fs b d
  | Some c =>
      match set_from_configure_command (cstore c) (some_vals d) false with
      | Err _ => (b, Failed)
      | Ok (s1, _) =>
          let udo := dupdate (cl_or_empty b) d in
          match run_build pj fs false s1 udo with
          | Err _ => (b, Failed)
          | Ok (c2, late) =>
              (* repaired: on a reconfigure only the options given now are judged *)
              if negb (check_unused (cstore c2) d) then (b, Failed)     (* coredata.dat.prev restored *)
              else
                let cl' := Some (update_cmd_line (cl_or_empty b) (some_vals d)) in
                if late then (mkB (cd b) cl' (Some (cstore c2)), Failed)
                else (mkB (Some c2) cl' (Some (cstore c2)), Done)
          end
      end
  end.

(* meson setup --wipe  (msetup.py:85-115): cmd_line.txt survives, everything else goes *)
Definition wipe (pj : projcfg) (fs : files) (b : bdir) (d : sdict) : bdir * outcome :=
  first_configure pj fs (mkB None (cl b) None) d.

(* meson setup  (msetup.py:165-190) *)
Definition setup (pj : projcfg) (fs : files) (b : bdir) (d : sdict) : bdir * outcome :=
  match cd b with
  | Some _ =>
      match d with
      | [] => (b, Done)                                      (* "Directory already configured." *)
      | _ => configure fs b (some_vals d)
      end
  | None => first_configure pj fs b d
  end.

(* --------------------------------------------------------------- histories *)
Inductive cmd :=
| Setup (d : sdict)
| Configure (args : list (key * option str))
| Reconfigure (d : sdict)
| Wipe (d : sdict)
| Edit (fs : files).                  (* the option files are rewritten *)

Record world := mkW { wfiles : files; wdir : bdir }.

(* argparse stores -D / -U into one dict: a repeated key keeps its first position *)
Definition step (pj : projcfg) (w : world) (c : cmd) : world * outcome :=
  match c with
  | Setup d => let r := setup pj (wfiles w) (wdir w) (dict_of d) in (mkW (wfiles w) (fst r), snd r)
  | Configure a => let r := configure (wfiles w) (wdir w) (dict_of a) in (mkW (wfiles w) (fst r), snd r)
  | Reconfigure d => let r := reconfigure pj (wfiles w) (wdir w) (dict_of d) in (mkW (wfiles w) (fst r), snd r)
  | Wipe d => let r := wipe pj (wfiles w) (wdir w) (dict_of d) in (mkW (wfiles w) (fst r), snd r)
  | Edit fs => (mkW fs (wdir w), Done)
  end.

Fixpoint run_hist (pj : projcfg) (w : world) (h : list cmd) : list (world * outcome) :=
  match h with
  | [] => []
  | c :: r => let wo := step pj w c in wo :: run_hist pj (fst wo) r
  end.

Definition final (pj : projcfg) (w : world) (h : list cmd) : world :=
  fold_left (fun w c => fst (step pj w c)) h w.
