(* Extraction of the C08 model.  Only the ExtrOcamlBasic directives are used. *)
From Coq Require Extraction.
From Coq Require Import ExtrOcamlBasic.
From MV Require Import Options.LcEntry.
Extraction "../extract/C08/model.ml" Options.LcEntry.run.
