(* Options/Spec.v — what the property text says, stated independently of the
   store model: the meaning of a raw value for an option kind, and the two
   documented priority orders. *)
From MV Require Import Base.Strs Options.Kinds Options.Store.
Open Scope N_scope.

(* the typed value a raw value denotes for an option of kind k (type clause) *)
Definition denotes (k : kind) (v : pv) : res pv :=
  match k, v with
  | KString, PStr _ => Ok v
  | KBool, PBool _ => Ok v
  | KBool, PStr s => if lower_is s (s2l "true") then Ok (PBool true)
                     else if lower_is s (s2l "false") then Ok (PBool false)
                     else Err EMeson
  | KInt _ _, PInt _ => Ok v
  | KInt _ _, PStr s => do z <- parse_int s; Ok (PInt z)
  | KCombo _, PStr _ => Ok v
  | KFeature, PStr _ => Ok v
  | KArray _, _ => do l <- listify_array_value v; Ok (PList l)
  | _, _ => Err EMeson
  end.

(* first defined, highest priority first *)
Fixpoint first_defined {A} (l : list (option A)) : option A :=
  match l with
  | [] => None
  | Some a :: _ => Some a
  | None :: r => first_defined r
  end.

(* Top-level project: command line, then machine file, then project(default_options),
   then the declared default (None here). *)
Definition resolve_top {A} (cmdline machine_file default_options : option A) : option A :=
  first_defined [cmdline; machine_file; default_options].

(* Subproject: the documented eight-step order (Builtin-options.md:403-411), each
   later source overriding the earlier ones. *)
Definition resolve_sub {A} (parent_do_opt sub_do_opt mf_opt cl_opt parent_do_subopt spcall_opt mf_subopt cl_subopt : option A)
  : option A :=
  first_defined [cl_subopt; mf_subopt; spcall_opt; parent_do_subopt; cl_opt; mf_opt; sub_do_opt; parent_do_opt].
