(* Options/TopProject.v — the top-level precedence for an option of the top-level
   project itself (declared in its meson.options, key ":name").  It can be written
   "name" or ":name" in the sources; both spellings reach the same option. *)
From MV Require Import Base.Strs Options.Kinds Options.Store Options.Init Options.Spec
                       Options.Proofs Options.Precedence Options.SubMerge Options.SubApply Options.Final.
Open Scope N_scope.

Definition spelled (q : key) (k : key) : bool := key_eqb k q || key_eqb k (no_sub q).

Lemma as_root_no_sub q : ksub q = Some [] -> as_root (no_sub q) = q.
Proof. destruct q as [su m n]; cbn. intros ->. reflexivity. Qed.

Lemma W_o_project s q k v :
  kmach q = Host -> ksub q = Some [] -> dmem (options s) q = true ->
  dmem (options s) (no_sub q) = false -> accept_as_pending_option (no_sub q) true = false ->
  (spelled q k = true -> exists v3, canon s q v = Ok v3) ->
  W_o s (k, v) q = if spelled q k then Some (canon_slot s q v) else None.
Proof.
  intros Hh Hs Hm Hg Hpe Hacc. unfold W_o, top_w, user_wr, target, native_skip, canon_slot, spelled in *; cbn [fst snd].
  destruct (key_eqb k q) eqn:E.
  - apply key_eqb_eq in E. subst k. destruct (Hacc eq_refl) as (v3 & Ec).
    unfold is_for_build, sub_truthy. rewrite Hh, Hs. cbn [mach_eqb orb]. rewrite andb_false_r.
    rewrite Hm. unfold set_wr. rewrite Ec, Hm. cbn. rewrite key_eqb_refl. reflexivity.
  - cbn [orb] in *. destruct (key_eqb k (no_sub q)) eqn:E2.
    + apply key_eqb_eq in E2. subst k. destruct (Hacc eq_refl) as (v3 & Ec).
      unfold is_for_build, sub_truthy. cbn [no_sub evolve_sub kmach ksub]. rewrite Hh. cbn [mach_eqb].
      rewrite andb_false_r. fold (no_sub q). rewrite Hg. cbn [andb]. rewrite Hpe.
      rewrite (as_root_no_sub q Hs). unfold set_wr. rewrite Ec, Hm. cbn. rewrite key_eqb_refl. reflexivity.
    + destruct (negb (is_cross s) && is_for_build k); [reflexivity|].
      destruct (sub_truthy k); [reflexivity|].
      destruct (dmem (options s) k) eqn:Ek.
      * unfold set_wr. destruct (canon s k v); [|reflexivity]. rewrite Ek. cbn. rewrite E. reflexivity.
      * destruct (_ && _) eqn:E3.
        -- unfold set_wr. destruct (canon s k v); [|reflexivity]. rewrite Ek. reflexivity.
        -- destruct (accept_as_pending_option k true); [reflexivity|].
           destruct (ksub k) eqn:Ks; [reflexivity|].
           unfold set_wr. destruct (canon s (as_root k) v); [|reflexivity].
           destruct (dmem (options s) (as_root k)); [|reflexivity]. cbn.
           destruct (key_eqb (as_root k) q) eqn:E4; [|reflexivity].
           apply key_eqb_eq in E4. exfalso.
           assert (k = no_sub q).
           { destruct k as [ks km kn], q as [qs qm qn]; cbn in *. subst ks. injection E4 as _ -> ->. reflexivity. }
           subst k. rewrite key_eqb_refl in E2. discriminate.
Qed.

Lemma W_a_in_options s q e : dmem (options s) q = true -> W_a s e q = None.
Proof.
  intros Hm. unfold W_a, top_w, user_wr.
  destruct (native_skip s (fst e)); [reflexivity|]. destruct (sub_truthy (fst e)); [reflexivity|].
  destruct (target s (fst e)) as [t|]; [|reflexivity].
  unfold set_wr. destruct (canon s t (snd e)); [|reflexivity].
  destruct (dmem (options s) t) eqn:Et; [reflexivity|]. cbn.
  destruct (key_eqb t q) eqn:E; [|reflexivity]. apply key_eqb_eq in E. congruence.
Qed.

Lemma accepted_spelled s l q :
  kmach q = Host -> ksub q = Some [] -> dmem (options s) q = true ->
  dmem (options s) (no_sub q) = false -> accept_as_pending_option (no_sub q) true = false ->
  Forall (entry_accepted s) l ->
  forall k v, In (k, v) l -> spelled q k = true -> exists v3, canon s q v = Ok v3.
Proof.
  intros Hh Hs Hm Hg Hpe HA k v Hin E. rewrite Forall_forall in HA. specialize (HA _ Hin).
  unfold entry_accepted in HA; cbn [fst snd] in HA. unfold spelled in E.
  apply orb_prop in E as [E|E]; apply key_eqb_eq in E; subst k; apply HA.
  - unfold native_skip, is_for_build. rewrite Hh. cbn. apply andb_false_r.
  - unfold sub_truthy. rewrite Hs. reflexivity.
  - unfold target. rewrite Hm. reflexivity.
  - unfold native_skip, is_for_build. cbn. rewrite Hh. cbn. apply andb_false_r.
  - reflexivity.
  - unfold target. rewrite Hg. cbn [no_sub evolve_sub ksub andb]. fold (no_sub q). rewrite Hpe.
    rewrite (as_root_no_sub q Hs). reflexivity.
Qed.

Lemma dlast_by_in p l v : forall acc,
  dlast_by p l acc = Some v -> acc = Some v \/ exists k, In (k, v) l /\ p k = true.
Proof.
  induction l as [|[k w] l IH]; intros acc H; cbn in H; [left; exact H|].
  destruct (IH _ H) as [Hacc | (k' & Hin & Hk)].
  - destruct (p k) eqn:E; [|left; exact Hacc].
    injection Hacc as ->. right. exists k. split; [left; reflexivity | exact E].
  - right. exists k'. split; [right; exact Hin | exact Hk].
Qed.

Theorem top_precedence_project f s pdo cmd mf s1 pdo' cmd' mf' s' q v0 :
  first_handle_prefix s pdo cmd mf = Ok (s1, pdo', cmd', mf') ->
  initialize_from_top_level_project_call (S f) s pdo cmd mf = Ok s' ->
  pfx_ok s1 -> Forall (good_entry s1) (pdo' ++ mf' ++ cmd') ->
  kmach q = Host -> ksub q = Some [] ->
  dmem (options s1) (no_sub q) = false -> accept_as_pending_option (no_sub q) true = false ->
  oslot s1 q = Some (v0, false) -> aslot s1 q = None ->
  get_value_for s' q =
    match resolve_top (dlast_by (spelled q) cmd' None) (dlast_by (spelled q) mf' None)
                      (dlast_by (spelled q) pdo' None) with
    | Some v => canon s1 q v
    | None => Ok v0
    end.
Proof.
  intros Hf Hi Hpf HG Hh Hs Hg Hpe Ho Ha.
  unfold initialize_from_top_level_project_call in Hi. rewrite Hf in Hi. cbn [bind] in Hi.
  destruct (top_loops_last_writer f s1 pdo' (mf' ++ cmd') s' Hpf HG Hi) as (HR & HO & HA & HK).
  assert (Hm : dmem (options s1) q = true).
  { unfold oslot in Ho. unfold dmem. destruct (dget (options s1) q); [reflexivity | discriminate]. }
  pose proof (accepted_spelled s1 _ q Hh Hs Hm Hg Hpe HK) as Hacc.
  assert (HW : forall k v, In (k, v) (pdo' ++ mf' ++ cmd') ->
               W_o s1 (k, v) q = if spelled q k then Some (canon_slot s1 q v) else None).
  { intros k v Hin. apply W_o_project; auto. intros E. eapply Hacc; eassumption. }
  pose proof (last_w_dlast W_o s1 q (spelled q) (canon_slot s1 q) _ HW None) as HL.
  cbn [option_map] in HL.
  specialize (HO q). rewrite HL in HO.
  specialize (HA q). rewrite (last_w_none W_a s1 q _ (fun e => W_a_in_options s1 q e Hm)) in HA.
  rewrite dlast_by_three in HO. unfold resolve_top.
  destruct (first_defined _) as [v|] eqn:Efd.
  - cbn [option_map] in HO.
    assert (exists v3, canon s1 q v = Ok v3) as (v3 & Ec).
    { rewrite <- dlast_by_three in Efd. destruct (dlast_by_in _ _ _ _ Efd) as [D | (k & Hin & Hk)]; [discriminate|].
      eapply Hacc; eassumption. }
    unfold canon_slot in HO. rewrite Ec in HO. rewrite Ec. cbn in HO, HA. rewrite Ha in HA.
    eapply gvf_project; eassumption.
  - cbn in HO, HA. rewrite Ho in HO. rewrite Ha in HA.
    eapply gvf_project; eassumption.
Qed.

Example project_guards_satisfiable :
  match init_builtins false (s2l "lib") with
  | Ok s0 =>
      let q := mkKey (Some []) Host (s2l "popt") in
      match add_project_option s0 q (mkOpt (KCombo [s2l "a"; s2l "b"; s2l "c"]) (PStr (s2l "a")) (PStr (s2l "a")) false None false DNo) with
      | Ok s =>
          let pdo := [(no_sub q, PStr (s2l "b"))] in
          let cmd := [(q, PStr (s2l "c")); (mkKey None Host (s2l "werror"), PStr (s2l "true"))] in
          pfx_okb s && forallb (good_entryb s) (pdo ++ cmd) &&
          negb (dmem (options s) (no_sub q)) && negb (accept_as_pending_option (no_sub q) true) &&
          match initialize_from_top_level_project_call 5 s pdo cmd [] with
          | Ok s' => match get_value_for s' q with Ok (PStr v) => str_eqb v (s2l "c") | _ => false end
          | Err _ => false
          end
      | Err _ => false
      end
  | Err _ => false
  end = true.
Proof. vm_compute. reflexivity. Qed.
