(* Options/MachineFileProofs.v — the key a machine-file entry is stored under. *)
From MV Require Import Base.Strs Options.Kinds Options.Store Options.MachineFile Options.Proofs Options.Precedence.
Open Scope N_scope.

(* mfilestr2key: the text decides name and (via "build.") the machine; a non-empty section
   subproject always becomes the key's subproject; a build-machine file forces machine build *)
Theorem mfilestr2key_spec s sp m k :
  mfilestr2key s sp m = Ok k ->
  exists k0, from_string s = Ok k0 /\ sub_truthy k0 = false /\
    kname k = kname k0 /\
    ksub k = (if str_truthy sp then sp else ksub k0) /\
    kmach k = (match m with Build => Build | Host => kmach k0 end).
Proof.
  unfold mfilestr2key. intros H. apply bind_ok in H as (k0 & H0 & H).
  exists k0. split; [exact H0|].
  destruct (sub_truthy k0); [discriminate|]. split; [reflexivity|].
  injection H as <-. destruct (str_truthy sp), m; cbn; auto.
Qed.

Theorem mfilestr2key_sub_section_carries_subproject s sub m k :
  sub <> [] -> mfilestr2key s (Some sub) m = Ok k -> ksub k = Some sub.
Proof.
  intros Hn H. destruct (mfilestr2key_spec _ _ _ _ H) as (k0 & _ & _ & _ & Hs & _).
  rewrite Hs. destruct sub; [contradiction | reflexivity].
Qed.

(* every entry loaded from a section is stored under the key mfilestr2key gives it, with the
   section's subproject and the file's machine *)
Lemma load_entries_keys subp m l : forall opts res,
  load_entries opts subp m l = Ok res ->
  forall k v, dget res k = Some v ->
    dget opts k = Some v \/ exists s, In (s, v) l /\ mfilestr2key s subp m = Ok k.
Proof.
  induction l as [|[s w] l IH]; intros opts res H k v G; cbn in H.
  - injection H as <-. left. exact G.
  - apply bind_ok in H as (k1 & H1 & H).
    destruct (IH _ _ H k v G) as [G1 | (s' & Hin & Hk)].
    + rewrite dget_dset in G1. destruct (key_eqb k1 k) eqn:E.
      * apply key_eqb_eq in E. subst k1. injection G1 as <-. right. exists s. split; [left; reflexivity | exact H1].
      * left. exact G1.
    + right. exists s'. split; [right; exact Hin | exact Hk].
Qed.

Lemma dset_keys_Forall {V} (P : key -> Prop) (d : list (key * V)) k v :
  Forall (fun e => P (fst e)) d -> P k -> Forall (fun e => P (fst e)) (dset d k v).
Proof.
  induction d as [|[k' v'] d IH]; intros F Hk; cbn.
  - constructor; [exact Hk | constructor].
  - inversion F; subst. destruct (key_eqb k k'); constructor; auto.
Qed.

Lemma load_entries_P (P : key -> Prop) subp m l :
  (forall s k, mfilestr2key s subp m = Ok k -> P k) ->
  forall opts res, load_entries opts subp m l = Ok res ->
  Forall (fun e => P (fst e)) opts -> Forall (fun e => P (fst e)) res.
Proof.
  intros HP. induction l as [|[s w] l IH]; intros opts res H F; cbn in H.
  - injection H as <-. exact F.
  - apply bind_ok in H as (k1 & H1 & H). eapply IH; [exact H|].
    apply dset_keys_Forall; [exact F | eapply HP; exact H1].
Qed.

Lemma load_sections_P (P : key -> Prop) m :
  (forall s subp k, mfilestr2key s subp m = Ok k -> P k) ->
  forall cfg opts res, load_sections opts m cfg = Ok res ->
  Forall (fun e => P (fst e)) opts -> Forall (fun e => P (fst e)) res.
Proof.
  intros HP. induction cfg as [|[name values] cfg IH]; intros opts res H F; cbn [load_sections] in H.
  - injection H as <-. exact F.
  - destruct (match split_first_colon name [] with Some (a, b) => (a, b) | None => ([], name) end) as [subp sect].
    destruct (str_eqb sect (s2l "built-in options")).
    + apply bind_ok in H as (o1 & H1 & H). eapply IH; [exact H|].
      eapply load_entries_P; [|exact H1|exact F]. intros s k. apply HP.
    + destruct (str_eqb sect (s2l "project options") && _).
      * apply bind_ok in H as (o1 & H1 & H). eapply IH; [exact H|].
        eapply load_entries_P; [|exact H1|exact F]. intros s k. apply HP.
      * destruct (memb 58 sect); [discriminate|]. eapply IH; eassumption.
Qed.

Lemma load_file_P (P : key -> Prop) m :
  (forall s subp k, mfilestr2key s subp m = Ok k -> P k) ->
  forall cfg opts res, load_machine_file_options opts cfg m = Ok res ->
  Forall (fun e => P (fst e)) opts -> Forall (fun e => P (fst e)) res.
Proof.
  intros HP cfg opts res H F. unfold load_machine_file_options in H.
  apply bind_ok in H as (o1 & H1 & H). eapply load_sections_P; [exact HP | exact H|].
  destruct (find_section (s2l "paths") cfg) as [[|e es]|]; try (injection H1 as <-; exact F).
  eapply load_entries_P; [|exact H1|exact F]. intros s k. apply HP.
Qed.

(* a native file read for a cross build (machine = build) yields build-machine keys only *)
Theorem native_file_in_cross_build_gives_build_keys cfg res :
  load_machine_file_options [] cfg Build = Ok res -> Forall (fun e => kmach (fst e) = Build) res.
Proof.
  intros H. eapply (load_file_P (fun k => kmach k = Build) Build); [|exact H|constructor].
  intros s subp k Hk. destruct (mfilestr2key_spec _ _ _ _ Hk) as (k0 & _ & _ & _ & _ & Hm). exact Hm.
Qed.

(* where the keys of a loaded file come from: an entry of a "built-in options" / "project
   options" section, under the key mfilestr2key computes from the entry text, the SECTION's
   subproject and the file's machine *)
Lemma load_sections_origin m : forall cfg opts res,
  load_sections opts m cfg = Ok res ->
  forall k v, dget res k = Some v ->
    dget opts k = Some v \/
    exists name values subp sect s,
      In (name, values) cfg /\
      (match split_first_colon name [] with Some (a, b) => (a, b) | None => ([], name) end) = (subp, sect) /\
      In (s, v) values /\ mfilestr2key s (Some subp) m = Ok k.
Proof.
  induction cfg as [|[name values] cfg IH]; intros opts res H k v G; cbn [load_sections] in H.
  - injection H as <-. left. exact G.
  - destruct (match split_first_colon name [] with Some (a, b) => (a, b) | None => ([], name) end) as [subp sect] eqn:Esp.
    assert (Lift : forall o1, load_entries opts (Some subp) m values = Ok o1 -> load_sections o1 m cfg = Ok res ->
              dget opts k = Some v \/
              exists name0 values0 subp0 sect0 s,
                In (name0, values0) ((name, values) :: cfg) /\
                (match split_first_colon name0 [] with Some (a, b) => (a, b) | None => ([], name0) end) = (subp0, sect0) /\
                In (s, v) values0 /\ mfilestr2key s (Some subp0) m = Ok k).
    { intros o1 H1 H2. destruct (IH _ _ H2 k v G) as [G1 | (n0 & v0 & sp0 & se0 & s0 & Hin & Hs & Hv & Hk)].
      - destruct (load_entries_keys _ _ _ _ _ H1 k v G1) as [G0 | (s0 & Hin & Hk)]; [left; exact G0|].
        right. exists name, values, subp, sect, s0. repeat split; auto. left; reflexivity.
      - right. exists n0, v0, sp0, se0, s0. repeat split; auto. right; exact Hin. }
    destruct (str_eqb sect (s2l "built-in options")).
    + apply bind_ok in H as (o1 & H1 & H). apply (Lift o1 H1 H).
    + destruct (str_eqb sect (s2l "project options") && _).
      * apply bind_ok in H as (o1 & H1 & H). apply (Lift o1 H1 H).
      * destruct (memb 58 sect); [discriminate|].
        destruct (IH _ _ H k v G) as [G1 | (n0 & v0 & sp0 & se0 & s0 & Hin & Hs & Hv & Hk)]; [left; exact G1|].
        right. exists n0, v0, sp0, se0, s0. repeat split; auto. right; exact Hin.
Qed.

(* The key of an entry of a [sub:built-in options] / [sub:project options] section: it
   carries subproject sub, the name written in the file, and machine build exactly when the
   file is read for the build machine (native file of a cross build) or the text says build. *)
Theorem sub_section_entry_key m cfg res k v :
  load_sections [] m cfg = Ok res -> dget res k = Some v ->
  exists name values subp sect s k0,
    In (name, values) cfg /\
    (match split_first_colon name [] with Some (a, b) => (a, b) | None => ([], name) end) = (subp, sect) /\
    In (s, v) values /\ from_string s = Ok k0 /\
    kname k = kname k0 /\
    (subp <> [] -> ksub k = Some subp) /\
    kmach k = (match m with Build => Build | Host => kmach k0 end).
Proof.
  intros H G. destruct (load_sections_origin m cfg [] res H k v G) as [D | (name & values & subp & sect & s & Hin & Hs & Hv & Hk)];
    [discriminate|].
  destruct (mfilestr2key_spec _ _ _ _ Hk) as (k0 & H0 & _ & Hn & Hsub & Hm).
  exists name, values, subp, sect, s, k0. repeat split; auto.
  intros Hne. rewrite Hsub. destruct subp; [contradiction | reflexivity].
Qed.

(* Environment.options never holds a build-machine value for an option that is not per-machine *)
Theorem env_options_build_keys_are_per_machine c n x d :
  env_options c n x = Ok d ->
  Forall (fun e => kmach (fst e) = Build -> is_per_machine_option (fst e) = true) d.
Proof.
  unfold env_options. intros H. apply bind_ok in H as (o1 & _ & H). apply bind_ok in H as (o2 & _ & H).
  injection H as <-. apply Forall_forall. intros e He. apply filter_In in He as [_ He].
  intros Hm. rewrite Hm in He. exact He.
Qed.
