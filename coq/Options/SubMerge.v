(* Options/SubMerge.v — the five merge passes of initialize_from_subproject_call
   (options.py:1332-1370) compute, for every option of the subproject, the value of
   the documented eight-step order (steps 2-8; step 1 and the fall-back of steps
   3/4 are the value the top-level project already resolved). *)
From MV Require Import Base.Strs Options.Kinds Options.Store Options.Init Options.Spec
                       Options.Proofs Options.Precedence.
Open Scope N_scope.

(* ------------------------------------------------------ unique-key dicts *)
Lemma uniq_dset d k v : uniq_keys d = true -> uniq_keys (dset d k v) = true.
Proof.
  induction d as [|[k' v'] d IH]; cbn; intros H; [reflexivity|].
  apply andb_prop in H as [H1 H2]. destruct (key_eqb k k') eqn:E; cbn.
  - rewrite H1, H2. reflexivity.
  - rewrite dmem_dset, (IH H2), E. cbn. rewrite H1. reflexivity.
Qed.

Lemma dget_dpop_same d k : uniq_keys d = true -> dget (dpop d k) k = None.
Proof.
  induction d as [|[k' v'] d IH]; cbn; intros H; [reflexivity|].
  apply andb_prop in H as [H1 H2]. destruct (key_eqb k k') eqn:E; cbn.
  - apply key_eqb_eq in E. subst k'. unfold dmem in H1. destruct (dget d k); [discriminate | reflexivity].
  - rewrite E. apply IH. exact H2.
Qed.

Lemma dmem_dpop (d : list (key * pv)) k q : dmem (dpop d k) q = true -> dmem d q = true.
Proof.
  unfold dmem. induction d as [|[k' v'] d IH]; cbn; [auto|].
  destruct (key_eqb k k') eqn:E; cbn.
  - destruct (key_eqb q k'); auto.
  - destruct (key_eqb q k'); auto.
Qed.

Lemma uniq_dpop d k : uniq_keys d = true -> uniq_keys (dpop d k) = true.
Proof.
  induction d as [|[k' v'] d IH]; cbn; intros H; [reflexivity|].
  apply andb_prop in H as [H1 H2]. destruct (key_eqb k k'); cbn; [exact H2|].
  rewrite (IH H2), andb_true_r. apply negb_true_iff. apply negb_true_iff in H1.
  destruct (dmem (dpop d k) k') eqn:E; [|reflexivity]. apply dmem_dpop in E. congruence.
Qed.

(* ------------------------------------------------------------ the passes *)
Section Merge.
  Variable sub : str.
  Variable q : key.                     (* an option of the subproject:  sub:name *)
  Hypothesis q_sub : ksub q = Some sub.
  Let g := no_sub q.                    (* the same option written without the subproject *)

  Lemma evolve_hits k :
    sub_is k sub = false ->
    key_eqb (match ksub k with None => evolve_sub k (Some sub) | Some _ => k end) q = key_eqb k g.
  Proof.
    intros Hn. destruct k as [[su|] m n], q as [qs qm qn]; cbn in *; subst qs; unfold key_eqb; cbn.
    - unfold sub_is in Hn; cbn in Hn. rewrite Hn. reflexivity.
    - rewrite str_eqb_refl. reflexivity.
  Qed.

  Lemma merge_defaults_get l : forall opts res,
    merge_defaults sub opts l = Ok res ->
    dget res q = match dlast l g with Some v => Some v | None => dget opts q end.
  Proof.
    unfold dlast. induction l as [|[k v] l IH]; intros opts res H; cbn in H.
    - injection H as <-. reflexivity.
    - destruct (sub_is k sub) eqn:Es; [discriminate|].
      rewrite (IH _ _ H). cbn [dlast_by]. rewrite dget_dset, (evolve_hits k Es).
      rewrite (dlast_by_acc _ l (if key_eqb k g then Some v else None)).
      destruct (dlast_by _ l None); [reflexivity|]. destruct (key_eqb k g); reflexivity.
  Qed.

  Lemma merge_defaults_uniq l : forall opts res,
    merge_defaults sub opts l = Ok res -> uniq_keys opts = true -> uniq_keys res = true.
  Proof.
    induction l as [|[k v] l IH]; intros opts res H U; cbn in H.
    - injection H as <-. exact U.
    - destruct (sub_is k sub); [discriminate|]. eapply IH; [exact H|]. apply uniq_dset. exact U.
  Qed.

  Lemma merge_for_sub_get l : forall opts,
    dget (merge_for_sub sub opts l) q = match dlast l q with Some v => Some v | None => dget opts q end.
  Proof.
    unfold dlast. induction l as [|[k v] l IH]; intros opts; cbn; [reflexivity|].
    rewrite (dlast_by_acc _ l (if key_eqb k q then Some v else None)).
    destruct (sub_is k sub) eqn:Es.
    - rewrite IH, dget_dset. destruct (dlast_by _ l None); [reflexivity|].
      destruct (key_eqb k q); reflexivity.
    - rewrite IH. assert (key_eqb k q = false) as ->.
      { destruct (key_eqb k q) eqn:E; [|reflexivity]. apply key_eqb_eq in E. subst k.
        unfold sub_is in Es. rewrite q_sub in Es. cbn in Es. rewrite str_eqb_refl in Es. discriminate. }
      destruct (dlast_by _ l None); reflexivity.
  Qed.

  Lemma merge_for_sub_uniq l : forall opts, uniq_keys opts = true -> uniq_keys (merge_for_sub sub opts l) = true.
  Proof.
    induction l as [|[k v] l IH]; intros opts U; cbn; [exact U|].
    destruct (sub_is k sub); [apply IH, uniq_dset, U | apply IH, U].
  Qed.

  Definition mentions (d : list (key * pv)) (k : key) : bool :=
    match dlast d k with Some _ => true | None => false end.

  Lemma mentions_cons k v l x :
    mentions ((k, v) :: l) x = key_eqb k x || mentions l x.
  Proof.
    unfold mentions, dlast. cbn. rewrite (dlast_by_acc _ l (if key_eqb k x then Some v else None)).
    destruct (dlast_by _ l None); [rewrite orb_true_r; reflexivity|].
    destruct (key_eqb k x); reflexivity.
  Qed.

  Lemma merge_global_pops_get s l : forall opts,
    uniq_keys opts = true ->
    dget (merge_global_pops s sub opts l) q =
      if mentions l g && negb (is_project_option s (as_root q)) then None else dget opts q.
  Proof.
    induction l as [|[k v] l IH]; intros opts U; cbn [merge_global_pops]; [reflexivity|].
    rewrite mentions_cons.
    destruct (ksub k) eqn:Ks.
    - rewrite (IH _ U). assert (key_eqb k g = false) as ->; [|reflexivity].
      apply ksub_neq. rewrite Ks. discriminate.
    - destruct (key_eqb k g) eqn:E.
      + apply key_eqb_eq in E. subst k.
        assert (Ar : as_root g = as_root q) by reflexivity.
        assert (Ev : evolve_sub g (Some sub) = q).
        { destruct q as [qs qm qn]; cbn in *. subst qs. reflexivity. }
        rewrite Ar, Ev. cbn [orb andb].
        destruct (negb (is_project_option s (as_root q))) eqn:Ep; cbn [andb].
        * rewrite (IH _ (uniq_dpop _ _ U)), (dget_dpop_same _ _ U).
          destruct (mentions l g && true); reflexivity.
        * rewrite (IH _ U), andb_false_r. reflexivity.
      + cbn [orb].
        destruct (negb (is_project_option s (as_root k))).
        * rewrite (IH _ (uniq_dpop _ _ U)). rewrite dget_dpop_other; [reflexivity|].
          destruct (key_eqb (evolve_sub k (Some sub)) q) eqn:E2; [|reflexivity].
          apply key_eqb_eq in E2. subst g. rewrite <- E2 in E.
          destruct k as [ks km kn]; cbn in *. subst ks. unfold no_sub, evolve_sub in E; cbn in E.
          rewrite key_eqb_refl in E. discriminate.
        * apply IH. exact U.
  Qed.

  Lemma merge_global_pops_uniq s l : forall opts,
    uniq_keys opts = true -> uniq_keys (merge_global_pops s sub opts l) = true.
  Proof.
    induction l as [|[k v] l IH]; intros opts U; cbn; [exact U|].
    destruct (ksub k); [apply IH, U|].
    destruct (negb _); [apply IH, uniq_dpop, U | apply IH, U].
  Qed.

  Lemma dlast_app2 a b x : dlast (a ++ b) x = first_defined [dlast b x; dlast a x].
  Proof.
    unfold dlast. rewrite dlast_by_app, (dlast_by_acc _ b). cbn.
    destruct (dlast_by _ b None); [reflexivity|]. destruct (dlast_by _ a None); reflexivity.
  Qed.

  Lemma mentions_app a b x : mentions (a ++ b) x = mentions a x || mentions b x.
  Proof.
    unfold mentions. rewrite dlast_app2. cbn.
    destruct (dlast b x), (dlast a x); reflexivity.
  Qed.

  (* the value the merged dictionary holds for q *)
  Theorem merge_sub_get s spcall pdo cmd mf merged :
    merge_sub s sub spcall pdo cmd mf = Ok merged ->
    uniq_keys merged = true /\
    dget merged q =
      first_defined
        [ dlast cmd q;                       (* 8  command line  sub:opt *)
          dlast mf q;                        (* 7  machine file  sub:opt *)
          dlast spcall g;                    (* 6  subproject(default_options:) *)
          dlast (pending_sub s) q;           (* 5  parent project's  sub:opt *)
          if (mentions mf g || mentions cmd g) && negb (is_project_option s (as_root q))
          then None                          (* 3/4: a global value was given: keep the top-level one *)
          else dlast pdo g ].                (* 2  subproject's own default_options *)
  Proof.
    unfold merge_sub. intros H.
    apply bind_ok in H as (o1 & H1 & H). apply bind_ok in H as (o4 & H4 & H). injection H as <-.
    assert (U1 : uniq_keys o1 = true) by (eapply merge_defaults_uniq; [exact H1 | reflexivity]).
    pose proof (merge_global_pops_uniq s (mf ++ cmd) o1 U1) as U2.
    pose proof (merge_for_sub_uniq (pending_sub s) _ U2) as U3.
    pose proof (merge_defaults_uniq _ _ _ H4 U3) as U4.
    split; [apply merge_for_sub_uniq; exact U4|].
    rewrite merge_for_sub_get, dlast_app2, (merge_defaults_get _ _ _ H4), merge_for_sub_get.
    rewrite (merge_global_pops_get s _ _ U1), (merge_defaults_get _ _ _ H1), mentions_app.
    cbn [dget first_defined].
    destruct (dlast cmd q); [reflexivity|]. destruct (dlast mf q); [reflexivity|].
    destruct (dlast spcall g); [reflexivity|]. destruct (dlast (pending_sub s) q); [reflexivity|].
    destruct (_ && _); [reflexivity|]. destruct (dlast pdo g); reflexivity.
  Qed.
End Merge.

(* -------------------------------------------- the documented eight-step order *)
(* where the winning value comes from: the top-level project's resolved value
   (steps 1, 3, 4 or none) or a value given for the subproject itself *)
Inductive scoped := FromTop | FromSub (v : pv).

Definition merged_scoped (merged : list (key * pv)) (q : key) : scoped :=
  match dget merged q with Some v => FromSub v | None => FromTop end.

Definition top_marker (o : option pv) : option scoped :=
  match o with Some _ => Some FromTop | None => None end.

Theorem merge_sub_eight_steps s sub q spcall pdo cmd mf merged :
  ksub q = Some sub ->
  is_project_option s (as_root q) = false ->
  merge_sub s sub spcall pdo cmd mf = Ok merged ->
  let g := no_sub q in
  merged_scoped merged q =
    match resolve_sub
            None                                          (* 1 parent default_options opt: top-level value *)
            (option_map FromSub (dlast pdo g))            (* 2 subproject's own default_options *)
            (top_marker (dlast mf g))                     (* 3 machine file opt *)
            (top_marker (dlast cmd g))                    (* 4 command line opt *)
            (option_map FromSub (dlast (pending_sub s) q))  (* 5 parent default_options sub:opt *)
            (option_map FromSub (dlast spcall g))         (* 6 subproject(default_options:) *)
            (option_map FromSub (dlast mf q))             (* 7 machine file sub:opt *)
            (option_map FromSub (dlast cmd q))            (* 8 command line sub:opt *)
    with
    | Some x => x
    | None => FromTop
    end.
Proof.
  intros Hq Hp H g. destruct (merge_sub_get sub q Hq s spcall pdo cmd mf merged H) as [_ E].
  unfold merged_scoped. rewrite E. fold g. rewrite Hp. unfold mentions, resolve_sub. cbn.
  destruct (dlast cmd q); [reflexivity|]. destruct (dlast mf q); [reflexivity|].
  destruct (dlast spcall g); [reflexivity|]. destruct (dlast (pending_sub s) q); [reflexivity|].
  destruct (dlast mf g), (dlast cmd g); cbn; try reflexivity.
  destruct (dlast pdo g); reflexivity.
Qed.

(* when the top-level project has a project option of the same name, a global
   `opt=value` on the command line or in the machine file names THAT option and
   does not reach the subproject (options.py:1345-1350) *)
Theorem merge_sub_same_name_as_top_option s sub q spcall pdo cmd mf merged :
  ksub q = Some sub ->
  is_project_option s (as_root q) = true ->
  merge_sub s sub spcall pdo cmd mf = Ok merged ->
  let g := no_sub q in
  dget merged q =
    first_defined [dlast cmd q; dlast mf q; dlast spcall g; dlast (pending_sub s) q; dlast pdo g].
Proof.
  intros Hq Hp H g. destruct (merge_sub_get sub q Hq s spcall pdo cmd mf merged H) as [_ E].
  rewrite E. fold g. rewrite Hp, andb_false_r. reflexivity.
Qed.
