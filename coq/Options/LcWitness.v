(* Options/LcWitness.v — concrete histories: the refutation witnesses of the two known
   findings of C08 and the satisfiability examples of the guards. *)
From MV Require Import Base.Strs Options.Kinds Options.Lifecycle Options.LcFacts Options.LifecycleProofs.
Open Scope N_scope.

Definition d_boom := mkDecl (s2l "boom") KBool (PBool false) false.
Definition d_late := mkDecl (s2l "late") KBool (PBool false) false.
Definition d_s := mkDecl (s2l "s") KString (PStr (s2l "sd")) false.
Definition d_q := mkDecl (s2l "q") KString (PStr (s2l "qd")) false.
Definition fsA := mkFiles [d_s; d_boom; d_late] [d_q].
Definition fsB := mkFiles [d_boom; d_late] [d_q].        (* option s removed *)
Definition pj0 := mkCfg [] [] [].
Definition kS := mkKey None (s2l "s").
Definition kLate := mkKey None (s2l "late").

Lemma wf_fsA : wf_files fsA.
Proof.
  split; split.
  - cbn. repeat constructor; cbn; intuition discriminate.
  - repeat constructor.
  - cbn. repeat constructor; cbn; intuition discriminate.
  - repeat constructor.
Qed.
Lemma wf_fsB : wf_files fsB.
Proof.
  split; split.
  - cbn. repeat constructor; cbn; intuition discriminate.
  - repeat constructor.
  - cbn. repeat constructor; cbn; intuition discriminate.
  - repeat constructor.
Qed.

(* a configured directory: meson setup -Ds=1 *)
Definition hist1 : list cmd := [Setup [(kS, s2l "1")]].
Definition w1 : world := final pj0 (mkW fsA empty_dir) hist1.
Lemma reach_w1 : reachable pj0 w1.
Proof. exists fsA, hist1. split; [apply wf_fsA|]. split; [repeat constructor | reflexivity]. Qed.

(* --- finding: a failure after cmd_line.txt was written is not an identity *)
Definition d_lateS : sdict := [(kLate, s2l "true"); (kS, s2l "3")].
Theorem late_failure_witness :
  cd (wdir w1) <> None /\
  snd (step pj0 w1 (Reconfigure d_lateS)) = Failed /\
  cd (wdir (fst (step pj0 w1 (Reconfigure d_lateS)))) = cd (wdir w1) /\
  cl (wdir w1) = Some [(kS, s2l "1")] /\
  cl (wdir (fst (step pj0 w1 (Reconfigure d_lateS)))) = Some [(kS, s2l "3"); (kLate, s2l "true")].
Proof. vm_compute. repeat split; congruence. Qed.

(* the guard of the partial theorem is satisfiable: an early failure (boom) *)
Definition d_boomS : sdict := [(mkKey None (s2l "boom"), s2l "true"); (kS, s2l "3")].
Example early_failure_guard :
  reconfigure_late pj0 fsA (wdir w1) (dict_of d_boomS) = false /\
  snd (step pj0 w1 (Reconfigure d_boomS)) = Failed /\
  wdir (fst (step pj0 w1 (Reconfigure d_boomS))) = wdir w1.
Proof. vm_compute. repeat split. Qed.

(* --- finding: a recorded option that was removed makes every reconfigure fail *)
Definition hist2 : list cmd := [Setup [(kS, s2l "1")]; Edit fsB].
Definition w2 : world := final pj0 (mkW fsA empty_dir) hist2.
Lemma reach_w2 : reachable pj0 w2.
Proof.
  exists fsA, hist2. split; [apply wf_fsA|]. split; [|reflexivity].
  constructor; [exact I | constructor; [exact wf_fsB | constructor]].
Qed.
Theorem removed_option_witness :
  cd (wdir w2) <> None /\
  reconfigure_late pj0 fsB (wdir w2) [] = false /\
  snd (step pj0 w2 (Reconfigure [])) = Failed /\
  snd (step pj0 w2 (Wipe [])) = Failed /\
  snd (step pj0 w2 (Configure [(kS, None)])) = Failed.
Proof. vm_compute. repeat split; congruence. Qed.

(* the guard is satisfiable: nothing recorded was removed *)
Example reconfigure_guard :
  exists c c2, cd (wdir w1) = Some c /\
    run_build pj0 fsA false (cstore c) (cl_or_empty (wdir w1)) = Ok (c2, false) /\
    check_unused (cstore c2) (cl_or_empty (wdir w1)) = true.
Proof. vm_compute. eexists _, _. repeat split. Qed.

(* --- the -U / --wipe corner flagged by the source's own TODO: -U of a non-yielding
   subproject option keeps its value but drops the record, so --wipe changes it *)
Definition kQ := mkKey (Some SUB) (s2l "q").
Definition hist3 : list cmd := [Setup [(kQ, s2l "user")]; Configure [(kQ, None)]].
Definition w3 : world := final pj0 (mkW fsA empty_dir) hist3.
Definition eff (w : world) (k : key) : res pv :=
  match cd (wdir w) with Some c => get_value_for (cstore c) k | None => Err EKey end.
Theorem wipe_after_drop_witness :
  eff w3 kQ = Ok (PStr (s2l "user")) /\
  snd (step pj0 w3 (Wipe [])) = Done /\
  eff (fst (step pj0 w3 (Wipe []))) kQ = Ok (PStr (s2l "qd")).
Proof. vm_compute. repeat split. Qed.
