(* Options/LcWitness.v — concrete histories: the refutation witnesses of the two known
   findings of C08 and the satisfiability examples of the guards. *)
From MV Require Import Base.Strs Options.Kinds Options.Lifecycle Options.LcFacts Options.LifecycleProofs.
Open Scope N_scope.

Definition d_boom := mkDecl (s2l "boom") KBool (PBool false) false.
Definition d_late := mkDecl (s2l "late") KBool (PBool false) false.
Definition d_s := mkDecl (s2l "s") KString (PStr (s2l "sd")) false.
Definition d_q := mkDecl (s2l "q") KString (PStr (s2l "qd")) false.
Definition fsA := mkFiles [d_s; d_boom; d_late] [d_q].
Definition fsB := mkFiles [d_boom; d_late] [d_q].        (* option s removed *)
Definition pj0 := mkCfg [] [] [].
Definition kS := mkKey None (s2l "s").
Definition kLate := mkKey None (s2l "late").

Lemma wf_fsA : wf_files fsA.
Proof.
  split; split.
  - cbn. repeat constructor; cbn; intuition discriminate.
  - repeat constructor.
  - cbn. repeat constructor; cbn; intuition discriminate.
  - repeat constructor.
Qed.
Lemma wf_fsB : wf_files fsB.
Proof.
  split; split.
  - cbn. repeat constructor; cbn; intuition discriminate.
  - repeat constructor.
  - cbn. repeat constructor; cbn; intuition discriminate.
  - repeat constructor.
Qed.

Definition eff (w : world) (k : key) : res pv :=
  match cd (wdir w) with Some c => get_value_for (cstore c) k | None => Err EKey end.

(* a configured directory: meson setup -Ds=1 *)
Definition hist1 : list cmd := [Setup [(kS, s2l "1")]].
Definition w1 : world := final pj0 (mkW fsA empty_dir) hist1.
Lemma reach_w1 : reachable pj0 w1.
Proof. exists fsA, hist1. split; [apply wf_fsA|]. split; [repeat constructor | reflexivity]. Qed.

(* --- finding: a failure after cmd_line.txt was written is not an identity *)
Definition d_lateS : sdict := [(kLate, s2l "true"); (kS, s2l "3")].
Theorem late_failure_witness :
  cd (wdir w1) <> None /\
  snd (step pj0 w1 (Reconfigure d_lateS)) = Failed /\
  cd (wdir (fst (step pj0 w1 (Reconfigure d_lateS)))) = cd (wdir w1) /\
  cl (wdir w1) = Some [(kS, s2l "1")] /\
  cl (wdir (fst (step pj0 w1 (Reconfigure d_lateS)))) = Some [(kS, s2l "3"); (kLate, s2l "true")].
Proof. vm_compute. repeat split; congruence. Qed.

(* the guard of the partial theorem is satisfiable: an early failure (boom) *)
Definition d_boomS : sdict := [(mkKey None (s2l "boom"), s2l "true"); (kS, s2l "3")].
Example early_failure_guard :
  reconfigure_late pj0 fsA (wdir w1) (dict_of d_boomS) = false /\
  snd (step pj0 w1 (Reconfigure d_boomS)) = Failed /\
  wdir (fst (step pj0 w1 (Reconfigure d_boomS))) = wdir w1.
Proof. vm_compute. repeat split. Qed.

(* --- a recorded option that was removed from the option file (repaired behaviour):
   reconfigure succeeds and the option is gone; --wipe still rejects the stale record
   (a recorded command line that is no longer valid); -U drops the record, then --wipe works *)
Definition hist2 : list cmd := [Setup [(kS, s2l "1")]; Edit fsB].
Definition w2 : world := final pj0 (mkW fsA empty_dir) hist2.
Lemma reach_w2 : reachable pj0 w2.
Proof.
  exists fsA, hist2. split; [apply wf_fsA|]. split; [|reflexivity].
  constructor; [exact I | constructor; [exact wf_fsB | constructor]].
Qed.
Definition w2u : world := fst (step pj0 w2 (Configure [(kS, None)])).
Example removed_option_example :
  cl (wdir w2) = Some [(kS, s2l "1")] /\
  snd (step pj0 w2 (Reconfigure [])) = Done /\
  eff (fst (step pj0 w2 (Reconfigure []))) (mkKey (Some []) (s2l "s")) = Err EKey /\
  snd (step pj0 w2 (Wipe [])) = Failed /\
  snd (step pj0 w2 (Configure [(kS, None)])) = Done /\
  cl (wdir w2u) = Some [] /\
  snd (step pj0 w2u (Wipe [])) = Done.
Proof. vm_compute. repeat split. Qed.

(* --- the -U / --wipe corner flagged by the source's own TODO: -U of a non-yielding
   subproject option keeps its value but drops the record, so --wipe changes it *)
Definition kQ := mkKey (Some SUB) (s2l "q").
Definition hist3 : list cmd := [Setup [(kQ, s2l "user")]; Configure [(kQ, None)]].
Definition w3 : world := final pj0 (mkW fsA empty_dir) hist3.
Theorem wipe_after_drop_witness :
  eff w3 kQ = Ok (PStr (s2l "user")) /\
  snd (step pj0 w3 (Wipe [])) = Done /\
  eff (fst (step pj0 w3 (Wipe []))) kQ = Ok (PStr (s2l "qd")).
Proof. vm_compute. repeat split. Qed.

(* --- finding: cmd_line.txt does not keep blanks at the ends of a value: the user's value
   " x" is in force after setup, the record holds "x", --wipe configures "x" *)
Definition hist4 : list cmd := [Setup [(kS, s2l " x")]].
Definition w4 : world := final pj0 (mkW fsA empty_dir) hist4.
Definition kSroot := mkKey (Some []) (s2l "s").
Theorem blank_value_witness :
  eff w4 kSroot = Ok (PStr (s2l " x")) /\
  cl (wdir w4) = Some [(kS, s2l "x")] /\
  snd (step pj0 w4 (Wipe [])) = Done /\
  eff (fst (step pj0 w4 (Wipe []))) kSroot = Ok (PStr (s2l "x")).
Proof. vm_compute. repeat split. Qed.

(* without blanks at the ends the record is exact *)
Lemma strip_vals_id_example : strip_vals [(kS, s2l "a b")] = [(kS, s2l "a b")].
Proof. vm_compute. reflexivity. Qed.
