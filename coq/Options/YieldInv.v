(* Options/YieldInv.v — yielding and validity.
   (1) every option that has a parent link points to an existing option of the SAME
       class (type(parent) is type(child), options.py:918) — an invariant of every
       sequence of store operations;
   (2) the effective value (get_value_for) of a key without augment is the option's own
       stored value, or — for a yielding option — the parent's stored value, and in either
       case it satisfies the option it is stored in;
   (3) it need not satisfy the YIELDING option's own choices/range: witness. *)
From MV Require Import Base.Strs Options.Kinds Options.Store Options.Init Options.Spec
                       Options.Proofs Options.Precedence.
Open Scope N_scope.

Definition yield_wf (s : store) : Prop :=
  forall k o pk, dget (options s) k = Some o -> oparent o = Some pk ->
    exists p, dget (options s) pk = Some p /\ same_class (okind p) (okind o) = true.

Lemma same_class_refl k : same_class k k = true.
Proof. destruct k; reflexivity. Qed.
Lemma same_class_trans a b c : same_class a b = true -> same_class b c = true -> same_class a c = true.
Proof. destruct a, b, c; cbn; congruence. Qed.
Lemma same_class_sym a b : same_class a b = same_class b a.
Proof. destruct a, b; reflexivity. Qed.

(* replacing an object by one of the same kind and parent *)
Lemma yield_wf_update s rk o1 o' :
  yield_wf s -> dget (options s) rk = Some o1 ->
  okind o' = okind o1 -> oparent o' = oparent o1 ->
  yield_wf (set_options s (dset (options s) rk o')).
Proof.
  intros W G Hk Hp k o pk Hg Hpar. cbn in Hg. rewrite dget_dset in Hg.
  assert (Hlook : forall x p, dget (options s) x = Some p ->
            exists p', dget (options (set_options s (dset (options s) rk o'))) x = Some p' /\ okind p' = okind p).
  { intros x p Hx. cbn. rewrite dget_dset. destruct (key_eqb rk x) eqn:E.
    - apply key_eqb_eq in E. subst x. exists o'. split; [reflexivity|]. congruence.
    - exists p. auto. }
  destruct (key_eqb rk k) eqn:E.
  - apply key_eqb_eq in E. subst k. injection Hg as <-. rewrite Hp in Hpar.
    destruct (W rk o1 pk G Hpar) as (p & Gp & Sc). destruct (Hlook pk p Gp) as (p' & Gp' & Kp').
    exists p'. split; [exact Gp'|]. rewrite Kp', Hk. exact Sc.
  - destruct (W k o pk Hg Hpar) as (p & Gp & Sc). destruct (Hlook pk p Gp) as (p' & Gp' & Kp').
    exists p'. split; [exact Gp'|]. rewrite Kp'. exact Sc.
Qed.

(* adding a new key *)
Lemma yield_wf_add s k o' :
  yield_wf s -> dmem (options s) k = false ->
  (forall pk, oparent o' = Some pk ->
     exists p, dget (options s) pk = Some p /\ same_class (okind p) (okind o') = true) ->
  yield_wf (set_options s (dset (options s) k o')).
Proof.
  intros W Hm Hn x o pk Hg Hpar. cbn in Hg. rewrite dget_dset in Hg.
  assert (Hlook : forall y p, dget (options s) y = Some p ->
            dget (options (set_options s (dset (options s) k o'))) y = Some p).
  { intros y p Hy. cbn. rewrite dget_dset. destruct (key_eqb k y) eqn:E; [|exact Hy].
    apply key_eqb_eq in E. subst y. unfold dmem in Hm. rewrite Hy in Hm. discriminate. }
  destruct (key_eqb k x) eqn:E.
  - injection Hg as <-. destruct (Hn pk Hpar) as (p & Gp & Sc). exists p. split; [apply Hlook; exact Gp | exact Sc].
  - destruct (W x o pk Hg Hpar) as (p & Gp & Sc). exists p. split; [apply Hlook; exact Gp | exact Sc].
Qed.

Lemma yield_wf_options s s' : options s' = options s -> yield_wf s -> yield_wf s'.
Proof. unfold yield_wf. intros ->. auto. Qed.

Lemma set_value_at_ywf s rk o v s' :
  yield_wf s -> dget (options s) rk = Some o -> set_value_at s rk o v = Ok s' -> yield_wf s'.
Proof.
  unfold set_value_at. intros W G E. apply bind_ok in E as (v' & _ & E). injection E as <-.
  apply (yield_wf_update s rk o); auto.
Qed.

Lemma reset_prefixed_loop_ywf tbl : forall s oldp newp s',
  yield_wf s -> reset_prefixed_loop s tbl oldp newp = Ok s' -> yield_wf s'.
Proof.
  induction tbl as [|[n m] tbl IH]; intros s oldp newp s' W E; cbn in E.
  - injection E as <-. exact W.
  - destruct (dget (options s) (nopref_key n)) as [o|] eqn:G; [|discriminate].
    apply bind_ok in E as (s1 & E1 & E). eapply IH; [|exact E]. eapply set_value_at_ywf; eassumption.
Qed.

Lemma hard_reset_loop_ywf tbl : forall s p s',
  yield_wf s -> hard_reset_loop s tbl p = Ok s' -> yield_wf s'.
Proof.
  induction tbl as [|[n m] tbl IH]; intros s p s' W E; cbn in E.
  - injection E as <-. exact W.
  - destruct (dget (options s) (nopref_key n)) as [o|] eqn:G; [|discriminate].
    apply bind_ok in E as (nv & _ & E). apply bind_ok in E as (s1 & E1 & E).
    eapply IH; [|exact E]. eapply set_value_at_ywf; eassumption.
Qed.

Lemma hard_reset_ywf s p s' : yield_wf s -> hard_reset_from_prefix s p = Ok s' -> yield_wf s'.
Proof.
  unfold hard_reset_from_prefix. intros W E.
  apply bind_ok in E as (p' & _ & E). apply bind_ok in E as (s1 & E1 & E).
  destruct (dget (options s1) prefix_key) as [o|] eqn:G; [|discriminate].
  eapply set_value_at_ywf; [|exact G|exact E]. eapply hard_reset_loop_ywf; eassumption.
Qed.

Lemma store_value_ywf s k rk v s' old u :
  yield_wf s -> store_value s k rk v = Ok (s', old, u) -> yield_wf s'.
Proof.
  unfold store_value. intros W E.
  destruct (dget (options s) rk) as [o1|] eqn:G; [|discriminate].
  destruct (dmem (options s) k).
  - apply bind_ok in E as (v4 & _ & E). injection E as <- _ _.
    apply (yield_wf_update s rk o1); auto.
  - destruct (ksub k); [|discriminate]. injection E as <- _ _. exact W.
Qed.

Lemma set_option_ywf : forall fuel s k v first s' ch,
  yield_wf s -> set_option fuel s k v first = Ok (s', ch) -> yield_wf s'.
Proof.
  induction fuel as [|f IH]; intros s k v first s' ch W E; [discriminate|].
  cbn [set_option] in E.
  apply bind_ok in E as (v1 & _ & E).
  apply bind_ok in E as ([rk o] & _ & E).
  apply bind_ok in E as ([[s1 v2] ch0] & Ed & E).
  assert (W1 : yield_wf s1).
  { destruct (odepr o).
    - injection Ed as <- _ _. exact W.
    - injection Ed as <- _ _. exact W.
    - apply bind_ok in Ed as (? & _ & Ed). injection Ed as <- _ _. exact W.
    - apply bind_ok in Ed as (? & _ & Ed). injection Ed as <- _ _. exact W.
    - apply bind_ok in Ed as ([sr cr] & Er & Ed). injection Ed as <- _ _. cbn.
      eapply IH; eassumption. }
  apply bind_ok in E as (v3 & _ & E).
  apply bind_ok in E as ([[s2 old] u] & Ew & E).
  assert (W2 : yield_wf s2) by (eapply store_value_ywf; eassumption).
  destruct (oreadonly o && (ch0 || negb (pv_eqb old v3)) && negb first); [discriminate|].
  apply bind_ok in E as (s3 & E3 & E).
  assert (W3 : yield_wf s3).
  { destruct (str_eqb (kname k) (s2l "prefix") && first && (ch0 || negb (pv_eqb old v3))).
    - destruct old; try discriminate. destruct v3; try discriminate.
      eapply reset_prefixed_loop_ywf; eassumption.
    - injection E3 as <-. exact W2. }
  destruct ((ch0 || negb (pv_eqb old v3)) && str_eqb (kname k) (s2l "buildtype") &&
            negb (pv_eqb v3 (PStr (s2l "custom")))).
  - destruct v3; try discriminate.
    destruct (sassoc DEFAULT_DEPENDENTS s0) as [[optimization debug]|]; [|discriminate].
    apply bind_ok in E as ([sa ca] & Ea & E).
    apply bind_ok in E as ([sb cb] & Eb & E).
    injection E as <- _. cbn in *.
    eapply IH; [|exact Eb]. eapply IH; eassumption.
  - injection E as <- _. exact W3.
Qed.

Lemma set_user_option_ywf fuel s o v first s' ch :
  yield_wf s -> set_user_option fuel s o v first = Ok (s', ch) -> yield_wf s'.
Proof.
  unfold set_user_option. intros W E.
  destruct (negb (is_cross s) && is_for_build o); [injection E as <- _; exact W|].
  destruct (dmem (options s) o); [eapply set_option_ywf; eassumption|].
  destruct ((match ksub o with Some _ => true | None => false end) && dmem (options s) (no_sub o));
    [eapply set_option_ywf; eassumption|].
  destruct (accept_as_pending_option o first).
  - destruct (dget (pending s) o).
    + destruct v; try (injection E as <- _; exact W).
      destruct (py_str p); [|discriminate]. injection E as <- _. exact W.
    + injection E as <- _. exact W.
  - destruct (ksub o); [discriminate|]. eapply set_option_ywf; eassumption.
Qed.

(* ---- adding options: a fresh option object has no parent *)
Lemma add_system_option_global_ywf s k o s' :
  yield_wf s -> oparent o = None -> add_system_option_global s k o = Ok s' -> yield_wf s'.
Proof.
  unfold add_system_option_global. intros W Hn E.
  destruct (dmem (options s) k) eqn:Em; [injection E as <-; exact W|].
  set (s2 := set_options _ _) in E.
  assert (W2 : yield_wf s2).
  { unfold s2. apply (yield_wf_add (set_pending s (dpop (pending s) k)) k o); [exact W | exact Em|].
    intros pk Hp. congruence. }
  destruct (dget (pending s) k).
  - apply bind_ok in E as ([sr cr] & Er & E). injection E as <-. cbn. eapply set_option_ywf; eassumption.
  - injection E as <-. exact W2.
Qed.

Lemma add_system_option_internal_ywf s k o s' :
  yield_wf s -> oparent o = None -> add_system_option_internal s k o = Ok s' -> yield_wf s'.
Proof.
  unfold add_system_option_internal. intros W Hn E.
  destruct (dmem (options s) k); [injection E as <-; exact W|].
  destruct (sub_truthy k); [|eapply add_system_option_global_ywf; eassumption].
  apply bind_ok in E as (s2 & E2 & E).
  assert (W2 : yield_wf s2) by (eapply add_system_option_global_ywf; [| exact Hn | exact E2]; exact W).
  destruct (dget (pending s) k).
  - apply bind_ok in E as ([sr cr] & Er & E). injection E as <-. cbn. eapply set_option_ywf; eassumption.
  - injection E as <-. exact W2.
Qed.

Lemma add_system_option_ywf s k o s' :
  yield_wf s -> oparent o = None -> add_system_option s k o = Ok s' -> yield_wf s'.
Proof.
  unfold add_system_option. intros W Hn E.
  destruct (has_dot _); [discriminate|]. eapply add_system_option_internal_ywf; eassumption.
Qed.

Lemma add_compiler_option_ywf s l k o s' :
  yield_wf s -> oparent o = None -> add_compiler_option s l k o = Ok s' -> yield_wf s'.
Proof.
  unfold add_compiler_option. intros W Hn E.
  destruct (negb _); [discriminate|]. eapply add_system_option_ywf; eassumption.
Qed.

Lemma add_module_option_ywf s m k o s' :
  yield_wf s -> oparent o = None -> add_module_option s m k o = Ok s' -> yield_wf s'.
Proof.
  unfold add_module_option. intros W Hn E.
  destruct (prefixb (s2l "build.") _); [discriminate|].
  destruct (negb _); [discriminate|].
  apply bind_ok in E as (s1 & E1 & E). injection E as <-.
  apply (yield_wf_options s1); [reflexivity|]. eapply add_system_option_internal_ywf; eassumption.
Qed.

(* the guard of options.py:918: a parent link is created only to an option of the same class *)
Lemma add_project_option_ywf s k o s' :
  yield_wf s -> oparent o = None -> add_project_option s k o = Ok s' -> yield_wf s'.
Proof.
  unfold add_project_option. intros W Hn E.
  destruct (ksub (ensure_key s k)); [|discriminate].
  destruct (dmem (options s) (ensure_key s k)) eqn:Em; [discriminate|].
  match type of E with (if dmem (pending ?x) _ then _ else _) = _ => set (s1 := x) in E end.
  destruct (dmem (pending s1) (ensure_key s k)); [discriminate|]. injection E as <-.
  unfold s1. match goal with |- yield_wf (set_project_options ?x _) => apply (yield_wf_options x); [reflexivity|] end.
  apply yield_wf_add; [exact W | exact Em|].
  intros pk Hp. cbn in Hp.
  destruct (oyield o && sub_truthy (ensure_key s k)); [|congruence].
  destruct (dget (options s) (as_root (ensure_key s k))) as [p|] eqn:Gp; [|congruence].
  destruct (same_class (okind p) (okind o)) eqn:Sc; [|congruence].
  cbn in Hp. injection Hp as <-. exists p. split; [exact Gp|]. cbn. exact Sc.
Qed.

Lemma mk_opt_no_parent sp o : mk_opt sp = Ok o -> oparent o = None.
Proof. unfold mk_opt. intros E. apply bind_ok in E as (v & _ & E). injection E as <-. reflexivity. Qed.

(* ---- initialisers *)
Lemma top_pdo_loop_ywf fuel l : forall s s', yield_wf s -> top_pdo_loop fuel s l = Ok s' -> yield_wf s'.
Proof.
  induction l as [|[k v] l IH]; intros s s' W E; cbn in E; [injection E as <-; exact W|].
  destruct (negb (is_cross s) && is_for_build k); [eauto|].
  destruct (sub_truthy k).
  - eapply IH; [|exact E]. exact W.
  - apply bind_ok in E as ([s1 c] & E1 & E). eapply IH; [|exact E]. eapply set_user_option_ywf; eassumption.
Qed.

Lemma top_mc_loop_ywf fuel l : forall s s', yield_wf s -> top_mc_loop fuel s l = Ok s' -> yield_wf s'.
Proof.
  induction l as [|[k v] l IH]; intros s s' W E; cbn in E; [injection E as <-; exact W|].
  destruct (negb (is_cross s) && is_for_build k); [eauto|].
  destruct (negb (sub_truthy k)); [|eauto].
  apply bind_ok in E as ([s1 c] & E1 & E). eapply IH; [|exact E]. eapply set_user_option_ywf; eassumption.
Qed.

Lemma init_top_ywf fuel s pdo cmd mf s' :
  yield_wf s -> initialize_from_top_level_project_call fuel s pdo cmd mf = Ok s' -> yield_wf s'.
Proof.
  unfold initialize_from_top_level_project_call, first_handle_prefix. intros W E.
  apply bind_ok in E as ([[[s1 a] b] c] & E1 & E).
  apply bind_ok in E as (s2 & E2 & E).
  eapply top_mc_loop_ywf; [|exact E]. eapply top_pdo_loop_ywf; [|exact E2].
  apply bind_ok in E1 as ([p1 pdo'] & _ & E1). apply bind_ok in E1 as (pm & _ & E1).
  apply bind_ok in E1 as ([p3 cmd'] & _ & E1). apply bind_ok in E1 as (sx & Ex & E1). injection E1 as <- _ _ _.
  destruct (first_some p3 (first_some pm p1)); [eapply hard_reset_ywf; eassumption | injection Ex as <-; exact W].
Qed.

Lemma sub_apply_loop_ywf fuel sub l : forall s s', yield_wf s -> sub_apply_loop fuel s sub l = Ok s' -> yield_wf s'.
Proof.
  induction l as [|[k v] l IH]; intros s s' W E; cbn in E; [injection E as <-; exact W|].
  destruct (negb (sub_is k sub)).
  - apply bind_ok in E as (skip & _ & E). destruct skip; eapply IH; try exact E; exact W.
  - match type of E with context [dmem (augments ?x) k] => set (s2 := x) in E end.
    destruct (negb (dmem (augments s2) k)); [|eapply IH; [|exact E]; exact W].
    apply bind_ok in E as ([s3 c] & E3 & E). eapply IH; [|exact E].
    eapply set_user_option_ywf; [|exact E3]. exact W.
Qed.

Lemma init_sub_ywf fuel s sub sp pdo cmd mf s' :
  yield_wf s -> initialize_from_subproject_call fuel s sub sp pdo cmd mf = Ok s' -> yield_wf s'.
Proof.
  unfold initialize_from_subproject_call. intros W E.
  apply bind_ok in E as (m & _ & E). apply bind_ok in E as (s1 & E1 & E). injection E as <-.
  apply (yield_wf_options s1); [reflexivity|]. eapply sub_apply_loop_ywf; eassumption.
Qed.

Lemma apply_op_ywf s o s' out : yield_wf s -> apply_op s o = Ok (s', out) -> yield_wf s'.
Proof.
  intros W E. destruct o; cbn in E.
  - apply bind_ok in E as (x & Ex & E). apply bind_ok in E as (s1 & E1 & E). injection E as <- _.
    eapply add_system_option_ywf; [exact W | eapply mk_opt_no_parent; exact Ex | exact E1].
  - apply bind_ok in E as (x & Ex & E). apply bind_ok in E as (s1 & E1 & E). injection E as <- _.
    eapply add_compiler_option_ywf; [exact W | eapply mk_opt_no_parent; exact Ex | exact E1].
  - apply bind_ok in E as (x & Ex & E). apply bind_ok in E as (s1 & E1 & E). injection E as <- _.
    eapply add_module_option_ywf; [exact W | eapply mk_opt_no_parent; exact Ex | exact E1].
  - apply bind_ok in E as (x & Ex & E). apply bind_ok in E as (s1 & E1 & E). injection E as <- _.
    eapply add_project_option_ywf; [exact W | eapply mk_opt_no_parent; exact Ex | exact E1].
  - apply bind_ok in E as ([s1 c] & E1 & E). injection E as <- _. eapply set_option_ywf; eassumption.
  - apply bind_ok in E as ([s1 c] & E1 & E). injection E as <- _. eapply set_user_option_ywf; eassumption.
  - apply bind_ok in E as (s1 & E1 & E). injection E as <- _. eapply init_top_ywf; eassumption.
  - apply bind_ok in E as (s1 & E1 & E). injection E as <- _. eapply init_sub_ywf; eassumption.
  - apply bind_ok in E as (x & _ & E). injection E as <- _. exact W.
  - injection E as <- _. exact W.
  - apply bind_ok in E as (x & _ & E). injection E as <- _. exact W.
  - injection E as <- _. exact W.
Qed.

Theorem run_ops_ywf : forall ops s acc s' out e,
  yield_wf s -> run_ops s ops acc = (s', out, e) -> yield_wf s'.
Proof.
  induction ops as [|o ops IH]; intros s acc s' out e W E; cbn in E.
  - injection E as <- _ _. exact W.
  - destruct (apply_op s o) as [[s1 o1]|er] eqn:Ea.
    + eapply IH; [|exact E]. eapply apply_op_ywf; eassumption.
    + injection E as <- _ _. exact W.
Qed.

Lemma empty_store_ywf c : yield_wf (empty_store c).
Proof. intros k o pk H. discriminate. Qed.

Lemma add_builtins_ywf m l :
  Forall (fun e => oparent (snd e) = None) l ->
  forall s s', yield_wf s -> add_builtins s m l = Ok s' -> yield_wf s'.
Proof.
  induction l as [|[n o] l IH]; intros HF s s' W E; cbn in E; [injection E as <-; exact W|].
  inversion HF as [|? ? Hn HF']; subst. cbn in Hn.
  apply bind_ok in E as (s1 & E1 & E). eapply (IH HF'); [|exact E].
  unfold add_builtin_option in E1. apply bind_ok in E1 as (v & _ & E1). cbn [kname] in E1.
  destruct (take_until_dot n []).
  - eapply add_module_option_ywf; [exact W | | exact E1]. exact Hn.
  - eapply add_system_option_ywf; [exact W | | exact E1]. exact Hn.
Qed.

Lemma builtin_table_no_parent libdir : Forall (fun e => oparent (snd e) = None) (builtin_table libdir).
Proof. unfold builtin_table. repeat constructor. Qed.
Lemma per_machine_table_no_parent : Forall (fun e => oparent (snd e) = None) per_machine_table.
Proof. repeat constructor. Qed.

Theorem init_builtins_ywf cross libdir s : init_builtins cross libdir = Ok s -> yield_wf s.
Proof.
  unfold init_builtins. intros E.
  apply bind_ok in E as (s1 & E1 & E). apply bind_ok in E as (s2 & E2 & E).
  eapply (add_builtins_ywf _ _ per_machine_table_no_parent); [|exact E].
  eapply (add_builtins_ywf _ _ per_machine_table_no_parent); [|exact E2].
  eapply (add_builtins_ywf _ _ (builtin_table_no_parent libdir)); [|exact E1]. apply empty_store_ywf.
Qed.

(* ------------------------------------------------ the effective value of a key *)
(* without an augment, get_value_for returns the stored value of the resolved option or,
   if that option yields, the stored value of its parent; either way a value that satisfies
   the option object it is stored in, and the parent has the same class as the child *)
Theorem effective_value_characterised s q v :
  store_ok s -> yield_wf s ->
  get_value_for s q = Ok v -> dget (augments s) (ensure_key s q) = None ->
  exists rk o, resolve_option s (ensure_key s q) = Ok (rk, o) /\
    ((oyield o = false /\ v = ovalue o /\ satisfies (okind o) v = true) \/
     (oyield o = true /\ exists pk p, oparent o = Some pk /\ dget (options s) pk = Some p /\
        v = ovalue p /\ satisfies (okind p) v = true /\ same_class (okind p) (okind o) = true)).
Proof.
  intros Hok W H Ha. unfold get_value_for, get_option_and_value_for in H.
  apply bind_ok in H as ([o v'] & H & Hv). cbn in Hv. injection Hv as <-.
  apply bind_ok in H as ([rk o'] & Hr & H). rewrite Ha in H.
  exists rk, o'. split; [exact Hr|].
  assert (Hg : dget (options s) rk = Some o').
  { unfold resolve_option in Hr.
    destruct (is_project_option s _).
    - destruct (ksub _); [|discriminate].
      destruct (dget (options s) (ensure_key s (ensure_key s q))) eqn:G; [|discriminate].
      injection Hr as <- <-. exact G.
    - destruct (dget (options s) (ensure_key s (ensure_key s q))) eqn:G.
      + injection Hr as <- <-. exact G.
      + destruct (dget (options s) (no_sub (ensure_key s (ensure_key s q)))) eqn:G2; [|discriminate].
        injection Hr as <- <-. exact G2. }
  assert (Sat : forall k p, dget (options s) k = Some p -> satisfies (okind p) (ovalue p) = true).
  { intros k p G. destruct (dget_Forall _ _ _ _ Hok G) as (k' & Hk'). exact Hk'. }
  destruct (oyield o') eqn:Hy.
  - right. split; [reflexivity|].
    destruct (oparent o') as [pk|] eqn:Hp; [|discriminate].
    destruct (dget (options s) pk) as [p|] eqn:Gp; [|discriminate].
    injection H as <- <-. exists pk, p. repeat split; auto.
    + eapply Sat; exact Gp.
    + destruct (W rk o' pk Hg Hp) as (p' & Gp' & Sc). congruence.
  - left. injection H as <- <-. repeat split; auto. eapply Sat; exact Hg.
Qed.

(* ---- ... but not necessarily the yielding option's OWN choices / range (the model follows
   the code): parent integer 100, child integer 0..10 yielding -> the child reads 100 *)
Definition yopt_root : key := mkKey (Some []) Host (s2l "yopt").
Definition yopt_sub : key := mkKey (Some (s2l "sub")) Host (s2l "yopt").
Definition witness_ops : list op :=
  [OAddProject yopt_root (mkSpec (KInt None None) (PInt 100) false false DNo);
   OAddProject yopt_sub (mkSpec (KInt (Some 0%Z) (Some 10%Z)) (PInt 7) true false DNo)].

Theorem effective_value_valid_refuted :
  exists s0 s' out e o v,
    init_builtins false (s2l "lib") = Ok s0 /\
    run_ops s0 witness_ops [] = (s', out, e) /\ e = None /\
    dget (options s') yopt_sub = Some o /\
    get_value_for s' yopt_sub = Ok v /\
    satisfies (okind o) (ovalue o) = true /\          (* the stored value is fine *)
    satisfies (okind o) v = false.                     (* the value the subproject sees is not *)
Proof.
  destruct (init_builtins false (s2l "lib")) as [s0|] eqn:E0; [|vm_compute in E0; discriminate].
  destruct (run_ops s0 witness_ops []) as [[s' out] e] eqn:E1.
  assert (X : match init_builtins false (s2l "lib") with
              | Ok s0 => let '(s', _, e) := run_ops s0 witness_ops [] in
                  match e, dget (options s') yopt_sub, get_value_for s' yopt_sub with
                  | None, Some o, Ok v => satisfies (okind o) (ovalue o) && negb (satisfies (okind o) v)
                  | _, _, _ => false
                  end
              | Err _ => false
              end = true) by (vm_compute; reflexivity).
  rewrite E0, E1 in X.
  destruct e; [discriminate|]. destruct (dget (options s') yopt_sub) as [o|] eqn:G; [|discriminate].
  destruct (get_value_for s' yopt_sub) as [v|] eqn:Gv; [|discriminate].
  apply andb_prop in X as [X1 X2]. apply negb_true_iff in X2.
  exists s0, s', out, None, o, v. repeat split; auto.
Qed.

(* the strongest guard under which the effective value does satisfy the option's own
   constraints: the option does not yield (and has no augment) *)
Theorem effective_value_valid_partial s q v rk o :
  store_ok s -> yield_wf s ->
  get_value_for s q = Ok v -> dget (augments s) (ensure_key s q) = None ->
  resolve_option s (ensure_key s q) = Ok (rk, o) -> oyield o = false ->
  satisfies (okind o) v = true.
Proof.
  intros Hok W H Ha Hr Hy.
  destruct (effective_value_characterised s q v Hok W H Ha) as (rk' & o' & Hr' & [(_ & _ & S) | (Hy' & _)]).
  - rewrite Hr in Hr'. injection Hr' as _ <-. exact S.
  - rewrite Hr in Hr'. injection Hr' as _ <-. congruence.
Qed.

Example effective_value_guard_satisfiable :
  match init_builtins false (s2l "lib") with
  | Ok s => match resolve_option s (mkKey None Host (s2l "werror")), get_value_for s (mkKey None Host (s2l "werror")) with
            | Ok (_, o), Ok (PBool false) => negb (oyield o)
            | _, _ => false
            end
  | Err _ => false
  end = true.
Proof. vm_compute. reflexivity. Qed.
