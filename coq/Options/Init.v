(* Options/Init.v — init_builtins, the two initialisation entry points, the
   command-line buildtype reordering and the operation language used by the
   correspondence and by the invariant theorem.
   (mesonbuild/options.py:939-958, 1235-1388; cmdline.py:222-241).  Model only. *)
From MV Require Import Base.Strs Options.Kinds Options.Store.
Open Scope N_scope.

Definition prefix_key : key := mkKey None Host (s2l "prefix").
Definition is_prefix_name (k : key) : bool := str_eqb (kname k) (s2l "prefix").

(* options.py:1235-1245 *)
Fixpoint prefix_split_options (coll : list (key * pv)) (prefix : option str) (others : list (key * pv))
  : res (option str * list (key * pv)) :=
  match coll with
  | [] => Ok (prefix, others)
  | (k, v) :: r =>
      if is_prefix_name k then
        match v with
        | PStr p => prefix_split_options r (Some p) others
        | _ => Err EMeson
        end
      else prefix_split_options r prefix (dset others k v)
  end.

(* options.py:1270-1281 *)
Fixpoint hard_reset_loop (s : store) (tbl : list (str * list (str * str))) (prefix : str) : res store :=
  match tbl with
  | [] => Ok s
  | (n, mapping) :: rest =>
      let ok := nopref_key n in
      match dget (options s) ok with
      | None => Err EKey
      | Some o =>
          do nv <- match sassoc mapping prefix with
                   | Some x => Ok (PStr x)
                   | None => match odefault o with PStr d => Ok (PStr d) | _ => Err EAssert end
                   end;
          do s1 <- set_value_at s ok o nv;
          hard_reset_loop s1 rest prefix
      end
  end.
Definition hard_reset_from_prefix (s : store) (prefix0 : str) : res store :=
  do prefix <- sanitize_prefix prefix0;
  do s1 <- hard_reset_loop s NOPREFIX prefix;
  match dget (options s1) prefix_key with
  | None => Err EKey
  | Some o => set_value_at s1 prefix_key o (PStr prefix)
  end.

Definition first_some {A} (a b : option A) : option A := match a with Some _ => a | None => b end.

(* options.py:1247-1268 *)
Definition first_handle_prefix (s : store) (pdo cmd mf : list (key * pv))
  : res (store * list (key * pv) * list (key * pv) * list (key * pv)) :=
  do r1 <- prefix_split_options pdo None [];
  let '(p_pdo, pdo') := r1 in
  let mf' := dpop mf prefix_key in
  do p_mf <- match dget mf prefix_key with
             | None => Ok None
             | Some (PStr p) => Ok (Some p)
             | Some _ => Err EAssert
             end;
  do r3 <- prefix_split_options cmd None [];
  let '(p_cmd, cmd') := r3 in
  let prefix := first_some p_cmd (first_some p_mf p_pdo) in
  do s1 <- match prefix with
           | Some p => hard_reset_from_prefix s p
           | None => Ok s
           end;
  Ok (s1, pdo', cmd', mf').

(* the two loops of options.py:1290-1314 *)
Fixpoint top_pdo_loop (fuel : nat) (s : store) (l : list (key * pv)) : res store :=
  match l with
  | [] => Ok s
  | (k, v) :: r =>
      if negb (is_cross s) && is_for_build k then top_pdo_loop fuel s r
      else if sub_truthy k then
        top_pdo_loop fuel (set_pending_sub s (dset (pending_sub s) k v)) r
      else do x <- set_user_option fuel s k v true; top_pdo_loop fuel (fst x) r
  end.
Fixpoint top_mc_loop (fuel : nat) (s : store) (l : list (key * pv)) : res store :=
  match l with
  | [] => Ok s
  | (k, v) :: r =>
      if negb (is_cross s) && is_for_build k then top_mc_loop fuel s r
      else if negb (sub_truthy k) then
        do x <- set_user_option fuel s k v true; top_mc_loop fuel (fst x) r
      else top_mc_loop fuel s r
  end.

(* options.py:1283-1314 *)
Definition initialize_from_top_level_project_call (fuel : nat) (s : store) (pdo cmd mf : list (key * pv)) : res store :=
  do r <- first_handle_prefix s pdo cmd mf;
  let '(s1, pdo', cmd', mf') := r in
  do s2 <- top_pdo_loop fuel s1 pdo';
  top_mc_loop fuel s2 (mf' ++ cmd').

(* ---- initialize_from_subproject_call: the merge (options.py:1332-1370) *)
Fixpoint merge_defaults (sub : str) (opts : list (key * pv)) (l : list (key * pv)) : res (list (key * pv)) :=
  match l with
  | [] => Ok opts
  | (k, v) :: r =>
      if sub_is k sub then Err EMeson
      else let k' := match ksub k with None => evolve_sub k (Some sub) | Some _ => k end in
           merge_defaults sub (dset opts k' v) r
  end.
Fixpoint merge_global_pops (s : store) (sub : str) (opts : list (key * pv)) (l : list (key * pv)) : list (key * pv) :=
  match l with
  | [] => opts
  | (k, _) :: r =>
      match ksub k with
      | None => if negb (is_project_option s (as_root k))
                then merge_global_pops s sub (dpop opts (evolve_sub k (Some sub))) r
                else merge_global_pops s sub opts r
      | Some _ => merge_global_pops s sub opts r
      end
  end.
Fixpoint merge_for_sub (sub : str) (opts : list (key * pv)) (l : list (key * pv)) : list (key * pv) :=
  match l with
  | [] => opts
  | (k, v) :: r => if sub_is k sub then merge_for_sub sub (dset opts k v) r else merge_for_sub sub opts r
  end.

Definition merge_sub (s : store) (sub : str) (spcall pdo cmd mf : list (key * pv)) : res (list (key * pv)) :=
  do o1 <- merge_defaults sub [] pdo;                         (* subproject's project(default_options) *)
  let o2 := merge_global_pops s sub o1 (mf ++ cmd) in         (* global machine-file / command-line values *)
  let o3 := merge_for_sub sub o2 (pending_sub s) in           (* parent project's  sub:opt  defaults *)
  do o4 <- merge_defaults sub o3 spcall;                      (* subproject(default_options:) *)
  Ok (merge_for_sub sub o4 (mf ++ cmd)).                      (* sub:opt from machine file, command line *)

(* options.py:1372-1386 *)
Fixpoint sub_apply_loop (fuel : nat) (s : store) (sub : str) (l : list (key * pv)) : res store :=
  match l with
  | [] => Ok s
  | (k, v) :: r =>
      if negb (sub_is k sub) then
        do skip <- match ksub k with
                   | Some ks =>
                       if str_mem ks (subprojects s)
                       then do h <- option_has_value s k v; Ok (negb h)
                       else Ok false
                   | None => Ok false
                   end;
        if skip then sub_apply_loop fuel s sub r
        else sub_apply_loop fuel (set_pending_sub s (dset (pending_sub s) k v)) sub r
      else
        let s1 := set_pending_sub s (dpop (pending_sub s) k) in
        let s2 := set_pending s1 (dpop (pending s1) k) in
        if negb (dmem (augments s2) k)
        then do x <- set_user_option fuel s2 k v true; sub_apply_loop fuel (fst x) sub r
        else sub_apply_loop fuel s2 sub r
  end.

Definition str_add (x : str) (l : list str) : list str := if str_mem x l then l else l ++ [x].

(* options.py:1325-1388 *)
Definition initialize_from_subproject_call (fuel : nat) (s : store) (sub : str)
           (spcall pdo cmd mf : list (key * pv)) : res store :=
  do merged <- merge_sub s sub spcall pdo cmd mf;
  do s1 <- sub_apply_loop fuel s sub merged;
  Ok (set_subprojects s1 (str_add sub (subprojects s1))).

(* cmdline.py:236-241: buildtype is moved to the front of the -D dictionary *)
Definition buildtype_key : key := mkKey None Host (s2l "buildtype").
Definition reorder_buildtype (cmd : list (key * pv)) : list (key * pv) :=
  match dget cmd buildtype_key with
  | Some v => (buildtype_key, v) :: dpop cmd buildtype_key
  | None => cmd
  end.

(* ---- init_builtins (options.py:939-958) over the transcribed BUILTIN tables
   (options.py:659-732); libdir is platform dependent and supplied by the caller.
   install_umask (UserUmaskOption) is not modelled and left out. *)
Definition mk (k : kind) (v : pv) (ro : bool) : opt := mkOpt k v v false None ro DNo.
Definition S_ (x : string) : pv := PStr (s2l x).
Definition combo (l : list string) : kind := KCombo (map s2l l).

Definition builtin_table (libdir : str) : list (str * opt) :=
  [ (s2l "prefix", mk KString (S_ "/usr/local") false);
    (s2l "bindir", mk KString (S_ "bin") false);
    (s2l "datadir", mk KString (S_ "share") false);
    (s2l "includedir", mk KString (S_ "include") false);
    (s2l "infodir", mk KString (S_ "share/info") false);
    (s2l "libdir", mk KString (PStr libdir) false);
    (s2l "licensedir", mk KString (S_ "") false);
    (s2l "libexecdir", mk KString (S_ "libexec") false);
    (s2l "localedir", mk KString (S_ "share/locale") false);
    (s2l "localstatedir", mk KString (S_ "var") false);
    (s2l "mandir", mk KString (S_ "share/man") false);
    (s2l "sbindir", mk KString (S_ "sbin") false);
    (s2l "sharedstatedir", mk KString (S_ "com") false);
    (s2l "sysconfdir", mk KString (S_ "etc") false);
    (s2l "auto_features", mk KFeature (S_ "auto") false);
    (s2l "backend", mk (combo ["ninja"; "vs"; "vs2010"; "vs2012"; "vs2013"; "vs2015"; "vs2017"; "vs2019"; "vs2022"; "vs2026"; "xcode"; "none"]%string) (S_ "ninja") true);
    (s2l "genvslite", mk (combo ["vs2022"; "vs2026"]%string) (S_ "vs2022") false);
    (s2l "buildtype", mk (combo ["plain"; "debug"; "debugoptimized"; "release"; "minsize"; "custom"]%string) (S_ "debug") false);
    (s2l "debug", mk KBool (PBool true) false);
    (s2l "default_library", mk (combo ["shared"; "static"; "both"]%string) (S_ "shared") false);
    (s2l "default_both_libraries", mk (combo ["shared"; "static"; "auto"]%string) (S_ "shared") false);
    (s2l "errorlogs", mk KBool (PBool true) false);
    (s2l "layout", mk (combo ["mirror"; "flat"]%string) (S_ "mirror") false);
    (s2l "namingscheme", mk (combo ["platform"; "classic"]%string) (S_ "classic") false);
    (s2l "optimization", mk (combo ["plain"; "0"; "g"; "1"; "2"; "3"; "s"]%string) (S_ "0") false);
    (s2l "prefer_static", mk KBool (PBool false) false);
    (s2l "stdsplit", mk KBool (PBool true) false);
    (s2l "strip", mk KBool (PBool false) false);
    (s2l "unity", mk (combo ["on"; "off"; "subprojects"]%string) (S_ "off") false);
    (s2l "unity_size", mk (KInt (Some 2%Z) None) (PInt 4) false);
    (s2l "warning_level", mk (combo ["0"; "1"; "2"; "3"; "everything"]%string) (S_ "1") false);
    (s2l "werror", mk KBool (PBool false) false);
    (s2l "wrap_mode", mk (combo ["default"; "nofallback"; "nodownload"; "forcefallback"; "nopromote"]%string) (S_ "default") false);
    (s2l "force_fallback_for", mk (KArray None) (PList []) false);
    (s2l "vsenv", mk KBool (PBool false) true);
    (s2l "os2_emxomf", mk KBool (PBool false) false);
    (s2l "pkgconfig.relocatable", mk KBool (PBool false) false);
    (s2l "python.bytecompile", mk (KInt (Some (-1)%Z) (Some 2%Z)) (PInt 0) false);
    (s2l "python.install_env", mk (combo ["auto"; "prefix"; "system"; "venv"]%string) (S_ "prefix") false);
    (s2l "python.platlibdir", mk KString (S_ "") false);
    (s2l "python.purelibdir", mk KString (S_ "") false);
    (s2l "python.allow_limited_api", mk KBool (PBool true) false);
    (s2l "python.build_config", mk KString (S_ "") false) ].

Definition per_machine_table : list (str * opt) :=
  [ (s2l "pkg_config_path", mk (KArray None) (PList []) false);
    (s2l "cmake_prefix_path", mk (KArray None) (PList []) false) ].

Fixpoint take_until_dot (s : str) (acc : str) : option str :=
  match s with
  | [] => None
  | c :: r => if c =? 46 then Some (rev acc) else take_until_dot r (c :: acc)
  end.

(* prefixed_default(opt, key, default_prefix())   (options.py:649-653, 943-944) *)
Definition prefixed_default (k : key) (o : opt) : pv :=
  match (if key_eqb k (nopref_key (kname k)) then sassoc NOPREFIX (kname k) else None) with
  | Some mapping => match sassoc mapping (s2l "/usr/local") with
                    | Some x => PStr x
                    | None => odefault o
                    end
  | None => odefault o
  end.

(* options.py:939-950 *)
Definition add_builtin_option (s : store) (k : key) (o : opt) : res store :=
  do v <- validate (okind o) (prefixed_default k o);
  let o' := with_value o v in
  match take_until_dot (kname k) [] with
  | Some m => add_module_option s m k o'
  | None => add_system_option s k o'
  end.

Fixpoint add_builtins (s : store) (m : machine) (l : list (str * opt)) : res store :=
  match l with
  | [] => Ok s
  | (n, o) :: r => do s1 <- add_builtin_option s (mkKey None m n) o; add_builtins s1 m r
  end.

Definition init_builtins (cross : bool) (libdir : str) : res store :=       (* options.py:952-958 *)
  do s1 <- add_builtins (empty_store cross) Host (builtin_table libdir);
  do s2 <- add_builtins s1 Build per_machine_table;
  add_builtins s2 Host per_machine_table.

(* ------------------------------------------------------------ operations *)
Record optspec := mkSpec {
  sp_kind : kind; sp_value : pv; sp_yield : bool; sp_readonly : bool; sp_depr : depr }.

(* UserOption.__post_init__: the initial value is validated (options.py:332-335) *)
Definition mk_opt (sp : optspec) : res opt :=
  do v <- validate (sp_kind sp) (sp_value sp);
  Ok (mkOpt (sp_kind sp) v v (sp_yield sp) None (sp_readonly sp) (sp_depr sp)).

Inductive op :=
| OAddSystem (k : key) (sp : optspec)
| OAddCompiler (lang : str) (k : key) (sp : optspec)
| OAddModule (m : str) (k : key) (sp : optspec)
| OAddProject (k : key) (sp : optspec)
| OSet (k : key) (v : pv) (first : bool)
| OSetUser (k : key) (v : pv) (first : bool)
| OTop (pdo cmd mf : list (key * pv))
| OSub (sub : str) (spcall pdo cmd mf : list (key * pv))
| OGet (k : key)
| OGetPending (k : key)
| OHasValue (k : key) (v : pv)
| ODump.

Inductive obs :=
| ObsValue (v : pv)
| ObsNone
| ObsBool (b : bool)
| ObsDump (s : store).

Definition apply_op (s : store) (o : op) : res (store * list obs) :=
  match o with
  | OAddSystem k sp => do x <- mk_opt sp; do s1 <- add_system_option s k x; Ok (s1, [])
  | OAddCompiler l k sp => do x <- mk_opt sp; do s1 <- add_compiler_option s l k x; Ok (s1, [])
  | OAddModule m k sp => do x <- mk_opt sp; do s1 <- add_module_option s m k x; Ok (s1, [])
  | OAddProject k sp => do x <- mk_opt sp; do s1 <- add_project_option s k x; Ok (s1, [])
  | OSet k v first => do r <- set_option (fuel_for s) s k v first; Ok (fst r, [ObsBool (snd r)])
  | OSetUser k v first => do r <- set_user_option (fuel_for s) s k v first; Ok (fst r, [ObsBool (snd r)])
  | OTop pdo cmd mf => do s1 <- initialize_from_top_level_project_call (fuel_for s) s pdo cmd mf; Ok (s1, [])
  | OSub sub spcall pdo cmd mf =>
      do s1 <- initialize_from_subproject_call (fuel_for s) s sub spcall pdo cmd mf; Ok (s1, [])
  | OGet k => do v <- get_value_for s k; Ok (s, [ObsValue v])
  | OGetPending k => Ok (s, [match get_pending_value s k with Some v => ObsValue v | None => ObsNone end])
  | OHasValue k v => do b <- option_has_value s k v; Ok (s, [ObsBool b])
  | ODump => Ok (s, [ObsDump s])
  end.

(* run a sequence; stop at the first exception (a raising call aborts configure) *)
Fixpoint run_ops (s : store) (ops : list op) (acc : list obs) : store * list obs * option err :=
  match ops with
  | [] => (s, acc, None)
  | o :: r =>
      match apply_op s o with
      | Ok (s1, out) => run_ops s1 r (acc ++ out)
      | Err e => (s, acc, Some e)
      end
  end.
