(* Options/Buildtype.v — `buildtype` sets `debug` / `optimization` (options.py:1067-1073)
   unless they are given explicitly afterwards. *)
From MV Require Import Base.Strs Options.Kinds Options.Store Options.Init Options.Spec
                       Options.Proofs Options.Precedence.
Open Scope N_scope.

Definition bt_name : str := s2l "buildtype".
Definition debug_of (k : key) : key := evolve_name k (s2l "debug").
Definition optimization_of (k : key) : key := evolve_name k (s2l "optimization").

(* set_option on a key named buildtype (first invocation), with the value pipeline factored out *)
Lemma set_option_bt f s k v :
  str_eqb (kname k) (s2l "prefix") = false -> str_eqb (kname k) (s2l "buildtype") = true ->
  (forall rk o, resolve_option s k = Ok (rk, o) -> not_dname o = true) ->
  set_option (S f) s k v true =
    (do v3 <- canon s k v;
     do ro <- resolve_for_set s k;
     do w <- store_value s k (fst ro) v3;
     if negb (pv_eqb (snd (fst w)) v3) && negb (pv_eqb v3 (PStr (s2l "custom"))) then
       match v3 with
       | PStr b =>
           match sassoc DEFAULT_DEPENDENTS b with
           | None => Err EKey
           | Some (optimization, debug) =>
               do r1 <- set_option f (fst (fst w)) (debug_of k) (PBool debug) true;
               do r2 <- set_option f (fst r1) (optimization_of k) (PStr optimization) true;
               Ok (fst r2, negb (pv_eqb (snd (fst w)) v3) || snd w)
           end
       | PList _ => Err EOOM
       | _ => Err EKey
       end
     else Ok (fst (fst w), negb (pv_eqb (snd (fst w)) v3) || snd w)).
Proof.
  intros Hp Hb Hd. cbn [set_option]. unfold canon.
  destruct (sanitize_value s k v) as [v1|e]; cbn [bind]; [|reflexivity].
  destruct (resolve_for_set s k) as [[rk o]|e] eqn:Er; cbn [bind]; [|reflexivity].
  pose proof (Hd _ _ (resolve_for_set_ok _ _ _ Er)) as Hn. unfold not_dname in Hn.
  cbn [snd fst]. unfold depr_value.
  assert (G : forall v2,
    (do v3 <- validate (okind o) v2;
     do w <- store_value s k rk v3;
     (let '(s2, old, unsaved) := w in
      if oreadonly o && (false || negb (pv_eqb old v3)) && negb true then Err EMeson
      else do s3 <- (if str_eqb (kname k) (s2l "prefix") && true && (false || negb (pv_eqb old v3))
                     then match old with
                          | PStr op => match v3 with PStr np => reset_prefixed_options s2 op np | _ => Err EAssert end
                          | _ => Err EAssert
                          end
                     else Ok s2);
           if (false || negb (pv_eqb old v3)) && str_eqb (kname k) (s2l "buildtype") &&
              negb (pv_eqb v3 (PStr (s2l "custom")))
           then match v3 with
                | PStr b => match sassoc DEFAULT_DEPENDENTS b with
                            | Some (optimization, debug) =>
                                do r1 <- set_option f s3 (evolve_name k (s2l "debug")) (PBool debug) true;
                                do r2 <- set_option f (fst r1) (evolve_name k (s2l "optimization")) (PStr optimization) true;
                                Ok (fst r2, false || negb (pv_eqb old v3) || unsaved)
                            | None => Err EKey
                            end
                | PList _ => Err EOOM
                | _ => Err EKey
                end
           else Ok (s3, false || negb (pv_eqb old v3) || unsaved))) =
    (do v3 <- validate (okind o) v2;
     do w <- store_value s k rk v3;
     if negb (pv_eqb (snd (fst w)) v3) && negb (pv_eqb v3 (PStr (s2l "custom"))) then
       match v3 with
       | PStr b =>
           match sassoc DEFAULT_DEPENDENTS b with
           | None => Err EKey
           | Some (optimization, debug) =>
               do r1 <- set_option f (fst (fst w)) (debug_of k) (PBool debug) true;
               do r2 <- set_option f (fst r1) (optimization_of k) (PStr optimization) true;
               Ok (fst r2, negb (pv_eqb (snd (fst w)) v3) || snd w)
           end
       | PList _ => Err EOOM
       | _ => Err EKey
       end
     else Ok (fst (fst w), negb (pv_eqb (snd (fst w)) v3) || snd w))).
  { intros v2.
    destruct (validate (okind o) v2) as [v3|e]; cbn [bind]; [|reflexivity].
    destruct (store_value s k rk v3) as [[[s2 old] u]|e]; cbn [bind fst snd]; [|reflexivity].
    rewrite Hp, Hb. rewrite andb_false_r. cbn [andb orb bind]. rewrite andb_true_r.
    unfold debug_of, optimization_of.
    destruct (negb (pv_eqb old v3) && negb (pv_eqb v3 (PStr (s2l "custom")))); [|reflexivity].
    destruct v3; reflexivity. }
  destruct (odepr o) eqn:Ed; try discriminate Hn.
  - cbn [bind]. apply G.
  - cbn [bind]. apply G.
  - destruct (opt_listify (okind o) v1); cbn [bind]; [apply G | reflexivity].
  - destruct (opt_listify (okind o) v1); cbn [bind]; [apply G | reflexivity].
Qed.

(* the effect of the write itself (any host key whose name is not prefix) *)
Lemma write_effect s t v v3 rk o s2 old u :
  kmach t = Host -> str_eqb (kname t) (s2l "prefix") = false -> pfx_ok s ->
  canon s t v = Ok v3 -> resolve_for_set s t = Ok (rk, o) -> store_value s t rk v3 = Ok (s2, old, u) ->
  R s s2 /\
  (forall x, oslot s2 x = match wr_o (set_wr s t v) x with Some y => y | None => oslot s x end) /\
  (forall q, aslot s2 q = match wr_a (set_wr s t v) q with Some y => y | None => aslot s q end).
Proof.
  intros Hh Hp Hpf Ec Er Ew. unfold set_wr. rewrite Ec.
  destruct (resolve_host s t rk o Hh (resolve_for_set_ok _ _ _ Er)) as (Hg & Hin & Hout).
  assert (Hv : validate (okind o) v3 = Ok v3).
  { unfold canon in Ec. apply bind_ok in Ec as (v1 & _ & Ec). rewrite Er in Ec. cbn [bind snd] in Ec.
    apply bind_ok in Ec as (v2 & _ & Ec). eapply validate_idem; exact Ec. }
  unfold store_value in Ew. rewrite Hg in Ew.
  destruct (dmem (options s) t) eqn:Em.
  - rewrite (Hin eq_refl) in *. rewrite Hv in Ew. cbn [bind] in Ew. injection Ew as <- _ _.
    split; [|split].
    + constructor; cbn; try reflexivity.
      * intros k. rewrite dget_dset. destruct (key_eqb t k) eqn:Ek; [|reflexivity].
        apply key_eqb_eq in Ek. subst k. rewrite Hg. reflexivity.
      * rewrite dget_dset, (name_neq_prefix_key t Hp). reflexivity.
      * apply gvf_prefix_frame; cbn; try reflexivity; [|exact Hpf].
        rewrite dget_dset, (name_neq_prefix_key t Hp). reflexivity.
    + intros x. unfold oslot; cbn. rewrite dget_dset. destruct (key_eqb t x); reflexivity.
    + intros q. reflexivity.
  - destruct (ksub t) eqn:Es; [|discriminate]. injection Ew as <- _ _.
    split; [|split].
    + constructor; cbn; try reflexivity.
      apply gvf_prefix_frame; cbn; try reflexivity; [|exact Hpf].
      rewrite dget_dset, (name_neq_prefix_key t Hp). reflexivity.
    + intros x. reflexivity.
    + intros q. reflexivity || (unfold aslot; cbn; rewrite dget_dset; destruct (key_eqb t q); reflexivity).
Qed.

Lemma R_not_dname s s1 t :
  R s s1 ->
  (forall rk o, resolve_option s t = Ok (rk, o) -> not_dname o = true) ->
  (forall rk o, resolve_option s1 t = Ok (rk, o) -> not_dname o = true).
Proof.
  intros H Hd rk o Hr. pose proof (R_resolve _ _ t H) as E. rewrite Hr in E. cbn in E.
  destruct (resolve_option s t) as [[rk' o']|] eqn:Er; cbn in E; [|discriminate].
  unfold rstatic, ostatic in E; cbn in E. injection E as _ _ Ed _.
  specialize (Hd rk' o' eq_refl). unfold not_dname in *. rewrite Ed. exact Hd.
Qed.

Definition apply_wr_o (w : option wr) (prev : key -> option (pv * bool)) (x : key) : option (pv * bool) :=
  match wr_o w x with Some y => y | None => prev x end.
Definition apply_wr_a (w : option wr) (prev : key -> option pv) (x : key) : option pv :=
  match wr_a w x with Some y => y | None => prev x end.

(* set_option(buildtype, v) = one write of buildtype, then -- if the VALUE changed and is
   not 'custom' -- the writes of debug and optimization from DEFAULT_DEPENDENTS.
   `old` is the value the option (or the subproject's augment) held before; the flag
   returned is `changed or unsaved` (options.py: an option that stops yielding or a
   subproject that gets its first override is reported as changed, too). *)
Theorem buildtype_expansion f s k v s' ch :
  kmach k = Host -> kname k = bt_name -> pfx_ok s ->
  (forall rk o, resolve_option s k = Ok (rk, o) -> not_dname o = true) ->
  (forall rk o, resolve_option s (debug_of k) = Ok (rk, o) -> not_dname o = true) ->
  (forall rk o, resolve_option s (optimization_of k) = Ok (rk, o) -> not_dname o = true) ->
  set_option (S (S f)) s k v true = Ok (s', ch) ->
  exists v3 rk o s2 old unsaved,
    canon s k v = Ok v3 /\ resolve_for_set s k = Ok (rk, o) /\
    store_value s k rk v3 = Ok (s2, old, unsaved) /\
    ch = negb (pv_eqb old v3) || unsaved /\ R s s' /\
    ((pv_eqb old v3 = true \/ v3 = PStr (s2l "custom")) /\
       (forall x, oslot s' x = apply_wr_o (set_wr s k v) (oslot s) x) /\
       (forall x, aslot s' x = apply_wr_a (set_wr s k v) (aslot s) x)
     \/
     exists b optimization debug,
       pv_eqb old v3 = false /\ v3 = PStr b /\ sassoc DEFAULT_DEPENDENTS b = Some (optimization, debug) /\
       (forall x, oslot s' x =
          apply_wr_o (set_wr s (optimization_of k) (PStr optimization))
            (apply_wr_o (set_wr s (debug_of k) (PBool debug))
               (apply_wr_o (set_wr s k v) (oslot s))) x) /\
       (forall x, aslot s' x =
          apply_wr_a (set_wr s (optimization_of k) (PStr optimization))
            (apply_wr_a (set_wr s (debug_of k) (PBool debug))
               (apply_wr_a (set_wr s k v) (aslot s))) x)).
Proof.
  intros Hh Hn Hpf Hd Hdd Hdo E.
  assert (Hp : str_eqb (kname k) (s2l "prefix") = false) by (rewrite Hn; vm_compute; reflexivity).
  assert (Hb : str_eqb (kname k) (s2l "buildtype") = true) by (rewrite Hn; vm_compute; reflexivity).
  rewrite (set_option_bt (S f) s k v Hp Hb Hd) in E.
  apply bind_ok in E as (v3 & Ec & E). apply bind_ok in E as ([rk o] & Er & E).
  apply bind_ok in E as ([[s2 old] u] & Ew & E). cbn [fst snd] in E.
  destruct (write_effect s k v v3 rk o s2 old u Hh Hp Hpf Ec Er Ew) as (R2 & O2 & A2).
  exists v3, rk, o, s2, old, u. split; [exact Ec|]. split; [exact Er|]. split; [exact Ew|].
  destruct (negb (pv_eqb old v3) && negb (pv_eqb v3 (PStr (s2l "custom")))) eqn:Echg.
  - apply andb_prop in Echg as [Ech Ecu].
    destruct v3 as [b| | |]; try discriminate E.
    destruct (sassoc DEFAULT_DEPENDENTS b) as [[optimization debug]|] eqn:Et; [|discriminate].
    apply bind_ok in E as ([s3 c3] & E3 & E). apply bind_ok in E as ([s4 c4] & E4 & E).
    cbn [fst] in *. injection E as <- <-. split; [reflexivity|].
    assert (P2 : pfx_ok s2) by (eapply R_pfx_ok; eassumption).
    assert (Hdk : kmach (debug_of k) = Host) by exact Hh.
    assert (Hok : kmach (optimization_of k) = Host) by exact Hh.
    assert (Pd : plain_name (debug_of k) = true) by (vm_compute; reflexivity).
    assert (Po : plain_name (optimization_of k) = true) by (vm_compute; reflexivity).
    destruct (set_option_effect f s2 (debug_of k) (PBool debug) s3 c3 Hdk Pd P2
                (R_not_dname _ _ _ R2 Hdd) E3) as (R3 & O3 & A3).
    assert (R13 : R s s3) by (eapply R_trans; eassumption).
    assert (P3 : pfx_ok s3) by (eapply R_pfx_ok; eassumption).
    destruct (set_option_effect f s3 (optimization_of k) (PStr optimization) s4 c4 Hok Po P3
                (R_not_dname _ _ _ R13 Hdo) E4) as (R4 & O4 & A4).
    split; [eapply R_trans; eassumption|]. right.
    exists b, optimization, debug. apply negb_true_iff in Ech. repeat split; try assumption.
    + intros x. unfold apply_wr_o. rewrite O4, O3, O2.
      rewrite (R_set_wr _ _ _ _ R13), (R_set_wr _ _ _ _ R2). reflexivity.
    + intros x. unfold apply_wr_a. rewrite A4, A3, A2.
      rewrite (R_set_wr _ _ _ _ R13), (R_set_wr _ _ _ _ R2). reflexivity.
  - injection E as <- <-. split; [reflexivity|]. split; [exact R2|]. left.
    split; [|split; [exact O2 | exact A2]].
    apply andb_false_iff in Echg as [Echg|Echg].
    + left. apply negb_false_iff in Echg. exact Echg.
    + right. apply negb_false_iff in Echg. destruct v3; cbn in Echg; try discriminate.
      apply str_eqb_eq in Echg. subst. reflexivity.
Qed.

(* the value of a global option after the two top-level loops, from any start state *)
Lemma loops_global_value f s1 pdo' mc s' q v0 :
  (do s2 <- top_pdo_loop (S f) s1 pdo'; top_mc_loop (S f) s2 mc) = Ok s' ->
  pfx_ok s1 -> Forall (good_entry s1) (pdo' ++ mc) ->
  kmach q = Host -> ksub q = None -> is_project_option s1 q = false ->
  oslot s1 q = Some (v0, false) -> aslot s1 q = None ->
  get_value_for s' q =
    match dlast (pdo' ++ mc) q with
    | Some v => canon s1 q v
    | None => Ok v0
    end.
Proof.
  intros Hi Hpf HG Hh Hs Hp Ho Ha.
  destruct (top_loops_last_writer f s1 pdo' mc s' Hpf HG Hi) as (HR & HO & HA & HK).
  assert (Hm : dmem (options s1) q = true).
  { unfold oslot in Ho. unfold dmem. destruct (dget (options s1) q); [reflexivity | discriminate]. }
  pose proof (accepted_target_self s1 _ q Hm Hh Hs HK) as Hacc.
  assert (HW : forall k v, In (k, v) (pdo' ++ mc) ->
               W_o s1 (k, v) q = if key_eqb k q then Some (canon_slot s1 q v) else None).
  { intros k v Hin. apply W_o_global; auto. intros E. eapply Hacc; eassumption. }
  pose proof (last_w_dlast W_o s1 q (fun k => key_eqb k q) (canon_slot s1 q) _ HW None) as HL.
  cbn [option_map] in HL.
  specialize (HO q). rewrite HL in HO.
  specialize (HA q). rewrite (last_w_none W_a s1 q _ (fun e => W_a_global s1 q e Hs)) in HA.
  unfold dlast.
  assert (Hp' : is_project_option s' q = false).
  { unfold is_project_option in *. rewrite (R_proj _ _ HR). exact Hp. }
  destruct (dlast_by _ (pdo' ++ mc) None) as [v|] eqn:Efd.
  - cbn [option_map] in HO.
    assert (exists v3, canon s1 q v = Ok v3) as (v3 & Ec).
    { assert (Hin : exists k, In (k, v) (pdo' ++ mc) /\ key_eqb k q = true).
      { clear - Efd. generalize dependent (pdo' ++ mc). intros l.
        assert (G : forall acc, dlast_by (fun k => key_eqb k q) l acc = Some v ->
                    acc = Some v \/ exists k, In (k, v) l /\ key_eqb k q = true).
        { induction l as [|[k w] l IH]; intros acc H; cbn in H; [left; exact H|].
          destruct (IH _ H) as [Hacc | (k' & Hin & Hk)].
          - destruct (key_eqb k q) eqn:E; [|left; exact Hacc].
            injection Hacc as ->. right. exists k. split; [left; reflexivity | exact E].
          - right. exists k'. split; [right; exact Hin | exact Hk]. }
        intros H. destruct (G None H) as [D|D]; [discriminate | exact D]. }
      destruct Hin as (k & Hin & Hk). eapply Hacc; eassumption. }
    unfold canon_slot in HO. rewrite Ec in HO. rewrite Ec. cbn in HO, HA. rewrite Ha in HA.
    apply gvf_plain; assumption.
  - cbn in HO, HA. rewrite Ho in HO. rewrite Ha in HA.
    apply gvf_plain; assumption.
Qed.

(* buildtype first (as the command line guarantees), then explicit values: an explicit
   debug / optimization that follows wins; otherwise the value left by buildtype stays *)
Theorem buildtype_then_explicit f s k vb rest s' :
  kmach k = Host -> ksub k = None -> kname k = bt_name -> dmem (options s) k = true ->
  pfx_ok s ->
  (forall rk o, resolve_option s k = Ok (rk, o) -> not_dname o = true) ->
  (forall rk o, resolve_option s (debug_of k) = Ok (rk, o) -> not_dname o = true) ->
  (forall rk o, resolve_option s (optimization_of k) = Ok (rk, o) -> not_dname o = true) ->
  Forall (good_entry s) rest ->
  top_mc_loop (S (S f)) s ((k, vb) :: rest) = Ok s' ->
  exists sB ch,
    set_option (S (S f)) s k vb true = Ok (sB, ch) /\ R s sB /\
    forall q v0,
      kmach q = Host -> ksub q = None -> is_project_option s q = false ->
      oslot sB q = Some (v0, false) -> aslot sB q = None ->
      get_value_for s' q =
        match dlast rest q with
        | Some x => canon s q x          (* given explicitly after buildtype *)
        | None => Ok v0                  (* what buildtype left *)
        end.
Proof.
  intros Hh Hs Hn Hm Hpf Hd Hdd Hdo HG H.
  cbn [top_mc_loop] in H.
  assert (Hb : is_for_build k = false) by (unfold is_for_build; rewrite Hh; reflexivity).
  assert (Ht : sub_truthy k = false) by (unfold sub_truthy; rewrite Hs; reflexivity).
  rewrite Hb, andb_false_r, Ht in H. cbn [negb] in H.
  apply bind_ok in H as ([sB ch] & Hu & H). cbn [fst] in H.
  unfold set_user_option in Hu. rewrite Hb, andb_false_r, Hm in Hu.
  exists sB, ch. split; [exact Hu|].
  destruct (buildtype_expansion f s k vb sB ch Hh Hn Hpf Hd Hdd Hdo Hu) as (v3 & rk0 & o0 & s20 & old0 & u0 & _ & _ & _ & _ & RB & _).
  split; [exact RB|].
  intros q v0 Hqh Hqs Hqp Hqo Hqa.
  assert (HGB : Forall (good_entry sB) ([] ++ rest)).
  { cbn. eapply Forall_impl; [|exact HG]. intros a Ha. eapply R_good_entry; eassumption. }
  assert (Hqp' : is_project_option sB q = false).
  { unfold is_project_option in *. rewrite (R_proj _ _ RB). exact Hqp. }
  pose proof (loops_global_value (S f) sB [] rest s' q v0 H (R_pfx_ok _ _ RB Hpf) HGB Hqh Hqs Hqp' Hqo Hqa) as E.
  cbn [app] in E. rewrite E. destruct (dlast rest q); [apply R_canon; exact RB | reflexivity].
Qed.

(* on the builtin store the dependents receive exactly the table values: for every
   buildtype, `set_option(buildtype, b)` followed by reads (finite check, 5 x 2 cells) *)
Example builtin_buildtype_table :
  forallb (fun cross =>
    match init_builtins cross (s2l "lib") with
    | Ok s =>
        forallb (fun e =>
          let '(b, (optimization, debug)) := e in
          match set_option 4 s buildtype_key (PStr b) true with
          | Ok (s', _) =>
              match get_value_for s' (debug_of buildtype_key), get_value_for s' (optimization_of buildtype_key),
                    get_value_for s' buildtype_key with
              | Ok (PBool d), Ok (PStr o), Ok (PStr b') => Bool.eqb d debug && str_eqb o optimization && str_eqb b' b
              | _, _, _ => false
              end
          | Err _ => false
          end) DEFAULT_DEPENDENTS
    | Err _ => false
    end) [false; true] = true.
Proof. vm_compute. reflexivity. Qed.
