(* Options/LcHistory.v — clause "a new option appears, a removed one vanishes" lifted to ALL
   histories: in every reachable build directory the stored options are exactly the options
   declared by the option files as coredata.dat last loaded them (its options_files record). *)
From MV Require Import Base.Strs Base.LexFacts Options.Kinds Options.Lifecycle Options.LcFacts
  Options.LifecycleProofs.
Open Scope N_scope.

Lemma olist_eqb_eq a b : olist_eqb a b = true -> a = b.
Proof. destruct a, b; cbn; intros H; try discriminate; [f_equal; apply list_str_eqb_eq; exact H | reflexivity]. Qed.
Lemma oZ_eqb_eq a b : oZ_eqb a b = true -> a = b.
Proof. destruct a, b; cbn; intros H; try discriminate; [apply Z.eqb_eq in H; congruence | reflexivity]. Qed.
Lemma kind_eqb_eq a b : kind_eqb a b = true -> a = b.
Proof.
  destruct a, b; cbn; intros H; try discriminate; try reflexivity.
  - apply andb_true_iff in H. destruct H as [A B]. apply oZ_eqb_eq in A, B. congruence.
  - apply list_str_eqb_eq in H. congruence.
  - apply olist_eqb_eq in H. congruence.
Qed.
Lemma pv_same_eq a b : pv_same a b = true -> a = b.
Proof.
  destruct a, b; cbn; intros H; try discriminate.
  - apply str_eqb_eq in H. congruence.
  - destruct b0, b; cbn in H; congruence.
  - apply Z.eqb_eq in H. congruence.
  - apply list_str_eqb_eq in H. congruence.
Qed.
Lemma decl_eqb_eq a b : decl_eqb a b = true -> a = b.
Proof.
  unfold decl_eqb. intros H. repeat (apply andb_true_iff in H; destruct H as [H ?]).
  apply str_eqb_eq in H. apply kind_eqb_eq in H2. apply pv_same_eq in H1.
  destruct a, b; cbn in *. subst. f_equal. destruct dyield, dyield0; cbn in H0; congruence.
Qed.
Lemma list_eqb_decl_eq : forall a b, list_eqb_decl a b = true -> a = b.
Proof.
  induction a as [|x a IH]; intros [|y b]; cbn; intros H; try discriminate; [reflexivity|].
  apply andb_true_iff in H. destruct H as [A B]. apply decl_eqb_eq in A. f_equal; auto.
Qed.

Lemma SUB_nonempty : Some SUB <> Some (@nil char).
Proof. vm_compute. discriminate. Qed.

(* mconf's reload leaves exactly the options of the current files *)
Lemma reload_option_set c fs c1 : wf_store (cstore c) -> wf_files fs ->
  options_match (cstore c) (seen c) -> reload_changed c fs = Ok c1 -> options_match (cstore c1) fs.
Proof.
  intros W [Dt Ds] M H.
  destruct (reload_changed_wf c fs c1 W (conj Dt Ds) H) as [W2 _].
  unfold reload_changed in H.
  apply bind_ok in H. destruct H as [s1 [A H]]. apply bind_ok in H. destruct H as [s2 [B H]].
  injection H as <-. cbn [cstore] in *.
  assert (W1 : wf_store s1).
  { destruct (list_eqb_decl (ftop (seen c)) (ftop fs)); [injection A as <-; exact W | eapply update_project_options_wf; [exact W | apply Dt | exact A]]. }
  (* the top-level part after the first half *)
  assert (T1 : forall q, ksub q = Some [] -> dmem (options s1) q = decl_mem (kname q) (ftop fs)).
  { intros q Hq. destruct (list_eqb_decl (ftop (seen c)) (ftop fs)) eqn:E.
    - injection A as <-. apply list_eqb_decl_eq in E. rewrite <- E.
      rewrite (M q (or_intror (or_introl Hq))). unfold declared_in. rewrite Hq. reflexivity.
    - apply (upo_declared_exactly (cstore c) (ftop fs) [] s1 W Dt A q Hq). }
  (* the subproject part after the first half is as before *)
  assert (S1 : forall q, ksub q = Some SUB -> dmem (options s1) q = dmem (options (cstore c)) q).
  { intros q Hq. destruct (list_eqb_decl (ftop (seen c)) (ftop fs)); [injection A as <-; reflexivity|].
    destruct (upo_frame (cstore c) (ftop fs) [] s1 q W Dt A) as [F _]; [rewrite Hq; apply SUB_nonempty|].
    apply omap_dmem. exact F. }
  intros q Hq. unfold declared_in. destruct Hq as [Hq|[Hq|Hq]]; rewrite Hq.
  - destruct q as [sq nq]; cbn in Hq; subst sq. apply (wf_glob s2 W2 nq).
  - rewrite <- (T1 q Hq). destruct (list_eqb_decl (fsub (seen c)) (fsub fs)); [injection B as <-; reflexivity|].
    destruct (upo_frame s1 (fsub fs) SUB s2 q W1 Ds B) as [F _]; [rewrite Hq; intros X; apply SUB_nonempty; congruence|].
    apply omap_dmem. exact F.
  - rewrite str_eqb_refl. cbn [andb]. destruct (list_eqb_decl (fsub (seen c)) (fsub fs)) eqn:E.
    + injection B as <-. apply list_eqb_decl_eq in E. rewrite <- E. rewrite (S1 q Hq).
      rewrite (M q (or_intror (or_intror Hq))). unfold declared_in. rewrite Hq, str_eqb_refl. reflexivity.
    + apply (upo_declared_exactly s1 (fsub fs) SUB s2 W1 Ds B q Hq).
Qed.

Definition dir_matches (b : bdir) : Prop :=
  forall c, cd b = Some c -> options_match (cstore c) (seen c).

Lemma options_match_keys s s' fs : (forall q, dmem (options s') q = dmem (options s) q) ->
  options_match s fs -> options_match s' fs.
Proof. intros K M q Hq. rewrite K. apply M. exact Hq. Qed.

Lemma first_configure_matches pj fs b d b' o : wf_files fs -> dir_matches b -> cd b = None ->
  first_configure pj fs b d = (b', o) -> dir_matches b'.
Proof.
  intros F M N H. unfold first_configure in H.
  destruct (run_build pj fs true init_store (dupdate (cl_or_empty b) d)) as [[c late]|] eqn:R; [|injection H as <- _; exact M].
  destruct (negb (check_unused (cstore c) (dupdate (cl_or_empty b) d))); [injection H as <- _; exact M|].
  destruct (run_build_wf _ _ _ _ _ _ _ wf_init F R) as [_ Sn].
  destruct late; injection H as <- _; intros c0 E; cbn in E; [discriminate|].
  injection E as <-. rewrite Sn. eapply run_build_option_set; [apply wf_init | exact F | exact R].
Qed.

Lemma configure_matches fs b args b' o : wf_dir b -> wf_files fs -> dir_matches b ->
  configure fs b args = (b', o) -> dir_matches b'.
Proof.
  intros W F M H. unfold configure in H. destruct (cd b) as [c|] eqn:C; [|injection H as <- _; exact M].
  destruct (reload_changed c fs) as [c1|] eqn:R; [|injection H as <- _; exact M].
  destruct (reload_changed_wf c fs c1 (wfd_cd b W c C) F R) as [W1 Sn].
  pose proof (reload_option_set c fs c1 (wfd_cd b W c C) F (M c C) R) as M1.
  destruct args as [|a r]; [injection H as <- _; exact M|].
  destruct (set_from_configure_command (cstore c1) (live_args (cstore c1) (cl_or_empty b) (a :: r)) false) as [[s2 dirty]|] eqn:S; [|injection H as <- _; exact M].
  destruct dirty; injection H as <- _; intros c0 E; cbn in E.
  - injection E as <-. cbn [cstore seen]. rewrite Sn.
    eapply options_match_keys; [intros q; apply (sfcc_keys _ _ _ _ _ S q) | exact M1].
  - injection E as <-. apply (M c C).
Qed.

Lemma reconfigure_matches pj fs b d b' o : wf_dir b -> wf_files fs -> dir_matches b ->
  reconfigure pj fs b d = (b', o) -> dir_matches b'.
Proof.
  intros W F M H. unfold reconfigure in H. destruct (cd b) as [c|] eqn:C.
  - destruct (set_from_configure_command (cstore c) (some_vals d) false) as [[s1 dr]|] eqn:S; [|injection H as <- _; exact M].
    pose proof (sfcc_wf _ _ _ _ _ (wfd_cd b W c C) S) as W1.
    destruct (run_build pj fs false s1 (dupdate (cl_or_empty b) d)) as [[c2 late]|] eqn:R; [|injection H as <- _; exact M].
    destruct (negb (check_unused (cstore c2) d)); [injection H as <- _; exact M|].
    destruct (run_build_wf _ _ _ _ _ _ _ W1 F R) as [_ Sn].
    destruct late; injection H as <- _; intros c0 E; cbn in E.
    + injection E as <-. apply (M c C).
    + injection E as <-. rewrite Sn. eapply run_build_option_set; eassumption.
  - eapply first_configure_matches; eassumption.
Qed.

Lemma step_matches pj w c : wf_world w -> wf_cmd c -> dir_matches (wdir w) ->
  dir_matches (wdir (fst (step pj w c))).
Proof.
  intros [F D] C M. destruct c; cbn [step fst wdir].
  - unfold setup. destruct (cd (wdir w)) eqn:E.
    + destruct (dict_of d) as [|p0 l0]; [exact M|]. destruct (configure (wfiles w) (wdir w) (some_vals (p0 :: l0))) eqn:H.
      eapply configure_matches; eassumption.
    + destruct (first_configure pj (wfiles w) (wdir w) (dict_of d)) eqn:H. eapply first_configure_matches; eassumption.
  - destruct (configure (wfiles w) (wdir w) (dict_of args)) eqn:H. eapply configure_matches; eassumption.
  - destruct (reconfigure pj (wfiles w) (wdir w) (dict_of d)) eqn:H. eapply reconfigure_matches; eassumption.
  - unfold wipe. destruct (first_configure pj (wfiles w) (mkB None (cl (wdir w)) None) (dict_of d)) eqn:H.
    apply (first_configure_matches pj (wfiles w) (mkB None (cl (wdir w)) None) (dict_of d) b o F); [|reflexivity|exact H].
    intros c0 E. discriminate.
  - exact M.
Qed.

(* in every reachable build directory the options are exactly the declared ones *)
Theorem reachable_options_match pj w : reachable pj w -> dir_matches (wdir w).
Proof.
  intros [fs0 [h [F [C ->]]]].
  assert (G : forall h w, wf_world w -> dir_matches (wdir w) -> Forall wf_cmd h -> dir_matches (wdir (final pj w h))).
  { clear. induction h as [|c r IH]; intros w W M Fc; cbn; [exact M|].
    inversion Fc as [|? ? Fc1 Fr]; subst. apply IH; [apply step_wf; assumption | apply step_matches; assumption | exact Fr]. }
  apply G; [split; [exact F | apply wf_empty_dir] | intros c0 E; discriminate | exact C].
Qed.
