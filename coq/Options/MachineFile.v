(* Options/MachineFile.v — from machine-file text to option keys: OptionKey.from_string
   (options.py:242-269), Environment.mfilestr2key (environment.py:276-287), the section
   handling of Environment._load_machine_file_options (environment.py:289-342) and the
   native/cross glue of Environment.__init__ (environment.py:205-230, 258-263).
   Model only, no proofs.  Not modelled: the deprecated [properties] <lang>_args entries,
   the ini / value parser of machinefile.py (covered by the correspondence, which writes
   real files and constructs a real Environment). *)
From MV Require Import Base.Strs Options.Kinds Options.Store.
Open Scope N_scope.

Definition count_char (c : char) (s : str) : nat := length (filter (N.eqb c) s).

(* OptionKey.from_string *)
Definition from_string (raw : str) : res key :=
  let '(sub, raw2) := match split_on 58 raw [] with       (* raw.split(':') unpacked into two *)
                      | [a; b] => (Some a, b)
                      | _ => (None, raw)
                      end in
  let '(m, raw3) := match split_on 46 raw2 [] with        (* raw2.split('.') unpacked into two *)
                    | [p; r] => if str_eqb p (s2l "build") then (Build, r) else (Host, raw2)
                    | _ => (Host, raw2)
                    end in
  if memb 58 raw3 then Err EAssert                        (* assert ':' not in opt *)
  else if Nat.leb 2 (count_char 46 raw3) then Err EAssert (* assert opt.count('.') < 2 *)
  else match raw3 with
       | [] => Err EOOM                                   (* OptionKey(''): uninitialised object *)
       | _ => Ok (mkKey sub m raw3)
       end.

Definition str_truthy (o : option str) : bool := match o with Some (_ :: _) => true | _ => false end.

(* Environment.mfilestr2key(machine_file_string, section, section_subproject, machine) *)
Definition mfilestr2key (s : str) (section_subproject : option str) (m : machine) : res key :=
  do k <- from_string s;
  if sub_truthy k then Err EMeson                         (* "Do not set subproject options in [...]" *)
  else
    let k1 := if str_truthy section_subproject then evolve_sub k section_subproject else k in
    Ok (match m with Build => mkKey (ksub k1) Build (kname k1) | Host => k1 end).

Definition section := (str * list (str * pv))%type.

Fixpoint load_entries (opts : list (key * pv)) (subp : option str) (m : machine) (l : list (str * pv))
  : res (list (key * pv)) :=
  match l with
  | [] => Ok opts
  | (s, v) :: r => do k <- mfilestr2key s subp m; load_entries (dset opts k v) subp m r
  end.

(* section.split(':', 1) *)
Fixpoint split_first_colon (s : str) (acc : str) : option (str * str) :=
  match s with
  | [] => None
  | c :: r => if c =? 58 then Some (rev acc, r) else split_first_colon r (c :: acc)
  end.

Fixpoint load_sections (opts : list (key * pv)) (m : machine) (cfg : list section) : res (list (key * pv)) :=
  match cfg with
  | [] => Ok opts
  | (name, values) :: rest =>
      let '(subp, sect) := match split_first_colon name [] with
                           | Some (a, b) => (a, b)
                           | None => ([], name)
                           end in
      if str_eqb sect (s2l "built-in options") then
        do o1 <- load_entries opts (Some subp) m values; load_sections o1 m rest
      else if str_eqb sect (s2l "project options") && (match m with Host => true | Build => false end) then
        do o1 <- load_entries opts (Some subp) m values; load_sections o1 m rest
      else if memb 58 sect then Err EMeson            (* nested "a:b:section" *)
      else load_sections opts m rest
  end.

Fixpoint find_section (n : str) (cfg : list section) : option (list (str * pv)) :=
  match cfg with
  | [] => None
  | (x, v) :: r => if str_eqb x n then Some v else find_section n r
  end.

(* _load_machine_file_options: the deprecated [paths] section first, then all sections *)
Definition load_machine_file_options (opts : list (key * pv)) (cfg : list section) (m : machine)
  : res (list (key * pv)) :=
  do o1 <- match find_section (s2l "paths") cfg with
           | Some (e :: es) => load_entries opts None m (e :: es)
           | _ => Ok opts
           end;
  load_sections o1 m cfg.

(* "Keep only per machine options from the native file" (environment.py:225-229) *)
Fixpoint dup_per_machine (snapshot opts : list (key * pv)) : list (key * pv) :=
  match snapshot with
  | [] => opts
  | (k, v) :: r =>
      dup_per_machine r (if is_per_machine_option k then dset opts (mkKey (ksub k) Build (kname k)) v else opts)
  end.

(* Environment.options after __init__: native file (machine = build in a cross build, host
   otherwise), then the cross file (host), then the filter of line 262 *)
Definition env_options (is_cross : bool) (native cross : option (list section)) : res (list (key * pv)) :=
  do o1 <- match native with
           | Some cfg => load_machine_file_options [] cfg (if is_cross then Build else Host)
           | None => Ok []
           end;
  do o2 <- (if is_cross then
              match cross with
              | Some cfg => load_machine_file_options (dup_per_machine o1 o1) cfg Host
              | None => Ok (dup_per_machine o1 o1)
              end
            else Ok o1);
  Ok (filter (fun e => match kmach (fst e) with Host => true | Build => is_per_machine_option (fst e) end) o2).
