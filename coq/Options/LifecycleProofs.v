(* Options/LifecycleProofs.v — lemmas and theorems about Options/Lifecycle.v (C08). *)
From MV Require Import Base.Strs Base.LexFacts Options.Kinds Options.Lifecycle Options.LcFacts.
From MV Require Options.Proofs.
From Coq Require Import Lia.
Open Scope N_scope.

Lemma bind_ok {A B} (r : res A) (f : A -> res B) b :
  bind r f = Ok b -> exists a, r = Ok a /\ f a = Ok b.
Proof. destruct r; cbn; [eauto | discriminate]. Qed.

(* ------------------------------------------------------------ well-formed stores *)
Definition is_global (n : str) : bool := str_eqb n WERROR || str_eqb n WLEVEL.

Record wf_store (s : store) : Prop := mkWf {
  wf_nodup : NoDup (keys (options s));
  wf_nodup_aug : NoDup (keys (augments s));
  wf_vals : forall k o, dget (options s) k = Some o -> satisfies (okind o) (oval o) = true;
  wf_glob : forall n, dmem (options s) (mkKey None n) = is_global n;
  wf_glob_plain : forall n o, dget (options s) (mkKey None n) = Some o -> oyield o = false /\ oparent o = false;
  wf_proj_names : forall k, ksub k <> None -> dget (options s) k <> None -> is_global (kname k) = false;
  wf_yield : forall k o, dget (options s) k = Some o -> oyield o = true -> oparent o = true;
  wf_parent : forall k o, dget (options s) k = Some o -> oparent o = true ->
      sub_truthy k = true /\ dget (options s) (as_root k) <> None;
  wf_aug : forall k v, dget (augments s) k = Some v ->
      ksub k <> None /\ exists g, dget (options s) (no_sub k) = Some g /\ satisfies (okind g) v = true }.

Lemma sub_none_iff k : sub_none k = true <-> ksub k = None.
Proof. unfold sub_none. destruct (ksub k); split; congruence. Qed.
Lemma sub_none_false k : sub_none k = false <-> ksub k <> None.
Proof. unfold sub_none. destruct (ksub k); split; congruence. Qed.
Lemma key_eta k : mkKey (ksub k) (kname k) = k.
Proof. destruct k; reflexivity. Qed.
Lemma no_sub_of_none k : ksub k = None -> no_sub k = k.
Proof. destruct k as [s n]; cbn; intros ->; reflexivity. Qed.

Definition O_WERROR := mkOpt KBool (PBool false) false false.
Definition O_WLEVEL := mkOpt (KCombo wlevel_choices) (PStr (s2l "1")) false false.
Lemma init_get k o : dget (options init_store) k = Some o ->
  (k = mkKey None WERROR /\ o = O_WERROR) \/ (k = mkKey None WLEVEL /\ o = O_WLEVEL).
Proof.
  unfold init_store. cbn [options dget].
  destruct (key_eqb k (mkKey None WERROR)) eqn:E1.
  - apply key_eqb_eq in E1. intros H. injection H as <-. left. auto.
  - destruct (key_eqb k (mkKey None WLEVEL)) eqn:E2; [|discriminate].
    apply key_eqb_eq in E2. intros H. injection H as <-. right. auto.
Qed.
Lemma init_mem n : dmem (options init_store) (mkKey None n) = is_global n.
Proof.
  unfold dmem, init_store, is_global. cbn [options dget]. unfold key_eqb. cbn [ksub kname osub_eqb andb].
  destruct (str_eqb n WERROR); [reflexivity|]. destruct (str_eqb n WLEVEL); reflexivity.
Qed.

Lemma wf_init : wf_store init_store.
Proof.
  constructor.
  - cbn. repeat constructor; cbn; intuition discriminate.
  - cbn. constructor.
  - intros k o H. destruct (init_get k o H) as [[-> ->]|[-> ->]]; reflexivity.
  - apply init_mem.
  - intros n o H. destruct (init_get _ o H) as [[_ ->]|[_ ->]]; auto.
  - intros k Hs H. destruct (dget (options init_store) k) eqn:E; [|congruence].
    destruct (init_get k o E) as [[-> _]|[-> _]]; cbn in Hs; congruence.
  - intros k o H. destruct (init_get k o H) as [[_ ->]|[_ ->]]; discriminate.
  - intros k o H. destruct (init_get k o H) as [[_ ->]|[_ ->]]; discriminate.
  - cbn. discriminate.
Qed.

(* an augmented key is not an option of its own *)
Lemma wf_aug_not_option s k v : wf_store s -> dget (augments s) k = Some v -> dget (options s) k = None.
Proof.
  intros W H. destruct (wf_aug s W k v H) as [Hs [g [Hg _]]].
  destruct (dget (options s) k) eqn:E; [|reflexivity]. exfalso.
  assert (G : is_global (kname k) = false) by (apply (wf_proj_names s W k Hs); congruence).
  pose proof (wf_glob s W (kname k)) as G'. rewrite G in G'. apply dmem_false in G'.
  unfold no_sub in Hg. congruence.
Qed.

(* reading an option that exists never fails in a well-formed store *)
Lemma get_value_total s k o : wf_store s -> dget (options s) k = Some o ->
  exists v, get_value_for s k = Ok v.
Proof.
  intros W H. unfold get_value_for, resolve_option. rewrite H.
  destruct (dget (augments s) k) eqn:A; [eauto|].
  destruct (oyield o) eqn:Y; [|eauto].
  pose proof (wf_yield s W k o H Y) as P. destruct (wf_parent s W k o H P) as [_ R].
  destruct (dget (options s) (as_root k)); [|congruence]. rewrite P. eauto.
Qed.

(* --------------------------------------------------------------- set_option *)
Lemma set_option_inv s k v s' ch : set_option s k v = Ok (s', ch) ->
  exists rk o nv, resolve_option s k = Some (rk, o) /\ validate (okind o) v = Ok nv /\
    ((dget (options s) k = Some o /\ rk = k /\
      s' = set_options s (dset (options s) k (mkOpt (okind o) nv false (oparent o))) /\
      ch = (negb (pv_eqb (oval o) nv) || oyield o)) \/
     (dget (options s) k = None /\
      s' = set_augments s (dset (augments s) k nv) /\
      ch = (negb (pv_eqb (match dget (augments s) k with Some a => a | None => oval o end) nv)
            || negb (dmem (augments s) k)))).
Proof.
  unfold set_option. destruct (resolve_option s k) as [[rk o]|] eqn:R; [|discriminate].
  intros H. apply bind_ok in H. destruct H as [nv [V H]].
  exists rk, o, nv. split; [reflexivity|]. split; [exact V|].
  unfold resolve_option in R. destruct (dget (options s) k) eqn:E.
  - injection R as <- <-. injection H as <- <-. left. auto.
  - injection H as <- <-. right. auto.
Qed.

Lemma resolve_option_global s k rk o : wf_store s ->
  resolve_option s k = Some (rk, o) -> dget (options s) k = None ->
  rk = no_sub k /\ dget (options s) (no_sub k) = Some o /\ ksub k <> None.
Proof.
  intros W R E. unfold resolve_option in R. rewrite E in R.
  unfold is_project_option in R. apply dmem_false in E as E'. rewrite E' in R. cbn in R.
  destruct (dget (options s) (no_sub k)) eqn:G; [|discriminate]. injection R as <- <-.
  split; [reflexivity|]. split; [reflexivity|].
  intros N. rewrite (no_sub_of_none k N) in G. congruence.
Qed.

Lemma set_option_wf s k v s' ch : wf_store s -> set_option s k v = Ok (s', ch) -> wf_store s'.
Proof.
  intros W H. apply set_option_inv in H. destruct H as [rk [o [nv [R [V [[E [-> [-> _]]] | [E [-> _]]]]]]]].
  - (* value written in place *)
    assert (SV : satisfies (okind o) nv = true) by (eapply Options.Proofs.validate_sound; exact V).
    constructor; cbn [options augments set_options set_augments].
    + rewrite keys_dset_in by congruence. apply (wf_nodup s W).
    + apply (wf_nodup_aug s W).
    + intros q oq. rewrite dget_dset. destruct (key_eqb q k); [intros H; injection H as <-; exact SV | apply (wf_vals s W)].
    + intros n. unfold dmem. rewrite dget_dset. destruct (key_eqb (mkKey None n) k) eqn:Q.
      * apply key_eqb_eq in Q. subst k. pose proof (wf_glob s W n) as G. unfold dmem in G. rewrite E in G. exact G.
      * apply (wf_glob s W).
    + intros n oq. rewrite dget_dset. destruct (key_eqb (mkKey None n) k) eqn:Q.
      * apply key_eqb_eq in Q. subst k. intros H; injection H as <-. cbn.
        split; [reflexivity | apply (wf_glob_plain s W n o E)].
      * apply (wf_glob_plain s W).
    + intros q Hs. rewrite dget_dset. destruct (key_eqb q k) eqn:Q.
      * apply key_eqb_eq in Q. subst q. intros _. apply (wf_proj_names s W k Hs). congruence.
      * apply (wf_proj_names s W q Hs).
    + intros q oq. rewrite dget_dset. destruct (key_eqb q k); [intros H; injection H as <-; cbn; discriminate | apply (wf_yield s W)].
    + intros q oq. rewrite dget_dset. destruct (key_eqb q k) eqn:Q.
      * apply key_eqb_eq in Q. subst q. intros H; injection H as <-. cbn. intros P.
        destruct (wf_parent s W k o E P) as [T Rr]. split; [exact T|].
        rewrite dget_dset. destruct (key_eqb (as_root k) k); [discriminate | exact Rr].
      * intros H P. destruct (wf_parent s W q oq H P) as [T Rr]. split; [exact T|].
        rewrite dget_dset. destruct (key_eqb (as_root q) k); [discriminate | exact Rr].
    + intros q vq A. destruct (wf_aug s W q vq A) as [Hs [g [G SG]]]. split; [exact Hs|].
      rewrite dget_dset. destruct (key_eqb (no_sub q) k) eqn:Q.
      * apply key_eqb_eq in Q. subst k. rewrite G in E. injection E as <-. eexists; split; [reflexivity | exact SG].
      * eauto.
  - (* augment *)
    destruct (resolve_option_global s k rk o W R E) as [-> [G Hs]].
    assert (SV : satisfies (okind o) nv = true) by (eapply Options.Proofs.validate_sound; exact V).
    constructor; cbn [options augments set_options set_augments]; try apply W.
    + apply nodup_dset. apply (wf_nodup_aug s W).
    + intros q vq. rewrite dget_dset. destruct (key_eqb q k) eqn:Q.
      * apply key_eqb_eq in Q. subst q. intros H; injection H as <-. split; [exact Hs|]. eauto.
      * apply (wf_aug s W).
Qed.

(* set_option touches at most the entry of its own key *)
Lemma set_option_frame s k v s' ch : set_option s k v = Ok (s', ch) ->
  forall q, q <> k -> dget (options s') q = dget (options s) q /\ dget (augments s') q = dget (augments s) q.
Proof.
  intros H q N. apply set_option_inv in H. destruct H as [rk [o [nv [R [V [[E [-> [-> _]]] | [E [-> _]]]]]]]]; cbn.
  - rewrite dget_dset_other by exact N. auto.
  - rewrite dget_dset_other by exact N. auto.
Qed.
Lemma set_option_keys s k v s' ch : set_option s k v = Ok (s', ch) ->
  forall q, dmem (options s') q = dmem (options s) q.
Proof.
  intros H q. apply set_option_inv in H. destruct H as [rk [o [nv [R [V [[E [-> [-> _]]] | [E [-> _]]]]]]]]; cbn; [|reflexivity].
  unfold dmem. rewrite dget_dset. destruct (key_eqb q k) eqn:Q; [|reflexivity].
  apply key_eqb_eq in Q. subst. rewrite E. reflexivity.
Qed.

(* the value a successful set_option gives its key *)
Lemma set_option_value s k v s' ch : wf_store s -> set_option s k v = Ok (s', ch) ->
  exists rk o nv, resolve_option s k = Some (rk, o) /\ validate (okind o) v = Ok nv /\
                  get_value_for s' k = Ok nv.
Proof.
  intros W H. pose proof (set_option_wf s k v s' ch W H) as W'.
  apply set_option_inv in H. destruct H as [rk [o [nv [R [V [[E [-> [-> _]]] | [E [-> _]]]]]]]].
  - exists k, o, nv. split; [exact R|]. split; [exact V|].
    unfold get_value_for, resolve_option; cbn. rewrite dget_dset_same. cbn.
    destruct (dget (augments s) k) eqn:A; [|reflexivity].
    rewrite (wf_aug_not_option s k p W A) in E. discriminate.
  - exists rk, o, nv. split; [exact R|]. split; [exact V|].
    destruct (resolve_option_global s k rk o W R E) as [-> [G Hs]].
    unfold get_value_for, resolve_option, is_project_option; cbn. rewrite E.
    apply dmem_false in E. rewrite E. cbn. rewrite G. rewrite dget_dset_same. reflexivity.
Qed.

(* ---------------------------------------------------------- set_user_option *)
(* the store key a command-line key writes to *)
Definition target (s : store) (k : key) : key :=
  if dmem (options s) k then k
  else if negb (sub_none k) && dmem (options s) (no_sub k) then k
  else as_root k.

Lemma set_user_option_inv s k v s' ch : set_user_option s k v = Ok (s', ch) ->
  set_option s (target s k) v = Ok (s', ch).
Proof.
  unfold set_user_option, target. destruct (dmem (options s) k); [auto|].
  destruct (negb (sub_none k) && dmem (options s) (no_sub k)); [auto|].
  destruct (negb (in_model_name (kname k))); [discriminate|].
  destruct (sub_none k); [auto | discriminate].
Qed.
Lemma set_user_option_wf s k v s' ch : wf_store s -> set_user_option s k v = Ok (s', ch) -> wf_store s'.
Proof. intros W H. eapply set_option_wf; [exact W | apply set_user_option_inv; exact H]. Qed.
Lemma set_user_option_frame s k v s' ch : set_user_option s k v = Ok (s', ch) ->
  forall q, q <> target s k -> dget (options s') q = dget (options s) q /\ dget (augments s') q = dget (augments s) q.
Proof. intros H. eapply set_option_frame. apply set_user_option_inv. exact H. Qed.
Lemma set_user_option_keys s k v s' ch : set_user_option s k v = Ok (s', ch) ->
  forall q, dmem (options s') q = dmem (options s) q.
Proof. intros H. eapply set_option_keys. apply set_user_option_inv. exact H. Qed.
Lemma target_cases s k : target s k = k \/ target s k = as_root k.
Proof.
  unfold target. destruct (dmem (options s) k); [auto|].
  destruct (negb (sub_none k) && dmem (options s) (no_sub k)); auto.
Qed.

(* the keys get_value_for looks at *)
Definition reads (q : key) : list key := [q; no_sub q; as_root q].

Lemma get_value_for_ext s s' q :
  (forall r, In r (reads q) -> dget (options s') r = dget (options s) r) ->
  dget (augments s') q = dget (augments s) q ->
  get_value_for s' q = get_value_for s q.
Proof.
  intros H A. unfold get_value_for, resolve_option, is_project_option, dmem.
  rewrite (H q) by (cbn; auto). rewrite (H (no_sub q)) by (cbn; auto).
  rewrite (H (as_root q)) by (cbn; auto). rewrite A. reflexivity.
Qed.

(* -------------------------------------------- set_from_configure_command *)
Definition touched_by (s : store) (k : key) : list key := [k; as_root k].

Lemma sfcc_wf : forall args s dirty s' d,
  wf_store s -> set_from_configure_command s args dirty = Ok (s', d) -> wf_store s'.
Proof.
  induction args as [|[k [v|]] r IH]; intros s dirty s' d W H; cbn in H.
  - injection H as <- _. exact W.
  - apply bind_ok in H. destruct H as [[s1 c1] [S H]]. cbn in H.
    eapply IH; [|exact H]. eapply set_user_option_wf; eassumption.
  - destruct (dmem (augments s) k) eqn:A.
    + eapply IH; [|exact H]. constructor; cbn [options augments set_options set_augments]; try apply W.
      * apply nodup_dpop. apply (wf_nodup_aug s W).
      * intros q vq Hq. destruct (key_dec q k) as [->|N].
        -- rewrite dget_dpop_same in Hq by apply (wf_nodup_aug s W). discriminate.
        -- rewrite dget_dpop_other in Hq by exact N. apply (wf_aug s W q vq Hq).
    + destruct (dget (options s) k) as [o|] eqn:E; [|discriminate].
      eapply IH; [|exact H]. constructor; cbn [options augments set_options set_augments]; try apply W.
      * rewrite keys_dset_in by congruence. apply (wf_nodup s W).
      * intros q oq. rewrite dget_dset. destruct (key_eqb q k); [intros Hq; injection Hq as <-; cbn; apply (wf_vals s W k o E) | apply (wf_vals s W)].
      * intros n. unfold dmem. rewrite dget_dset. destruct (key_eqb (mkKey None n) k) eqn:Q.
        -- apply key_eqb_eq in Q. subst k. pose proof (wf_glob s W n) as G. unfold dmem in G. rewrite E in G. exact G.
        -- apply (wf_glob s W).
      * intros n oq. rewrite dget_dset. destruct (key_eqb (mkKey None n) k) eqn:Q.
        -- apply key_eqb_eq in Q. subst k. intros Hq; injection Hq as <-. cbn.
           destruct (wf_glob_plain s W n o E) as [_ P]. rewrite P. auto.
        -- apply (wf_glob_plain s W).
      * intros q Hs. rewrite dget_dset. destruct (key_eqb q k) eqn:Q.
        -- apply key_eqb_eq in Q. subst q. intros _. apply (wf_proj_names s W k Hs). congruence.
        -- apply (wf_proj_names s W q Hs).
      * intros q oq. rewrite dget_dset. destruct (key_eqb q k); [intros Hq; injection Hq as <-; cbn; auto | apply (wf_yield s W)].
      * intros q oq. rewrite dget_dset. destruct (key_eqb q k) eqn:Q.
        -- apply key_eqb_eq in Q. subst q. intros Hq; injection Hq as <-. cbn. intros P.
           destruct (wf_parent s W k o E P) as [T Rr]. split; [exact T|].
           rewrite dget_dset. destruct (key_eqb (as_root k) k); [discriminate | exact Rr].
        -- intros Hq P. destruct (wf_parent s W q oq Hq P) as [T Rr]. split; [exact T|].
           rewrite dget_dset. destruct (key_eqb (as_root q) k); [discriminate | exact Rr].
      * intros q vq Aq. destruct (wf_aug s W q vq Aq) as [Hs [g [G SG]]]. split; [exact Hs|].
        rewrite dget_dset. destruct (key_eqb (no_sub q) k) eqn:Q.
        -- apply key_eqb_eq in Q. subst k. rewrite G in E. injection E as <-. eexists; split; [reflexivity | exact SG].
        -- eauto.
Qed.

(* frame: an entry is untouched unless an argument names it or its root alias *)
Lemma sfcc_frame : forall args s dirty s' d,
  set_from_configure_command s args dirty = Ok (s', d) ->
  forall q, (forall k, In k (map fst args) -> q <> k /\ q <> as_root k) ->
  dget (options s') q = dget (options s) q /\ dget (augments s') q = dget (augments s) q.
Proof.
  induction args as [|[k [v|]] r IH]; intros s dirty s' d H q N; cbn in H.
  - injection H as <- _. auto.
  - apply bind_ok in H. destruct H as [[s1 c1] [S H]]. cbn in H.
    destruct (IH _ _ _ _ H q) as [A B]; [intros k' I; apply N; right; exact I|].
    destruct (N k (or_introl eq_refl)) as [N1 N2].
    destruct (set_user_option_frame s k (PStr v) s1 c1 S q) as [C D].
    { destruct (target_cases s k) as [->| ->]; assumption. }
    split; congruence.
  - destruct (N k (or_introl eq_refl)) as [N1 N2].
    destruct (dmem (augments s) k).
    + destruct (IH _ _ _ _ H q) as [A B]; [intros k' I; apply N; right; exact I|]. cbn in A, B.
      rewrite dget_dpop_other in B by exact N1. auto.
    + destruct (dget (options s) k) as [o|]; [|discriminate].
      destruct (IH _ _ _ _ H q) as [A B]; [intros k' I; apply N; right; exact I|]. cbn in A, B.
      rewrite dget_dset_other in A by exact N1. auto.
Qed.

(* the set of option keys never changes in a configure command *)
Lemma sfcc_keys : forall args s dirty s' d,
  set_from_configure_command s args dirty = Ok (s', d) -> forall q, dmem (options s') q = dmem (options s) q.
Proof.
  induction args as [|[k [v|]] r IH]; intros s dirty s' d H q; cbn in H.
  - injection H as <- _. reflexivity.
  - apply bind_ok in H. destruct H as [[s1 c1] [S H]]. cbn in H.
    rewrite (IH _ _ _ _ H q). eapply set_user_option_keys. exact S.
  - destruct (dmem (augments s) k).
    + rewrite (IH _ _ _ _ H q). reflexivity.
    + destruct (dget (options s) k) as [o|] eqn:E; [|discriminate].
      rewrite (IH _ _ _ _ H q). cbn. unfold dmem. rewrite dget_dset.
      destruct (key_eqb q k) eqn:Q; [|reflexivity]. apply key_eqb_eq in Q. subst. rewrite E. reflexivity.
Qed.

(* ----------------------------------------------------- replacing one option object *)
Lemma key_none_neq n k : ksub k <> None -> mkKey None n <> k.
Proof. intros H E. subst k. apply H. reflexivity. Qed.

Lemma wf_replace s k o o' : wf_store s -> dget (options s) k = Some o -> ksub k <> None ->
  satisfies (okind o') (oval o') = true ->
  (oyield o' = true -> oparent o' = true) ->
  (oparent o' = true -> oparent o = true) ->
  wf_store (set_options s (dset (options s) k o')).
Proof.
  intros W E Hk SV Y P. constructor; cbn [options augments set_options set_augments]; try apply W.
  - rewrite keys_dset_in by congruence. apply (wf_nodup s W).
  - intros q oq. rewrite dget_dset. destruct (key_eqb q k); [intros H; injection H as <-; exact SV | apply (wf_vals s W)].
  - intros n. unfold dmem. rewrite dget_dset_other by (apply key_none_neq; exact Hk). apply (wf_glob s W).
  - intros n oq. rewrite dget_dset_other by (apply key_none_neq; exact Hk). apply (wf_glob_plain s W).
  - intros q Hs. rewrite dget_dset. destruct (key_eqb q k) eqn:Q.
    + apply key_eqb_eq in Q. subst q. intros _. apply (wf_proj_names s W k Hs). congruence.
    + apply (wf_proj_names s W q Hs).
  - intros q oq. rewrite dget_dset. destruct (key_eqb q k); [intros H; injection H as <-; exact Y | apply (wf_yield s W)].
  - intros q oq. rewrite dget_dset. destruct (key_eqb q k) eqn:Q.
    + apply key_eqb_eq in Q. subst q. intros H; injection H as <-. intros P'.
      destruct (wf_parent s W k o E (P P')) as [T Rr]. split; [exact T|].
      rewrite dget_dset. destruct (key_eqb (as_root k) k); [discriminate | exact Rr].
    + intros H P'. destruct (wf_parent s W q oq H P') as [T Rr]. split; [exact T|].
      rewrite dget_dset. destruct (key_eqb (as_root q) k); [discriminate | exact Rr].
  - intros q vq A. destruct (wf_aug s W q vq A) as [Hs [g [G SG]]]. split; [exact Hs|].
    rewrite dget_dset_other by (apply key_none_neq; exact Hk). eauto.
Qed.

(* ------------------------------------------------------------- option files *)
Definition decl_ok (d : decl) : Prop :=
  satisfies (dkind d) (ddef d) = true /\ is_global (dname d) = false.
Definition wf_decls (ds : list decl) : Prop :=
  NoDup (map dname ds) /\ Forall decl_ok ds.

Lemma sub_truthy_root_neq k : sub_truthy k = true -> as_root k <> k.
Proof. destruct k as [[[|c r]|] n]; cbn; intros H E; try discriminate. Qed.

Lemma add_project_option_wf s k d : wf_store s -> dget (options s) k = None -> ksub k <> None ->
  decl_ok d -> kname k = dname d -> wf_store (add_project_option s k d).
Proof.
  intros W E Hk [SV NG] Nm. unfold add_project_option.
  set (linked := dyield d && sub_truthy k && match dget (options s) (as_root k) with
                                              | Some p => same_class (okind p) (dkind d) | None => false end).
  constructor; cbn [options augments set_options set_augments]; try apply W.
  - apply nodup_dset. apply (wf_nodup s W).
  - intros q oq. rewrite dget_dset. destruct (key_eqb q k); [intros H; injection H as <-; exact SV | apply (wf_vals s W)].
  - intros n. unfold dmem. rewrite dget_dset_other by (apply key_none_neq; exact Hk). apply (wf_glob s W).
  - intros n oq. rewrite dget_dset_other by (apply key_none_neq; exact Hk). apply (wf_glob_plain s W).
  - intros q Hs. rewrite dget_dset. destruct (key_eqb q k) eqn:Q.
    + apply key_eqb_eq in Q. subst q. intros _. rewrite Nm. exact NG.
    + apply (wf_proj_names s W q Hs).
  - intros q oq. rewrite dget_dset. destruct (key_eqb q k); [intros H; injection H as <-; cbn; auto | apply (wf_yield s W)].
  - intros q oq. rewrite dget_dset. destruct (key_eqb q k) eqn:Q.
    + apply key_eqb_eq in Q. subst q. intros H; injection H as <-. cbn [oparent]. intros L.
      unfold linked in L. apply andb_true_iff in L. destruct L as [L1 L2]. apply andb_true_iff in L1. destruct L1 as [_ T].
      split; [exact T|]. rewrite dget_dset_other by (apply sub_truthy_root_neq; exact T).
      destruct (dget (options s) (as_root k)); [congruence | discriminate].
    + intros H P'. destruct (wf_parent s W q oq H P') as [T Rr]. split; [exact T|].
      rewrite dget_dset. destruct (key_eqb (as_root q) k); [discriminate | exact Rr].
  - intros q vq A. destruct (wf_aug s W q vq A) as [Hs [g [G SG]]]. split; [exact Hs|].
    rewrite dget_dset_other by (apply key_none_neq; exact Hk). eauto.
Qed.

Lemma update_decls_wf sub : forall ds s s', wf_store s -> Forall decl_ok ds ->
  update_decls s sub ds = Ok s' -> wf_store s'.
Proof.
  induction ds as [|d r IH]; intros s s' W F H; cbn [update_decls] in H.
  - injection H as <-. exact W.
  - inversion F as [|? ? Fd Fr]; subst.
    destruct (dget (options s) (mkKey (Some sub) (dname d))) as [old|] eqn:E.
    + destruct (negb (same_class (okind old) (dkind d))).
      * apply bind_ok in H. destruct H as [[s1 c1] [S H]]. cbn in H.
        eapply IH; [|exact Fr|exact H]. eapply set_option_wf; eassumption.
      * destruct (choices_differ (okind old) (dkind d)); [|eapply IH; eassumption].
        eapply IH; [|exact Fr|exact H].
        eapply wf_replace; [exact W | exact E | cbn; discriminate | | | ]; cbn [okind oval oyield oparent].
        -- destruct (validate (dkind d) (oval old)) eqn:V; [eapply Options.Proofs.validate_sound; exact V | apply Fd].
        -- apply (wf_yield s W _ _ E).
        -- auto.
    + eapply IH; [|exact Fr|exact H]. apply add_project_option_wf; auto. cbn; discriminate.
Qed.

Lemma dget_map_vals {V} (f : key -> V -> V) (l : list (key * V)) q :
  dget (map (fun kv => (fst kv, f (fst kv) (snd kv))) l) q = option_map (f q) (dget l q).
Proof.
  induction l as [|[k v] l IH]; cbn; [reflexivity|].
  destruct (key_eqb q k) eqn:E; [apply key_eqb_eq in E; subst; reflexivity | exact IH].
Qed.
Lemma keys_map_vals {V} (f : key -> V -> V) (l : list (key * V)) :
  keys (map (fun kv => (fst kv, f (fst kv) (snd kv))) l) = keys l.
Proof. unfold keys. rewrite map_map. reflexivity. Qed.

(* removing one project option (and unlinking its children when it is a top-level one) *)
Definition remove_key (s : store) (sub : str) (k : key) : store :=
  let l := dpop (options s) k in
  set_options s (match sub with [] => unlink_children k l | _ => l end).

Lemma unlink1_cases root k o : unlink1 root k o = o \/
  (oparent o = true /\ sub_truthy k = true /\ as_root k = root /\ unlink1 root k o = mkOpt (okind o) (oval o) false false).
Proof.
  unfold unlink1. destruct (oparent o) eqn:P; cbn; [|auto]. destruct (sub_truthy k) eqn:T; cbn; [|auto].
  destruct (key_eqb (as_root k) root) eqn:E; [|auto]. right. apply key_eqb_eq in E. auto.
Qed.

Lemma remove_key_wf s sub k : wf_store s -> ksub k = Some sub -> wf_store (remove_key s sub k).
Proof.
  intros W Hk. unfold remove_key.
  assert (Hn : ksub k <> None) by congruence.
  assert (ND : NoDup (keys (dpop (options s) k))) by (apply nodup_dpop, (wf_nodup s W)).
  assert (GP : forall q, q <> k -> dget (dpop (options s) k) q = dget (options s) q) by (intros; apply dget_dpop_other; auto).
  destruct sub as [|c sub'].
  - (* top-level option: children are unlinked *)
    constructor; cbn [options augments set_options set_augments]; try apply W; unfold unlink_children.
    + rewrite keys_map_vals. exact ND.
    + intros q oq. rewrite dget_map_vals. destruct (dget (dpop (options s) k) q) as [o|] eqn:E; [|discriminate].
      cbn. intros H; injection H as <-. destruct (key_dec q k) as [->|N].
      * rewrite dget_dpop_same in E by apply (wf_nodup s W). discriminate.
      * rewrite GP in E by exact N. destruct (unlink1_cases k q o) as [->|[_ [_ [_ ->]]]]; cbn; apply (wf_vals s W q o E).
    + intros n. unfold dmem. rewrite dget_map_vals. rewrite GP by (apply key_none_neq; exact Hn).
      pose proof (wf_glob s W n) as G. unfold dmem in G. destruct (dget (options s) (mkKey None n)); exact G.
    + intros n oq. rewrite dget_map_vals. rewrite GP by (apply key_none_neq; exact Hn).
      destruct (dget (options s) (mkKey None n)) as [o|] eqn:E; [|discriminate]. cbn. intros H; injection H as <-.
      destruct (wf_glob_plain s W n o E) as [Y P]. unfold unlink1. rewrite P. cbn. auto.
    + intros q Hs. rewrite dget_map_vals. destruct (key_dec q k) as [->|N].
      * rewrite dget_dpop_same by apply (wf_nodup s W). cbn. congruence.
      * rewrite GP by exact N. intros H. apply (wf_proj_names s W q Hs). destruct (dget (options s) q); [congruence | cbn in H; congruence].
    + intros q oq. rewrite dget_map_vals. destruct (key_dec q k) as [->|N].
      * rewrite dget_dpop_same by apply (wf_nodup s W). discriminate.
      * rewrite GP by exact N. destruct (dget (options s) q) as [o|] eqn:E; [|discriminate]. cbn. intros H; injection H as <-.
        destruct (unlink1_cases k q o) as [->|[_ [_ [_ ->]]]]; cbn; [apply (wf_yield s W q o E) | discriminate].
    + intros q oq. rewrite dget_map_vals. destruct (key_dec q k) as [->|N].
      * rewrite dget_dpop_same by apply (wf_nodup s W). discriminate.
      * rewrite GP by exact N. destruct (dget (options s) q) as [o|] eqn:E; [|discriminate]. cbn. intros H; injection H as <-.
        destruct (unlink1_cases k q o) as [U|[_ [_ [_ U]]]]; rewrite U; cbn; [|discriminate].
        intros P. destruct (wf_parent s W q o E P) as [T Rr]. split; [exact T|].
        rewrite dget_map_vals. destruct (key_dec (as_root q) k) as [A|A].
        -- exfalso. unfold unlink1 in U. rewrite P, T, A, key_eqb_refl in U. cbn in U.
           rewrite <- U in P. cbn in P. discriminate.
        -- rewrite GP by exact A. destruct (dget (options s) (as_root q)); [cbn; congruence | congruence].
    + intros q vq A. destruct (wf_aug s W q vq A) as [Hs [g [G SG]]]. split; [exact Hs|].
      rewrite dget_map_vals. rewrite GP by (apply key_none_neq; exact Hn). rewrite G. cbn.
      destruct (wf_glob_plain s W _ g G) as [_ P]. unfold unlink1. rewrite P. cbn. eauto.
  - (* an option of the subproject *)
    constructor; cbn [options augments set_options set_augments]; try apply W.
    + exact ND.
    + intros q oq E. destruct (key_dec q k) as [->|N].
      * rewrite dget_dpop_same in E by apply (wf_nodup s W). discriminate.
      * rewrite GP in E by exact N. apply (wf_vals s W q oq E).
    + intros n. unfold dmem. rewrite GP by (apply key_none_neq; exact Hn). apply (wf_glob s W n).
    + intros n oq. rewrite GP by (apply key_none_neq; exact Hn). apply (wf_glob_plain s W n).
    + intros q Hs. destruct (key_dec q k) as [->|N].
      * rewrite dget_dpop_same by apply (wf_nodup s W). congruence.
      * rewrite GP by exact N. apply (wf_proj_names s W q Hs).
    + intros q oq E. destruct (key_dec q k) as [->|N].
      * rewrite dget_dpop_same in E by apply (wf_nodup s W). discriminate.
      * rewrite GP in E by exact N. apply (wf_yield s W q oq E).
    + intros q oq E P. destruct (key_dec q k) as [->|N].
      * rewrite dget_dpop_same in E by apply (wf_nodup s W). discriminate.
      * rewrite GP in E by exact N. destruct (wf_parent s W q oq E P) as [T Rr]. split; [exact T|].
        rewrite GP; [exact Rr|]. intros A. rewrite <- A in Hk. cbn in Hk. discriminate.
    + intros q vq A. destruct (wf_aug s W q vq A) as [Hs [g [G SG]]]. split; [exact Hs|].
      rewrite GP by (apply key_none_neq; exact Hn). eauto.
Qed.

Lemma remove_undeclared_wf ds sub : forall todo s, wf_store s -> wf_store (remove_undeclared ds sub todo s).
Proof.
  induction todo as [|[k o] r IH]; intros s W; cbn [remove_undeclared]; [exact W|].
  destruct (sub_is k sub && negb (decl_mem (kname k) ds)) eqn:C; [|apply IH; exact W].
  apply IH. apply andb_true_iff in C. destruct C as [C _]. unfold sub_is in C. apply osub_eqb_eq in C.
  apply (remove_key_wf s sub k W C).
Qed.

Lemma update_project_options_wf s ds sub s' : wf_store s -> Forall decl_ok ds ->
  update_project_options s ds sub = Ok s' -> wf_store s'.
Proof.
  intros W F H. unfold update_project_options in H. apply bind_ok in H. destruct H as [s1 [U H]].
  injection H as <-. apply remove_undeclared_wf. eapply update_decls_wf; eassumption.
Qed.

(* ------------------------------------------------- first-invocation passes *)
Lemma top_defaults_wf : forall l s pend s' pend', wf_store s ->
  top_defaults s pend l = Ok (s', pend') -> wf_store s'.
Proof.
  induction l as [|[k v] r IH]; intros s pend s' pend' W H; cbn [top_defaults] in H.
  - injection H as <- _. exact W.
  - destruct (sub_truthy k); [eapply IH; eassumption|].
    apply bind_ok in H. destruct H as [[s1 c1] [S H]]. cbn in H.
    eapply IH; [|exact H]. eapply set_user_option_wf; eassumption.
Qed.
Lemma top_cmdline_wf : forall l s s', wf_store s -> top_cmdline s l = Ok s' -> wf_store s'.
Proof.
  induction l as [|[k v] r IH]; intros s s' W H; cbn [top_cmdline] in H.
  - injection H as <-. exact W.
  - destruct (sub_truthy k); [eapply IH; eassumption|].
    apply bind_ok in H. destruct H as [[s1 c1] [S H]]. cbn in H.
    eapply IH; [|exact H]. eapply set_user_option_wf; eassumption.
Qed.
Lemma init_top_wf s pd cmdl s' pend : wf_store s -> init_top s pd cmdl = Ok (s', pend) -> wf_store s'.
Proof.
  intros W H. unfold init_top in H. apply bind_ok in H. destruct H as [[s1 p1] [A H]].
  apply bind_ok in H. destruct H as [s2 [B H]]. injection H as <- _.
  eapply top_cmdline_wf; [|exact B]. eapply top_defaults_wf; eassumption.
Qed.
Lemma sub_apply_wf : forall l s s', wf_store s -> sub_apply s l = Ok s' -> wf_store s'.
Proof.
  induction l as [|[k v] r IH]; intros s s' W H; cbn [sub_apply] in H.
  - injection H as <-. exact W.
  - destruct (dmem (augments s) k); [eapply IH; eassumption|].
    apply bind_ok in H. destruct H as [[s1 c1] [S H]]. cbn in H.
    eapply IH; [|exact H]. eapply set_user_option_wf; eassumption.
Qed.
Lemma init_sub_wf s sub a b c d s' : wf_store s -> init_sub s sub a b c d = Ok s' -> wf_store s'.
Proof.
  intros W H. unfold init_sub in H. apply bind_ok in H. destruct H as [o1 [_ H]].
  apply bind_ok in H. destruct H as [o4 [_ H]]. eapply sub_apply_wf; eassumption.
Qed.

Definition wf_files (fs : files) : Prop := wf_decls (ftop fs) /\ wf_decls (fsub fs).

Lemma run_build_wf pj fs first s udo c late : wf_store s -> wf_files fs ->
  run_build pj fs first s udo = Ok (c, late) -> wf_store (cstore c) /\ seen c = fs.
Proof.
  intros W [[_ Ft] [_ Fs]] H. unfold run_build in H.
  apply bind_ok in H. destruct H as [s1 [U1 H]].
  apply bind_ok in H. destruct H as [[s2 pend] [I1 H]].
  apply bind_ok in H. destruct H as [s3 [U2 H]].
  apply bind_ok in H. destruct H as [s4 [I2 H]].
  apply bind_ok in H. destruct H as [lt [_ H]].
  apply bind_ok in H. destruct H as [bm [_ H]].
  destruct bm; [discriminate|]. injection H as <- _. cbn. split; [|reflexivity].
  assert (W1 : wf_store s1). { eapply update_project_options_wf; [exact W | exact Ft | exact U1]. }
  assert (W2 : wf_store s2).
  { destruct first; [eapply init_top_wf; eassumption | injection I1 as <- _; exact W1]. }
  cbn [fst snd] in U2, I2.
  assert (W3 : wf_store s3). { eapply update_project_options_wf; [exact W2 | exact Fs | exact U2]. }
  destruct first; [eapply init_sub_wf; eassumption | injection I2 as <-; exact W3].
Qed.

(* -------------------------------------------------------- the build directory *)
Record wf_dir (b : bdir) : Prop := mkWfDir {
  wfd_cd : forall c, cd b = Some c -> wf_store (cstore c);
  wfd_intro : forall s, intro b = Some s -> wf_store s;
  wfd_cl : cd b <> None -> cl b <> None }.

Lemma wf_empty_dir : wf_dir empty_dir.
Proof. constructor; cbn; congruence. Qed.

Lemma wf_dir_mk (c : option cdata) (l : option sdict) (i : option store) :
  match c with Some c0 => wf_store (cstore c0) | None => True end ->
  match i with Some s => wf_store s | None => True end ->
  (c <> None -> l <> None) -> wf_dir (mkB c l i).
Proof.
  intros A B C. constructor; cbn.
  - intros c0 E. subst c. exact A.
  - intros s E. subst i. exact B.
  - exact C.
Qed.
Lemma wf_dir_cd b : wf_dir b -> match cd b with Some c0 => wf_store (cstore c0) | None => True end.
Proof. intros W. destruct (cd b) eqn:E; [apply (wfd_cd b W); exact E | exact I]. Qed.
Lemma wf_dir_in b : wf_dir b -> match intro b with Some s => wf_store s | None => True end.
Proof. intros W. destruct (intro b) eqn:E; [apply (wfd_intro b W); exact E | exact I]. Qed.

Lemma first_configure_wf pj fs b d b' o : wf_dir b -> cd b = None -> wf_files fs ->
  first_configure pj fs b d = (b', o) -> wf_dir b'.
Proof.
  intros W N F H. unfold first_configure in H.
  destruct (run_build pj fs true init_store (dupdate (cl_or_empty b) d)) as [[c late]|e] eqn:R.
  - destruct (run_build_wf _ _ _ _ _ _ _ wf_init F R) as [Wc _].
    destruct (negb (check_unused (cstore c) (dupdate (cl_or_empty b) d))); [injection H as <- _; exact W|].
    destruct late; injection H as <- _; apply wf_dir_mk; cbn; auto; congruence.
  - injection H as <- _. exact W.
Qed.

Lemma reload_changed_wf c fs c1 : wf_store (cstore c) -> wf_files fs ->
  reload_changed c fs = Ok c1 -> wf_store (cstore c1) /\ seen c1 = fs.
Proof.
  intros W [[_ Ft] [_ Fs]] H. unfold reload_changed in H.
  apply bind_ok in H. destruct H as [s1 [A H]]. apply bind_ok in H. destruct H as [s2 [B H]].
  injection H as <-. cbn. split; [|reflexivity].
  assert (W1 : wf_store s1).
  { destruct (list_eqb_decl (ftop (seen c)) (ftop fs)); [injection A as <-; exact W | eapply update_project_options_wf; [exact W | exact Ft | exact A]]. }
  destruct (list_eqb_decl (fsub (seen c)) (fsub fs)); [injection B as <-; exact W1 | eapply update_project_options_wf; [exact W1 | exact Fs | exact B]].
Qed.

Lemma configure_wf fs b args b' o : wf_dir b -> wf_files fs -> configure fs b args = (b', o) -> wf_dir b'.
Proof.
  intros W F H. unfold configure in H. destruct (cd b) as [c|] eqn:C; [|injection H as <- _; exact W].
  destruct (reload_changed c fs) as [c1|e] eqn:R; [|injection H as <- _; exact W].
  destruct (reload_changed_wf c fs c1 (wfd_cd b W c C) F R) as [W1 _].
  destruct args as [|a r]; [injection H as <- _; exact W|].
  destruct (set_from_configure_command (cstore c1) (live_args (cstore c1) (cl_or_empty b) (a :: r)) false) as [[s2 dirty]|e] eqn:S; [|injection H as <- _; exact W].
  pose proof (sfcc_wf _ _ _ _ _ W1 S) as W2.
  destruct dirty; injection H as <- _; apply wf_dir_mk; cbn; auto; try congruence.
  - apply (wfd_cd b W c C).
  - apply (wf_dir_in b W).
Qed.

Lemma reconfigure_wf pj fs b d b' o : wf_dir b -> wf_files fs -> reconfigure pj fs b d = (b', o) -> wf_dir b'.
Proof.
  intros W F H. unfold reconfigure in H. destruct (cd b) as [c|] eqn:C; [|eapply first_configure_wf; eassumption].
  destruct (set_from_configure_command (cstore c) (some_vals d) false) as [[s1 dirty]|e] eqn:S; [|injection H as <- _; exact W].
  pose proof (sfcc_wf _ _ _ _ _ (wfd_cd b W c C) S) as W1.
  destruct (run_build pj fs false s1 (dupdate (cl_or_empty b) d)) as [[c2 late]|e] eqn:R; [|injection H as <- _; exact W].
  destruct (run_build_wf _ _ _ _ _ _ _ W1 F R) as [W2 _].
  destruct (negb (check_unused (cstore c2) d)); [injection H as <- _; exact W|].
  destruct late; injection H as <- _; apply wf_dir_mk; cbn; auto; try congruence.
  apply (wfd_cd b W c C).
Qed.

Lemma wipe_wf pj fs b d b' o : wf_dir b -> wf_files fs -> wipe pj fs b d = (b', o) -> wf_dir b'.
Proof.
  intros W F H. unfold wipe in H. eapply first_configure_wf; [| |exact F|exact H]; [|reflexivity].
  apply wf_dir_mk; cbn; auto; congruence.
Qed.

Lemma setup_wf pj fs b d b' o : wf_dir b -> wf_files fs -> setup pj fs b d = (b', o) -> wf_dir b'.
Proof.
  intros W F H. unfold setup in H. destruct (cd b) eqn:C.
  - destruct d; [injection H as <- _; exact W | eapply configure_wf; eassumption].
  - eapply first_configure_wf; eassumption.
Qed.

Definition wf_world (w : world) : Prop := wf_files (wfiles w) /\ wf_dir (wdir w).
Definition wf_cmd (c : cmd) : Prop := match c with Edit fs => wf_files fs | _ => True end.

Lemma step_wf pj w c : wf_world w -> wf_cmd c -> wf_world (fst (step pj w c)).
Proof.
  intros [F D] C. destruct c; cbn [step fst wfiles wdir]; unfold wf_world; cbn [wfiles wdir].
  - split; [exact F|]. destruct (setup pj (wfiles w) (wdir w) (dict_of d)) eqn:E. eapply setup_wf; eassumption.
  - split; [exact F|]. destruct (configure (wfiles w) (wdir w) (dict_of args)) eqn:E. eapply configure_wf; eassumption.
  - split; [exact F|]. destruct (reconfigure pj (wfiles w) (wdir w) (dict_of d)) eqn:E. eapply reconfigure_wf; eassumption.
  - split; [exact F|]. destruct (wipe pj (wfiles w) (wdir w) (dict_of d)) eqn:E. eapply wipe_wf; eassumption.
  - split; [exact C | exact D].
Qed.

(* every state of every history is well formed *)
Theorem history_wf pj : forall h w, wf_world w -> Forall wf_cmd h ->
  Forall (fun wo => wf_world (fst wo)) (run_hist pj w h).
Proof.
  induction h as [|c r IH]; intros w W F; cbn [run_hist]; [constructor|].
  inversion F as [|? ? Fc Fr]; subst. pose proof (step_wf pj w c W Fc) as W'.
  constructor; [exact W' | apply IH; assumption].
Qed.

Definition reachable (pj : projcfg) (w : world) : Prop :=
  exists fs0 h, wf_files fs0 /\ Forall wf_cmd h /\ w = final pj (mkW fs0 empty_dir) h.

Lemma final_wf pj : forall h w, wf_world w -> Forall wf_cmd h -> wf_world (final pj w h).
Proof.
  induction h as [|c r IH]; intros w W F; cbn; [exact W|].
  inversion F as [|? ? Fc Fr]; subst. apply IH; [apply step_wf; assumption | exact Fr].
Qed.
Theorem reachable_wf pj w : reachable pj w -> wf_world w.
Proof.
  intros [fs0 [h [F [C ->]]]]. apply final_wf; [|exact C]. split; [exact F | apply wf_empty_dir].
Qed.

(* in every reachable build directory every stored value is valid for its option and
   every option can be read (no AttributeError / KeyError) *)
Theorem reachable_values_valid pj w c k o : reachable pj w -> cd (wdir w) = Some c ->
  dget (options (cstore c)) k = Some o ->
  satisfies (okind o) (oval o) = true /\ exists v, get_value_for (cstore c) k = Ok v.
Proof.
  intros R C E. destruct (reachable_wf pj w R) as [_ D]. pose proof (wfd_cd _ D c C) as W.
  split; [apply (wf_vals _ W k o E) | apply (get_value_total _ k o W E)].
Qed.

(* =================================================================================
   Clause: a configure or reconfigure that fails leaves every persisted value as it was *)
Theorem configure_failed_identity fs b args b' : configure fs b args = (b', Failed) -> b' = b.
Proof.
  unfold configure. destruct (cd b) as [c|]; [|intros H; injection H as <-; reflexivity].
  destruct (reload_changed c fs) as [c1|]; [|intros H; injection H as <-; reflexivity].
  destruct args as [|a r]; [discriminate|].
  destruct (set_from_configure_command (cstore c1) (live_args (cstore c1) (cl_or_empty b) (a :: r)) false) as [[s2 [|]]|]; try discriminate.
  intros H; injection H as <-; reflexivity.
Qed.

Theorem setup_configured_failed_identity pj fs b d b' :
  cd b <> None -> setup pj fs b d = (b', Failed) -> b' = b.
Proof.
  unfold setup. destruct (cd b); [|congruence]. intros _. destruct d; [discriminate|]. apply configure_failed_identity.
Qed.

(* does this reconfigure reach the postconf scripts with the failing one registered? *)
Definition reconfigure_late (pj : projcfg) (fs : files) (b : bdir) (d : sdict) : bool :=
  match cd b with
  | None => false
  | Some c =>
      match set_from_configure_command (cstore c) (some_vals d) false with
      | Ok (s1, _) =>
          match run_build pj fs false s1 (dupdate (cl_or_empty b) d) with
          | Ok (c2, late) => late && check_unused (cstore c2) d
          | Err _ => false
          end
      | Err _ => false
      end
  end.

(* coredata.dat is always exactly as it was *)
Theorem reconfigure_failed_coredata pj fs b d b' :
  cd b <> None -> reconfigure pj fs b d = (b', Failed) -> cd b' = cd b.
Proof.
  unfold reconfigure. destruct (cd b) as [c|] eqn:C; [|congruence]. intros _.
  destruct (set_from_configure_command (cstore c) (some_vals d) false) as [[s1 dr]|]; [|intros H; injection H as <-; exact C].
  destruct (run_build pj fs false s1 (dupdate (cl_or_empty b) d)) as [[c2 late]|]; [|intros H; injection H as <-; exact C].
  destruct (negb (check_unused (cstore c2) d)); [intros H; injection H as <-; exact C|].
  destruct late; [|discriminate]. intros H; injection H as <-. reflexivity.
Qed.

(* ... and so is everything else unless the failure comes after cmd_line.txt was written *)
Theorem reconfigure_failed_identity_partial pj fs b d b' :
  cd b <> None -> reconfigure_late pj fs b d = false ->
  reconfigure pj fs b d = (b', Failed) -> b' = b.
Proof.
  unfold reconfigure, reconfigure_late. destruct (cd b) as [c|] eqn:C; [|congruence]. intros _.
  destruct (set_from_configure_command (cstore c) (some_vals d) false) as [[s1 dr]|]; [|intros _ H; injection H as <-; reflexivity].
  destruct (run_build pj fs false s1 (dupdate (cl_or_empty b) d)) as [[c2 late]|]; [|intros _ H; injection H as <-; reflexivity].
  destruct (check_unused (cstore c2) d); cbn [negb]; [|intros _ H; injection H as <-; reflexivity].
  destruct late; [discriminate|]. intros _ H. discriminate.
Qed.

(* a failing first configuration / --wipe never leaves a coredata.dat *)
Theorem first_configure_failed pj fs b d b' : cd b = None ->
  first_configure pj fs b d = (b', Failed) -> cd b' = None.
Proof.
  intros N. unfold first_configure.
  destruct (run_build pj fs true init_store (dupdate (cl_or_empty b) d)) as [[c late]|]; [|intros H; injection H as <-; exact N].
  destruct (negb (check_unused (cstore c) (dupdate (cl_or_empty b) d))); [intros H; injection H as <-; exact N|].
  destruct late; [|discriminate]. intros H; injection H as <-. reflexivity.
Qed.

(* =================================================================================
   Clause: --wipe re-derives the configuration from the recorded command lines plus
   current defaults: nothing else of the old build directory matters *)
Theorem wipe_depends_on_record_only pj fs b1 b2 d :
  cl b1 = cl b2 -> wipe pj fs b1 d = wipe pj fs b2 d.
Proof. intros E. unfold wipe. rewrite E. reflexivity. Qed.

Theorem wipe_is_fresh_setup pj fs b d :
  wipe pj fs b d = setup pj fs (mkB None (cl b) None) d.
Proof. reflexivity. Qed.

Theorem first_configure_record pj fs b d b' : first_configure pj fs b d = (b', Done) ->
  cl b' = Some (strip_vals (dupdate (cl_or_empty b) d)) /\ exists c, cd b' = Some c /\ intro b' = Some (cstore c) /\ seen c = fs /\
  run_build pj fs true init_store (dupdate (cl_or_empty b) d) = Ok (c, false).
Proof.
  unfold first_configure.
  destruct (run_build pj fs true init_store (dupdate (cl_or_empty b) d)) as [[c late]|] eqn:R; [|discriminate].
  destruct (negb (check_unused (cstore c) (dupdate (cl_or_empty b) d))); [discriminate|].
  destruct late; [discriminate|]. intros H; injection H as <-. cbn. split; [reflexivity|].
  exists c. repeat split; try reflexivity.
  unfold run_build in R.
  repeat (apply bind_ok in R; destruct R as [? [_ R]]). destruct x4; [discriminate|]. injection R as <- _. reflexivity.
Qed.

(* =================================================================================
   meson configure: what is persisted *)
Lemma list_str_eqb_eq a b : list_str_eqb a b = true -> a = b.
Proof.
  revert b; induction a as [|x a IH]; intros [|y b]; cbn; intros H; try discriminate; [reflexivity|].
  apply andb_true_iff in H. destruct H as [H1 H2]. apply str_eqb_eq in H1. f_equal; auto.
Qed.
Lemma list_str_eqb_refl a : list_str_eqb a a = true.
Proof. induction a as [|x a IH]; cbn; [reflexivity|]. rewrite str_eqb_refl. exact IH. Qed.

(* Python == on two values that are valid for the same option is identity *)
Lemma pv_eqb_sat k a b : satisfies k a = true -> satisfies k b = true -> pv_eqb a b = true -> a = b.
Proof.
  destruct k; try (destruct choices as [[|]|]); destruct a, b; cbn; intros A B E; try discriminate.
  all: try (apply str_eqb_eq in E; congruence).
  all: try (apply list_str_eqb_eq in E; congruence).
  - destruct b0, b; cbn in E; congruence.
  - apply Z.eqb_eq in E. congruence.
Qed.

Lemma dset_same {V} (d : list (key * V)) k v : dget d k = Some v -> dset d k v = d.
Proof.
  induction d as [|[k' v'] d IH]; cbn; [discriminate|].
  destruct (key_eqb k k') eqn:E; [intros H; injection H as ->; reflexivity | intros H; f_equal; auto].
Qed.

Lemma store_eta s : mkStore (options s) (augments s) = s.
Proof. destruct s; reflexivity. Qed.

Lemma set_option_clean s k v s' : wf_store s -> set_option s k v = Ok (s', false) -> s' = s.
Proof.
  intros W H. apply set_option_inv in H. destruct H as [rk [o [nv [R [V [[E [-> [-> C]]] | [E [-> C]]]]]]]].
  - symmetry in C. apply orb_false_iff in C. destruct C as [C Y]. apply negb_false_iff in C.
    assert (nv = oval o).
    { symmetry. eapply pv_eqb_sat; [apply (wf_vals s W k o E) | eapply Options.Proofs.validate_sound; exact V | exact C]. }
    subst nv. clear R V C W. destruct s as [op au]; unfold set_options; cbn [options augments] in *. f_equal.
    apply dset_same. rewrite E. f_equal. destruct o; cbn in *. subst. reflexivity.
  - symmetry in C. apply orb_false_iff in C. destruct C as [C M]. apply negb_false_iff in C, M.
    apply dmem_true in M. destruct (dget (augments s) k) as [a|] eqn:A; [|congruence].
    destruct (resolve_option_global s k rk o W R E) as [-> [G Hs]].
    destruct (wf_aug s W k a A) as [_ [g [G' SG]]]. rewrite G in G'. injection G' as <-.
    assert (nv = a).
    { symmetry. eapply pv_eqb_sat; [exact SG | eapply Options.Proofs.validate_sound; exact V | exact C]. }
    subst nv. clear R V C W G SG. destruct s as [op au]; unfold set_augments; cbn [options augments] in *. f_equal.
    apply dset_same. exact A.
Qed.

Lemma sfcc_dirty_mono : forall args s s' d, set_from_configure_command s args true = Ok (s', d) -> d = true.
Proof.
  induction args as [|[k [v|]] r IH]; intros s s' d H; cbn in H.
  - injection H as _ <-. reflexivity.
  - apply bind_ok in H. destruct H as [[s1 c1] [S H]]. cbn in H. eapply IH. exact H.
  - destruct (dmem (augments s) k); [eapply IH; exact H|].
    destruct (dget (options s) k); [|discriminate]. cbn in H. eapply IH. exact H.
Qed.

(* a command that reports "nothing changed" changed nothing *)
Lemma sfcc_clean : forall args s s', wf_store s ->
  set_from_configure_command s args false = Ok (s', false) -> s' = s.
Proof.
  induction args as [|[k [v|]] r IH]; intros s s' W H; cbn in H.
  - injection H as <-. reflexivity.
  - apply bind_ok in H. destruct H as [[s1 c1] [S H]]. cbn in H.
    destruct c1; [apply sfcc_dirty_mono in H; discriminate|].
    apply set_user_option_inv in S. apply set_option_clean in S; [|exact W]. subst s1. apply IH; assumption.
  - destruct (dmem (augments s) k); [apply sfcc_dirty_mono in H; discriminate|].
    destruct (dget (options s) k) as [o|] eqn:E; [|discriminate]. cbn [orb] in H.
    destruct (negb (oyield o) && oparent o) eqn:C; [apply sfcc_dirty_mono in H; discriminate|].
    assert (EQ : mkOpt (okind o) (oval o) (oparent o) (oparent o) = o).
    { destruct o as [kd vl y p]; cbn in *. destruct p; cbn in C.
      - destruct y; [reflexivity | discriminate].
      - pose proof (wf_yield s W k _ E) as Y. cbn in Y. destruct y; [specialize (Y eq_refl); discriminate | reflexivity]. }
    rewrite EQ in H. rewrite dset_same in H by exact E.
    replace (set_options s (options s)) with s in H by (destruct s; reflexivity).
    apply IH; assumption.
Qed.

Lemma decl_eqb_refl d : decl_eqb d d = true.
Proof.
  unfold decl_eqb. rewrite str_eqb_refl. cbn.
  assert (K : kind_eqb (dkind d) (dkind d) = true).
  { destruct (dkind d) as [| |mn mx|ch|ch|]; cbn; try reflexivity.
    - destruct mn, mx; cbn; rewrite ?Z.eqb_refl; reflexivity.
    - apply list_str_eqb_refl.
    - destruct ch; cbn; [apply list_str_eqb_refl | reflexivity]. }
  rewrite K. cbn.
  assert (P : pv_same (ddef d) (ddef d) = true).
  { destruct (ddef d); cbn; [apply str_eqb_refl | destruct b; reflexivity | apply Z.eqb_refl | apply list_str_eqb_refl]. }
  rewrite P. cbn. destruct (dyield d); reflexivity.
Qed.
Lemma list_eqb_decl_refl l : list_eqb_decl l l = true.
Proof. induction l as [|d l IH]; cbn; [reflexivity|]. rewrite decl_eqb_refl. exact IH. Qed.

(* no pending option-file edit: the reload of mconf.Conf is the identity *)
Lemma reload_same c fs c1 : seen c = fs -> reload_changed c fs = Ok c1 -> c1 = mkCd (cstore c) fs.
Proof.
  intros <- H. unfold reload_changed in H. rewrite !list_eqb_decl_refl in H. cbn in H. injection H as <-. reflexivity.
Qed.

(* the persisted result of a successful `meson configure` when no option-file edit is pending *)
Theorem configure_done fs b args b' c : wf_dir b -> cd b = Some c -> seen c = fs -> args <> [] ->
  configure fs b args = (b', Done) ->
  exists s2 dirty, set_from_configure_command (cstore c) (live_args (cstore c) (cl_or_empty b) args) false = Ok (s2, dirty) /\
    cl b' = Some (update_cmd_line (cl_or_empty b) args) /\
    exists c', cd b' = Some c' /\ cstore c' = s2 /\ seen c' = fs.
Proof.
  intros W C S NE H. unfold configure in H. rewrite C in H.
  destruct (reload_changed c fs) as [c1|] eqn:R; [|discriminate].
  apply (reload_same c fs c1 S) in R. subst c1. cbn [cstore seen] in H.
  destruct args as [|a r]; [congruence|].
  destruct (set_from_configure_command (cstore c) (live_args (cstore c) (cl_or_empty b) (a :: r)) false) as [[s2 dirty]|] eqn:E; [|discriminate].
  exists s2, dirty. split; [reflexivity|].
  destruct dirty; injection H as <-; cbn; (split; [reflexivity|]).
  - eexists; split; [reflexivity|]. cbn. auto.
  - exists c. split; [reflexivity|]. split; [|exact S].
    symmetry. eapply sfcc_clean; [apply (wfd_cd b W c C) | exact E].
Qed.

(* =================================================================================
   Clauses about one configure command (set_from_configure_command) *)

Lemma set_user_option_target s k v s' ch : set_user_option s k v = Ok (s', ch) ->
  target s k = k \/ (ksub k = None /\ target s k = as_root k).
Proof.
  unfold set_user_option, target. destruct (dmem (options s) k); [auto|].
  destruct (negb (sub_none k) && dmem (options s) (no_sub k)); [auto|].
  destruct (negb (in_model_name (kname k))); [discriminate|].
  destruct (sub_none k) eqn:N; [|discriminate]. intros _. right. split; [apply sub_none_iff; exact N | reflexivity].
Qed.

(* an argument -Dk=.. / -Uk writes the entry of k, or of the top-level project option ":k"
   when k carries no subproject; nothing else *)
Definition untouched (args : list (key * option str)) (q : key) : Prop :=
  forall k, In k (map fst args) -> q <> k /\ (ksub k = None -> q <> as_root k).

Lemma sfcc_frame_precise : forall args s dirty s' d,
  set_from_configure_command s args dirty = Ok (s', d) ->
  forall q, untouched args q ->
  dget (options s') q = dget (options s) q /\ dget (augments s') q = dget (augments s) q.
Proof.
  induction args as [|[k [v|]] r IH]; intros s dirty s' d H q N; cbn in H.
  - injection H as <- _. auto.
  - apply bind_ok in H. destruct H as [[s1 c1] [S H]]. cbn in H.
    destruct (IH _ _ _ _ H q) as [A B]; [intros k' I; apply N; right; exact I|].
    destruct (N k (or_introl eq_refl)) as [N1 N2].
    destruct (set_user_option_frame s k (PStr v) s1 c1 S q) as [C D].
    { destruct (set_user_option_target _ _ _ _ _ S) as [->|[Kn ->]]; auto. }
    split; congruence.
  - destruct (N k (or_introl eq_refl)) as [N1 N2].
    destruct (dmem (augments s) k).
    + destruct (IH _ _ _ _ H q) as [A B]; [intros k' I; apply N; right; exact I|]. cbn in A, B.
      rewrite dget_dpop_other in B by exact N1. auto.
    + destruct (dget (options s) k) as [o|]; [|discriminate].
      destruct (IH _ _ _ _ H q) as [A B]; [intros k' I; apply N; right; exact I|]. cbn in A, B.
      rewrite dget_dset_other in A by exact N1. auto.
Qed.

(* every option the command does not name keeps the value it has *)
Theorem sfcc_keeps args s dr s' d q :
  set_from_configure_command s args dr = Ok (s', d) ->
  (forall r, In r (reads q) -> untouched args r) ->
  get_value_for s' q = get_value_for s q.
Proof.
  intros H N. apply get_value_for_ext.
  - intros r I. apply (sfcc_frame_precise args s dr s' d H r). apply N. exact I.
  - apply (sfcc_frame_precise args s dr s' d H q). apply N. cbn; auto.
Qed.

Definition kind_at (s : store) (q : key) : option kind :=
  option_map (fun r => okind (snd r)) (resolve_option s q).

Lemma sfcc_kind : forall args s dr s' d, set_from_configure_command s args dr = Ok (s', d) ->
  forall q, option_map okind (dget (options s') q) = option_map okind (dget (options s) q).
Proof.
  induction args as [|[k [v|]] r IH]; intros s dr s' d H q; cbn in H.
  - injection H as <- _. reflexivity.
  - apply bind_ok in H. destruct H as [[s1 c1] [S H]]. cbn in H. rewrite (IH _ _ _ _ H q).
    apply set_user_option_inv in S. apply set_option_inv in S.
    destruct S as [rk [o [nv [R [V [[E [-> [-> _]]] | [E [-> _]]]]]]]]; cbn [options set_options set_augments]; [|reflexivity].
    rewrite dget_dset. destruct (key_eqb q (target s k)) eqn:Q; [|reflexivity].
    apply key_eqb_eq in Q. subst q. rewrite E. reflexivity.
  - destruct (dmem (augments s) k).
    + rewrite (IH _ _ _ _ H q). reflexivity.
    + destruct (dget (options s) k) as [o|] eqn:E; [|discriminate]. rewrite (IH _ _ _ _ H q).
      cbn [options set_options]. rewrite dget_dset. destruct (key_eqb q k) eqn:Q; [|reflexivity].
      apply key_eqb_eq in Q. subst q. rewrite E. reflexivity.
Qed.

Lemma omap_none {A B} (f : A -> B) (x : option A) : option_map f x = None <-> x = None.
Proof. destruct x; cbn; split; congruence. Qed.

Lemma kind_at_ext s s' q :
  (forall r, option_map okind (dget (options s') r) = option_map okind (dget (options s) r)) ->
  kind_at s' q = kind_at s q.
Proof.
  intros H. unfold kind_at, resolve_option, is_project_option, dmem.
  pose proof (H q) as Hq. pose proof (H (no_sub q)) as Hn.
  destruct (dget (options s') q) as [a|], (dget (options s) q) as [b|]; cbn in Hq; try discriminate; cbn; [congruence|].
  destruct (dget (options s') (no_sub q)) as [a|], (dget (options s) (no_sub q)) as [b|]; cbn in Hn; try discriminate; cbn; congruence.
Qed.

Lemma get_value_own s q o : dget (options s) q = Some o -> oyield o = false -> dget (augments s) q = None ->
  get_value_for s q = Ok (oval o).
Proof. intros E Y A. unfold get_value_for, resolve_option. rewrite E, A, Y. reflexivity. Qed.
Lemma get_value_aug s q a : dget (augments s) q = Some a -> resolve_option s q <> None ->
  get_value_for s q = Ok a.
Proof. intros A R. unfold get_value_for. destruct (resolve_option s q) as [[rk o]|]; [|congruence]. rewrite A. reflexivity. Qed.

(* command-line keys: no subproject, or a named subproject (never the empty name) *)
Definition cli_key (k : key) : Prop := ksub k <> Some [].

Lemma cli_untouched k t args : cli_key k -> Forall cli_key (map fst args) -> ~ In k (map fst args) ->
  (t = k \/ (ksub k = None /\ t = as_root k)) -> untouched args t.
Proof.
  intros Ck F NI T k' I. rewrite Forall_forall in F. pose proof (F k' I) as Ck'.
  assert (NE : k <> k') by (intros <-; exact (NI I)).
  destruct T as [->|[Kn ->]].
  - split; [exact NE|]. intros _ E. apply Ck. rewrite E. reflexivity.
  - split.
    + intros E. apply Ck'. rewrite <- E. reflexivity.
    + intros Kn' E. apply NE. destruct k as [sk nk], k' as [sk' nk']; cbn in *. subst. injection E as ->. reflexivity.
Qed.

(* the store after setting one option: the value reads back *)
Lemma set_user_option_value s k v s' ch : wf_store s -> set_user_option s k v = Ok (s', ch) ->
  exists kd nv, kind_at s (target s k) = Some kd /\ validate kd v = Ok nv /\
    ((exists o, dget (options s') (target s k) = Some o /\ oval o = nv /\ oyield o = false /\
                dget (augments s') (target s k) = None) \/
     (dget (augments s') (target s k) = Some nv /\ dget (options s') (target s k) = None /\
      dget (options s') (no_sub (target s k)) <> None)).
Proof.
  intros W H. apply set_user_option_inv in H. set (t := target s k) in *.
  pose proof (set_option_inv _ _ _ _ _ H) as I.
  destruct I as [rk [o [nv [R [V [[E [-> [-> _]]] | [E [-> _]]]]]]]].
  - exists (okind o), nv. unfold kind_at. rewrite R. cbn. split; [reflexivity|]. split; [exact V|]. left.
    eexists. cbn [options augments set_options]. rewrite dget_dset_same. split; [reflexivity|]. cbn.
    split; [reflexivity|]. split; [reflexivity|].
    destruct (dget (augments s) t) eqn:A; [|reflexivity]. rewrite (wf_aug_not_option s t p W A) in E. discriminate.
  - exists (okind o), nv. unfold kind_at. rewrite R. cbn. split; [reflexivity|]. split; [exact V|]. right.
    destruct (resolve_option_global s t rk o W R E) as [-> [G Hs]].
    cbn [options augments set_augments]. rewrite dget_dset_same. split; [reflexivity|]. split; [exact E | congruence].
Qed.

(* the last value the user gave an option is the value it has *)
Theorem sfcc_last_value : forall args s dr s' d k v, wf_store s ->
  NoDup (map fst args) -> Forall cli_key (map fst args) ->
  set_from_configure_command s args dr = Ok (s', d) -> In (k, Some v) args ->
  exists kd nv, kind_at s (target s k) = Some kd /\ validate kd (PStr v) = Ok nv /\
                get_value_for s' (target s k) = Ok nv.
Proof.
  induction args as [|[k0 [v0|]] r IH]; intros s dr s' d k v W ND F H I; cbn in H; [destruct I| |].
  - apply bind_ok in H. destruct H as [[s1 c1] [S H]]. cbn [fst snd] in H.
    cbn in ND, F. inversion ND as [|? ? NI ND']; subst. inversion F as [|? ? Fk Fr]; subst.
    pose proof (set_user_option_wf _ _ _ _ _ W S) as W1.
    destruct I as [I|I].
    + injection I as -> ->.
      destruct (set_user_option_value s k (PStr v) s1 c1 W S) as [kd [nv [K [V Sh]]]].
      exists kd, nv. split; [exact K|]. split; [exact V|].
      assert (U : untouched r (target s k)).
      { eapply cli_untouched; [exact Fk | exact Fr | exact NI | apply (set_user_option_target _ _ _ _ _ S)]. }
      destruct (sfcc_frame_precise _ _ _ _ _ H _ U) as [A B].
      destruct Sh as [[o [E [Ev [Y An]]]] | [Au [E G]]].
      * rewrite <- Ev. apply get_value_own; congruence.
      * apply get_value_aug; [congruence|].
        unfold resolve_option, is_project_option. rewrite A, E.
        pose proof (sfcc_keys _ _ _ _ _ H (target s k)) as K1. apply dmem_false in E. rewrite E in K1. rewrite K1. cbn.
        pose proof (sfcc_keys _ _ _ _ _ H (no_sub (target s k))) as K2. apply dmem_true in G. rewrite G in K2.
        apply dmem_true in K2. destruct (dget (options s') (no_sub (target s k))); congruence.
    + destruct (IH s1 _ s' d k v W1 ND' Fr H I) as [kd [nv [K [V G]]]].
      assert (T : target s1 k = target s k).
      { unfold target. rewrite !(set_user_option_keys _ _ _ _ _ S). reflexivity. }
      rewrite T in K, G. exists kd, nv. split; [|auto].
      rewrite <- K. symmetry. apply kind_at_ext. intros q.
      apply (sfcc_kind [(k0, Some v0)] s false s1 c1). cbn. rewrite S. reflexivity.
  - cbn in ND, F. inversion ND as [|? ? NI ND']; subst. inversion F as [|? ? Fk Fr]; subst.
    destruct I as [I|I]; [discriminate|].
    destruct (dmem (augments s) k0) eqn:A0.
    + set (s1 := set_augments s (dpop (augments s) k0)) in *.
      assert (W1 : wf_store s1).
      { apply (sfcc_wf [(k0, None)] s false s1 true W). cbn. rewrite A0. reflexivity. }
      destruct (IH s1 _ s' d k v W1 ND' Fr H I) as [kd [nv [K [V G]]]].
      exists kd, nv. auto.
    + destruct (dget (options s) k0) as [o0|] eqn:E0; [|discriminate].
      set (s1 := set_options s (dset (options s) k0 (mkOpt (okind o0) (oval o0) (oparent o0) (oparent o0)))) in *.
      assert (S1 : set_from_configure_command s [(k0, None)] false = Ok (s1, false || (negb (oyield o0) && oparent o0))).
      { cbn. rewrite A0, E0. reflexivity. }
      assert (W1 : wf_store s1) by (eapply sfcc_wf; [exact W | exact S1]).
      destruct (IH s1 _ s' d k v W1 ND' Fr H I) as [kd [nv [K [V G]]]].
      assert (T : target s1 k = target s k).
      { unfold target. rewrite !(sfcc_keys _ _ _ _ _ S1). reflexivity. }
      rewrite T in K, G. exists kd, nv. split; [|auto].
      rewrite <- K. symmetry. apply kind_at_ext. intros q. apply (sfcc_kind _ _ _ _ _ S1).
Qed.

Lemma sfcc_app : forall a b s dr s' d, set_from_configure_command s (a ++ b) dr = Ok (s', d) ->
  exists s1 d1, set_from_configure_command s a dr = Ok (s1, d1) /\ set_from_configure_command s1 b d1 = Ok (s', d).
Proof.
  induction a as [|[k [v|]] r IH]; intros b s dr s' d H; cbn [app] in H.
  - exists s, dr. split; [reflexivity | exact H].
  - cbn in H. apply bind_ok in H. destruct H as [[s1 c1] [S H]]. cbn [fst snd] in H.
    destruct (IH _ _ _ _ _ H) as [s2 [d2 [A B]]]. exists s2, d2. split; [|exact B]. cbn. rewrite S. exact A.
  - cbn in H. cbn. destruct (dmem (augments s) k); [apply IH; exact H|].
    destruct (dget (options s) k); [apply IH; exact H | discriminate].
Qed.

Lemma root_plain s k o : wf_store s -> dget (options s) (as_root k) = Some o ->
  get_value_for s (as_root k) = Ok (oval o).
Proof.
  intros W E. apply get_value_own; [exact E | |].
  - destruct (oyield o) eqn:Y; [|reflexivity]. pose proof (wf_yield s W _ _ E Y) as P.
    destruct (wf_parent s W _ _ E P) as [T _]. cbn in T. discriminate.
  - destruct (dget (augments s) (as_root k)) eqn:A; [|reflexivity].
    rewrite (wf_aug_not_option s _ _ W A) in E. discriminate.
Qed.

(* dropping an override returns the subproject to the inherited value *)
Theorem sfcc_drop_override args s dr s' d k : wf_store s ->
  NoDup (map fst args) -> Forall cli_key (map fst args) ->
  set_from_configure_command s args dr = Ok (s', d) -> In (k, None) args ->
  dget (augments s') k = None /\
  (dget (augments s) k <> None -> get_value_for s' k = get_value_for s' (no_sub k)) /\
  (forall o, dget (augments s) k = None -> dget (options s) k = Some o ->
     (oparent o = true -> get_value_for s' k = get_value_for s' (as_root k)) /\
     (oparent o = false -> get_value_for s' k = Ok (oval o))).
Proof.
  intros W ND F H I. destruct (in_split _ _ I) as [pre [post ->]].
  rewrite map_app in ND, F. cbn [map fst] in ND, F.
  apply Forall_app in F. destruct F as [Fpre F]. inversion F as [|? ? Ck Fpost]; subst.
  pose proof (NoDup_remove_2 _ _ _ ND) as NI. rewrite in_app_iff in NI.
  destruct (sfcc_app _ _ _ _ _ _ H) as [sa [da [A B]]].
  assert (Upre : forall t, (t = k \/ (ksub k = None /\ t = as_root k)) -> untouched pre t).
  { intros t T. eapply cli_untouched; [exact Ck | exact Fpre | tauto | exact T]. }
  assert (Upost : forall t, (t = k \/ (ksub k = None /\ t = as_root k)) -> untouched post t).
  { intros t T. eapply cli_untouched; [exact Ck | exact Fpost | tauto | exact T]. }
  destruct (sfcc_frame_precise _ _ _ _ _ A k (Upre k (or_introl eq_refl))) as [Oa Aa].
  pose proof (sfcc_wf _ _ _ _ _ W A) as Wa. pose proof (sfcc_wf _ _ _ _ _ Wa B) as W'.
  cbn [set_from_configure_command] in B.
  destruct (dmem (augments sa) k) eqn:M.
  - (* an override of a global option *)
    destruct (sfcc_frame_precise _ _ _ _ _ B k (Upost k (or_introl eq_refl))) as [Ob Ab].
    cbn [options augments set_augments] in Ob, Ab.
    rewrite dget_dpop_same in Ab by apply (wf_nodup_aug sa Wa).
    split; [exact Ab|]. split.
    + intros _. apply dmem_true in M. destruct (dget (augments sa) k) as [a|] eqn:Ak; [|congruence].
      destruct (wf_aug sa Wa k a Ak) as [Hs [g [G _]]].
      pose proof (wf_aug_not_option sa k a Wa Ak) as Nk.
      (* the global option still exists in the final store *)
      pose proof (sfcc_keys _ _ _ _ _ B (no_sub k)) as Kg. cbn [options set_augments] in Kg.
      assert (Gm : dmem (options sa) (no_sub k) = true) by (apply dmem_true; congruence).
      rewrite Gm in Kg. apply dmem_true in Kg. destruct (dget (options s') (no_sub k)) as [g'|] eqn:G'; [|congruence].
      destruct (wf_glob_plain s' W' (kname k) g' G') as [Yg _].
      assert (An : dget (augments s') (no_sub k) = None).
      { destruct (dget (augments s') (no_sub k)) eqn:X; [|reflexivity]. destruct (wf_aug s' W' _ _ X) as [Q _]. cbn in Q. congruence. }
      rewrite (get_value_own s' (no_sub k) g' G' Yg An).
      unfold get_value_for, resolve_option, is_project_option. rewrite Ob, Nk.
      apply dmem_false in Nk. pose proof (sfcc_keys _ _ _ _ _ B k) as Kk. cbn [options set_augments] in Kk.
      rewrite Nk in Kk. rewrite Kk. cbn. rewrite G', Ab, Yg. reflexivity.
    + intros o An. rewrite <- Aa in An. apply dmem_true in M. congruence.
  - destruct (dget (options sa) k) as [oa|] eqn:Ek; [|discriminate].
    destruct (sfcc_frame_precise _ _ _ _ _ B k (Upost k (or_introl eq_refl))) as [Ob Ab].
    cbn [options augments set_options] in Ob, Ab. rewrite dget_dset_same in Ob.
    apply dmem_false in M.
    split; [congruence|]. split; [intros X; congruence|].
    intros o An Eo. assert (oa = o) by congruence. subst oa. split; intros P.
    + destruct (wf_parent s' W' k _ Ob) as [T Rr]; [cbn; exact P|].
      destruct (dget (options s') (as_root k)) as [p|] eqn:Er; [|congruence].
      rewrite (root_plain s' k p W' Er).
      unfold get_value_for, resolve_option. rewrite Ob. cbn [oyield oparent]. rewrite P.
      replace (dget (augments s') k) with (@None pv) by congruence. rewrite Er. reflexivity.
    + rewrite (get_value_own s' k _ Ob); cbn; [reflexivity | exact P | congruence].
Qed.

(* =================================================================================
   Clauses about an option-file edit (update_project_options) *)
Lemma validate_same_class_invalid k1 k2 v : same_class k1 k2 = true ->
  satisfies k1 v = true -> satisfies k2 v = false -> exists e, validate k2 v = Err e.
Proof.
  destruct k1, k2; cbn [same_class]; try discriminate; intros _ S1 S2; destruct v; cbn in S1; try discriminate S1.
  all: cbn in S2 |- *; try congruence.
  all: try (rewrite S2; eauto).
  - destruct choices as [[|c cs]|]; discriminate S1.
  - eauto.
  - eauto.
  - destruct choices0 as [[|c cs]|]; try discriminate S2. rewrite S2. eauto.
Qed.

Definition pkey (sub : str) (d : decl) : key := mkKey (Some sub) (dname d).

(* the option object an option() declaration leads to *)
Definition decl_result (s : store) (sub : str) (d : decl) : res opt :=
  let k := pkey sub d in
  match dget (options s) k with
  | None =>
      let linked := dyield d && sub_truthy k &&
                    match dget (options s) (as_root k) with
                    | Some p => same_class (okind p) (dkind d) | None => false end in
      Ok (mkOpt (dkind d) (ddef d) linked linked)
  | Some old =>
      if negb (same_class (okind old) (dkind d)) then
        do nv <- validate (okind old) (ddef d); Ok (mkOpt (okind old) nv false (oparent old))
      else if choices_differ (okind old) (dkind d) then
        Ok (mkOpt (dkind d) (match validate (dkind d) (oval old) with Ok v' => v' | Err _ => ddef d end)
                  (oyield old) (oparent old))
      else Ok old
  end.

(* one declaration writes the entry of its own key only *)
Lemma update_decl_step s sub d r s' : update_decls s sub (d :: r) = Ok s' ->
  exists s1 o, decl_result s sub d = Ok o /\ update_decls s1 sub r = Ok s' /\
    options s1 = dset (options s) (pkey sub d) o /\ augments s1 = augments s.
Proof.
  cbn [update_decls]. unfold decl_result, pkey.
  destruct (dget (options s) (mkKey (Some sub) (dname d))) as [old|] eqn:E.
  - destruct (negb (same_class (okind old) (dkind d))).
    + intros H. apply bind_ok in H. destruct H as [[s1 c1] [S H]]. cbn [fst] in H.
      apply set_option_inv in S. destruct S as [rk [o [nv [R [V [[E' [_ [-> _]]] | [E' _]]]]]]]; [|congruence].
      assert (o = old) by congruence. subst o. rewrite V. cbn.
      exists (set_options s (dset (options s) (mkKey (Some sub) (dname d)) (mkOpt (okind old) nv false (oparent old)))), (mkOpt (okind old) nv false (oparent old)).
      auto.
    + destruct (choices_differ (okind old) (dkind d)).
      * intros H. eexists _, _. split; [reflexivity|]. split; [exact H|]. auto.
      * intros H. exists s, old. split; [reflexivity|]. split; [exact H|]. split; [|reflexivity].
        symmetry. apply dset_same. exact E.
  - intros H. eexists _, _. split; [reflexivity|]. split; [exact H|]. unfold add_project_option. cbn. auto.
Qed.

Lemma update_decls_other sub : forall ds s s', update_decls s sub ds = Ok s' ->
  augments s' = augments s /\
  forall q, (forall d, In d ds -> q <> pkey sub d) -> dget (options s') q = dget (options s) q.
Proof.
  induction ds as [|d r IH]; intros s s' H.
  - cbn in H. injection H as <-. auto.
  - destruct (update_decl_step _ _ _ _ _ H) as [s1 [o [_ [H1 [O A]]]]].
    destruct (IH _ _ H1) as [A' F]. split; [congruence|].
    intros q N. rewrite F by (intros d' I; apply N; right; exact I).
    rewrite O. apply dget_dset_other. apply N. left. reflexivity.
Qed.

Lemma pkey_inj sub d d' : pkey sub d = pkey sub d' -> dname d = dname d'.
Proof. unfold pkey. intros H; injection H as H; exact H. Qed.

(* every declared option ends up as its declaration says *)
Lemma update_decls_at sub : forall ds s s' d, NoDup (map dname ds) -> In d ds ->
  update_decls s sub ds = Ok s' ->
  exists o, decl_result s sub d = Ok o /\ dget (options s') (pkey sub d) = Some o.
Proof.
  induction ds as [|d0 r IH]; intros s s' d ND I H; [destruct I|].
  cbn in ND. inversion ND as [|? ? NI ND']; subst.
  destruct (update_decl_step _ _ _ _ _ H) as [s1 [o [R [H1 [O A]]]]].
  destruct I as [->|I].
  - exists o. split; [exact R|]. destruct (update_decls_other sub _ _ _ H1) as [_ F].
    rewrite F; [rewrite O; apply dget_dset_same|].
    intros d' I' E. apply pkey_inj in E. apply NI. rewrite E. apply in_map. exact I'.
  - destruct (IH s1 s' d ND' I H1) as [o' [R' G]]. exists o'. split; [|exact G].
    assert (NE : dname d <> dname d0) by (intros E; apply NI; rewrite <- E; apply in_map; exact I).
    rewrite <- R'. unfold decl_result. rewrite O.
    rewrite dget_dset_other by (intros E; apply pkey_inj in E; auto).
    rewrite dget_dset_other; [reflexivity|].
    unfold pkey, as_root. cbn. intros E. injection E as _ E. auto.
Qed.

(* the removal loop *)
Lemma remove_key_get s sub k q : ksub k = Some sub -> NoDup (keys (options s)) ->
  dget (options (remove_key s sub k)) q =
    if key_eqb q k then None
    else match sub with
         | [] => option_map (unlink1 k q) (dget (options s) q)
         | _ => dget (options s) q
         end.
Proof.
  intros Hk ND. unfold remove_key. destruct (key_eqb q k) eqn:E.
  - apply key_eqb_eq in E. subst q. destruct sub; cbn [options set_options].
    + unfold unlink_children. rewrite dget_map_vals, dget_dpop_same by exact ND. reflexivity.
    + apply dget_dpop_same. exact ND.
  - apply key_eqb_neq in E. destruct sub; cbn [options set_options].
    + unfold unlink_children. rewrite dget_map_vals, dget_dpop_other by exact E. reflexivity.
    + apply dget_dpop_other. exact E.
Qed.

Lemma remove_undeclared_eq ds sub todo s :
  remove_undeclared ds sub todo s =
  fold_left (fun acc ko => if sub_is (fst ko) sub && negb (decl_mem (kname (fst ko)) ds)
                           then remove_key acc sub (fst ko) else acc) todo s.
Proof.
  revert s. induction todo as [|[k o] r IH]; intros s; cbn [remove_undeclared fold_left fst]; [reflexivity|].
  destruct (sub_is k sub && negb (decl_mem (kname k) ds)); apply IH.
Qed.

Definition doomed (ds : list decl) (sub : str) (k : key) : bool :=
  sub_is k sub && negb (decl_mem (kname k) ds).

Lemma remove_undeclared_cons ds sub k o r s :
  remove_undeclared ds sub ((k, o) :: r) s =
  if doomed ds sub k then remove_undeclared ds sub r (remove_key s sub k) else remove_undeclared ds sub r s.
Proof. reflexivity. Qed.

(* kind and stored value of an entry that survives; an entry of the project that is no
   longer declared is gone *)
Lemma remove_undeclared_spec ds sub : forall todo s, wf_store s ->
  let s' := remove_undeclared ds sub todo s in
  (forall q, doomed ds sub q = true -> In q (keys todo) -> dget (options s') q = None) /\
  (forall q, dget (options s) q = None -> dget (options s') q = None) /\
  (forall q, doomed ds sub q = false ->
     option_map (fun o => (okind o, oval o)) (dget (options s') q) =
     option_map (fun o => (okind o, oval o)) (dget (options s) q)) /\
  augments s' = augments s.
Proof.
  induction todo as [|[k o] r IH]; intros s W.
  - cbn. repeat split; auto. intros q _ [].
  - rewrite remove_undeclared_cons. destruct (doomed ds sub k) eqn:Dk.
    + assert (Hk : ksub k = Some sub).
      { unfold doomed in Dk. apply andb_true_iff in Dk. destruct Dk as [Dk _]. apply osub_eqb_eq in Dk. exact Dk. }
      pose proof (remove_key_wf s sub k W Hk) as W1.
      destruct (IH (remove_key s sub k) W1) as [A [B [C D]]]. cbn zeta in *.
      assert (G : forall q, dget (options (remove_key s sub k)) q =
                  if key_eqb q k then None else match sub with [] => option_map (unlink1 k q) (dget (options s) q) | _ => dget (options s) q end).
      { intros q. apply remove_key_get; [exact Hk | apply (wf_nodup s W)]. }
      repeat split.
      * intros q Dq [<-|I]; [|apply A; assumption]. apply B. rewrite G. cbn [fst]. rewrite key_eqb_refl. reflexivity.
      * intros q N. apply B. rewrite G. destruct (key_eqb q k); [reflexivity|]. destruct sub; rewrite N; reflexivity.
      * intros q Dq. rewrite (C q Dq), G. destruct (key_eqb q k) eqn:E; [apply key_eqb_eq in E; subst; congruence|].
        destruct sub; [|reflexivity]. destruct (dget (options s) q) as [oq|]; [|reflexivity]. cbn.
        destruct (unlink1_cases k q oq) as [->|[_ [_ [_ ->]]]]; reflexivity.
      * rewrite D. reflexivity.
    + destruct (IH s W) as [A [B [C D]]]. cbn zeta in *. repeat split; auto.
      intros q Dq [<-|I]; [cbn in Dq; congruence | apply A; assumption].
Qed.

(* ---- a removed option vanishes, a declared one exists *)
Theorem upo_declared_exactly s ds sub s' : wf_store s -> wf_decls ds ->
  update_project_options s ds sub = Ok s' ->
  forall q, ksub q = Some sub -> dmem (options s') q = decl_mem (kname q) ds.
Proof.
  intros W [ND F] H q Hq. unfold update_project_options in H. apply bind_ok in H. destruct H as [s1 [U H]].
  injection H as <-. pose proof (update_decls_wf sub ds s s1 W F U) as W1.
  destruct (remove_undeclared_spec ds sub (options s1) s1 W1) as [A [B [C _]]]. cbn zeta in *.
  destruct (decl_mem (kname q) ds) eqn:M.
  - (* declared: update_decls created it, the removal loop keeps it *)
    unfold decl_mem in M. apply existsb_exists in M. destruct M as [d [I E]]. apply str_eqb_eq in E.
    destruct (update_decls_at sub ds s s1 d ND I U) as [o [_ G]].
    assert (Q : pkey sub d = q) by (unfold pkey; rewrite E, <- Hq; apply key_eta).
    rewrite Q in G.
    assert (Dq : doomed ds sub q = false).
    { unfold doomed. assert (decl_mem (kname q) ds = true).
      { unfold decl_mem. apply existsb_exists. exists d. split; [exact I | apply str_eqb_eq; exact E]. }
      rewrite H. cbn. apply andb_false_r. }
    pose proof (C q Dq) as Cq. rewrite G in Cq. unfold dmem.
    destruct (dget (options (remove_undeclared ds sub (options s1) s1)) q); [reflexivity | discriminate].
  - assert (Dq : doomed ds sub q = true).
    { unfold doomed. rewrite M. cbn. rewrite andb_true_r. unfold sub_is. apply osub_eqb_eq. exact Hq. }
    apply dmem_false. destruct (dget (options s1) q) eqn:G.
    + apply A; [exact Dq|]. change q with (fst (q, o)). apply in_map. apply dget_Some_in. exact G.
    + apply B. exact G.
Qed.

(* ---- kind and value of a declared option after the edit *)
Theorem upo_declared_value s ds sub s' d : wf_store s -> wf_decls ds -> In d ds ->
  update_project_options s ds sub = Ok s' ->
  exists o o', decl_result s sub d = Ok o /\ dget (options s') (pkey sub d) = Some o' /\
               okind o' = okind o /\ oval o' = oval o.
Proof.
  intros W [ND F] I H. unfold update_project_options in H. apply bind_ok in H. destruct H as [s1 [U H]].
  injection H as <-. pose proof (update_decls_wf sub ds s s1 W F U) as W1.
  destruct (update_decls_at sub ds s s1 d ND I U) as [o [R G]].
  destruct (remove_undeclared_spec ds sub (options s1) s1 W1) as [_ [_ [C _]]]. cbn zeta in *.
  assert (Dq : doomed ds sub (pkey sub d) = false).
  { unfold doomed. assert (M : decl_mem (kname (pkey sub d)) ds = true).
    { unfold decl_mem. apply existsb_exists. exists d. split; [exact I | apply str_eqb_refl]. }
    rewrite M. apply andb_false_r. }
  pose proof (C _ Dq) as Cq. rewrite G in Cq. cbn in Cq.
  destruct (dget (options (remove_undeclared ds sub (options s1) s1)) (pkey sub d)) as [o'|]; [|discriminate].
  cbn in Cq. injection Cq as K V. exists o, o'. auto.
Qed.

(* a new option gets its default *)
Corollary upo_new_default s ds sub s' d : wf_store s -> wf_decls ds -> In d ds ->
  update_project_options s ds sub = Ok s' -> dget (options s) (pkey sub d) = None ->
  exists o', dget (options s') (pkey sub d) = Some o' /\ okind o' = dkind d /\ oval o' = ddef d.
Proof.
  intros W D I H N. destruct (upo_declared_value s ds sub s' d W D I H) as [o [o' [R [G [K V]]]]].
  unfold decl_result in R. rewrite N in R. injection R as <-. exists o'. cbn in K, V. auto.
Qed.

(* a changed choice list keeps the old value when still valid and otherwise falls back to
   the new default; an unchanged declaration keeps the value *)
Corollary upo_choices s ds sub s' d old : wf_store s -> wf_decls ds -> In d ds ->
  update_project_options s ds sub = Ok s' -> dget (options s) (pkey sub d) = Some old ->
  same_class (okind old) (dkind d) = true ->
  exists o', dget (options s') (pkey sub d) = Some o' /\
    if choices_differ (okind old) (dkind d)
    then okind o' = dkind d /\ oval o' = (if satisfies (dkind d) (oval old) then oval old else ddef d)
    else okind o' = okind old /\ oval o' = oval old.
Proof.
  intros W D I H E C. destruct (upo_declared_value s ds sub s' d W D I H) as [o [o' [R [G [K V]]]]].
  unfold decl_result in R. rewrite E, C in R. cbn [negb] in R. exists o'. split; [exact G|].
  destruct (choices_differ (okind old) (dkind d)); injection R as <-; cbn in K, V; [|auto].
  split; [exact K|]. rewrite V. destruct (satisfies (dkind d) (oval old)) eqn:S.
  - rewrite (Options.Proofs.validate_typed _ _ S). reflexivity.
  - destruct (validate_same_class_invalid _ _ _ C (wf_vals s W _ _ E) S) as [e ->]. reflexivity.
Qed.

(* options of other projects, global options and all overrides keep kind and stored value *)
Theorem upo_frame s ds sub s' q : wf_store s -> wf_decls ds ->
  update_project_options s ds sub = Ok s' -> ksub q <> Some sub ->
  option_map (fun o => (okind o, oval o)) (dget (options s') q) =
  option_map (fun o => (okind o, oval o)) (dget (options s) q) /\ augments s' = augments s.
Proof.
  intros W [ND F] H N. unfold update_project_options in H. apply bind_ok in H. destruct H as [s1 [U H]].
  injection H as <-. pose proof (update_decls_wf sub ds s s1 W F U) as W1.
  destruct (remove_undeclared_spec ds sub (options s1) s1 W1) as [_ [_ [C A]]]. cbn zeta in *.
  destruct (update_decls_other sub ds s s1 U) as [A1 O1].
  assert (Dq : doomed ds sub q = false).
  { unfold doomed. destruct (sub_is q sub) eqn:S; [|reflexivity]. apply osub_eqb_eq in S. contradiction. }
  split; [|congruence]. rewrite (C q Dq). rewrite O1; [reflexivity|].
  intros d _ E. apply N. rewrite E. reflexivity.
Qed.

(* =================================================================================
   After every command that saves, the project options are exactly the declared ones *)
Lemma top_defaults_keys : forall l s pend s' pend', top_defaults s pend l = Ok (s', pend') ->
  forall q, dmem (options s') q = dmem (options s) q.
Proof.
  induction l as [|[k v] r IH]; intros s pend s' pend' H q; cbn [top_defaults] in H.
  - injection H as <- _. reflexivity.
  - destruct (sub_truthy k); [eapply IH; exact H|].
    apply bind_ok in H. destruct H as [[s1 c1] [S H]]. cbn in H.
    rewrite (IH _ _ _ _ H q). eapply set_user_option_keys. exact S.
Qed.
Lemma top_cmdline_keys : forall l s s', top_cmdline s l = Ok s' -> forall q, dmem (options s') q = dmem (options s) q.
Proof.
  induction l as [|[k v] r IH]; intros s s' H q; cbn [top_cmdline] in H.
  - injection H as <-. reflexivity.
  - destruct (sub_truthy k); [eapply IH; exact H|].
    apply bind_ok in H. destruct H as [[s1 c1] [S H]]. cbn in H.
    rewrite (IH _ _ H q). eapply set_user_option_keys. exact S.
Qed.
Lemma sub_apply_keys : forall l s s', sub_apply s l = Ok s' -> forall q, dmem (options s') q = dmem (options s) q.
Proof.
  induction l as [|[k v] r IH]; intros s s' H q; cbn [sub_apply] in H.
  - injection H as <-. reflexivity.
  - destruct (dmem (augments s) k); [eapply IH; exact H|].
    apply bind_ok in H. destruct H as [[s1 c1] [S H]]. cbn in H.
    rewrite (IH _ _ H q). eapply set_user_option_keys. exact S.
Qed.

Definition declared_in (fs : files) (q : key) : bool :=
  match ksub q with
  | Some [] => decl_mem (kname q) (ftop fs)
  | Some s => str_eqb s SUB && decl_mem (kname q) (fsub fs)
  | None => is_global (kname q)
  end.

Definition options_match (s : store) (fs : files) : Prop :=
  forall q, (ksub q = None \/ ksub q = Some [] \/ ksub q = Some SUB) -> dmem (options s) q = declared_in fs q.

Lemma omap_dmem s s' q :
  option_map (fun o => (okind o, oval o)) (dget (options s') q) =
  option_map (fun o => (okind o, oval o)) (dget (options s) q) -> dmem (options s') q = dmem (options s) q.
Proof. unfold dmem. destruct (dget (options s') q), (dget (options s) q); cbn; congruence. Qed.

Theorem run_build_option_set pj fs first s udo c late : wf_store s -> wf_files fs ->
  run_build pj fs first s udo = Ok (c, late) -> options_match (cstore c) fs.
Proof.
  intros W [Dt Ds] H. unfold run_build in H.
  apply bind_ok in H. destruct H as [s1 [U1 H]].
  apply bind_ok in H. destruct H as [[s2 pend] [I1 H]].
  apply bind_ok in H. destruct H as [s3 [U2 H]].
  apply bind_ok in H. destruct H as [s4 [I2 H]].
  apply bind_ok in H. destruct H as [lt [_ H]].
  apply bind_ok in H. destruct H as [bm [_ H]].
  destruct bm; [discriminate|]. injection H as <- _. cbn [cstore fst snd] in *.
  assert (W1 : wf_store s1) by (eapply update_project_options_wf; [exact W | apply Dt | exact U1]).
  assert (K12 : forall q, dmem (options s2) q = dmem (options s1) q).
  { destruct first; [|injection I1 as <- _; reflexivity].
    unfold init_top in I1. apply bind_ok in I1. destruct I1 as [[sa pa] [A I1]].
    apply bind_ok in I1. destruct I1 as [sb [B I1]]. injection I1 as <- _. cbn in B.
    intros q. rewrite (top_cmdline_keys _ _ _ B q). apply (top_defaults_keys _ _ _ _ _ A q). }
  assert (W2 : wf_store s2).
  { destruct first; [eapply init_top_wf; eassumption | injection I1 as <- _; exact W1]. }
  assert (W3 : wf_store s3) by (eapply update_project_options_wf; [exact W2 | apply Ds | exact U2]).
  assert (K34 : forall q, dmem (options s4) q = dmem (options s3) q).
  { destruct first; [|injection I2 as <-; reflexivity].
    unfold init_sub in I2. apply bind_ok in I2. destruct I2 as [o1 [_ I2]].
    apply bind_ok in I2. destruct I2 as [o4 [_ I2]]. intros q. apply (sub_apply_keys _ _ _ I2 q). }
  intros q Hq. rewrite K34. unfold declared_in. destruct Hq as [Hq|[Hq|Hq]]; rewrite Hq.
  - (* global options *)
    destruct q as [sq nq]; cbn in Hq; subst sq. cbn [kname]. apply (wf_glob s3 W3 nq).
  - (* top-level project: set by the first update, untouched by the second *)
    destruct (upo_frame s2 (fsub fs) SUB s3 q W2 Ds U2) as [F _]; [rewrite Hq; discriminate|].
    rewrite (omap_dmem _ _ _ F), K12. apply (upo_declared_exactly s (ftop fs) [] s1 W Dt U1 q Hq).
  - rewrite str_eqb_refl. cbn. apply (upo_declared_exactly s2 (fsub fs) SUB s3 W2 Ds U2 q Hq).
Qed.

(* a successful reconfigure / first configuration / --wipe leaves exactly the declared options *)
Theorem reconfigure_option_set pj fs b d b' c' : wf_dir b -> wf_files fs ->
  reconfigure pj fs b d = (b', Done) -> cd b' = Some c' -> options_match (cstore c') fs.
Proof.
  intros W F H C'. unfold reconfigure in H. destruct (cd b) as [c|] eqn:C.
  - destruct (set_from_configure_command (cstore c) (some_vals d) false) as [[s1 dr]|] eqn:S; [|discriminate].
    pose proof (sfcc_wf _ _ _ _ _ (wfd_cd b W c C) S) as W1.
    destruct (run_build pj fs false s1 (dupdate (cl_or_empty b) d)) as [[c2 late]|] eqn:R; [|discriminate].
    destruct (negb (check_unused (cstore c2) d)); [discriminate|].
    destruct late; [discriminate|]. injection H as <-. cbn in C'. injection C' as <-.
    eapply run_build_option_set; eassumption.
  - unfold first_configure in H.
    destruct (run_build pj fs true init_store (dupdate (cl_or_empty b) d)) as [[c2 late]|] eqn:R; [|discriminate].
    destruct (negb (check_unused (cstore c2) (dupdate (cl_or_empty b) d))); [discriminate|].
    destruct late; [discriminate|]. injection H as <-. cbn in C'. injection C' as <-.
    eapply run_build_option_set; [apply wf_init | exact F | exact R].
Qed.

Theorem first_configure_option_set pj fs b d b' c' : wf_files fs ->
  first_configure pj fs b d = (b', Done) -> cd b' = Some c' -> options_match (cstore c') fs.
Proof.
  intros F H C'. unfold first_configure in H.
  destruct (run_build pj fs true init_store (dupdate (cl_or_empty b) d)) as [[c2 late]|] eqn:R; [|discriminate].
  destruct (negb (check_unused (cstore c2) (dupdate (cl_or_empty b) d))); [discriminate|].
  destruct late; [discriminate|]. injection H as <-. cbn in C'. injection C' as <-.
  eapply run_build_option_set; [apply wf_init | exact F | exact R].
Qed.

(* =================================================================================
   meson configure, lifted from set_from_configure_command (no option-file edit pending) *)
Lemma live_args_in s rec args a : In a (live_args s rec args) -> In a args.
Proof. unfold live_args. intros H. apply filter_In in H. tauto. Qed.
Lemma live_args_some s rec args k v : In (k, Some v) args -> In (k, Some v) (live_args s rec args).
Proof. intros H. unfold live_args. apply filter_In. split; [exact H | reflexivity]. Qed.
Lemma live_args_keys s rec args k : In k (map fst (live_args s rec args)) -> In k (map fst args).
Proof. intros H. apply in_map_iff in H. destruct H as [a [<- I]]. apply in_map. eapply live_args_in. exact I. Qed.
Lemma live_args_nodup s rec : forall args, NoDup (map fst args) -> NoDup (map fst (live_args s rec args)).
Proof.
  induction args as [|a r IH]; intros ND; cbn; [constructor|]. cbn in ND. inversion ND as [|? ? NI ND']; subst.
  destruct (negb (stale_drop s rec a)); cbn; [|auto]. constructor; [|auto].
  intros H. apply NI. eapply live_args_keys. exact H.
Qed.
Lemma live_args_forall s rec (P : key -> Prop) args : Forall P (map fst args) -> Forall P (map fst (live_args s rec args)).
Proof. rewrite !Forall_forall. intros F k I. apply F. eapply live_args_keys. exact I. Qed.
Lemma live_args_untouched s rec args r : untouched args r -> untouched (live_args s rec args) r.
Proof. intros U k I. apply U. eapply live_args_keys. exact I. Qed.
(* a -U that names an existing override or option is not dropped *)
Lemma live_args_none s rec args k : In (k, None) args ->
  dmem (augments s) k || dmem (options s) k = true -> In (k, None) (live_args s rec args).
Proof.
  intros H E. unfold live_args. apply filter_In. split; [exact H|]. unfold stale_drop. cbn [fst snd].
  apply orb_true_iff in E. destruct E as [-> | ->]; cbn; [reflexivity | rewrite andb_false_r; reflexivity].
Qed.

Theorem configure_sets fs b args b' c k v : wf_dir b -> cd b = Some c -> seen c = fs ->
  NoDup (map fst args) -> Forall cli_key (map fst args) ->
  configure fs b args = (b', Done) -> In (k, Some v) args ->
  exists c' kd nv, cd b' = Some c' /\ kind_at (cstore c) (target (cstore c) k) = Some kd /\
    validate kd (PStr v) = Ok nv /\ get_value_for (cstore c') (target (cstore c) k) = Ok nv.
Proof.
  intros W C S ND F H I. assert (NE : args <> []) by (intros ->; destruct I).
  destruct (configure_done fs b args b' c W C S NE H) as [s2 [dr [E [_ [c' [C' [St _]]]]]]].
  destruct (sfcc_last_value _ (cstore c) false s2 dr k v (wfd_cd b W c C) (live_args_nodup _ _ _ ND)
              (live_args_forall _ _ _ _ F) E (live_args_some _ _ _ _ _ I)) as [kd [nv [K [V G]]]].
  exists c', kd, nv. rewrite St. auto.
Qed.

Theorem configure_keeps fs b args b' c q : wf_dir b -> cd b = Some c -> seen c = fs -> args <> [] ->
  configure fs b args = (b', Done) -> (forall r, In r (reads q) -> untouched args r) ->
  exists c', cd b' = Some c' /\ get_value_for (cstore c') q = get_value_for (cstore c) q.
Proof.
  intros W C S NE H U.
  destruct (configure_done fs b args b' c W C S NE H) as [s2 [dr [E [_ [c' [C' [St _]]]]]]].
  exists c'. split; [exact C'|]. rewrite St. eapply sfcc_keeps; [exact E|].
  intros r I. apply live_args_untouched. apply U. exact I.
Qed.

Theorem configure_drop_override fs b args b' c k : wf_dir b -> cd b = Some c -> seen c = fs ->
  NoDup (map fst args) -> Forall cli_key (map fst args) ->
  configure fs b args = (b', Done) -> In (k, None) args ->
  dmem (augments (cstore c)) k || dmem (options (cstore c)) k = true ->
  exists c', cd b' = Some c' /\
    dget (augments (cstore c')) k = None /\
    (dget (augments (cstore c)) k <> None ->
       get_value_for (cstore c') k = get_value_for (cstore c') (no_sub k)) /\
    (forall o, dget (augments (cstore c)) k = None -> dget (options (cstore c)) k = Some o ->
       (oparent o = true -> get_value_for (cstore c') k = get_value_for (cstore c') (as_root k)) /\
       (oparent o = false -> get_value_for (cstore c') k = Ok (oval o))).
Proof.
  intros W C S ND F H I X. assert (NE : args <> []) by (intros ->; destruct I).
  destruct (configure_done fs b args b' c W C S NE H) as [s2 [dr [E [_ [c' [C' [St _]]]]]]].
  exists c'. split; [exact C'|]. rewrite St.
  apply (sfcc_drop_override _ (cstore c) false s2 dr k (wfd_cd b W c C) (live_args_nodup _ _ _ ND)
           (live_args_forall _ _ _ _ F) E (live_args_none _ _ _ _ I X)).
Qed.

Theorem configure_records fs b args b' : args <> [] -> configure fs b args = (b', Done) ->
  cl b' = Some (update_cmd_line (cl_or_empty b) args).
Proof.
  intros NE H. unfold configure in H. destruct (cd b) as [c|]; [|discriminate].
  destruct (reload_changed c fs) as [c1|]; [|discriminate].
  destruct args as [|a r]; [congruence|].
  destruct (set_from_configure_command (cstore c1) (live_args (cstore c1) (cl_or_empty b) (a :: r)) false) as [[s2 [|]]|]; try discriminate;
    injection H as <-; reflexivity.
Qed.

(* =================================================================================
   The recorded command line of a removed option (repaired): a reconfigure that is asked
   nothing succeeds whenever the build files evaluate, whatever cmd_line.txt records; and
   -U of a recorded key that is no option any more drops the record and nothing else *)
Theorem reconfigure_empty_succeeds pj fs b c c2 : cd b = Some c ->
  run_build pj fs false (cstore c) (cl_or_empty b) = Ok (c2, false) ->
  reconfigure pj fs b [] = (mkB (Some c2) (Some (cl_or_empty b)) (Some (cstore c2)), Done).
Proof.
  intros C R. unfold reconfigure. rewrite C. cbn [some_vals map set_from_configure_command].
  unfold dupdate. cbn [fold_left]. rewrite R. reflexivity.
Qed.

Theorem configure_drop_stale_record fs b c k : cd b = Some c -> seen c = fs ->
  dmem (augments (cstore c)) k = false -> dmem (options (cstore c)) k = false ->
  dmem (cl_or_empty b) k = true ->
  configure fs b [(k, None)] = (mkB (cd b) (Some (dpop (cl_or_empty b) k)) (intro b), Done).
Proof.
  intros C S A O R. unfold configure. rewrite C.
  destruct (reload_changed c fs) as [c1|] eqn:E.
  - apply (reload_same c fs c1 S) in E. subst c1. cbn [cstore seen].
    unfold live_args, stale_drop. cbn [filter fst snd]. rewrite A, O, R. cbn. reflexivity.
  - unfold reload_changed in E. rewrite S, !list_eqb_decl_refl in E. discriminate.
Qed.

(* =================================================================================
   Histories of `meson configure` commands (no option-file edit): every option keeps its
   value through the whole history until a command names it, and then has the last value
   a successful command gave it - whether the commands in between fail or succeed *)
Definition eff_dir (b : bdir) (q : key) : res pv :=
  match cd b with Some c => get_value_for (cstore c) q | None => Err EKey end.

Definition run_confs (fs : files) (b : bdir) (cmds : list (list (key * option str))) : bdir :=
  fold_left (fun b a => fst (configure fs b a)) cmds b.

Definition synced (fs : files) (b : bdir) : Prop :=
  wf_dir b /\ exists c, cd b = Some c /\ seen c = fs.

Lemma configure_step_synced fs b a : wf_files fs -> synced fs b -> synced fs (fst (configure fs b a)).
Proof.
  intros F [W [c [C S]]]. destruct (configure fs b a) as [b' o] eqn:H. cbn [fst].
  split; [eapply configure_wf; eassumption|].
  destruct o.
  - destruct a as [|x r].
    + unfold configure in H. rewrite C in H. destruct (reload_changed c fs); injection H as <-; eauto.
    + assert (NE : x :: r <> []) by discriminate.
      destruct (configure_done fs b (x :: r) b' c W C S NE H) as [s2 [dr [_ [_ [c' [C' [_ S']]]]]]]. eauto.
  - apply configure_failed_identity in H. subst b'. eauto.
Qed.

Lemma configure_step_keeps fs b a q : synced fs b ->
  (forall r, In r (reads q) -> untouched a r) ->
  eff_dir (fst (configure fs b a)) q = eff_dir b q.
Proof.
  intros [W [c [C S]]] U. destruct (configure fs b a) as [b' o] eqn:H. cbn [fst]. destruct o.
  - destruct a as [|x r].
    + unfold configure in H. rewrite C in H. destruct (reload_changed c fs); injection H as <-; reflexivity.
    + assert (NE : x :: r <> []) by discriminate.
      destruct (configure_keeps fs b (x :: r) b' c q W C S NE H U) as [c' [C' G]].
      unfold eff_dir. rewrite C, C'. exact G.
  - apply configure_failed_identity in H. subst b'. reflexivity.
Qed.

Lemma run_confs_synced fs : forall cmds b, wf_files fs -> synced fs b -> synced fs (run_confs fs b cmds).
Proof.
  induction cmds as [|a r IH]; intros b F S; [exact S|].
  change (synced fs (run_confs fs (fst (configure fs b a)) r)).
  apply IH; [exact F|]. apply configure_step_synced; assumption.
Qed.

(* an option that no command of the history names keeps its value through the whole history *)
Theorem configure_history_keeps fs : forall cmds b q, wf_files fs -> synced fs b ->
  (forall a r, In a cmds -> In r (reads q) -> untouched a r) ->
  eff_dir (run_confs fs b cmds) q = eff_dir b q.
Proof.
  induction cmds as [|a rest IH]; intros b q F S U; [reflexivity|].
  change (eff_dir (run_confs fs (fst (configure fs b a)) rest) q = eff_dir b q).
  rewrite IH; [| exact F | apply configure_step_synced; assumption | intros a' r I; apply U; right; exact I].
  apply configure_step_keeps; [exact S|]. intros r I. apply U; [left; reflexivity | exact I].
Qed.

(* ... and an option has the last value a successful command of the history gave it *)
Theorem configure_history_last_value fs pre a post b k v : wf_files fs -> synced fs b ->
  NoDup (map fst a) -> Forall cli_key (map fst a) -> In (k, Some v) a ->
  snd (configure fs (run_confs fs b pre) a) = Done ->
  forall c1, cd (run_confs fs b pre) = Some c1 ->
  (forall a' r, In a' post -> In r (reads (target (cstore c1) k)) -> untouched a' r) ->
  exists kd nv, kind_at (cstore c1) (target (cstore c1) k) = Some kd /\ validate kd (PStr v) = Ok nv /\
    eff_dir (run_confs fs b (pre ++ a :: post)) (target (cstore c1) k) = Ok nv.
Proof.
  intros F S ND Fc I D c1 C1 U.
  pose proof (run_confs_synced fs pre b F S) as S1. destruct S1 as [W1 [c1' [C1' Sn1]]].
  assert (c1' = c1) by congruence. subst c1'.
  destruct (configure fs (run_confs fs b pre) a) as [b2 o] eqn:H. cbn in D. subst o.
  destruct (configure_sets fs _ a b2 c1 k v W1 C1 Sn1 ND Fc H I) as [c2 [kd [nv [C2 [K [V G]]]]]].
  exists kd, nv. split; [exact K|]. split; [exact V|].
  unfold run_confs. rewrite fold_left_app. cbn [fold_left]. fold (run_confs fs b pre). rewrite H. cbn [fst].
  fold (run_confs fs b2 post).
  rewrite (configure_history_keeps fs post b2 _ F); [unfold eff_dir; rewrite C2; exact G | | exact U].
  replace b2 with (fst (configure fs (run_confs fs b pre) a)) by (rewrite H; reflexivity).
  apply configure_step_synced; [exact F|]. split; [exact W1 | eauto].
Qed.
