(* Options/Entry.v — entry points used by the correspondence check.  Arguments
   and results are strings; structure is encoded with the separator code points
   1..5 (never generated as data); the same encoding is implemented by
   harness/impl/c07.py.
     level 1 (\x01): fields of an operation / items of the result
     level 2 (\x02): dictionary entries (each PREFIXED by \x02) / dump lines
     level 3 (\x03): key \x03 value inside an entry / fields of a dump line
     level 4 (\x04): key parts, list items (each prefixed), integer bounds
     level 5 (\x05): choices (each prefixed), deprecated-map pairs *)
From MV Require Import Base.Strs Options.Kinds Options.Store Options.Init Options.MachineFile.
Open Scope N_scope.

(* ---------------------------------------------------------------- decoding *)
(* items each prefixed by sep:  "" -> [] ; sep a sep b -> [a; b] *)
Definition prefixed_items (sep : char) (s : str) : list str :=
  match split_on sep s [] with
  | _ :: r => r
  | [] => []
  end.

Definition dec_Z (s : str) : Z :=
  match s with
  | 45 :: r => (- Z.of_N (digits_val r))%Z
  | _ => Z.of_N (digits_val s)
  end.
Definition dec_oZ (s : str) : option Z :=
  match s with [45] => None | _ => Some (dec_Z s) end.
Definition dec_bool (s : str) : bool := str_eqb s [84].

Definition dec_key (s : str) : key :=
  match split_on 4 s [] with
  | [su; m; n] =>
      mkKey (match su with 61 :: r => Some r | _ => None end)
            (if str_eqb m [66] then Build else Host) n
  | _ => mkKey None Host s
  end.

Definition dec_value (s : str) : pv :=
  match s with
  | 83 :: r => PStr r                    (* S *)
  | [84] => PBool true                   (* T *)
  | [70] => PBool false                  (* F *)
  | 73 :: r => PInt (dec_Z r)            (* I *)
  | 76 :: r => PList (prefixed_items 4 r)  (* L *)
  | _ => PStr s
  end.

Definition dec_dict (s : str) : list (key * pv) :=
  map (fun e => match split_on 3 e [] with
                | [k; v] => (dec_key k, dec_value v)
                | _ => (dec_key e, PStr [])
                end) (prefixed_items 2 s).

Definition dec_kind (s : str) : kind :=
  match s with
  | 115 :: _ => KString                                   (* s *)
  | 98 :: _ => KBool                                      (* b *)
  | 105 :: r => match split_on 4 r [] with               (* i mn \x04 mx *)
                | [a; b] => KInt (dec_oZ a) (dec_oZ b)
                | _ => KInt None None
                end
  | 99 :: r => KCombo (prefixed_items 5 r)                (* c *)
  | 97 :: 45 :: _ => KArray None                          (* a- *)
  | 97 :: 61 :: r => KArray (Some (prefixed_items 5 r))   (* a= *)
  | 102 :: _ => KFeature                                  (* f *)
  | _ => KString
  end.

Definition dec_depr (s : str) : depr :=
  match s with
  | 121 :: _ => DYes                                      (* y *)
  | 108 :: r => DList (prefixed_items 5 r)                (* l *)
  | 109 :: r => DMap (map (fun p => match split_on 4 p [] with
                                    | [a; b] => (a, b)
                                    | _ => (p, p)
                                    end) (prefixed_items 5 r))   (* m *)
  | 114 :: r => DName r                                   (* r *)
  | _ => DNo
  end.

Definition dec_spec (k v y ro d : str) : optspec :=
  mkSpec (dec_kind k) (dec_value v) (dec_bool y) (dec_bool ro) (dec_depr d).

Definition dec_op (s : str) : option op :=
  match split_on 1 s [] with
  | [o; k; kd; v; y; ro; d] =>
      if str_eqb o (s2l "as") then Some (OAddSystem (dec_key k) (dec_spec kd v y ro d))
      else if str_eqb o (s2l "ap") then Some (OAddProject (dec_key k) (dec_spec kd v y ro d))
      else None
  | [o; l; k; kd; v; y; ro; d] =>
      if str_eqb o (s2l "ac") then Some (OAddCompiler l (dec_key k) (dec_spec kd v y ro d))
      else if str_eqb o (s2l "am") then Some (OAddModule l (dec_key k) (dec_spec kd v y ro d))
      else None
  | [o; k; v; f] =>
      if str_eqb o (s2l "set") then Some (OSet (dec_key k) (dec_value v) (dec_bool f))
      else if str_eqb o (s2l "su") then Some (OSetUser (dec_key k) (dec_value v) (dec_bool f))
      else if str_eqb o (s2l "top") then Some (OTop (dec_dict k) (dec_dict v) (dec_dict f))
      else None
  | [o; n; sp; pdo; cmd; mf] =>
      if str_eqb o (s2l "sub") then Some (OSub n (dec_dict sp) (dec_dict pdo) (dec_dict cmd) (dec_dict mf))
      else None
  | [o; k] =>
      if str_eqb o (s2l "get") then Some (OGet (dec_key k))
      else if str_eqb o (s2l "gp") then Some (OGetPending (dec_key k))
      else None
  | [o; k; v] =>
      if str_eqb o (s2l "hv") then Some (OHasValue (dec_key k) (dec_value v)) else None
  | [o] => if str_eqb o (s2l "dump") then Some ODump else None
  | _ => None
  end.

(* ---------------------------------------------------------------- encoding *)
Definition enc_items (sep : char) (l : list str) : str := concat (map (fun x => sep :: x) l).

Definition enc_key (k : key) : str :=
  (match ksub k with None => [45] | Some s => 61 :: s end) ++ [4] ++
  (match kmach k with Host => [72] | Build => [66] end) ++ [4] ++ kname k.

Definition enc_value (v : pv) : str :=
  match v with
  | PStr s => 83 :: s
  | PBool true => [84]
  | PBool false => [70]
  | PInt z => 73 :: Z_dec z
  | PList l => 76 :: enc_items 4 l
  end.

Definition enc_oZ (o : option Z) : str := match o with None => [45] | Some z => Z_dec z end.
Definition enc_kind (k : kind) : str :=
  match k with
  | KString => [115]
  | KBool => [98]
  | KInt a b => 105 :: enc_oZ a ++ [4] ++ enc_oZ b
  | KCombo c => 99 :: enc_items 5 c
  | KArray None => [97; 45]
  | KArray (Some c) => 97 :: 61 :: enc_items 5 c
  | KFeature => [102]
  end.

Definition enc_err (e : err) : str :=
  s2l "EXC:" ++
  match e with
  | EMeson => s2l "MesonException"
  | EKey => s2l "KeyError"
  | EAssert => s2l "AssertionError"
  | EAttr => s2l "AttributeError"
  | ERecursion => s2l "RecursionError"
  | EOOM => s2l "OOM"
  end.

(* insertion sort by code point (Python sorted() of str) *)
Fixpoint insert_sorted (x : str) (l : list str) : list str :=
  match l with
  | [] => [x]
  | y :: r => match str_cmp x y with
              | Gt => y :: insert_sorted x r
              | _ => x :: l
              end
  end.
Definition sort_strs (l : list str) : list str := fold_right insert_sorted [] l.

Definition enc_opt_line (e : key * opt) : str :=
  let '(k, o) := e in
  join [3] [enc_key k; enc_kind (okind o); enc_value (ovalue o); enc_value (odefault o);
            bool_str (oyield o); bool_str (oreadonly o)].
Definition enc_kv_line (e : key * pv) : str := enc_key (fst e) ++ [3] ++ enc_value (snd e).

Definition enc_dump (s : store) : str :=
  join [2]
    ([s2l "D"] ++ sort_strs (map enc_opt_line (options s)) ++
     [s2l "|aug"] ++ sort_strs (map enc_kv_line (augments s)) ++
     [s2l "|pend"] ++ sort_strs (map enc_kv_line (pending s)) ++
     [s2l "|psub"] ++ sort_strs (map enc_kv_line (pending_sub s)) ++
     [s2l "|proj"] ++ sort_strs (map enc_key (project_options s)) ++
     [s2l "|mod"] ++ sort_strs (map enc_key (module_options s)) ++
     [s2l "|subp"] ++ sort_strs (subprojects s)).

Definition enc_obs (o : obs) : str :=
  match o with
  | ObsValue v => enc_value v
  | ObsNone => s2l "N"
  | ObsBool b => bool_str b
  | ObsDump s => enc_dump s
  end.

Fixpoint dec_ops (l : list str) : option (list op) :=
  match l with
  | [] => Some []
  | x :: r => match dec_op x, dec_ops r with
              | Some o, Some os => Some (o :: os)
              | _, _ => None
              end
  end.

(* header: kind \x01 cross \x01 libdir ; kind "B" = init_builtins(), "0" = bare store *)
Definition initial_store (hdr : str) : res store :=
  match split_on 1 hdr [] with
  | [b; c; libdir] =>
      if str_eqb b (s2l "B") then init_builtins (dec_bool c) libdir
      else Ok (empty_store (dec_bool c))
  | _ => Err EOOM
  end.

Definition enc_res_value (r : res pv) : str :=
  match r with Ok v => enc_value v | Err e => enc_err e end.

Definition enc_table_dd : str :=
  join [2] (map (fun e => join [3] [fst e; fst (snd e); bool_str (snd (snd e))]) DEFAULT_DEPENDENTS).
Definition enc_table_nopref : str :=
  join [2] (map (fun e => join [3] [fst e; enc_items 4 (map (fun p => fst p ++ [5] ++ snd p) (snd e))]) NOPREFIX).

(* machine-file configuration: sections each prefixed by \x01: name \x05 entries, the entries
   each prefixed by \x02: key-text \x03 value *)
Definition dec_sentries (s : str) : list (str * pv) :=
  map (fun e => match split_on 3 e [] with
                | [k; v] => (k, dec_value v)
                | _ => (e, PStr [])
                end) (prefixed_items 2 s).
Definition dec_cfg (s : str) : option (list section) :=
  match s with
  | [45] => None
  | _ => Some (map (fun x => match split_on 5 x [] with
                             | [n; body] => (n, dec_sentries body)
                             | _ => (x, [])
                             end) (prefixed_items 1 s))
  end.
Definition enc_res_key (r : res key) : str :=
  match r with Ok k => enc_key k | Err e => enc_err e end.

Definition run (fn : str) (args : list str) : str :=
  if str_eqb fn (s2l "seq") then
    match args with
    | hdr :: opsl =>
        match dec_ops opsl with
        | None => s2l "?"
        | Some ops =>
            match initial_store hdr with
            | Err e => enc_err e
            | Ok s0 =>
                let '(_, out, e) := run_ops s0 ops [] in
                join [1] (map enc_obs out ++ match e with Some x => [enc_err x] | None => [] end)
            end
        end
    | [] => s2l "?"
    end
  else if str_eqb fn (s2l "val") then
    match args with
    | [k; v] => enc_res_value (validate (dec_kind k) (dec_value v))
    | _ => s2l "?"
    end
  else if str_eqb fn (s2l "sat") then
    match args with
    | [k; v] => bool_str (satisfies (dec_kind k) (dec_value v))
    | _ => s2l "?"
    end
  else if str_eqb fn (s2l "reorder") then
    match args with
    | [d] => join [2] (map enc_kv_line (reorder_buildtype (dec_dict d)))
    | _ => s2l "?"
    end
  else if str_eqb fn (s2l "sanprefix") then
    match args with
    | [p] => enc_res_value (match sanitize_prefix p with Ok x => Ok (PStr x) | Err e => Err e end)
    | _ => s2l "?"
    end
  else if str_eqb fn (s2l "sandir") then
    match args with
    | [p; k; v] => enc_res_value (sanitize_dir_option_value p (dec_key k) (dec_value v))
    | _ => s2l "?"
    end
  else if str_eqb fn (s2l "mfkey") then
    match args with
    | [t; sp; m] =>
        enc_res_key (mfilestr2key t (match sp with 61 :: r => Some r | _ => None end)
                                  (if str_eqb m [66] then Build else Host))
    | _ => s2l "?"
    end
  else if str_eqb fn (s2l "fromstr") then
    match args with
    | [t] => enc_res_key (from_string t)
    | _ => s2l "?"
    end
  else if str_eqb fn (s2l "mfload") then
    match args with
    | [c; n; x] =>
        match env_options (dec_bool c) (dec_cfg n) (dec_cfg x) with
        | Ok d => join [2] (map enc_kv_line d)
        | Err e => enc_err e
        end
    | _ => s2l "?"
    end
  else if str_eqb fn (s2l "tables") then
    join [1] [enc_table_dd; enc_table_nopref; join [2] (sort_strs BUILTIN_NAMES);
              join [2] (sort_strs ALL_LANGUAGES); join [2] BASE_OPTION_NAMES;
              join [2] PER_MACHINE_NAMES]
  else s2l "?".
