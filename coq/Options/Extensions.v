(* Options/Extensions.v — readonly options, pre-existing augments, build-machine keys
   in a native build, directories following the prefix through the whole top-level
   initialisation, and options renamed by `deprecated: 'other-name'`. *)
From MV Require Import Base.Strs Options.Kinds Options.Store Options.Init Options.Spec
                       Options.Proofs Options.Precedence Options.SubMerge Options.SubApply
                       Options.Final Options.Buildtype.
Open Scope N_scope.

(* ------------------------------------------------------------- readonly *)
(* set_option on an inert key for ANY first_invocation flag *)
Lemma set_option_plain_gen f s k v first :
  plain_name k = true ->
  (forall rk o, resolve_option s k = Ok (rk, o) -> not_dname o = true) ->
  set_option (S f) s k v first =
    (do v3 <- canon s k v;
     do ro <- resolve_for_set s k;
     do w <- store_value s k (fst ro) v3;
     if oreadonly (snd ro) && negb (pv_eqb (snd (fst w)) v3) && negb first then Err EMeson
     else Ok (fst (fst w), negb (pv_eqb (snd (fst w)) v3) || snd w)).
Proof.
  intros Hp Hd. unfold plain_name in Hp. apply andb_prop in Hp as [Hp Hb].
  apply negb_true_iff in Hp, Hb.
  cbn [set_option]. unfold canon.
  destruct (sanitize_value s k v) as [v1|e]; cbn [bind]; [|reflexivity].
  destruct (resolve_for_set s k) as [[rk o]|e] eqn:Er; cbn [bind]; [|reflexivity].
  pose proof (Hd _ _ (resolve_for_set_ok _ _ _ Er)) as Hn. unfold not_dname in Hn.
  cbn [snd fst]. unfold depr_value.
  assert (G : forall v2,
    (do v3 <- validate (okind o) v2;
     do w <- store_value s k rk v3;
     (let '(s2, old, unsaved) := w in
      if oreadonly o && (false || negb (pv_eqb old v3)) && negb first then Err EMeson
      else do s3 <- (if str_eqb (kname k) (s2l "prefix") && first && (false || negb (pv_eqb old v3))
                     then match old with
                          | PStr op => match v3 with PStr np => reset_prefixed_options s2 op np | _ => Err EAssert end
                          | _ => Err EAssert
                          end
                     else Ok s2);
           if (false || negb (pv_eqb old v3)) && str_eqb (kname k) (s2l "buildtype") &&
              negb (pv_eqb v3 (PStr (s2l "custom")))
           then match v3 with
                | PStr b => match sassoc DEFAULT_DEPENDENTS b with
                            | Some (optimization, debug) =>
                                do r1 <- set_option f s3 (evolve_name k (s2l "debug")) (PBool debug) first;
                                do r2 <- set_option f (fst r1) (evolve_name k (s2l "optimization")) (PStr optimization) first;
                                Ok (fst r2, false || negb (pv_eqb old v3) || unsaved)
                            | None => Err EKey
                            end
                | PList _ => Err EOOM
                | _ => Err EKey
                end
           else Ok (s3, false || negb (pv_eqb old v3) || unsaved))) =
    (do v3 <- validate (okind o) v2;
     do w <- store_value s k rk v3;
     if oreadonly o && negb (pv_eqb (snd (fst w)) v3) && negb first then Err EMeson
     else Ok (fst (fst w), negb (pv_eqb (snd (fst w)) v3) || snd w))).
  { intros v2. destruct (validate (okind o) v2) as [v3|e]; cbn [bind]; [|reflexivity].
    destruct (store_value s k rk v3) as [[[s2 old] u]|e]; cbn [bind fst snd]; [|reflexivity].
    rewrite Hp, Hb. cbn [andb orb]. rewrite andb_false_r. cbn [andb bind].
    destruct (oreadonly o && negb (pv_eqb old v3) && negb first); reflexivity. }
  destruct (odepr o) eqn:Ed; try discriminate Hn.
  - cbn [bind]. apply G.
  - cbn [bind]. apply G.
  - destruct (opt_listify (okind o) v1); cbn [bind]; [apply G | reflexivity].
  - destruct (opt_listify (okind o) v1); cbn [bind]; [apply G | reflexivity].
Qed.

(* after the first invocation a read-only option (backend, vsenv) cannot change: a
   set_option that succeeds left the value as it was *)
Theorem readonly_value_cannot_change f s k v s' ch rk o :
  plain_name k = true ->
  (forall rk o, resolve_option s k = Ok (rk, o) -> not_dname o = true) ->
  resolve_for_set s k = Ok (rk, o) -> oreadonly o = true ->
  set_option (S f) s k v false = Ok (s', ch) ->
  exists v3 s2 old u, canon s k v = Ok v3 /\ store_value s k rk v3 = Ok (s2, old, u) /\ pv_eqb old v3 = true.
Proof.
  intros Hp Hd Hr Hro E. rewrite (set_option_plain_gen f s k v false Hp Hd) in E.
  apply bind_ok in E as (v3 & Ec & E). rewrite Hr in E. cbn [bind fst snd] in E.
  apply bind_ok in E as ([[s2 old] u] & Ew & E). cbn [fst snd] in E.
  rewrite Hro in E. cbn [andb negb] in E. rewrite andb_true_r in E.
  destruct (negb (pv_eqb old v3)) eqn:N; [discriminate|]. apply negb_false_iff in N.
  exists v3, s2, old, u. auto.
Qed.

Theorem readonly_change_is_rejected f s k v rk o v3 s2 old u :
  plain_name k = true ->
  (forall rk o, resolve_option s k = Ok (rk, o) -> not_dname o = true) ->
  resolve_for_set s k = Ok (rk, o) -> oreadonly o = true ->
  canon s k v = Ok v3 -> store_value s k rk v3 = Ok (s2, old, u) -> pv_eqb old v3 = false ->
  set_option (S f) s k v false = Err EMeson.
Proof.
  intros Hp Hd Hr Hro Ec Ew N. rewrite (set_option_plain_gen f s k v false Hp Hd).
  rewrite Ec. cbn [bind]. rewrite Hr. cbn [bind fst snd]. rewrite Ew. cbn [bind fst snd].
  rewrite Hro, N. reflexivity.
Qed.

(* -------------------------------------------- an augment that already exists *)
(* "giving self.augments priority" (options.py:1372,1385): a per-subproject value that
   exists before the subproject is initialised is kept, whatever the sources say *)
Theorem sub_existing_augment_kept f s sub spcall pdo cmd mf s' merged q a :
  initialize_from_subproject_call (S f) s sub spcall pdo cmd mf = Ok s' ->
  merge_sub s sub spcall pdo cmd mf = Ok merged ->
  pfx_ok s -> Forall (sub_entry_ok sub s) merged ->
  ksub q = Some sub -> kmach q = Host ->
  dmem (options s) q = false -> is_project_option s q = false ->
  dmem (options s) (no_sub q) = true ->
  aslot s q = Some a ->
  get_value_for s' q = Ok a.
Proof.
  intros Hi Hm Hpf HG Hq Hh Hnm Hnp Hg Ha.
  unfold initialize_from_subproject_call in Hi. rewrite Hm in Hi. cbn [bind] in Hi.
  apply bind_ok in Hi as (s1 & H1 & Hi). injection Hi as <-.
  change (get_value_for (set_subprojects s1 (str_add sub (subprojects s1))) q) with (get_value_for s1 q).
  assert (U : uniq_keys merged = true).
  { destruct (merge_sub_get sub q Hq s spcall pdo cmd mf merged Hm) as [U _]. exact U. }
  destruct (sub_apply_effect f sub s merged s1 q Hpf U HG Hq H1) as (HR & _ & Hq').
  assert (Ea : dmem (augments s) q = true) by (unfold dmem; unfold aslot in Ha; rewrite Ha; reflexivity).
  assert (Es : slots s1 q = slots s q).
  { destruct (dget merged q); [rewrite Ea in Hq'|]; exact Hq'. }
  unfold slots in Es. injection Es as _ Es.
  eapply gvf_sub_augment; try eassumption.
  - rewrite (R_dmem _ _ _ HR). exact Hnm.
  - unfold is_project_option in *. rewrite (R_proj _ _ HR). exact Hnp.
  - rewrite (R_dmem _ _ _ HR). exact Hg.
  - congruence.
Qed.

(* ------------------------------------- build-machine keys in a native build *)
Lemma as_host_idem k : as_host (as_host k) = as_host k.
Proof. reflexivity. Qed.

Lemma ensure_native s k : is_cross s = false -> ensure_key s k = as_host k.
Proof. intros H. unfold ensure_key. rewrite H. reflexivity. Qed.

(* reading build.X natively reads X  (options.py:815-826) *)
Theorem native_build_reads_host s k :
  is_cross s = false -> get_value_for s k = get_value_for s (as_host k).
Proof.
  intros H. unfold get_value_for, get_option_and_value_for.
  rewrite (ensure_native s k H), (ensure_native s (as_host k) H). reflexivity.
Qed.

(* ... and setting it is ignored  (options.py:1078-1079, 1291-1294, 1309-1312) *)
Theorem native_build_set_ignored fuel s k v first :
  is_cross s = false -> is_for_build k = true -> set_user_option fuel s k v first = Ok (s, false).
Proof. intros H1 H2. unfold set_user_option. rewrite H1, H2. reflexivity. Qed.

Lemma store_value_cross s k rk v s' old u : store_value s k rk v = Ok (s', old, u) -> is_cross s' = is_cross s.
Proof.
  unfold store_value. intros E. destruct (dget (options s) rk); [|discriminate].
  destruct (dmem (options s) k).
  - apply bind_ok in E as (v4 & _ & E). injection E as <- _ _. reflexivity.
  - destruct (ksub k); [|discriminate]. injection E as <- _ _. reflexivity.
Qed.

Lemma reset_prefixed_loop_cross tbl : forall s a b s', reset_prefixed_loop s tbl a b = Ok s' -> is_cross s' = is_cross s.
Proof.
  induction tbl as [|[n m] tbl IH]; intros s a b s' E; cbn in E; [injection E as <-; reflexivity|].
  destruct (dget (options s) (nopref_key n)); [|discriminate].
  apply bind_ok in E as (s1 & E1 & E). rewrite (IH _ _ _ _ E).
  unfold set_value_at in E1. apply bind_ok in E1 as (v' & _ & E1). injection E1 as <-. reflexivity.
Qed.

Lemma set_option_cross : forall fuel s k v first s' ch,
  set_option fuel s k v first = Ok (s', ch) -> is_cross s' = is_cross s.
Proof.
  induction fuel as [|f IH]; intros s k v first s' ch E; [discriminate|].
  cbn [set_option] in E.
  apply bind_ok in E as (v1 & _ & E). apply bind_ok in E as ([rk o] & _ & E).
  apply bind_ok in E as ([[s1 v2] ch0] & Ed & E).
  assert (C1 : is_cross s1 = is_cross s).
  { destruct (odepr o).
    - injection Ed as <- _ _. reflexivity.
    - injection Ed as <- _ _. reflexivity.
    - apply bind_ok in Ed as (? & _ & Ed). injection Ed as <- _ _. reflexivity.
    - apply bind_ok in Ed as (? & _ & Ed). injection Ed as <- _ _. reflexivity.
    - apply bind_ok in Ed as ([sr cr] & Er & Ed). injection Ed as <- _ _. cbn. eapply IH; exact Er. }
  apply bind_ok in E as (v3 & _ & E). apply bind_ok in E as ([[s2 old] u] & Ew & E).
  pose proof (store_value_cross _ _ _ _ _ _ _ Ew) as C2.
  destruct (oreadonly o && (ch0 || negb (pv_eqb old v3)) && negb first); [discriminate|].
  apply bind_ok in E as (s3 & E3 & E).
  assert (C3 : is_cross s3 = is_cross s2).
  { destruct (str_eqb (kname k) (s2l "prefix") && first && (ch0 || negb (pv_eqb old v3))).
    - destruct old; try discriminate. destruct v3; try discriminate.
      eapply reset_prefixed_loop_cross; exact E3.
    - injection E3 as <-. reflexivity. }
  destruct ((ch0 || negb (pv_eqb old v3)) && str_eqb (kname k) (s2l "buildtype") &&
            negb (pv_eqb v3 (PStr (s2l "custom")))).
  - destruct v3; try discriminate.
    destruct (sassoc DEFAULT_DEPENDENTS s0) as [[optimization debug]|]; [|discriminate].
    apply bind_ok in E as ([sa ca] & Ea & E). apply bind_ok in E as ([sb cb] & Eb & E).
    injection E as <- _. cbn in *. rewrite (IH _ _ _ _ _ _ Eb), (IH _ _ _ _ _ _ Ea). congruence.
  - injection E as <- _. congruence.
Qed.

Lemma set_user_option_cross fuel s o v first s' ch :
  set_user_option fuel s o v first = Ok (s', ch) -> is_cross s' = is_cross s.
Proof.
  unfold set_user_option. intros E.
  destruct (negb (is_cross s) && is_for_build o); [injection E as <- _; reflexivity|].
  destruct (dmem (options s) o); [eapply set_option_cross; exact E|].
  destruct (_ && dmem (options s) (no_sub o)); [eapply set_option_cross; exact E|].
  destruct (accept_as_pending_option o first).
  - destruct (dget (pending s) o).
    + destruct v; try (injection E as <- _; reflexivity).
      destruct (py_str p); [|discriminate]. injection E as <- _. reflexivity.
    + injection E as <- _. reflexivity.
  - destruct (ksub o); [discriminate|]. eapply set_option_cross; exact E.
Qed.

Definition host_only (l : list (key * pv)) : list (key * pv) :=
  filter (fun e => negb (is_for_build (fst e))) l.

(* natively, both loops of the top-level initialisation behave as if every build-machine
   entry had been deleted from the sources — for arbitrary sources *)
Theorem native_top_loops_ignore_build fuel : forall l s,
  is_cross s = false ->
  top_pdo_loop fuel s l = top_pdo_loop fuel s (host_only l) /\
  top_mc_loop fuel s l = top_mc_loop fuel s (host_only l).
Proof.
  induction l as [|[k v] l IH]; intros s Hc; [split; reflexivity|].
  cbn [top_pdo_loop top_mc_loop host_only filter fst]. rewrite Hc. cbn [negb andb].
  destruct (is_for_build k) eqn:Eb; cbn [negb].
  - apply (IH s Hc).
  - cbn [top_pdo_loop top_mc_loop]. rewrite Hc, Eb. cbn [negb andb]. fold (host_only l). split.
    + destruct (sub_truthy k).
      * apply (proj1 (IH (set_pending_sub s (dset (pending_sub s) k v)) Hc)).
      * destruct (set_user_option fuel s k v true) as [[s1 c]|] eqn:E; cbn [bind fst]; [|reflexivity].
        apply (proj1 (IH s1 (eq_trans (set_user_option_cross _ _ _ _ _ _ _ E) Hc))).
    + destruct (negb (sub_truthy k)); [|apply (proj2 (IH s Hc))].
      destruct (set_user_option fuel s k v true) as [[s1 c]|] eqn:E; cbn [bind fst]; [|reflexivity].
      apply (proj2 (IH s1 (eq_trans (set_user_option_cross _ _ _ _ _ _ _ E) Hc))).
Qed.

(* ------------------------- directories follow the prefix, end to end (top level) *)
(* The prefix comes from the highest-priority source that gives one; every
   prefix-dependent directory option that no source sets explicitly then holds the table
   value for that prefix (or its declared default), and an explicit value wins with the
   usual priority. *)
Theorem top_level_dir_follows_prefix f s pdo cmd mf s1 pdo' cmd' mf' s' n mapping p0 o :
  first_handle_prefix s pdo cmd mf = Ok (s1, pdo', cmd', mf') ->
  resolve_top (last_prefix cmd None) (dget mf prefix_key) (last_prefix pdo None) = Some (PStr p0) ->
  initialize_from_top_level_project_call (S f) s pdo cmd mf = Ok s' ->
  pfx_ok s1 -> Forall (good_entry s1) (pdo' ++ mf' ++ cmd') ->
  In (n, mapping) NOPREFIX ->
  dget (options s) (nopref_key n) = Some o -> oyield o = false ->
  is_project_option s1 (nopref_key n) = false -> aslot s1 (nopref_key n) = None ->
  exists p v',
    sanitize_prefix p0 = Ok p /\
    validate (okind o) (match sassoc mapping p with Some x => PStr x | None => odefault o end) = Ok v' /\
    get_value_for s' (nopref_key n) =
      match resolve_top (dlast cmd' (nopref_key n)) (dlast mf' (nopref_key n)) (dlast pdo' (nopref_key n)) with
      | Some v => canon s1 (nopref_key n) v
      | None => Ok v'
      end.
Proof.
  intros Hf Hpre Hi Hpf HG Hin Ho Hy Hnp Ha.
  pose proof (prefix_source_order s pdo cmd mf s1 pdo' cmd' mf' Hf) as Hs. rewrite Hpre in Hs.
  destruct (prefix_dependent_defaults s p0 s1 n mapping Hs Hin) as (p & o' & v' & op & vp & Hp & Go & Ev & G1 & _ & _).
  rewrite Ho in Go. injection Go as <-.
  exists p, v'. split; [exact Hp|]. split; [exact Ev|].
  apply (top_precedence_global f s pdo cmd mf s1 pdo' cmd' mf' s' (nopref_key n) v' Hf Hi Hpf HG); auto.
  unfold oslot. rewrite G1. cbn. rewrite Hy. reflexivity.
Qed.

(* ----------------------------- options renamed with  deprecated: 'other-name' *)
(* set_option on such an option first sets the option it was renamed to (with the sanitised
   value), then itself (options.py:1043-1046) *)
Lemma set_option_dname f s k v n rk o :
  plain_name k = true -> resolve_for_set s k = Ok (rk, o) -> odepr o = DName n ->
  set_option (S f) s k v true =
    (do v1 <- sanitize_value s k v;
     do r <- set_option f s (evolve_name k n) v1 true;
     do v3 <- validate (okind o) v1;
     do w <- store_value (fst r) k rk v3;
     Ok (fst (fst w), snd r || negb (pv_eqb (snd (fst w)) v3) || snd w)).
Proof.
  intros Hp Hr Hd. unfold plain_name in Hp. apply andb_prop in Hp as [Hp Hb].
  apply negb_true_iff in Hp, Hb.
  cbn [set_option].
  destruct (sanitize_value s k v) as [v1|e]; cbn [bind]; [|reflexivity].
  rewrite Hr. cbn [bind]. rewrite Hd.
  destruct (set_option f s (evolve_name k n) v1 true) as [[sT cT]|e]; cbn [bind fst snd]; [|reflexivity].
  destruct (validate (okind o) v1) as [v3|e]; cbn [bind]; [|reflexivity].
  destruct (store_value sT k rk v3) as [[[s2 old] u]|e]; cbn [bind fst snd]; [|reflexivity].
  rewrite Hp, Hb. rewrite andb_false_r. cbn [andb orb bind]. rewrite andb_false_r. reflexivity.
Qed.

Theorem deprecated_name_sets_both f s k v n rk o s' ch :
  kmach k = Host -> plain_name k = true -> pfx_ok s ->
  resolve_for_set s k = Ok (rk, o) -> odepr o = DName n ->
  (forall rk' o', resolve_option s (evolve_name k n) = Ok (rk', o') -> not_dname o' = true) ->
  plain_name (evolve_name k n) = true ->
  set_option (S (S f)) s k v true = Ok (s', ch) ->
  exists v1,
    sanitize_value s k v = Ok v1 /\ R s s' /\
    (forall x, oslot s' x = apply_wr_o (set_wr s k v) (apply_wr_o (set_wr s (evolve_name k n) v1) (oslot s)) x) /\
    (forall x, aslot s' x = apply_wr_a (set_wr s k v) (apply_wr_a (set_wr s (evolve_name k n) v1) (aslot s)) x).
Proof.
  intros Hh Hp Hpf Hr Hd Hdt Hpt E.
  rewrite (set_option_dname (S f) s k v n rk o Hp Hr Hd) in E.
  apply bind_ok in E as (v1 & Es & E). apply bind_ok in E as ([sT cT] & ET & E).
  apply bind_ok in E as (v3 & Ev & E). apply bind_ok in E as ([[s2 old] u] & Ew & E).
  cbn [fst snd] in *. injection E as <- _.
  exists v1. split; [exact Es|].
  assert (HhT : kmach (evolve_name k n) = Host) by exact Hh.
  destruct (set_option_effect f s (evolve_name k n) v1 sT cT HhT Hpt Hpf Hdt ET) as (RT & OT & AT).
  assert (PT : pfx_ok sT) by (eapply R_pfx_ok; eassumption).
  assert (Ec : canon s k v = Ok v3).
  { unfold canon. rewrite Es. cbn [bind]. rewrite Hr. cbn [bind snd]. unfold depr_value. rewrite Hd. cbn [bind]. exact Ev. }
  assert (EcT : canon sT k v = Ok v3) by (rewrite (R_canon _ _ _ _ RT); exact Ec).
  pose proof (R_resolve_for_set _ _ k RT) as Er. rewrite Hr in Er.
  destruct (resolve_for_set sT k) as [[rk1 o1]|] eqn:ErT; cbn in Er; [|discriminate].
  unfold rstatic in Er; cbn in Er. injection Er as Erk _. subst rk1.
  assert (Hpn : str_eqb (kname k) (s2l "prefix") = false).
  { unfold plain_name in Hp. apply andb_prop in Hp as [Hp _]. apply negb_true_iff in Hp. exact Hp. }
  destruct (write_effect sT k v v3 rk o1 s2 old u Hh Hpn PT EcT ErT Ew) as (R2 & O2 & A2).
  split; [eapply R_trans; eassumption|]. split.
  - intros x. unfold apply_wr_o. rewrite O2, OT, (R_set_wr _ _ _ _ RT). reflexivity.
  - intros x. unfold apply_wr_a. rewrite A2, AT, (R_set_wr _ _ _ _ RT). reflexivity.
Qed.

(* ------------------------------------------------------------------ examples *)
(* module-prefixed options are global options: the top-level theorem's guards hold for
   python.bytecompile / python.install_env, and the values come out as stated *)
Example module_option_guards_satisfiable :
  match init_builtins false (s2l "lib") with
  | Ok s =>
      let q := K "python.bytecompile" in
      let pdo := [(q, PStr (s2l "1")); (K "python.install_env", PStr (s2l "venv"))] in
      let cmd := [(q, PStr (s2l "2"))] in
      let mf := [(q, PInt (-1))] in
      pfx_okb s && forallb (good_entryb s) (pdo ++ mf ++ cmd) &&
      negb (is_project_option s q) &&
      match oslot s q, aslot s q with Some (PInt 0, false), None => true | _, _ => false end &&
      match initialize_from_top_level_project_call 5 s pdo cmd mf with
      | Ok s' => match get_value_for s' q, get_value_for s' (K "python.install_env") with
                 | Ok (PInt 2), Ok (PStr _) => true
                 | _, _ => false
                 end
      | Err _ => false
      end
  | Err _ => false
  end = true.
Proof. vm_compute. reflexivity. Qed.

Example readonly_backend :
  match init_builtins false (s2l "lib") with
  | Ok s =>
      match set_option 5 s (K "backend") (PStr (s2l "none")) false,
            set_option 5 s (K "backend") (PStr (s2l "ninja")) false,
            set_option 5 s (K "backend") (PStr (s2l "none")) true with
      | Err EMeson, Ok (_, false), Ok (_, true) => true
      | _, _, _ => false
      end
  | Err _ => false
  end = true.
Proof. vm_compute. reflexivity. Qed.

Example deprecated_name_guards_satisfiable :
  let old := mkKey (Some []) Host (s2l "old_name") in
  let new := mkKey (Some []) Host (s2l "new_name") in
  match add_project_option (empty_store false) new (mkOpt KString (PStr (s2l "n")) (PStr (s2l "n")) false None false DNo) with
  | Ok s0 =>
      match add_project_option s0 old (mkOpt KString (PStr (s2l "o")) (PStr (s2l "o")) false None false (DName (s2l "new_name"))) with
      | Ok s =>
          plain_name old && plain_name new && pfx_okb s &&
          match set_option 5 s old (PStr (s2l "v")) true with
          | Ok (s', _) => match get_value_for s' old, get_value_for s' new with
                          | Ok (PStr a), Ok (PStr b) => str_eqb a (s2l "v") && str_eqb b (s2l "v")
                          | _, _ => false
                          end
          | Err _ => false
          end
      | Err _ => false
      end
  | Err _ => false
  end = true.
Proof. vm_compute. reflexivity. Qed.
