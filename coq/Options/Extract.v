(* Extraction of the C07 model.  Only the ExtrOcamlBasic directives are used. *)
From Coq Require Extraction.
From Coq Require Import ExtrOcamlBasic.
From MV Require Import Options.Entry.
Extraction "../extract/C07/model.ml" Options.Entry.run.
