(* Options/Precedence.v — "last writer wins": the effect of a sequence of
   set_user_option calls on the stored values, and from it the documented
   priority order of the top-level project. *)
From MV Require Import Base.Strs Options.Kinds Options.Store Options.Init Options.Spec Options.Proofs.
From Coq Require Import Lia.
Open Scope N_scope.

(* ------------------------------------------------------------ key equality *)
Lemma str_eqb_refl a : str_eqb a a = true.
Proof. induction a as [|x a IH]; cbn; [reflexivity|]. rewrite N.eqb_refl. exact IH. Qed.
Lemma str_eqb_eq a : forall b, str_eqb a b = true -> a = b.
Proof.
  induction a as [|x a IH]; intros [|y b] H; cbn in H; try discriminate; [reflexivity|].
  apply andb_prop in H as [H1 H2]. apply N.eqb_eq in H1. subst. f_equal. auto.
Qed.
Lemma str_eqb_sym a b : str_eqb a b = str_eqb b a.
Proof.
  destruct (str_eqb a b) eqn:E.
  - apply str_eqb_eq in E. subst. symmetry. apply str_eqb_refl.
  - destruct (str_eqb b a) eqn:E2; [|reflexivity]. apply str_eqb_eq in E2. subst.
    rewrite str_eqb_refl in E. discriminate.
Qed.

Lemma key_eqb_refl k : key_eqb k k = true.
Proof.
  destruct k as [[s|] [] n]; unfold key_eqb; cbn; rewrite ?str_eqb_refl; reflexivity.
Qed.
Lemma key_eqb_eq a b : key_eqb a b = true -> a = b.
Proof.
  destruct a as [sa ma na], b as [sb mb nb]. unfold key_eqb; cbn. intros H.
  apply andb_prop in H as [H H3]. apply andb_prop in H as [H1 H2].
  apply str_eqb_eq in H3. subst.
  assert (sa = sb).
  { destruct sa, sb; cbn in H1; try discriminate; [|reflexivity]. apply str_eqb_eq in H1. congruence. }
  assert (ma = mb) by (destruct ma, mb; cbn in H2; try discriminate; reflexivity).
  congruence.
Qed.
Lemma key_eqb_sym a b : key_eqb a b = key_eqb b a.
Proof.
  destruct (key_eqb a b) eqn:E.
  - apply key_eqb_eq in E. subst. symmetry. apply key_eqb_refl.
  - destruct (key_eqb b a) eqn:E2; [|reflexivity]. apply key_eqb_eq in E2. subst.
    rewrite key_eqb_refl in E. discriminate.
Qed.
Lemma key_eqb_neq a b : a <> b -> key_eqb a b = false.
Proof. intros H. destruct (key_eqb a b) eqn:E; [|reflexivity]. apply key_eqb_eq in E. contradiction. Qed.

(* ------------------------------------------------------------------- dicts *)
Lemma dget_dset {V} (d : list (key * V)) k v q :
  dget (dset d k v) q = if key_eqb k q then Some v else dget d q.
Proof.
  induction d as [|[k' v'] d IH]; cbn.
  - rewrite (key_eqb_sym q k). reflexivity.
  - destruct (key_eqb k k') eqn:E; cbn.
    + apply key_eqb_eq in E. subst k'. rewrite (key_eqb_sym q k). destruct (key_eqb k q); reflexivity.
    + destruct (key_eqb q k') eqn:E2.
      * apply key_eqb_eq in E2. subst k'. rewrite E. reflexivity.
      * exact IH.
Qed.

Lemma dmem_dset {V} (d : list (key * V)) k v q :
  dmem (dset d k v) q = key_eqb k q || dmem d q.
Proof. unfold dmem. rewrite dget_dset. destruct (key_eqb k q); reflexivity. Qed.

Lemma dget_dpop_other {V} (d : list (key * V)) k q :
  key_eqb k q = false -> dget (dpop d k) q = dget d q.
Proof.
  intros N. induction d as [|[k' v'] d IH]; cbn; [reflexivity|].
  destruct (key_eqb k k') eqn:E; cbn.
  - apply key_eqb_eq in E. subst k'. rewrite (key_eqb_sym q k), N. reflexivity.
  - destruct (key_eqb q k'); [reflexivity | exact IH].
Qed.

(* ------------------------------------------------------------- host keys *)
Lemma ensure_host s k : kmach k = Host -> ensure_key s k = k.
Proof.
  intros H. unfold ensure_key. destruct (negb _); [|reflexivity].
  destruct k as [su m n]. cbn in H. subst. reflexivity.
Qed.

(* ---------------------------------------------------- a generic fold lemma *)
Section Fold.
  Context {E X Y : Type}.
  Variable step : store -> E -> res store.
  Variable R : store -> store -> Prop.
  Variable Inv : store -> Prop.
  Variable good : store -> E -> Prop.
  Variable obs : store -> X -> Y.
  Variable w : store -> E -> X -> option Y.
  Hypothesis R_refl : forall s, R s s.
  Hypothesis R_trans : forall a b c, R a b -> R b c -> R a c.
  Hypothesis good_R : forall s s1 e, R s s1 -> good s e -> good s1 e.
  Hypothesis step_R : forall s e s1, Inv s -> good s e -> step s e = Ok s1 -> R s s1 /\ Inv s1.
  Hypothesis w_R : forall s s1 e x, R s s1 -> w s1 e x = w s e x.
  Hypothesis step_obs : forall s e s1 x, Inv s -> good s e -> step s e = Ok s1 ->
      obs s1 x = match w s e x with Some y => y | None => obs s x end.

  Fixpoint fold_res (s : store) (l : list E) : res store :=
    match l with
    | [] => Ok s
    | e :: r => do s1 <- step s e; fold_res s1 r
    end.

  (* the effect of the last entry of l that writes x *)
  Fixpoint last_w (s : store) (l : list E) (x : X) (acc : option Y) : option Y :=
    match l with
    | [] => acc
    | e :: r => last_w s r x (match w s e x with Some y => Some y | None => acc end)
    end.

  Lemma last_w_R s s1 l x : forall acc, R s s1 -> last_w s1 l x acc = last_w s l x acc.
  Proof.
    induction l as [|e r IH]; intros acc H; cbn; [reflexivity|].
    rewrite (w_R _ _ _ _ H). apply IH. exact H.
  Qed.

  Lemma last_w_acc s x : forall l acc,
    last_w s l x acc = match last_w s l x None with Some y => Some y | None => acc end.
  Proof.
    induction l as [|e' l IHl]; intros acc; cbn; [reflexivity|].
    rewrite (IHl (match w s e' x with Some y => Some y | None => acc end)).
    rewrite (IHl (match w s e' x with Some y => Some y | None => None end)).
    destruct (last_w s l x None); [reflexivity|]. destruct (w s e' x); reflexivity.
  Qed.

  Lemma last_w_app s x l1 l2 acc :
    last_w s (l1 ++ l2) x acc = last_w s l2 x (last_w s l1 x acc).
  Proof. revert acc. induction l1 as [|e l1 IH]; intros acc; cbn; [reflexivity | apply IH]. Qed.

  Lemma fold_res_app l1 : forall s l2,
    fold_res s (l1 ++ l2) = do s1 <- fold_res s l1; fold_res s1 l2.
  Proof.
    induction l1 as [|e l1 IH]; intros s l2; cbn; [reflexivity|].
    destruct (step s e); cbn; [apply IH | reflexivity].
  Qed.

  Lemma fold_last_writer l : forall s s' x,
    Inv s -> Forall (good s) l -> fold_res s l = Ok s' ->
    R s s' /\ Inv s' /\
    obs s' x = match last_w s l x None with Some y => y | None => obs s x end.
  Proof.
    induction l as [|e r IH]; intros s s' x HI HG H; cbn in H.
    - injection H as <-. auto.
    - apply bind_ok in H as (s1 & H1 & H).
      inversion HG as [|? ? Hg Hr]; subst.
      destruct (step_R _ _ _ HI Hg H1) as [HR HI1].
      assert (HG1 : Forall (good s1) r).
      { eapply Forall_impl; [|exact Hr]. intros a Ha. eapply good_R; eassumption. }
      destruct (IH _ _ x HI1 HG1 H) as (HR2 & HI2 & Ho).
      split; [eapply R_trans; eassumption|]. split; [exact HI2|].
      rewrite Ho. cbn [last_w].
      rewrite (last_w_R s s1 r x None HR).
      rewrite (step_obs _ _ _ x HI Hg H1).
      rewrite (last_w_acc s x r (match w s e x with Some y => Some y | None => None end)).
      destruct (last_w s r x None); [reflexivity|]. destruct (w s e x); reflexivity.
  Qed.
End Fold.

(* ------------------------------------------ what inert writes leave unchanged *)
Definition ostatic (o : opt) := (okind o, odepr o, oreadonly o, oparent o).

Record R (s s1 : store) : Prop := mkR {
  R_cross : is_cross s1 = is_cross s;
  R_proj : project_options s1 = project_options s;
  R_mod : module_options s1 = module_options s;
  R_opts : forall k, option_map ostatic (dget (options s1) k) = option_map ostatic (dget (options s) k);
  R_pfx_o : dget (options s1) prefix_key = dget (options s) prefix_key;
  R_pfx_v : get_value_for s1 prefix_key = get_value_for s prefix_key }.

Lemma R_refl s : R s s.
Proof. constructor; reflexivity. Qed.
Lemma R_trans a b c : R a b -> R b c -> R a c.
Proof.
  intros [] []. constructor; try congruence; intros k; rewrite R_opts1; apply R_opts0.
Qed.

(* the prefix option is an ordinary, non-yielding option *)
Definition pfx_ok (s : store) : Prop :=
  match dget (options s) prefix_key with Some o => oyield o = false | None => True end.

Lemma R_pfx_ok s s1 : R s s1 -> pfx_ok s -> pfx_ok s1.
Proof. intros H. unfold pfx_ok. rewrite (R_pfx_o _ _ H). auto. Qed.

Lemma R_dmem s s1 k : R s s1 -> dmem (options s1) k = dmem (options s) k.
Proof.
  intros H. unfold dmem. pose proof (R_opts _ _ H k) as E.
  destruct (dget (options s1) k), (dget (options s) k); cbn in E; try discriminate; reflexivity.
Qed.

Lemma R_ensure s s1 k : R s s1 -> ensure_key s1 k = ensure_key s k.
Proof. intros H. unfold ensure_key. rewrite (R_cross _ _ H). reflexivity. Qed.

Definition res_map {A B} (f : A -> B) (r : res A) : res B :=
  match r with Ok a => Ok (f a) | Err e => Err e end.
Definition rstatic (x : key * opt) := (fst x, ostatic (snd x)).

Lemma R_resolve s s1 k : R s s1 ->
  res_map rstatic (resolve_option s1 k) = res_map rstatic (resolve_option s k).
Proof.
  intros H. unfold resolve_option, is_project_option.
  rewrite (R_ensure _ _ _ H), (R_proj _ _ H).
  pose proof (R_opts _ _ H (ensure_key s k)) as E1.
  pose proof (R_opts _ _ H (no_sub (ensure_key s k))) as E2.
  destruct (key_mem (ensure_key s k) (project_options s)).
  - destruct (ksub (ensure_key s k)); [|reflexivity].
    destruct (dget (options s1) (ensure_key s k)), (dget (options s) (ensure_key s k));
      cbn in E1; try discriminate; [|reflexivity].
    injection E1 as E1. cbn. unfold rstatic; cbn. unfold ostatic. congruence.
  - destruct (dget (options s1) (ensure_key s k)), (dget (options s) (ensure_key s k));
      cbn in E1; try discriminate.
    + injection E1 as E1. cbn. unfold rstatic; cbn. unfold ostatic. congruence.
    + destruct (dget (options s1) (no_sub (ensure_key s k))), (dget (options s) (no_sub (ensure_key s k)));
        cbn in E2; try discriminate; [|reflexivity].
      injection E2 as E2. cbn. unfold rstatic; cbn. unfold ostatic. congruence.
Qed.

(* ----------------------------------------------------- inert set_option *)
Definition not_dname (o : opt) : bool := match odepr o with DName _ => false | _ => true end.
Definition plain_name (k : key) : bool :=
  negb (str_eqb (kname k) (s2l "prefix")) && negb (str_eqb (kname k) (s2l "buildtype")).

Definition depr_value (o : opt) (v1 : pv) : res pv :=
  match odepr o with
  | DNo | DYes | DName _ => Ok v1
  | DList _ => do _ <- opt_listify (okind o) v1; Ok v1
  | DMap m => do l <- opt_listify (okind o) v1; Ok (PStr (join [44] (map (depr_replace m) l)))
  end.

(* the value an option receives from a raw source value: sanitised, deprecated
   values replaced, validated *)
Definition canon (s : store) (k : key) (v : pv) : res pv :=
  do v1 <- sanitize_value s k v;
  do ro <- resolve_for_set s k;
  do v2 <- depr_value (snd ro) v1;
  validate (okind (snd ro)) v2.

Lemma resolve_for_set_ok s k x : resolve_for_set s k = Ok x -> resolve_option s k = Ok x.
Proof. unfold resolve_for_set. destruct (resolve_option s k) as [y|[]]; congruence. Qed.

Lemma set_option_plain f s k v :
  plain_name k = true ->
  (forall rk o, resolve_option s k = Ok (rk, o) -> not_dname o = true) ->
  set_option (S f) s k v true =
    (do v3 <- canon s k v;
     do ro <- resolve_for_set s k;
     do w <- store_value s k (fst ro) v3;
     Ok (fst (fst w), negb (pv_eqb (snd (fst w)) v3) || snd w)).
Proof.
  intros Hp Hd. unfold plain_name in Hp. apply andb_prop in Hp as [Hp Hb].
  apply negb_true_iff in Hp, Hb.
  cbn [set_option]. unfold canon.
  destruct (sanitize_value s k v) as [v1|e]; cbn [bind]; [|reflexivity].
  destruct (resolve_for_set s k) as [[rk o]|e] eqn:Er; cbn [bind]; [|reflexivity].
  pose proof (Hd _ _ (resolve_for_set_ok _ _ _ Er)) as Hn. unfold not_dname in Hn.
  cbn [snd fst]. unfold depr_value.
  assert (G : forall v2,
    (do v3 <- validate (okind o) v2;
     do w <- store_value s k rk v3;
     (let '(s2, old, unsaved) := w in
      if oreadonly o && (false || negb (pv_eqb old v3)) && negb true then Err EMeson
      else do s3 <- (if str_eqb (kname k) (s2l "prefix") && true && (false || negb (pv_eqb old v3))
                     then match old with
                          | PStr op => match v3 with PStr np => reset_prefixed_options s2 op np | _ => Err EAssert end
                          | _ => Err EAssert
                          end
                     else Ok s2);
           if (false || negb (pv_eqb old v3)) && str_eqb (kname k) (s2l "buildtype") &&
              negb (pv_eqb v3 (PStr (s2l "custom")))
           then match v3 with
                | PStr b => match sassoc DEFAULT_DEPENDENTS b with
                            | Some (optimization, debug) =>
                                do r1 <- set_option f s3 (evolve_name k (s2l "debug")) (PBool debug) true;
                                do r2 <- set_option f (fst r1) (evolve_name k (s2l "optimization")) (PStr optimization) true;
                                Ok (fst r2, false || negb (pv_eqb old v3) || unsaved)
                            | None => Err EKey
                            end
                | PList _ => Err EOOM
                | _ => Err EKey
                end
           else Ok (s3, false || negb (pv_eqb old v3) || unsaved))) =
    (do v3 <- validate (okind o) v2;
     do w <- store_value s k rk v3; Ok (fst (fst w), negb (pv_eqb (snd (fst w)) v3) || snd w))).
  { intros v2. destruct (validate (okind o) v2) as [v3|e]; cbn [bind]; [|reflexivity].
    destruct (store_value s k rk v3) as [[[s2 old] u]|e]; cbn [bind fst snd]; [|reflexivity].
    rewrite Hp, Hb. rewrite andb_false_r. cbn [andb orb bind]. rewrite andb_false_r. reflexivity. }
  destruct (odepr o) eqn:Ed; try discriminate Hn.
  - cbn [bind]. apply G.
  - cbn [bind]. apply G.
  - destruct (opt_listify (okind o) v1); cbn [bind]; [apply G | reflexivity].
  - destruct (opt_listify (okind o) v1); cbn [bind]; [apply G | reflexivity].
Qed.

(* ------------------------------------------------- resolution of host keys *)
Lemma resolve_host s k rk o :
  kmach k = Host -> resolve_option s k = Ok (rk, o) ->
  dget (options s) rk = Some o /\
  (dmem (options s) k = true -> rk = k) /\
  (dmem (options s) k = false -> rk = no_sub k).
Proof.
  intros Hh. unfold resolve_option, dmem. rewrite (ensure_host _ _ Hh).
  destruct (is_project_option s k).
  - destruct (ksub k); [|discriminate].
    destruct (dget (options s) k) as [o'|] eqn:E; [|discriminate].
    intros H; injection H as <- <-. repeat split; auto; discriminate.
  - destruct (dget (options s) k) as [o'|] eqn:E.
    + intros H; injection H as <- <-. repeat split; auto; discriminate.
    + destruct (dget (options s) (no_sub k)) as [o'|] eqn:E2; [|discriminate].
      intros H; injection H as <- <-. repeat split; auto; discriminate.
Qed.

(* ------------------------------------------------------- write descriptions *)
Inductive wr :=
| WOpt (t : key) (v : pv)     (* the option object stored under t receives v (and stops yielding) *)
| WAug (t : key) (v : pv).    (* the augment of key t becomes v *)

Definition set_wr (s : store) (t : key) (v : pv) : option wr :=
  match canon s t v with
  | Ok v3 => Some (if dmem (options s) t then WOpt t v3 else WAug t v3)
  | Err _ => None
  end.

Definition oslot (s : store) (t : key) : option (pv * bool) :=
  option_map (fun o => (ovalue o, oyield o)) (dget (options s) t).
Definition aslot (s : store) (q : key) : option pv := dget (augments s) q.

Definition wr_o (w : option wr) (t : key) : option (option (pv * bool)) :=
  match w with
  | Some (WOpt t' v) => if key_eqb t' t then Some (Some (v, false)) else None
  | _ => None
  end.
Definition wr_a (w : option wr) (q : key) : option (option pv) :=
  match w with
  | Some (WAug t' v) => if key_eqb t' q then Some (Some v) else None
  | _ => None
  end.

Lemma name_neq_prefix_key t : str_eqb (kname t) (s2l "prefix") = false -> key_eqb t prefix_key = false.
Proof. intros H. unfold key_eqb. cbn [kname prefix_key]. rewrite H. apply andb_false_r. Qed.

Lemma gvf_prefix_frame s s1 :
  is_cross s1 = is_cross s -> project_options s1 = project_options s ->
  dget (options s1) prefix_key = dget (options s) prefix_key ->
  dget (augments s1) prefix_key = dget (augments s) prefix_key ->
  pfx_ok s ->
  get_value_for s1 prefix_key = get_value_for s prefix_key.
Proof.
  intros Hc Hp Ho Ha Hy. unfold get_value_for, get_option_and_value_for, resolve_option, is_project_option.
  repeat rewrite (ensure_host s1 prefix_key eq_refl). repeat rewrite (ensure_host s prefix_key eq_refl).
  rewrite Hp, Ho, Ha.
  change (no_sub prefix_key) with prefix_key. rewrite Ho.
  unfold pfx_ok in Hy.
  destruct (key_mem prefix_key (project_options s)); [reflexivity|].
  destruct (dget (options s) prefix_key) as [o|]; [|reflexivity]. cbn [bind].
  destruct (dget (augments s) prefix_key); [reflexivity|]. rewrite Hy. reflexivity.
Qed.

(* the effect of an inert set_option (first invocation) on a host key *)
Lemma set_option_effect f s t v s1 ch :
  kmach t = Host -> plain_name t = true -> pfx_ok s ->
  (forall rk o, resolve_option s t = Ok (rk, o) -> not_dname o = true) ->
  set_option (S f) s t v true = Ok (s1, ch) ->
  R s s1 /\
  (forall x, oslot s1 x = match wr_o (set_wr s t v) x with Some y => y | None => oslot s x end) /\
  (forall q, aslot s1 q = match wr_a (set_wr s t v) q with Some y => y | None => aslot s q end).
Proof.
  intros Hh Hp Hpf Hd E. rewrite (set_option_plain f s t v Hp Hd) in E.
  apply bind_ok in E as (v3 & Ec & E). apply bind_ok in E as ([rk o] & Er & E).
  apply bind_ok in E as ([s2 old] & Ew & E). cbn [fst snd] in *. injection E as <- _.
  unfold set_wr. rewrite Ec.
  destruct (resolve_host s t rk o Hh (resolve_for_set_ok _ _ _ Er)) as (Hg & Hin & Hout).
  assert (Hv : validate (okind o) v3 = Ok v3).
  { unfold canon in Ec. apply bind_ok in Ec as (v1 & _ & Ec). rewrite Er in Ec. cbn [bind snd] in Ec.
    apply bind_ok in Ec as (v2 & _ & Ec). eapply validate_idem; exact Ec. }
  unfold plain_name in Hp. apply andb_prop in Hp as [Hp _]. apply negb_true_iff in Hp.
  unfold store_value in Ew. rewrite Hg in Ew.
  destruct (dmem (options s) t) eqn:Em.
  - rewrite (Hin eq_refl) in *. rewrite Hv in Ew. cbn [bind] in Ew. injection Ew as <- _.
    split; [|split].
    + constructor; cbn; try reflexivity.
      * intros k. rewrite dget_dset. destruct (key_eqb t k) eqn:Ek; [|reflexivity].
        apply key_eqb_eq in Ek. subst k. rewrite Hg. reflexivity.
      * rewrite dget_dset, (name_neq_prefix_key t Hp). reflexivity.
      * apply gvf_prefix_frame; cbn; try reflexivity; [|exact Hpf].
        rewrite dget_dset, (name_neq_prefix_key t Hp). reflexivity.
    + intros x. unfold oslot; cbn. rewrite dget_dset. destruct (key_eqb t x); reflexivity.
    + intros q. reflexivity.
  - destruct (ksub t) eqn:Es; [|discriminate]. injection Ew as <- _.
    split; [|split].
    + constructor; cbn; try reflexivity.
      apply gvf_prefix_frame; cbn; try reflexivity; [|exact Hpf].
      rewrite dget_dset, (name_neq_prefix_key t Hp). reflexivity.
    + intros x. reflexivity.
    + intros q. unfold aslot; cbn. rewrite dget_dset. destruct (key_eqb t q); reflexivity.
Qed.

(* ------------------------------------------------------- set_user_option *)
(* the key handed to set_option by set_user_option (None: stored as pending) *)
Definition target (s : store) (o : key) : option key :=
  if dmem (options s) o then Some o
  else if (match ksub o with Some _ => true | None => false end) && dmem (options s) (no_sub o) then Some o
  else if accept_as_pending_option o true then None
  else match ksub o with None => Some (as_root o) | Some _ => None end.

Definition good_key (s : store) (k : key) : Prop :=
  kmach k = Host /\ plain_name k = true /\
  forall t rk o, target s k = Some t -> resolve_option s t = Ok (rk, o) -> not_dname o = true.

Definition user_wr (s : store) (k : key) (v : pv) : option wr :=
  match target s k with Some t => set_wr s t v | None => None end.

Lemma target_host s k t : target s k = Some t -> kmach k = Host -> kmach t = Host /\ kname t = kname k.
Proof.
  unfold target. intros H Hh.
  destruct (dmem (options s) k); [injection H as <-; auto|].
  destruct (_ && _); [injection H as <-; auto|].
  destruct (accept_as_pending_option k true); [discriminate|].
  destruct (ksub k); [discriminate|]. injection H as <-. auto.
Qed.

Lemma R_set_pending s x : R s (set_pending s x).
Proof. constructor; reflexivity. Qed.
Lemma R_set_pending_sub s x : R s (set_pending_sub s x).
Proof. constructor; reflexivity. Qed.

Lemma set_user_option_effect f s k v s1 ch :
  good_key s k -> pfx_ok s -> set_user_option (S f) s k v true = Ok (s1, ch) ->
  (exists v3 t, target s k = Some t /\ canon s t v = Ok v3) \/ target s k = None.
Proof.
  intros (Hh & Hp & Hd) Hpf E. unfold set_user_option in E.
  assert (Hb : is_for_build k = false) by (unfold is_for_build; rewrite Hh; reflexivity).
  rewrite Hb, andb_false_r in E. unfold target in *.
  assert (G : forall t, kmach t = Host -> plain_name t = true ->
              (forall rk o, resolve_option s t = Ok (rk, o) -> not_dname o = true) ->
              set_option (S f) s t v true = Ok (s1, ch) -> exists v3, canon s t v = Ok v3).
  { intros t H1 H2 H3 H4. rewrite (set_option_plain f s t v H2 H3) in H4.
    apply bind_ok in H4 as (v3 & Ec & _). eauto. }
  destruct (dmem (options s) k).
  - left. destruct (G k Hh Hp (fun rk o => Hd k rk o eq_refl) E) as (v3 & Ec). eauto.
  - destruct (_ && _).
    + left. destruct (G k Hh Hp (fun rk o => Hd k rk o eq_refl) E) as (v3 & Ec). eauto.
    + destruct (accept_as_pending_option k true); [right; reflexivity|].
      destruct (ksub k); [discriminate|]. left.
      destruct (G (as_root k) Hh Hp (fun rk o => Hd _ rk o eq_refl) E) as (v3 & Ec). eauto.
Qed.

Lemma set_user_option_frame f s k v s1 ch :
  good_key s k -> pfx_ok s -> set_user_option (S f) s k v true = Ok (s1, ch) ->
  R s s1 /\
  (forall x, oslot s1 x = match wr_o (user_wr s k v) x with Some y => y | None => oslot s x end) /\
  (forall q, aslot s1 q = match wr_a (user_wr s k v) q with Some y => y | None => aslot s q end).
Proof.
  intros (Hh & Hp & Hd) Hpf E. unfold set_user_option in E.
  assert (Hb : is_for_build k = false) by (unfold is_for_build; rewrite Hh; reflexivity).
  rewrite Hb, andb_false_r in E. unfold user_wr, target in *.
  destruct (dmem (options s) k).
  - apply (set_option_effect f s k v s1 ch Hh Hp Hpf (fun rk o => Hd k rk o eq_refl) E).
  - destruct (_ && _).
    + apply (set_option_effect f s k v s1 ch Hh Hp Hpf (fun rk o => Hd k rk o eq_refl) E).
    + destruct (accept_as_pending_option k true).
      * assert (exists x, s1 = set_pending s x) as [x ->].
        { destruct (dget (pending s) k).
          - destruct v; try (injection E as <- _; eauto).
            destruct (py_str p); [|discriminate]. injection E as <- _; eauto.
          - injection E as <- _; eauto. }
        split; [apply R_set_pending|]. split; intros; reflexivity.
      * destruct (ksub k); [discriminate|].
        apply (set_option_effect f s (as_root k) v s1 ch Hh Hp Hpf (fun rk o => Hd _ rk o eq_refl) E).
Qed.

(* ---------------------------------------------------- stability under R *)
Lemma R_target s s1 k : R s s1 -> target s1 k = target s k.
Proof. intros H. unfold target. rewrite !(R_dmem _ _ _ H). reflexivity. Qed.

Lemma R_sanitize s s1 k v : R s s1 -> sanitize_value s1 k v = sanitize_value s k v.
Proof.
  intros H. unfold sanitize_value, is_builtin_option, is_module_option.
  pose proof (R_pfx_v _ _ H) as Hv. unfold prefix_key in Hv.
  rewrite (R_mod _ _ H), Hv. reflexivity.
Qed.

Lemma R_resolve_for_set s s1 k : R s s1 ->
  res_map rstatic (resolve_for_set s1 k) = res_map rstatic (resolve_for_set s k).
Proof.
  intros H. pose proof (R_resolve _ _ k H) as E. unfold resolve_for_set.
  destruct (resolve_option s1 k) as [x|[]], (resolve_option s k) as [y|[]]; cbn in *; congruence.
Qed.

Lemma R_canon s s1 k v : R s s1 -> canon s1 k v = canon s k v.
Proof.
  intros H. unfold canon. rewrite (R_sanitize _ _ _ _ H).
  destruct (sanitize_value s k v) as [v1|]; cbn [bind]; [|reflexivity].
  pose proof (R_resolve_for_set _ _ k H) as E.
  destruct (resolve_for_set s1 k) as [[rk1 o1]|], (resolve_for_set s k) as [[rk o]|]; cbn in E; try congruence.
  cbn [bind snd]. unfold rstatic, ostatic in E; cbn in E.
  injection E as _ Ek Ed _. unfold depr_value. rewrite Ek, Ed. reflexivity.
Qed.

Lemma R_set_wr s s1 t v : R s s1 -> set_wr s1 t v = set_wr s t v.
Proof. intros H. unfold set_wr. rewrite (R_canon _ _ _ _ H), (R_dmem _ _ _ H). reflexivity. Qed.

Lemma R_user_wr s s1 k v : R s s1 -> user_wr s1 k v = user_wr s k v.
Proof.
  intros H. unfold user_wr. rewrite (R_target _ _ _ H).
  destruct (target s k); [apply R_set_wr; exact H | reflexivity].
Qed.

Lemma R_good_key s s1 k : R s s1 -> good_key s k -> good_key s1 k.
Proof.
  intros H (Hh & Hp & Hd). split; [exact Hh|]. split; [exact Hp|].
  intros t rk o Ht Hr. rewrite (R_target _ _ _ H) in Ht.
  pose proof (R_resolve _ _ t H) as E. rewrite Hr in E. cbn in E.
  destruct (resolve_option s t) as [[rk' o']|] eqn:Er; cbn in E; [|discriminate].
  unfold rstatic, ostatic in E; cbn in E. injection E as _ _ Ed _.
  specialize (Hd t rk' o' Ht Er). unfold not_dname in *. rewrite Ed. exact Hd.
Qed.

Section FoldAll.
  Context {E : Type}.
  Variable step : store -> E -> res store.
  Variable R' : store -> store -> Prop.
  Variable Inv : store -> Prop.
  Variable good okp : store -> E -> Prop.
  Hypothesis good_R : forall s s1 e, R' s s1 -> good s e -> good s1 e.
  Hypothesis okp_R : forall s s1 e, R' s s1 -> okp s1 e -> okp s e.
  Hypothesis step_R : forall s e s1, Inv s -> good s e -> step s e = Ok s1 -> R' s s1 /\ Inv s1.
  Hypothesis step_ok : forall s e s1, Inv s -> good s e -> step s e = Ok s1 -> okp s e.

  Lemma fold_all_ok l : forall s s',
    Inv s -> Forall (good s) l -> fold_res step s l = Ok s' -> Forall (okp s) l.
  Proof.
    induction l as [|e r IH]; intros s s' HI HG H; cbn in H; [constructor|].
    apply bind_ok in H as (s1 & H1 & H). inversion HG as [|? ? Hg Hr]; subst.
    destruct (step_R _ _ _ HI Hg H1) as [HR HI1].
    constructor; [eapply step_ok; eassumption|].
    assert (HG1 : Forall (good s1) r).
    { eapply Forall_impl; [|exact Hr]. intros a Ha. eapply good_R; eassumption. }
    specialize (IH _ _ HI1 HG1 H). eapply Forall_impl; [|exact IH].
    intros a Ha. eapply okp_R; eassumption.
  Qed.
End FoldAll.

(* --------------------------------------------------- the top-level loops *)
Definition native_skip (s : store) (k : key) : bool := negb (is_cross s) && is_for_build k.

Definition pdo_step (fuel : nat) (s : store) (e : key * pv) : res store :=
  if native_skip s (fst e) then Ok s
  else if sub_truthy (fst e) then Ok (set_pending_sub s (dset (pending_sub s) (fst e) (snd e)))
  else do x <- set_user_option fuel s (fst e) (snd e) true; Ok (fst x).
Definition mc_step (fuel : nat) (s : store) (e : key * pv) : res store :=
  if native_skip s (fst e) then Ok s
  else if negb (sub_truthy (fst e)) then do x <- set_user_option fuel s (fst e) (snd e) true; Ok (fst x)
  else Ok s.

Lemma top_pdo_loop_fold fuel l : forall s, top_pdo_loop fuel s l = fold_res (pdo_step fuel) s l.
Proof.
  induction l as [|[k v] l IH]; intros s; cbn; [reflexivity|].
  unfold pdo_step, native_skip; cbn [fst snd].
  destruct (negb (is_cross s) && is_for_build k); cbn [bind]; [apply IH|].
  destruct (sub_truthy k); cbn [bind]; [apply IH|].
  destruct (set_user_option fuel s k v true); cbn [bind]; [apply IH | reflexivity].
Qed.
Lemma top_mc_loop_fold fuel l : forall s, top_mc_loop fuel s l = fold_res (mc_step fuel) s l.
Proof.
  induction l as [|[k v] l IH]; intros s; cbn; [reflexivity|].
  unfold mc_step, native_skip; cbn [fst snd].
  destruct (negb (is_cross s) && is_for_build k); cbn [bind]; [apply IH|].
  destruct (negb (sub_truthy k)); cbn [bind]; [|apply IH].
  destruct (set_user_option fuel s k v true); cbn [bind]; [apply IH | reflexivity].
Qed.

Definition top_w (s : store) (e : key * pv) : option wr :=
  if native_skip s (fst e) then None
  else if sub_truthy (fst e) then None
  else user_wr s (fst e) (snd e).

Definition good_entry (s : store) (e : key * pv) : Prop :=
  native_skip s (fst e) = true \/ sub_truthy (fst e) = true \/ good_key s (fst e).

(* a processed entry's value was accepted *)
Definition entry_accepted (s : store) (e : key * pv) : Prop :=
  native_skip s (fst e) = false -> sub_truthy (fst e) = false ->
  forall t, target s (fst e) = Some t -> exists v3, canon s t (snd e) = Ok v3.

Lemma R_native_skip s s1 k : R s s1 -> native_skip s1 k = native_skip s k.
Proof. intros H. unfold native_skip. rewrite (R_cross _ _ H). reflexivity. Qed.

Lemma R_top_w s s1 e : R s s1 -> top_w s1 e = top_w s e.
Proof.
  intros H. unfold top_w. rewrite (R_native_skip _ _ _ H), (R_user_wr _ _ _ _ H). reflexivity.
Qed.

Lemma R_good_entry s s1 e : R s s1 -> good_entry s e -> good_entry s1 e.
Proof.
  intros H [G|[G|G]]; [left | right; left | right; right].
  - rewrite (R_native_skip _ _ _ H). exact G.
  - exact G.
  - eapply R_good_key; eassumption.
Qed.

Lemma R_entry_accepted s s1 e : R s s1 -> entry_accepted s1 e -> entry_accepted s e.
Proof.
  intros H G H1 H2 t Ht. rewrite <- (R_native_skip _ _ _ H) in H1.
  rewrite <- (R_target _ _ _ H) in Ht. destruct (G H1 H2 t Ht) as (v3 & Ec).
  rewrite (R_canon _ _ _ _ H) in Ec. eauto.
Qed.

Section TopStep.
  Variable f : nat.
  Variable stp : store -> key * pv -> res store.
  Hypothesis stp_is : stp = pdo_step (S f) \/ stp = mc_step (S f).

  Lemma stp_cases s e s1 : stp s e = Ok s1 ->
    ((native_skip s (fst e) = true \/ sub_truthy (fst e) = true) /\
     (s1 = s \/ exists x, s1 = set_pending_sub s x)) \/
    (native_skip s (fst e) = false /\ sub_truthy (fst e) = false /\
     exists ch, set_user_option (S f) s (fst e) (snd e) true = Ok (s1, ch)).
  Proof.
    intros H.
    destruct stp_is as [-> | ->]; unfold pdo_step, mc_step in H;
      destruct (native_skip s (fst e)); try (injection H as <-; left; auto);
      destruct (sub_truthy (fst e)); cbn [negb] in H; try (injection H as <-; left; eauto).
    - right. apply bind_ok in H as ([s2 ch] & H2 & H). injection H as <-. eauto.
    - right. apply bind_ok in H as ([s2 ch] & H2 & H). injection H as <-. eauto.
  Qed.

  Lemma stp_frame s e s1 :
    pfx_ok s -> good_entry s e -> stp s e = Ok s1 ->
    (R s s1 /\ pfx_ok s1) /\
    (forall x, oslot s1 x = match wr_o (top_w s e) x with Some y => y | None => oslot s x end) /\
    (forall q, aslot s1 q = match wr_a (top_w s e) q with Some y => y | None => aslot s q end) /\
    entry_accepted s e.
  Proof.
    intros Hpf Hg H. destruct (stp_cases _ _ _ H) as [(Hw & Hs) | (Hn & Hs & ch & Hu)].
    - assert (HR : R s s1).
      { destruct Hs as [-> | [x ->]]; [apply R_refl | apply R_set_pending_sub]. }
      split; [split; [exact HR | eapply R_pfx_ok; eassumption]|].
      assert (Hw' : top_w s e = None).
      { unfold top_w. destruct Hw as [-> | Hw]; [reflexivity|]. rewrite Hw.
        destruct (native_skip s (fst e)); reflexivity. }
      rewrite Hw'. cbn.
      split; [|split].
      + intros x. destruct Hs as [-> | [y ->]]; reflexivity.
      + intros x. destruct Hs as [-> | [y ->]]; reflexivity.
      + intros H1 H2. destruct Hw; congruence.
    - destruct Hg as [G|[G|G]]; try congruence.
      destruct (set_user_option_frame f s (fst e) (snd e) s1 ch G Hpf Hu) as (HR & Ho & Ha).
      split; [split; [exact HR | eapply R_pfx_ok; eassumption]|].
      unfold top_w. rewrite Hn, Hs.
      split; [exact Ho|]. split; [exact Ha|].
      intros _ _ t Ht.
      destruct (set_user_option_effect f s (fst e) (snd e) s1 ch G Hpf Hu) as [(v3 & t' & Ht' & Ec)|Hnone];
        [|congruence].
      rewrite Ht in Ht'. injection Ht' as <-. eauto.
  Qed.
End TopStep.

Definition W_o (s : store) (e : key * pv) (x : key) := wr_o (top_w s e) x.
Definition W_a (s : store) (e : key * pv) (x : key) := wr_a (top_w s e) x.

Lemma W_o_R s s1 e x : R s s1 -> W_o s1 e x = W_o s e x.
Proof. intros H. unfold W_o. rewrite (R_top_w _ _ _ H). reflexivity. Qed.
Lemma W_a_R s s1 e x : R s s1 -> W_a s1 e x = W_a s e x.
Proof. intros H. unfold W_a. rewrite (R_top_w _ _ _ H). reflexivity. Qed.

Lemma loop_last_writer f stp l s s' :
  stp = pdo_step (S f) \/ stp = mc_step (S f) ->
  pfx_ok s -> Forall (good_entry s) l -> fold_res stp s l = Ok s' ->
  R s s' /\ pfx_ok s' /\
  (forall x, oslot s' x = match last_w W_o s l x None with Some y => y | None => oslot s x end) /\
  (forall q, aslot s' q = match last_w W_a s l q None with Some y => y | None => aslot s q end) /\
  Forall (entry_accepted s) l.
Proof.
  intros Hstp HI HG H.
  assert (SR : forall s e s1, pfx_ok s -> good_entry s e -> stp s e = Ok s1 -> R s s1 /\ pfx_ok s1).
  { intros. eapply stp_frame; eassumption. }
  pose proof (fun x => fold_last_writer stp R pfx_ok good_entry oslot W_o R_refl R_trans R_good_entry SR
                 W_o_R
                 (fun s e s1 x Hi Hg Hs => proj1 (proj2 (stp_frame f stp Hstp s e s1 Hi Hg Hs)) x)
                 l s s' x HI HG H) as Ho.
  pose proof (fun x => fold_last_writer stp R pfx_ok good_entry aslot W_a R_refl R_trans R_good_entry SR
                 W_a_R
                 (fun s e s1 x Hi Hg Hs => proj1 (proj2 (proj2 (stp_frame f stp Hstp s e s1 Hi Hg Hs))) x)
                 l s s' x HI HG H) as Ha.
  destruct (Ho prefix_key) as (HR & HI' & _).
  split; [exact HR|]. split; [exact HI'|].
  split; [intros x; apply (Ho x)|]. split; [intros x; apply (Ha x)|].
  eapply (fold_all_ok stp R pfx_ok good_entry entry_accepted R_good_entry R_entry_accepted SR); try eassumption.
  intros s0 e s1 Hi Hg Hs. apply (stp_frame f stp Hstp s0 e s1 Hi Hg Hs).
Qed.


(* both loops of initialize_from_top_level_project_call, one after the other *)
Lemma top_loops_last_writer f s1 pdo' mc s' :
  pfx_ok s1 -> Forall (good_entry s1) (pdo' ++ mc) ->
  (do s2 <- top_pdo_loop (S f) s1 pdo'; top_mc_loop (S f) s2 mc) = Ok s' ->
  R s1 s' /\
  (forall x, oslot s' x = match last_w W_o s1 (pdo' ++ mc) x None with Some y => y | None => oslot s1 x end) /\
  (forall q, aslot s' q = match last_w W_a s1 (pdo' ++ mc) q None with Some y => y | None => aslot s1 q end) /\
  Forall (entry_accepted s1) (pdo' ++ mc).
Proof.
  intros HI HG H. apply bind_ok in H as (s2 & H1 & H2).
  rewrite top_pdo_loop_fold in H1. rewrite top_mc_loop_fold in H2.
  apply Forall_app in HG as [HG1 HG2].
  destruct (loop_last_writer f _ pdo' s1 s2 (or_introl eq_refl) HI HG1 H1) as (R1 & I2 & O1 & A1 & K1).
  assert (HG2' : Forall (good_entry s2) mc).
  { eapply Forall_impl; [|exact HG2]. intros a Ha. eapply R_good_entry; eassumption. }
  destruct (loop_last_writer f _ mc s2 s' (or_intror eq_refl) I2 HG2' H2) as (R2 & I3 & O2 & A2 & K2).
  split; [eapply R_trans; eassumption|].
  split; [|split].
  - intros x. rewrite O2, O1, last_w_app.
    rewrite (last_w_R R W_o W_o_R s1 s2 mc x None R1).
    rewrite (last_w_acc W_o s1 x mc (last_w W_o s1 pdo' x None)).
    destruct (last_w W_o s1 mc x None); [reflexivity|].
    destruct (last_w W_o s1 pdo' x None); reflexivity.
  - intros x. rewrite A2, A1, last_w_app.
    rewrite (last_w_R R W_a W_a_R s1 s2 mc x None R1).
    rewrite (last_w_acc W_a s1 x mc (last_w W_a s1 pdo' x None)).
    destruct (last_w W_a s1 mc x None); [reflexivity|].
    destruct (last_w W_a s1 pdo' x None); reflexivity.
  - apply Forall_app. split; [exact K1|].
    eapply Forall_impl; [|exact K2]. intros a Ha. eapply R_entry_accepted; eassumption.
Qed.

(* ------------------------------------------------------ dictionary lookups *)
(* the value of the last entry of d whose key satisfies p (a Python dict built
   from d binds the key to exactly that value) *)
Fixpoint dlast_by (p : key -> bool) (d : list (key * pv)) (acc : option pv) : option pv :=
  match d with
  | [] => acc
  | (k, v) :: r => dlast_by p r (if p k then Some v else acc)
  end.
Definition dlast (d : list (key * pv)) (q : key) : option pv := dlast_by (fun k => key_eqb k q) d None.

Lemma dlast_by_acc p d : forall acc,
  dlast_by p d acc = match dlast_by p d None with Some v => Some v | None => acc end.
Proof.
  induction d as [|[k v] d IH]; intros acc; cbn; [reflexivity|].
  rewrite (IH (if p k then Some v else acc)), (IH (if p k then Some v else None)).
  destruct (dlast_by p d None); [reflexivity|]. destruct (p k); reflexivity.
Qed.
Lemma dlast_by_app p a b acc : dlast_by p (a ++ b) acc = dlast_by p b (dlast_by p a acc).
Proof. revert acc. induction a as [|[k v] a IH]; intros acc; cbn; [reflexivity | apply IH]. Qed.

Lemma dlast_by_three p a b c :
  dlast_by p (a ++ b ++ c) None = first_defined [dlast_by p c None; dlast_by p b None; dlast_by p a None].
Proof.
  rewrite !dlast_by_app. rewrite (dlast_by_acc p c), (dlast_by_acc p b). cbn.
  destruct (dlast_by p c None); [reflexivity|]. destruct (dlast_by p b None); [reflexivity|].
  destruct (dlast_by p a None); reflexivity.
Qed.

(* for a dictionary with pairwise distinct keys dlast is the ordinary lookup *)
Fixpoint uniq_keys (d : list (key * pv)) : bool :=
  match d with
  | [] => true
  | (k, _) :: r => negb (dmem r k) && uniq_keys r
  end.
Lemma dlast_none d q : dget d q = None -> dlast d q = None.
Proof.
  unfold dlast. induction d as [|[k v] d IH]; cbn; [reflexivity|].
  rewrite (key_eqb_sym q k). destruct (key_eqb k q); [discriminate|]. exact IH.
Qed.
Lemma dlast_dget d q : uniq_keys d = true -> dlast d q = dget d q.
Proof.
  unfold dlast. induction d as [|[k v] d IH]; cbn; [reflexivity|]. intros H.
  apply andb_prop in H as [H1 H2]. rewrite (key_eqb_sym q k).
  destruct (key_eqb k q) eqn:E.
  - apply key_eqb_eq in E. subst q. rewrite dlast_by_acc.
    unfold dmem in H1. destruct (dget d k) eqn:G; [discriminate|].
    pose proof (dlast_none d k G) as N. unfold dlast in N. rewrite N. reflexivity.
  - apply IH. exact H2.
Qed.

(* last_w in terms of dlast_by, given the shape of the write function *)
Lemma last_w_dlast {Y} (W : store -> key * pv -> key -> option Y) s q (p : key -> bool) (F : pv -> Y) l :
  (forall k v, In (k, v) l -> W s (k, v) q = if p k then Some (F v) else None) ->
  forall acc, last_w W s l q (option_map F acc) = option_map F (dlast_by p l acc).
Proof.
  induction l as [|[k v] l IH]; intros H acc; cbn; [reflexivity|].
  rewrite (H k v (or_introl eq_refl)).
  assert (H' : forall k v, In (k, v) l -> W s (k, v) q = if p k then Some (F v) else None).
  { intros. apply H. right. assumption. }
  destruct (p k).
  - apply (IH H' (Some v)).
  - destruct acc; apply (IH H' _).
Qed.

(* ---------------------------------- global (system / builtin / module) options *)
Lemma gvf_plain s q v :
  kmach q = Host -> is_project_option s q = false ->
  oslot s q = Some (v, false) -> aslot s q = None -> get_value_for s q = Ok v.
Proof.
  intros Hh Hp Ho Ha. unfold get_value_for, get_option_and_value_for, resolve_option.
  repeat rewrite (ensure_host s q Hh). rewrite Hp.
  unfold oslot in Ho. unfold aslot in Ha.
  destruct (dget (options s) q) as [o|]; [|discriminate]. cbn in Ho. injection Ho as <- Hy.
  cbn [bind]. rewrite Ha, Hy. reflexivity.
Qed.

Lemma gvf_project s q v su :
  kmach q = Host -> ksub q = Some su ->
  oslot s q = Some (v, false) -> aslot s q = None -> get_value_for s q = Ok v.
Proof.
  intros Hh Hs Ho Ha. unfold get_value_for, get_option_and_value_for, resolve_option.
  repeat rewrite (ensure_host s q Hh). rewrite Hs.
  unfold oslot in Ho. unfold aslot in Ha.
  destruct (dget (options s) q) as [o|]; [|discriminate]. cbn in Ho. injection Ho as <- Hy.
  destruct (is_project_option s q); cbn [bind]; rewrite Ha, Hy; reflexivity.
Qed.

Lemma ksub_neq a b : ksub a <> ksub b -> key_eqb a b = false.
Proof. intros H. apply key_eqb_neq. congruence. Qed.

Definition canon_slot (s : store) (q : key) (v : pv) : option (pv * bool) :=
  match canon s q v with Ok v3 => Some (v3, false) | Err _ => None end.

Lemma W_o_global s q k v :
  kmach q = Host -> ksub q = None -> dmem (options s) q = true ->
  (key_eqb k q = true -> exists v3, canon s q v = Ok v3) ->
  W_o s (k, v) q = if key_eqb k q then Some (canon_slot s q v) else None.
Proof.
  intros Hh Hs Hm Hacc. unfold W_o, top_w, user_wr, target, native_skip, canon_slot; cbn [fst snd].
  destruct (key_eqb k q) eqn:E.
  - apply key_eqb_eq in E. subst k. destruct (Hacc eq_refl) as (v3 & Ec).
    unfold is_for_build, sub_truthy. rewrite Hh, Hs. cbn [mach_eqb]. rewrite andb_false_r.
    rewrite Hm. unfold set_wr. rewrite Ec, Hm. cbn. rewrite key_eqb_refl. reflexivity.
  - destruct (negb (is_cross s) && is_for_build k); [reflexivity|].
    destruct (sub_truthy k); [reflexivity|].
    destruct (dmem (options s) k) eqn:Ek.
    + unfold set_wr. destruct (canon s k v); [|reflexivity]. rewrite Ek. cbn. rewrite E. reflexivity.
    + destruct (_ && _) eqn:E2.
      * unfold set_wr. destruct (canon s k v); [|reflexivity]. rewrite Ek. reflexivity.
      * destruct (accept_as_pending_option k true); [reflexivity|].
        destruct (ksub k) eqn:Ks; [reflexivity|].
        unfold set_wr. destruct (canon s (as_root k) v); [|reflexivity].
        destruct (dmem (options s) (as_root k)); [|reflexivity]. cbn.
        rewrite ksub_neq; [reflexivity|]. rewrite Hs. discriminate.
Qed.

Lemma W_a_global s q e : ksub q = None -> W_a s e q = None.
Proof.
  intros Hs. unfold W_a, top_w, user_wr, target.
  destruct (native_skip s (fst e)); [reflexivity|]. destruct (sub_truthy (fst e)); [reflexivity|].
  destruct (dmem (options s) (fst e)) eqn:Ek.
  - unfold set_wr. destruct (canon _ _ _); [|reflexivity]. rewrite Ek. reflexivity.
  - destruct (ksub (fst e)) eqn:Ks; cbn [andb].
    + destruct (dmem (options s) (no_sub (fst e))).
      * unfold set_wr. destruct (canon _ _ _); [|reflexivity]. rewrite Ek. cbn.
        rewrite ksub_neq; [reflexivity|]. rewrite Ks, Hs. discriminate.
      * destruct (accept_as_pending_option _ _); reflexivity.
    + destruct (accept_as_pending_option _ _); [reflexivity|].
      unfold set_wr. destruct (canon _ _ _); [|reflexivity].
      destruct (dmem (options s) (as_root (fst e))); [reflexivity|]. cbn. rewrite ksub_neq; [reflexivity|]. rewrite Hs. discriminate.
Qed.

Lemma last_w_none {Y} (W : store -> key * pv -> key -> option Y) s q l :
  (forall e, W s e q = None) -> forall acc, last_w W s l q acc = acc.
Proof.
  intros H. induction l as [|e l IH]; intros acc; cbn; [reflexivity|]. rewrite H. destruct acc; apply IH.
Qed.

Lemma accepted_target_self s l q :
  dmem (options s) q = true -> kmach q = Host -> ksub q = None ->
  Forall (entry_accepted s) l ->
  forall k v, In (k, v) l -> key_eqb k q = true -> exists v3, canon s q v = Ok v3.
Proof.
  intros Hm Hh Hs HA k v Hin E. apply key_eqb_eq in E. subst k.
  rewrite Forall_forall in HA. specialize (HA _ Hin). unfold entry_accepted in HA; cbn [fst snd] in HA.
  apply HA.
  - unfold native_skip, is_for_build. rewrite Hh. cbn. apply andb_false_r.
  - unfold sub_truthy. rewrite Hs. reflexivity.
  - unfold target. rewrite Hm. reflexivity.
Qed.

(* The top-level value of a global option: the command line wins over the machine
   file, which wins over project(default_options); without any of them the
   value is the one the option had before (its declared default). *)
Theorem top_precedence_global f s pdo cmd mf s1 pdo' cmd' mf' s' q v0 :
  first_handle_prefix s pdo cmd mf = Ok (s1, pdo', cmd', mf') ->
  initialize_from_top_level_project_call (S f) s pdo cmd mf = Ok s' ->
  pfx_ok s1 -> Forall (good_entry s1) (pdo' ++ mf' ++ cmd') ->
  kmach q = Host -> ksub q = None -> is_project_option s1 q = false ->
  oslot s1 q = Some (v0, false) -> aslot s1 q = None ->
  get_value_for s' q =
    match resolve_top (dlast cmd' q) (dlast mf' q) (dlast pdo' q) with
    | Some v => canon s1 q v
    | None => Ok v0
    end.
Proof.
  intros Hf Hi Hpf HG Hh Hs Hp Ho Ha.
  unfold initialize_from_top_level_project_call in Hi. rewrite Hf in Hi. cbn [bind] in Hi.
  destruct (top_loops_last_writer f s1 pdo' (mf' ++ cmd') s' Hpf HG Hi) as (HR & HO & HA & HK).
  assert (Hm : dmem (options s1) q = true).
  { unfold oslot in Ho. unfold dmem. destruct (dget (options s1) q); [reflexivity | discriminate]. }
  pose proof (accepted_target_self s1 _ q Hm Hh Hs HK) as Hacc.
  assert (HW : forall k v, In (k, v) (pdo' ++ mf' ++ cmd') ->
               W_o s1 (k, v) q = if key_eqb k q then Some (canon_slot s1 q v) else None).
  { intros k v Hin. apply W_o_global; auto. intros E. eapply Hacc; eassumption. }
  pose proof (last_w_dlast W_o s1 q (fun k => key_eqb k q) (canon_slot s1 q) _ HW None) as HL.
  cbn [option_map] in HL.
  specialize (HO q). rewrite HL in HO.
  specialize (HA q). rewrite (last_w_none W_a s1 q _ (fun e => W_a_global s1 q e Hs)) in HA.
  rewrite dlast_by_three in HO. unfold resolve_top, dlast.
  assert (Hp' : is_project_option s' q = false).
  { unfold is_project_option in *. rewrite (R_proj _ _ HR). exact Hp. }
  destruct (first_defined _) as [v|] eqn:Efd.
  - cbn [option_map] in HO.
    assert (exists v3, canon s1 q v = Ok v3) as (v3 & Ec).
    { (* the winning value is one of the entries, hence accepted *)
      assert (Hin : exists k, In (k, v) (pdo' ++ mf' ++ cmd') /\ key_eqb k q = true).
      { clear - Efd. rewrite <- dlast_by_three in Efd.
        generalize dependent (pdo' ++ mf' ++ cmd'). intros l.
        assert (G : forall acc, dlast_by (fun k => key_eqb k q) l acc = Some v ->
                    acc = Some v \/ exists k, In (k, v) l /\ key_eqb k q = true).
        { induction l as [|[k w] l IH]; intros acc H; cbn in H; [left; exact H|].
          destruct (IH _ H) as [Hacc | (k' & Hin & Hk)].
          - destruct (key_eqb k q) eqn:E; [|left; exact Hacc].
            injection Hacc as ->. right. exists k. split; [left; reflexivity | exact E].
          - right. exists k'. split; [right; exact Hin | exact Hk]. }
        intros H. destruct (G None H) as [D|D]; [discriminate | exact D]. }
      destruct Hin as (k & Hin & Hk). eapply Hacc; eassumption. }
    unfold canon_slot in HO. rewrite Ec in HO. rewrite Ec. cbn in HO, HA. rewrite Ha in HA.
    apply gvf_plain; assumption.
  - cbn in HO, HA. rewrite Ho in HO. rewrite Ha in HA.
    apply gvf_plain; assumption.
Qed.
