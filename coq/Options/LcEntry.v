(* Options/LcEntry.v — entry point of the C08 model for the correspondence check:
   decoding of a project configuration + history from strings, rendering of the
   observable state after every step to one canonical string.
   Separators (never part of data): 1 between steps (output), 2 between fields,
   3 between list items, 4 inside an item, 5 inside a kind / list value, 6 between
   the option table and the augments.  Mirrored in harness/check_C08.py. *)
From MV Require Import Base.Strs Options.Kinds Options.Lifecycle.
Open Scope N_scope.

Definition items (sep : char) (s : str) : list str :=
  match s with [] => [] | _ => split_on sep s [] end.

(* OptionKey.from_string (options.py:243-269), names without '.' *)
Definition parse_key (s : str) : key :=
  match split_on 58 s [] with
  | [a; b] => mkKey (Some a) b
  | _ => mkKey None s
  end.
Definition render_key (k : key) : str :=
  match ksub k with
  | None => kname k
  | Some s => s ++ 58 :: kname k
  end.

Definition parse_sdict (s : str) : sdict :=
  map (fun it => match split_on 4 it [] with
                 | [k; v] => (parse_key k, v)
                 | _ => (parse_key it, [])
                 end) (items 3 s).

(* configure arguments: key 4 "D" value | key 4 "U" *)
Definition parse_args (s : str) : list (key * option str) :=
  map (fun it => match split_on 4 it [] with
                 | [k; 68 :: v] => (parse_key k, Some v)
                 | [k; _] => (parse_key k, None)
                 | _ => (parse_key it, None)
                 end) (items 3 s).

Definition parse_oZ (s : str) : option Z :=
  match s with
  | [] => None
  | _ => match parse_int s with Ok z => Some z | Err _ => None end
  end.

Definition parse_kind (s : str) : kind :=
  match split_on 5 s [] with
  | [[115]] => KString
  | [[98]] => KBool
  | [[102]] => KFeature
  | [[105]; mn; mx] => KInt (parse_oZ mn) (parse_oZ mx)
  | [99] :: ch => KCombo ch
  | [97] :: ch => KArray (Some ch)
  | _ => KString
  end.

Definition parse_pv (s : str) : pv :=
  match s with
  | 83 :: t => PStr t
  | [84] => PBool true
  | [70] => PBool false
  | 73 :: t => match parse_int t with Ok z => PInt z | Err _ => PInt 0 end
  | 76 :: t => PList (items 5 t)
  | _ => PStr s
  end.

Definition parse_decl (s : str) : decl :=
  match split_on 4 s [] with
  | [n; k; d; y] => mkDecl n (parse_kind k) (parse_pv d) (str_eqb y [84])
  | _ => mkDecl s KString (PStr []) false
  end.
Definition parse_decls (s : str) : list decl := map parse_decl (items 3 s).

Definition parse_files (s : str) : files :=
  match split_on 2 s [] with
  | [t; u] => mkFiles (parse_decls t) (parse_decls u)
  | _ => mkFiles [] []
  end.

Definition parse_cfg (s : str) : projcfg :=
  match split_on 2 s [] with
  | [a; b; c] => mkCfg (parse_sdict a) (parse_sdict b) (parse_sdict c)
  | _ => mkCfg [] [] []
  end.

(* a step: tag 2 payload *)
Definition parse_cmd (s : str) : cmd :=
  match s with
  | 83 :: 2 :: r => Setup (parse_sdict r)             (* S *)
  | 67 :: 2 :: r => Configure (parse_args r)          (* C *)
  | 82 :: 2 :: r => Reconfigure (parse_sdict r)       (* R *)
  | 87 :: 2 :: r => Wipe (parse_sdict r)              (* W *)
  | 69 :: 2 :: r => Edit (parse_files r)              (* E *)
  | _ => Setup []
  end.

(* ------------------------------------------------------------- rendering *)
Definition render_pv (v : pv) : str :=
  match v with
  | PStr s => 83 :: s
  | PBool b => bool_str b
  | PInt z => 73 :: Z_dec z
  | PList l => 76 :: join [5] l
  end.
Definition render_oZ (o : option Z) : str := match o with None => [] | Some z => Z_dec z end.
Definition render_kind (k : kind) : str :=
  match k with
  | KString => [115]
  | KBool => [98]
  | KFeature => [102]
  | KInt mn mx => join [5] [[105]; render_oZ mn; render_oZ mx]
  | KCombo ch => join [5] ([99] :: ch)
  | KArray (Some ch) => join [5] ([97] :: ch)
  | KArray None => [97; 63]
  end.
Definition render_res (r : res pv) : str :=
  match r with Ok v => render_pv v | Err _ => [69] end.

Definition render_store (s : store) : str :=
  join [3] (map (fun ko => join [4] [render_key (fst ko); render_kind (okind (snd ko));
                                     render_pv (oval (snd ko)); bool_str (oyield (snd ko));
                                     render_res (get_value_for s (fst ko))]) (options s))
  ++ 6 :: join [3] (map (fun kv => join [4] [render_key (fst kv); render_pv (snd kv)]) (augments s))
  (* the value every global option has inside the subproject *)
  ++ 6 :: join [3] (map (fun ko => join [4] [render_key (in_sub (fst ko) SUB);
                                             render_res (get_value_for s (in_sub (fst ko) SUB))])
                        (filter (fun ko => sub_none (fst ko)) (options s))).

Definition render_sdict (d : sdict) : str :=
  join [3] (map (fun kv => join [4] [render_key (fst kv); snd kv]) d).

Definition render_dir (b : bdir) : str :=
  join [2] [match cd b with None => [78] | Some c => 89 :: render_store (cstore c) end;
            match cl b with None => [78] | Some l => 89 :: render_sdict l end;
            match intro b with None => [78] | Some s => 89 :: render_store s end].

Definition render_outcome (o : outcome) : str := match o with Done => [68] | Failed => [88] end.

Definition render_step (wo : world * outcome) : str :=
  render_outcome (snd wo) ++ 2 :: render_dir (wdir (fst wo)).

(* fn = "hist": args = cfg :: files :: steps *)
Definition run (fn : str) (args : list str) : str :=
  if str_eqb fn (s2l "hist") then
    match args with
    | c :: f :: steps =>
        join [1] (map render_step
                      (run_hist (parse_cfg c) (mkW (parse_files f) empty_dir) (map parse_cmd steps)))
    | _ => s2l "?"
    end
  else s2l "?".
