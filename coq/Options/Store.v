(* Options/Store.v — OptionKey, the OptionStore state and its accessors/mutators
   (mesonbuild/options.py:116-316, 773-1234).  Model only, no proofs.
   file:line comments refer to snapshot b8a063f; since f224058 / 0fc463c (set_option
   returns `changed or unsaved`) everything after options.py:1050 sits 5-6 lines lower.
   POSIX host paths only (pure_path_class = PurePosixPath). *)
From MV Require Import Base.Strs Options.Kinds.
Open Scope N_scope.

(* ------------------------------------------------------------------- keys *)
Inductive machine := Host | Build.

(* OptionKey(name, subproject, machine); subproject None = global,
   Some "" = top-level project   (options.py:127-131) *)
Record key := mkKey { ksub : option str; kmach : machine; kname : str }.

Definition osub_eqb (a b : option str) : bool :=
  match a, b with
  | None, None => true
  | Some x, Some y => str_eqb x y
  | _, _ => false
  end.
Definition mach_eqb (a b : machine) : bool :=
  match a, b with Host, Host | Build, Build => true | _, _ => false end.
Definition key_eqb (a b : key) : bool :=
  osub_eqb (ksub a) (ksub b) && mach_eqb (kmach a) (kmach b) && str_eqb (kname a) (kname b).

Definition evolve_name (k : key) (n : str) : key := mkKey (ksub k) (kmach k) n.
Definition evolve_sub (k : key) (s : option str) : key := mkKey s (kmach k) (kname k).
Definition no_sub (k : key) : key := evolve_sub k None.
Definition as_root (k : key) : key := evolve_sub k (Some []).          (* options.py:289-293 *)
Definition as_host (k : key) : key := mkKey (ksub k) Host (kname k).   (* options.py:301-305 *)
Definition is_for_build (k : key) : bool := mach_eqb (kmach k) Build.
(* Python truthiness of key.subproject: None and '' are false *)
Definition sub_truthy (k : key) : bool :=
  match ksub k with Some (_ :: _) => true | _ => false end.
Definition sub_is (k : key) (s : str) : bool := osub_eqb (ksub k) (Some s).

(* --------------------------------------------- dicts in insertion order *)
Section Dict.
  Context {V : Type}.
  Fixpoint dget (d : list (key * V)) (k : key) : option V :=
    match d with
    | [] => None
    | (k', v) :: r => if key_eqb k k' then Some v else dget r k
    end.
  (* d[k] = v : keeps the position of an existing key, appends a new one *)
  Fixpoint dset (d : list (key * V)) (k : key) (v : V) : list (key * V) :=
    match d with
    | [] => [(k, v)]
    | (k', v') :: r => if key_eqb k k' then (k', v) :: r else (k', v') :: dset r k v
    end.
  Fixpoint dpop (d : list (key * V)) (k : key) : list (key * V) :=
    match d with
    | [] => []
    | (k', v') :: r => if key_eqb k k' then r else (k', v') :: dpop r k
    end.
  Definition dmem (d : list (key * V)) (k : key) : bool :=
    match dget d k with Some _ => true | None => false end.
End Dict.

Fixpoint key_mem (k : key) (l : list key) : bool :=
  match l with [] => false | x :: r => key_eqb k x || key_mem k r end.
Definition key_add (k : key) (l : list key) : list key :=
  if key_mem k l then l else l ++ [k].

(* ---------------------------------------------------------------- options *)
(* UserOption.deprecated : bool | list | dict | str   (options.py:328) *)
Inductive depr :=
| DNo
| DYes
| DList (l : list str)
| DMap (m : list (str * str))
| DName (n : str).

Record opt := mkOpt {
  okind : kind;
  ovalue : pv;
  odefault : pv;
  oyield : bool;
  oparent : option key;     (* the parent option OBJECT, named by its key in [options] *)
  oreadonly : bool;
  odepr : depr }.

Definition with_value (o : opt) (v : pv) : opt :=
  mkOpt (okind o) v (odefault o) (oyield o) (oparent o) (oreadonly o) (odepr o).
Definition with_yield (o : opt) (y : bool) : opt :=
  mkOpt (okind o) (ovalue o) (odefault o) y (oparent o) (oreadonly o) (odepr o).
Definition with_parent (o : opt) (p : option key) : opt :=
  mkOpt (okind o) (ovalue o) (odefault o) (oyield o) p (oreadonly o) (odepr o).

Record store := mkStore {
  options : list (key * opt);           (* self.options *)
  project_options : list key;           (* self.project_options (a set) *)
  module_options : list key;            (* self.module_options (a set) *)
  augments : list (key * pv);           (* self.augments *)
  pending : list (key * pv);            (* self.pending_options *)
  pending_sub : list (key * pv);        (* self.pending_subproject_options *)
  subprojects : list str;               (* self.subprojects (a set) *)
  is_cross : bool }.

Definition set_options (s : store) (x : list (key * opt)) : store :=
  mkStore x (project_options s) (module_options s) (augments s) (pending s) (pending_sub s) (subprojects s) (is_cross s).
Definition set_project_options (s : store) (x : list key) : store :=
  mkStore (options s) x (module_options s) (augments s) (pending s) (pending_sub s) (subprojects s) (is_cross s).
Definition set_module_options (s : store) (x : list key) : store :=
  mkStore (options s) (project_options s) x (augments s) (pending s) (pending_sub s) (subprojects s) (is_cross s).
Definition set_augments (s : store) (x : list (key * pv)) : store :=
  mkStore (options s) (project_options s) (module_options s) x (pending s) (pending_sub s) (subprojects s) (is_cross s).
Definition set_pending (s : store) (x : list (key * pv)) : store :=
  mkStore (options s) (project_options s) (module_options s) (augments s) x (pending_sub s) (subprojects s) (is_cross s).
Definition set_pending_sub (s : store) (x : list (key * pv)) : store :=
  mkStore (options s) (project_options s) (module_options s) (augments s) (pending s) x (subprojects s) (is_cross s).
Definition set_subprojects (s : store) (x : list str) : store :=
  mkStore (options s) (project_options s) (module_options s) (augments s) (pending s) (pending_sub s) x (is_cross s).

Definition empty_store (cross : bool) : store := mkStore [] [] [] [] [] [] [] cross.

(* ------------------------------------------------------- transcribed tables
   (compared with the live values by harness/impl/c07.py on every run) *)
Definition BUILTIN_NAMES : list str := map s2l         (* options.py:69-108 *)
  ["prefix"; "bindir"; "datadir"; "includedir"; "infodir"; "libdir"; "licensedir";
   "libexecdir"; "localedir"; "localstatedir"; "mandir"; "sbindir"; "sharedstatedir";
   "sysconfdir"; "auto_features"; "backend"; "buildtype"; "debug"; "default_library";
   "default_both_libraries"; "errorlogs"; "genvslite"; "install_umask"; "layout";
   "optimization"; "prefer_static"; "stdsplit"; "strip"; "unity"; "unity_size";
   "warning_level"; "werror"; "wrap_mode"; "force_fallback_for"; "pkg_config_path";
   "cmake_prefix_path"; "vsenv"; "os2_emxomf"]%string.

Definition ALL_LANGUAGES : list str := map s2l         (* compilers/compilers.py:87 *)
  ["c"; "cpp"; "cs"; "cuda"; "cython"; "d"; "fortran"; "java"; "linearasm"; "masm";
   "nasm"; "objc"; "objcpp"; "rust"; "swift"; "vala"]%string.

Definition BASE_OPTION_NAMES : list str := map s2l     (* options.py:746-771 *)
  ["b_pch"; "b_lto"; "b_lto_threads"; "b_lto_mode"; "b_thinlto_cache";
   "b_thinlto_cache_dir"; "b_sanitize"; "b_lundef"; "b_asneeded"; "b_pgo"; "b_coverage";
   "b_colorout"; "b_ndebug"; "b_staticpic"; "b_pie"; "b_bitcode"; "b_vscrt"]%string.

Definition PER_MACHINE_NAMES : list str := map s2l     (* options.py:727-732 *)
  ["pkg_config_path"; "cmake_prefix_path"]%string.

(* OptionStore.DEFAULT_DEPENDENTS  buildtype -> (optimization, debug)  (options.py:774-779) *)
Definition DEFAULT_DEPENDENTS : list (str * (str * bool)) :=
  [(s2l "plain", (s2l "plain", false));
   (s2l "debug", (s2l "0", true));
   (s2l "debugoptimized", (s2l "2", true));
   (s2l "release", (s2l "3", false));
   (s2l "minsize", (s2l "s", true))].

(* BUILTIN_DIR_NOPREFIX_OPTIONS   (options.py:736-742) *)
Definition NOPREFIX : list (str * list (str * str)) :=
  [(s2l "sysconfdir", [(s2l "/usr", s2l "/etc")]);
   (s2l "localstatedir", [(s2l "/usr", s2l "/var"); (s2l "/usr/local", s2l "/var/local")]);
   (s2l "sharedstatedir", [(s2l "/usr", s2l "/var/lib"); (s2l "/usr/local", s2l "/var/local/lib")]);
   (s2l "python.platlibdir", []);
   (s2l "python.purelibdir", [])].

Fixpoint sassoc {V} (d : list (str * V)) (k : str) : option V :=
  match d with
  | [] => None
  | (k', v) :: r => if str_eqb k k' then Some v else sassoc r k
  end.

(* ------------------------------------------------------ key classification *)
(* name.split('_')[0] when '_' in name *)
Fixpoint before_underscore (s : str) (acc : str) : option str :=
  match s with
  | [] => None
  | c :: r => if c =? 95 then Some (rev acc) else before_underscore r (c :: acc)
  end.

Definition is_compiler_option (k : key) : bool :=                (* options.py:1221-1230 *)
  match before_underscore (kname k) [] with
  | None => false
  | Some p => str_mem p ALL_LANGUAGES
  end.
Definition is_per_machine_option (k : key) : bool :=            (* options.py:1184-1187 *)
  str_mem (kname k) PER_MACHINE_NAMES || is_compiler_option k.
Definition is_base_option (k : key) : bool :=                   (* options.py:1208-1211 *)
  prefixb (s2l "b_") (kname k) && str_mem (kname k) BASE_OPTION_NAMES.
Definition is_backend_option (k : key) : bool :=                (* options.py:1213-1219 *)
  prefixb (s2l "backend_") (kname k).
Definition is_project_option (s : store) (k : key) : bool := key_mem k (project_options s).
Definition is_module_option (s : store) (k : key) : bool := key_mem k (module_options s).
Definition is_builtin_option (s : store) (k : key) : bool :=    (* options.py:1204-1206 *)
  str_mem (kname k) BUILTIN_NAMES || is_module_option s k.

Definition accept_as_pending_option (k : key) (first : bool) : bool :=   (* options.py:1316-1323 *)
  if is_compiler_option k then true
  else if first && is_backend_option k then true
  else is_base_option k.

(* options.py:812-827 (OptionKey arguments only) *)
Definition ensure_key (s : store) (k : key) : key :=
  if negb (is_cross s && is_per_machine_option k) then as_host k else k.

(* options.py:838-853; returns the key under which the option object is stored *)
Definition resolve_option (s : store) (k0 : key) : res (key * opt) :=
  let k := ensure_key s k0 in
  let potential := dget (options s) k in
  if is_project_option s k then
    match ksub k with
    | None => Err EAssert
    | Some _ => match potential with
                | None => Err EKey
                | Some o => Ok (k, o)
                end
    end
  else
    match potential with
    | Some o => Ok (k, o)
    | None =>
        let pk := no_sub k in
        match dget (options s) pk with
        | None => Err EKey
        | Some o => Ok (pk, o)
        end
    end.

(* options.py:855-864 *)
Definition get_option_and_value_for (s : store) (k0 : key) : res (opt * pv) :=
  let k := ensure_key s k0 in
  do ro <- resolve_option s k;
  let '(_, o) := ro in
  match dget (augments s) k with
  | Some a => match ksub k with None => Err EAssert | Some _ => Ok (o, a) end
  | None =>
      if oyield o then
        match oparent o with
        | None => Err EAttr
        | Some pk => match dget (options s) pk with
                     | Some p => Ok (o, ovalue p)
                     | None => Err EOOM      (* a parent object is never removed in the modelled ops *)
                     end
        end
      else Ok (o, ovalue o)
  end.

Definition get_value_for (s : store) (k : key) : res pv :=      (* options.py:870-877 *)
  do r <- get_option_and_value_for s k; Ok (snd r).

Definition option_has_value (s : store) (k : key) (v : pv) : res bool :=   (* options.py:866-868 *)
  do r <- get_option_and_value_for s k;
  do v' <- validate (okind (fst r)) v;
  Ok (pv_eqb v' (snd r)).

Definition get_pending_value (s : store) (k0 : key) : option pv :=        (* options.py:829-833 *)
  let k := ensure_key s k0 in
  match dget (options s) k with
  | Some o => Some (ovalue o)
  | None => dget (pending s) k
  end.

(* ------------------------------------------------------------ PurePosixPath *)
Definition path := (str * list str)%type.      (* (root, parts without the root) *)
Definition dot : str := [46].
Definition dotdot : str := [46; 46].
Definition parse_path (s : str) : path :=
  let root :=
    match s with
    | 47 :: 47 :: 47 :: _ => [47]
    | 47 :: 47 :: _ => [47; 47]            (* exactly two leading slashes are kept *)
    | 47 :: _ => [47]
    | _ => []
    end in
  (root, filter (fun c => negb (str_eqb c []) && negb (str_eqb c dot)) (split_on 47 s [])).
Definition path_is_absolute (p : path) : bool := negb (str_eqb (fst p) []).
Definition as_posix (p : path) : str :=
  match p with
  | ([], []) => dot
  | (root, parts) => root ++ join [47] parts
  end.
Fixpoint strip_parts (pre l : list str) : option (list str) :=
  match pre, l with
  | [], _ => Some l
  | x :: pre', y :: l' => if str_eqb x y then strip_parts pre' l' else None
  | _ :: _, [] => None
  end.
(* PurePath.relative_to(other) without walk_up (Python 3.12): other must be self or a parent *)
Definition relative_to (p other : path) : option path :=
  if str_eqb (fst p) (fst other) then
    match strip_parts (snd other) (snd p) with
    | Some t => Some ([], t)
    | None => None
    end
  else None.

Definition last_char (s : str) : option char :=
  match rev s with c :: _ => Some c | [] => None end.
Definition nth_char (s : str) (n : nat) : option char := nth_error s n.

(* options.py:960-975 *)
Definition sanitize_prefix (p : str) : res str :=
  match p with
  | 126 :: _ => Err EOOM                            (* os.path.expanduser: environment *)
  | 47 :: _ =>
      match last_char p with
      | Some c =>
          if (c =? 47) || (c =? 92) then
            if Nat.eqb (length p) 3 && match nth_char p 1 with Some 58 => true | _ => false end then Ok p
            else if Nat.eqb (length p) 1 then Ok p
            else Ok (removelast p)
          else Ok p
      | None => Ok p
      end
  | _ => Err EMeson                                 (* not absolute *)
  end.

Definition nopref_key (n : str) : key := mkKey None Host n.
Definition in_nopref (k : key) : bool :=
  existsb (fun e => key_eqb k (nopref_key (fst e))) NOPREFIX.

(* options.py:977-1006 *)
Definition sanitize_dir_option_value (prefix : str) (k : key) (v : pv) : res pv :=
  match v with
  | PStr s =>
      let p := parse_path s in
      if suffixb (s2l "dir") (kname k) && path_is_absolute p && negb (in_nopref k) then
        let p' := match relative_to p (parse_path prefix) with Some q => q | None => p end in
        if str_mem dotdot (snd p') then Err EMeson else Ok (PStr (as_posix p'))
      else Ok (PStr (as_posix p))
  | _ => Ok v
  end.

(* valobj.set_value(x) on the object stored under rk *)
Definition set_value_at (s : store) (rk : key) (o : opt) (v : pv) : res store :=
  do v' <- validate (okind o) v;
  Ok (set_options s (dset (options s) rk (with_value o v'))).

(* options.py:1138-1151 *)
Fixpoint reset_prefixed_loop (s : store) (tbl : list (str * list (str * str))) (oldp newp : str) : res store :=
  match tbl with
  | [] => Ok s
  | (n, mapping) :: rest =>
      let ok := nopref_key n in
      match dget (options s) ok with
      | None => Err EKey
      | Some o =>
          let new_value :=
            match sassoc mapping newp with
            | None => odefault o
            | Some nv =>
                match sassoc mapping oldp with
                | Some ov => if pv_eqb (PStr ov) (ovalue o) then PStr nv else ovalue o
                | None => PStr nv
                end
            end in
          do s1 <- set_value_at s ok o new_value;
          reset_prefixed_loop s1 rest oldp newp
      end
  end.
Definition reset_prefixed_options (s : store) (oldp newp : str) : res store :=
  reset_prefixed_loop s NOPREFIX oldp newp.

(* the first half of set_option: value sanitising (options.py:1014-1020) *)
Definition sanitize_value (s : store) (k : key) (v : pv) : res pv :=
  if str_eqb (kname k) (s2l "prefix") then
    match v with
    | PStr p => do p' <- sanitize_prefix p; Ok (PStr p')
    | _ => Err EAssert
    end
  else if is_builtin_option s k then
    do pr <- get_value_for s (mkKey None Host (s2l "prefix"));
    match pr with
    | PStr prefix => sanitize_dir_option_value prefix k v
    | _ => Err EAssert
    end
  else Ok v.

(* the deprecated-value replacement of options.py:1033-1042 *)
Definition depr_replace (m : list (str * str)) (v : str) : str :=
  match sassoc m v with Some n => n | None => v end.

Definition resolve_for_set (s : store) (k : key) : res (key * opt) :=   (* options.py:1022-1025 *)
  match resolve_option s k with
  | Ok x => Ok x
  | Err EKey => Err EMeson
  | Err e => Err e
  end.

(* options.py:1049-1061: write the validated value; returns the old value and the
   `unsaved` flag (the option was yielding before this call / the key had no augment yet) *)
Definition store_value (s : store) (k rk : key) (v3 : pv) : res (store * pv * bool) :=
  match dget (options s) rk with
  | None => Err EOOM                   (* the resolved object cannot disappear *)
  | Some o1 =>
      if dmem (options s) k then
        do v4 <- validate (okind o1) v3;                       (* opt.set_value *)
        Ok (set_options s (dset (options s) rk (with_yield (with_value o1 v4) false)), ovalue o1, oyield o1)
      else
        match ksub k with
        | None => Err EAssert
        | Some _ =>
            let old := match dget (augments s) k with Some a => a | None => ovalue o1 end in
            Ok (set_augments s (dset (augments s) k v3), old, negb (dmem (augments s) k))
        end
  end.

(* options.py:1008-1080 *)
Fixpoint set_option (fuel : nat) (s : store) (k : key) (v : pv) (first : bool) : res (store * bool) :=
  match fuel with
  | O => Err ERecursion
  | S f =>
      do v1 <- sanitize_value s k v;
      do ro <- resolve_for_set s k;
      let '(rk, o) := ro in
      do d <- match odepr o with                                         (* 1027-1046 *)
              | DNo | DYes => Ok (s, v1, false)
              | DList _ => do _ <- opt_listify (okind o) v1; Ok (s, v1, false)
              | DMap m => do l <- opt_listify (okind o) v1;
                          Ok (s, PStr (join [44] (map (depr_replace m) l)), false)
              | DName n => do r <- set_option f s (evolve_name k n) v1 first;
                           Ok (fst r, v1, snd r)
              end;
      let '(s1, v2, ch0) := d in
      do v3 <- validate (okind o) v2;                                    (* 1048 *)
      do w <- store_value s1 k rk v3;                                    (* 1049-1061 *)
      let '(s2, old, unsaved) := w in
      let changed := ch0 || negb (pv_eqb old v3) in                      (* 1063 *)
      if oreadonly o && changed && negb first then Err EMeson else       (* 1064-1065 *)
      do s3 <- (if str_eqb (kname k) (s2l "prefix") && first && changed then   (* 1067-1070 *)
                  match old, v3 with
                  | PStr op, PStr np => reset_prefixed_options s2 op np
                  | _, _ => Err EAssert
                  end
                else Ok s2);
      if changed && str_eqb (kname k) (s2l "buildtype") && negb (pv_eqb v3 (PStr (s2l "custom"))) then  (* 1072-1078 *)
        match v3 with
        | PStr b =>
            match sassoc DEFAULT_DEPENDENTS b with
            | None => Err EKey
            | Some (optimization, debug) =>
                do r1 <- set_option f s3 (evolve_name k (s2l "debug")) (PBool debug) first;
                do r2 <- set_option f (fst r1) (evolve_name k (s2l "optimization")) (PStr optimization) first;
                Ok (fst r2, changed || unsaved)                        (* 1080: return changed or unsaved *)
            end
        | PList _ => Err EOOM      (* unhashable: TypeError *)
        | _ => Err EKey
        end
      else Ok (s3, changed || unsaved)
  end.

(* enough for every acyclic deprecated-name chain plus the buildtype expansion *)
Definition fuel_for (s : store) : nat := length (options s) + 4.

(* str(old_value) for the pending-option comparison (options.py:1103); None = not modelled *)
Definition plain_char (c : char) : bool := (32 <=? c) && (c <=? 126) && negb (c =? 39) && negb (c =? 92).
Definition py_str (v : pv) : option str :=
  match v with
  | PStr s => Some s
  | PBool b => Some (if b then s2l "True" else s2l "False")
  | PInt z => Some (Z_dec z)
  | PList l =>
      if forallb (forallb plain_char) l
      then Some ([91] ++ join (s2l ", ") (map (fun x => [39] ++ x ++ [39]) l) ++ [93])
      else None
  end.

(* options.py:1077-1108 *)
Definition set_user_option (fuel : nat) (s : store) (o : key) (v : pv) (first : bool) : res (store * bool) :=
  if negb (is_cross s) && is_for_build o then Ok (s, false)
  else if dmem (options s) o then set_option fuel s o v first
  else if (match ksub o with Some _ => true | None => false end) && dmem (options s) (no_sub o)
       then set_option fuel s o v first
  else if accept_as_pending_option o first then
    match dget (pending s) o with
    | None => Ok (set_pending s (dset (pending s) o v), true)
    | Some ov =>
        match v with
        | PStr nv => match py_str ov with
                     | Some t => Ok (set_pending s (dset (pending s) o v), negb (str_eqb t nv))
                     | None => Err EOOM
                     end
        | _ => Ok (set_pending s (dset (pending s) o v), true)
        end
    end
  else match ksub o with
       | None => set_option fuel s (as_root o) v first
       | Some _ => Err EMeson
       end.

(* ---------------------------------------------------------- adding options *)
Fixpoint has_dot (s : str) : bool :=
  match s with [] => false | c :: r => (c =? 46) || has_dot r end.

(* options.py:885-899.  The recursion on key.subproject is one level deep. *)
Definition add_system_option_global (s : store) (k : key) (o : opt) : res store :=
  (* k.subproject is None or '' here *)
  if dmem (options s) k then Ok s else
  let pval := dget (pending s) k in
  let s1 := set_pending s (dpop (pending s) k) in
  let s2 := set_options s1 (dset (options s1) k o) in
  match pval with
  | None => Ok s2
  | Some pv0 => do r <- set_option (fuel_for s2) s2 k pv0 false; Ok (fst r)
  end.

Definition add_system_option_internal (s : store) (k : key) (o : opt) : res store :=
  if dmem (options s) k then Ok s else
  if sub_truthy k then
    let pval := dget (pending s) k in
    let s1 := set_pending s (dpop (pending s) k) in
    do s2 <- add_system_option_global s1 (no_sub k) o;
    match pval with
    | None => Ok s2
    | Some pv0 => do r <- set_option (fuel_for s2) s2 k pv0 false; Ok (fst r)
    end
  else add_system_option_global s k o.

Definition add_system_option (s : store) (k0 : key) (o : opt) : res store :=   (* 879-883 *)
  let k := ensure_key s k0 in
  if has_dot (kname k) then Err EMeson else add_system_option_internal s k o.

Definition add_compiler_option (s : store) (lang : str) (k0 : key) (o : opt) : res store :=  (* 901-905 *)
  let k := ensure_key s k0 in
  if negb (prefixb (lang ++ [95]) (kname k)) then Err EMeson else add_system_option s k o.

Definition add_module_option (s : store) (modname : str) (k0 : key) (o : opt) : res store := (* 930-937 *)
  let k := ensure_key s k0 in
  if prefixb (s2l "build.") (kname k) then Err EMeson
  else if negb (prefixb (modname ++ [46]) (kname k)) then Err EMeson
  else do s1 <- add_system_option_internal s k o;
       Ok (set_module_options s1 (key_add k (module_options s1))).

Definition add_project_option (s : store) (k0 : key) (o : opt) : res store :=   (* 907-928 *)
  let k := ensure_key s k0 in
  match ksub k with
  | None => Err EAssert
  | Some _ =>
      if dmem (options s) k then Err EMeson else
      let o1 :=
        if oyield o && sub_truthy k then
          match dget (options s) (as_root k) with
          | Some p => if same_class (okind p) (okind o) then with_parent o (Some (as_root k)) else o
          | None => o
          end
        else o in
      let o2 := with_yield o1 (match oparent o1 with Some _ => true | None => false end) in
      let s1 := set_project_options (set_options s (dset (options s) k o2)) (key_add k (project_options s)) in
      if dmem (pending s1) k then Err EAssert else Ok s1
  end.
