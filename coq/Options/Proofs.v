(* Options/Proofs.v — validity: validate_value is exactly "coerce the type, then
   check choices/range", and every stored option value satisfies its option's
   type, choices and range after any sequence of store operations. *)
From MV Require Import Base.Strs Options.Kinds Options.Store Options.Init Options.Spec.
From Coq Require Import Lia.
Open Scope N_scope.

Ltac inv_bind H :=
  match type of H with
  | bind ?r _ = Ok _ => let E := fresh "E" in destruct r eqn:E; [cbn [bind] in H | discriminate H]
  end.

Lemma bind_ok {A B} (r : res A) (f : A -> res B) b :
  bind r f = Ok b -> exists a, r = Ok a /\ f a = Ok b.
Proof. destruct r; cbn; [eauto | discriminate]. Qed.

(* ------------------------------------------------------------------ kinds *)
Local Arguments listify_array_value : simpl never.
Local Arguments parse_int : simpl never.

Theorem validate_spec : forall k v,
  validate k v = (do t <- denotes k v; if satisfies k t then Ok t else Err EMeson).
Proof.
  intros k v. destruct k; destruct v; cbn; try reflexivity.
  all: try (destruct (parse_int s); reflexivity).
  all: try (match goal with |- context [listify_array_value ?x] =>
              destruct (listify_array_value x) as [l0|e0]; cbn; [|reflexivity];
              destruct choices as [[|c cs]|]; reflexivity end).
  all: repeat (match goal with |- context [if ?c then _ else _] => destruct c eqn:?; cbn end);
       reflexivity.
Qed.

Theorem validate_sound : forall k v v', validate k v = Ok v' -> satisfies k v' = true.
Proof.
  intros k v v' H. rewrite validate_spec in H.
  destruct (denotes k v) as [t|e]; cbn in H; [|discriminate].
  destruct (satisfies k t) eqn:S; [|discriminate]. injection H as <-. exact S.
Qed.

Theorem validate_rejects : forall k v,
  (forall t, denotes k v = Ok t -> satisfies k t = false) ->
  exists e, validate k v = Err e.
Proof.
  intros k v H. rewrite validate_spec.
  destruct (denotes k v) as [t|e]; cbn; [|eauto].
  rewrite (H t eq_refl). eauto.
Qed.

Lemma denotes_typed : forall k v, satisfies k v = true -> denotes k v = Ok v.
Proof.
  intros k v H. destruct k; try (destruct choices as [[|]|]); destruct v; cbn in *;
    try discriminate H; reflexivity.
Qed.

(* a value that already satisfies the option is accepted unchanged (idempotence) *)
Theorem validate_typed : forall k v, satisfies k v = true -> validate k v = Ok v.
Proof.
  intros k v H. rewrite validate_spec, (denotes_typed _ _ H). cbn. rewrite H. reflexivity.
Qed.

Theorem validate_idem : forall k v v', validate k v = Ok v' -> validate k v' = Ok v'.
Proof. intros. apply validate_typed. eapply validate_sound; eassumption. Qed.

(* ------------------------------------------------------- stored values *)
Definition opt_ok (o : opt) : Prop := satisfies (okind o) (ovalue o) = true.
Definition store_ok (s : store) : Prop := Forall (fun e => opt_ok (snd e)) (options s).

Lemma dset_Forall {V} (P : key * V -> Prop) d k v :
  Forall P d -> (forall k', P (k', v)) -> Forall P (dset d k v).
Proof.
  induction d as [|[k' v'] d IH]; intros H Hv; cbn.
  - constructor; [apply Hv | constructor].
  - inversion H; subst. destruct (key_eqb k k'); constructor; auto.
Qed.

Lemma dget_Forall {V} (P : key * V -> Prop) d k v :
  Forall P d -> dget d k = Some v -> exists k', P (k', v).
Proof.
  induction d as [|[k' v'] d IH]; intros H G; cbn in G; [discriminate|].
  inversion H; subst. destruct (key_eqb k k').
  - injection G as <-. eauto.
  - auto.
Qed.

Lemma store_ok_options s s' : options s' = options s -> store_ok s -> store_ok s'.
Proof. unfold store_ok. intros ->. auto. Qed.

Lemma set_value_at_ok s rk o v s' :
  store_ok s -> set_value_at s rk o v = Ok s' -> store_ok s'.
Proof.
  unfold set_value_at. intros H E. apply bind_ok in E as (v' & Ev & E). injection E as <-.
  unfold store_ok; cbn. apply dset_Forall; [exact H|].
  intros k'. cbn. unfold opt_ok. cbn. eapply validate_sound; eassumption.
Qed.

Lemma reset_prefixed_loop_ok tbl : forall s oldp newp s',
  store_ok s -> reset_prefixed_loop s tbl oldp newp = Ok s' -> store_ok s'.
Proof.
  induction tbl as [|[n m] tbl IH]; intros s oldp newp s' H E; cbn in E.
  - injection E as <-. exact H.
  - destruct (dget (options s) (nopref_key n)) as [o|]; [|discriminate].
    apply bind_ok in E as (s1 & E1 & E). eapply IH; [|exact E].
    eapply set_value_at_ok; eassumption.
Qed.

Lemma hard_reset_loop_ok tbl : forall s p s',
  store_ok s -> hard_reset_loop s tbl p = Ok s' -> store_ok s'.
Proof.
  induction tbl as [|[n m] tbl IH]; intros s p s' H E; cbn in E.
  - injection E as <-. exact H.
  - destruct (dget (options s) (nopref_key n)) as [o|]; [|discriminate].
    apply bind_ok in E as (nv & _ & E). apply bind_ok in E as (s1 & E1 & E).
    eapply IH; [|exact E]. eapply set_value_at_ok; eassumption.
Qed.

Lemma hard_reset_ok s p s' : store_ok s -> hard_reset_from_prefix s p = Ok s' -> store_ok s'.
Proof.
  unfold hard_reset_from_prefix. intros H E.
  apply bind_ok in E as (p' & _ & E). apply bind_ok in E as (s1 & E1 & E).
  destruct (dget (options s1) prefix_key) as [o|]; [|discriminate].
  eapply set_value_at_ok; [|exact E]. eapply hard_reset_loop_ok; eassumption.
Qed.

Lemma store_value_ok s k rk v s' old u :
  store_ok s -> store_value s k rk v = Ok (s', old, u) -> store_ok s'.
Proof.
  unfold store_value. intros H E.
  destruct (dget (options s) rk) as [o1|]; [|discriminate].
  destruct (dmem (options s) k).
  - apply bind_ok in E as (v4 & Ev & E). injection E as <- _ _.
    unfold store_ok; cbn. apply dset_Forall; [exact H|].
    intros k'. unfold opt_ok; cbn. eapply validate_sound; eassumption.
  - destruct (ksub k); [|discriminate]. injection E as <- _ _. exact H.
Qed.

Lemma set_option_ok : forall fuel s k v first s' ch,
  store_ok s -> set_option fuel s k v first = Ok (s', ch) -> store_ok s'.
Proof.
  induction fuel as [|f IH]; intros s k v first s' ch H E; [discriminate|].
  cbn [set_option] in E.
  apply bind_ok in E as (v1 & _ & E).
  apply bind_ok in E as ([rk o] & _ & E).
  apply bind_ok in E as ([[s1 v2] ch0] & Ed & E).
  assert (H1 : store_ok s1).
  { destruct (odepr o).
    - injection Ed as <- _ _. exact H.
    - injection Ed as <- _ _. exact H.
    - apply bind_ok in Ed as (? & _ & Ed). injection Ed as <- _ _. exact H.
    - apply bind_ok in Ed as (? & _ & Ed). injection Ed as <- _ _. exact H.
    - apply bind_ok in Ed as ([sr cr] & Er & Ed). injection Ed as <- _ _. cbn.
      eapply IH; eassumption. }
  apply bind_ok in E as (v3 & _ & E).
  apply bind_ok in E as ([[s2 old] u] & Ew & E).
  assert (H2 : store_ok s2) by (eapply store_value_ok; eassumption).
  destruct (oreadonly o && (ch0 || negb (pv_eqb old v3)) && negb first); [discriminate|].
  apply bind_ok in E as (s3 & E3 & E).
  assert (H3 : store_ok s3).
  { destruct (str_eqb (kname k) (s2l "prefix") && first && (ch0 || negb (pv_eqb old v3))).
    - destruct old; try discriminate. destruct v3; try discriminate.
      eapply reset_prefixed_loop_ok; eassumption.
    - injection E3 as <-. exact H2. }
  destruct ((ch0 || negb (pv_eqb old v3)) && str_eqb (kname k) (s2l "buildtype") &&
            negb (pv_eqb v3 (PStr (s2l "custom")))).
  - destruct v3; try discriminate.
    destruct (sassoc DEFAULT_DEPENDENTS s0) as [[optimization debug]|]; [|discriminate].
    apply bind_ok in E as ([sa ca] & Ea & E).
    apply bind_ok in E as ([sb cb] & Eb & E).
    injection E as <- _. cbn in *.
    eapply IH; [|exact Eb]. eapply IH; eassumption.
  - injection E as <- _. exact H3.
Qed.

Lemma set_user_option_ok fuel s o v first s' ch :
  store_ok s -> set_user_option fuel s o v first = Ok (s', ch) -> store_ok s'.
Proof.
  unfold set_user_option. intros H E.
  destruct (negb (is_cross s) && is_for_build o); [injection E as <- _; exact H|].
  destruct (dmem (options s) o); [eapply set_option_ok; eassumption|].
  destruct ((match ksub o with Some _ => true | None => false end) && dmem (options s) (no_sub o));
    [eapply set_option_ok; eassumption|].
  destruct (accept_as_pending_option o first).
  - destruct (dget (pending s) o).
    + destruct v; try (injection E as <- _; exact H).
      destruct (py_str p); [|discriminate]. injection E as <- _. exact H.
    + injection E as <- _. exact H.
  - destruct (ksub o); [discriminate|]. eapply set_option_ok; eassumption.
Qed.

(* ---- adding options *)
Lemma mk_opt_ok sp o : mk_opt sp = Ok o -> opt_ok o.
Proof.
  unfold mk_opt. intros E. apply bind_ok in E as (v & Ev & E). injection E as <-.
  unfold opt_ok; cbn. eapply validate_sound; eassumption.
Qed.

Lemma add_system_option_global_ok s k o s' :
  store_ok s -> opt_ok o -> add_system_option_global s k o = Ok s' -> store_ok s'.
Proof.
  unfold add_system_option_global. intros H Ho E.
  destruct (dmem (options s) k); [injection E as <-; exact H|].
  set (s2 := set_options _ _) in E.
  assert (H2 : store_ok s2).
  { unfold s2, store_ok; cbn. apply dset_Forall; [exact H|]. intros; exact Ho. }
  destruct (dget (pending s) k).
  - apply bind_ok in E as ([sr cr] & Er & E). injection E as <-. cbn.
    eapply set_option_ok; eassumption.
  - injection E as <-. exact H2.
Qed.

Lemma add_system_option_internal_ok s k o s' :
  store_ok s -> opt_ok o -> add_system_option_internal s k o = Ok s' -> store_ok s'.
Proof.
  unfold add_system_option_internal. intros H Ho E.
  destruct (dmem (options s) k); [injection E as <-; exact H|].
  destruct (sub_truthy k); [|eapply add_system_option_global_ok; eassumption].
  apply bind_ok in E as (s2 & E2 & E).
  assert (H2 : store_ok s2).
  { eapply add_system_option_global_ok; [| exact Ho | exact E2]. exact H. }
  destruct (dget (pending s) k).
  - apply bind_ok in E as ([sr cr] & Er & E). injection E as <-. cbn.
    eapply set_option_ok; eassumption.
  - injection E as <-. exact H2.
Qed.

Lemma add_system_option_ok s k o s' :
  store_ok s -> opt_ok o -> add_system_option s k o = Ok s' -> store_ok s'.
Proof.
  unfold add_system_option. intros H Ho E.
  destruct (has_dot _); [discriminate|]. eapply add_system_option_internal_ok; eassumption.
Qed.

Lemma add_compiler_option_ok s l k o s' :
  store_ok s -> opt_ok o -> add_compiler_option s l k o = Ok s' -> store_ok s'.
Proof.
  unfold add_compiler_option. intros H Ho E.
  destruct (negb _); [discriminate|]. eapply add_system_option_ok; eassumption.
Qed.

Lemma add_module_option_ok s m k o s' :
  store_ok s -> opt_ok o -> add_module_option s m k o = Ok s' -> store_ok s'.
Proof.
  unfold add_module_option. intros H Ho E.
  destruct (prefixb (s2l "build.") _); [discriminate|].
  destruct (negb _); [discriminate|].
  apply bind_ok in E as (s1 & E1 & E). injection E as <-.
  apply (store_ok_options s1); [reflexivity|]. eapply add_system_option_internal_ok; eassumption.
Qed.

Lemma add_project_option_ok s k o s' :
  store_ok s -> opt_ok o -> add_project_option s k o = Ok s' -> store_ok s'.
Proof.
  unfold add_project_option. intros H Ho E.
  destruct (ksub (ensure_key s k)); [|discriminate].
  destruct (dmem (options s) (ensure_key s k)); [discriminate|].
  match type of E with (if dmem (pending ?x) _ then _ else _) = _ => set (s1 := x) in E end.
  destruct (dmem (pending s1) (ensure_key s k)); [discriminate|]. injection E as <-.
  unfold s1, store_ok; cbn. apply dset_Forall; [exact H|]. intros k'.
  unfold opt_ok in *; cbn.
  destruct (oyield o && sub_truthy (ensure_key s k)); [|exact Ho].
  destruct (dget (options s) (as_root (ensure_key s k))) as [p|]; [|exact Ho].
  destruct (same_class (okind p) (okind o)); exact Ho.
Qed.

(* ---- initialisers *)
Lemma top_pdo_loop_ok fuel l : forall s s',
  store_ok s -> top_pdo_loop fuel s l = Ok s' -> store_ok s'.
Proof.
  induction l as [|[k v] l IH]; intros s s' H E; cbn in E; [injection E as <-; exact H|].
  destruct (negb (is_cross s) && is_for_build k); [eauto|].
  destruct (sub_truthy k).
  - eapply IH; [|exact E]. exact H.
  - apply bind_ok in E as ([s1 c] & E1 & E). eapply IH; [|exact E].
    eapply set_user_option_ok; eassumption.
Qed.

Lemma top_mc_loop_ok fuel l : forall s s',
  store_ok s -> top_mc_loop fuel s l = Ok s' -> store_ok s'.
Proof.
  induction l as [|[k v] l IH]; intros s s' H E; cbn in E; [injection E as <-; exact H|].
  destruct (negb (is_cross s) && is_for_build k); [eauto|].
  destruct (negb (sub_truthy k)); [|eauto].
  apply bind_ok in E as ([s1 c] & E1 & E). eapply IH; [|exact E].
  eapply set_user_option_ok; eassumption.
Qed.

Lemma first_handle_prefix_ok s pdo cmd mf s1 a b c :
  store_ok s -> first_handle_prefix s pdo cmd mf = Ok (s1, a, b, c) -> store_ok s1.
Proof.
  unfold first_handle_prefix. intros H E.
  apply bind_ok in E as ([p1 pdo'] & _ & E).
  apply bind_ok in E as (pm & _ & E).
  apply bind_ok in E as ([p3 cmd'] & _ & E).
  apply bind_ok in E as (s1' & E1 & E). injection E as <- _ _ _.
  destruct (first_some p3 (first_some pm p1)).
  - eapply hard_reset_ok; eassumption.
  - injection E1 as <-. exact H.
Qed.

Lemma init_top_ok fuel s pdo cmd mf s' :
  store_ok s -> initialize_from_top_level_project_call fuel s pdo cmd mf = Ok s' -> store_ok s'.
Proof.
  unfold initialize_from_top_level_project_call. intros H E.
  apply bind_ok in E as ([[[s1 a] b] c] & E1 & E).
  apply bind_ok in E as (s2 & E2 & E).
  eapply top_mc_loop_ok; [|exact E]. eapply top_pdo_loop_ok; [|exact E2].
  eapply first_handle_prefix_ok; eassumption.
Qed.

Lemma sub_apply_loop_ok fuel sub l : forall s s',
  store_ok s -> sub_apply_loop fuel s sub l = Ok s' -> store_ok s'.
Proof.
  induction l as [|[k v] l IH]; intros s s' H E; cbn in E; [injection E as <-; exact H|].
  destruct (negb (sub_is k sub)).
  - apply bind_ok in E as (skip & _ & E). destruct skip; eapply IH; try exact E; exact H.
  - match type of E with context [dmem (augments ?x) k] => set (s2 := x) in E end.
    assert (H2 : store_ok s2) by exact H.
    destruct (negb (dmem (augments s2) k)); [|eapply IH; [|exact E]; exact H].
    apply bind_ok in E as ([s3 c] & E3 & E). eapply IH; [|exact E].
    eapply set_user_option_ok; [|exact E3]. exact H.
Qed.

Lemma init_sub_ok fuel s sub sp pdo cmd mf s' :
  store_ok s -> initialize_from_subproject_call fuel s sub sp pdo cmd mf = Ok s' -> store_ok s'.
Proof.
  unfold initialize_from_subproject_call. intros H E.
  apply bind_ok in E as (m & _ & E). apply bind_ok in E as (s1 & E1 & E). injection E as <-.
  apply (store_ok_options s1); [reflexivity|]. eapply sub_apply_loop_ok; eassumption.
Qed.

Lemma apply_op_ok s o s' out : store_ok s -> apply_op s o = Ok (s', out) -> store_ok s'.
Proof.
  intros H E. destruct o; cbn in E.
  - apply bind_ok in E as (x & Ex & E). apply bind_ok in E as (s1 & E1 & E). injection E as <- _.
    eapply add_system_option_ok; [exact H | eapply mk_opt_ok; exact Ex | exact E1].
  - apply bind_ok in E as (x & Ex & E). apply bind_ok in E as (s1 & E1 & E). injection E as <- _.
    eapply add_compiler_option_ok; [exact H | eapply mk_opt_ok; exact Ex | exact E1].
  - apply bind_ok in E as (x & Ex & E). apply bind_ok in E as (s1 & E1 & E). injection E as <- _.
    eapply add_module_option_ok; [exact H | eapply mk_opt_ok; exact Ex | exact E1].
  - apply bind_ok in E as (x & Ex & E). apply bind_ok in E as (s1 & E1 & E). injection E as <- _.
    eapply add_project_option_ok; [exact H | eapply mk_opt_ok; exact Ex | exact E1].
  - apply bind_ok in E as ([s1 c] & E1 & E). injection E as <- _. eapply set_option_ok; eassumption.
  - apply bind_ok in E as ([s1 c] & E1 & E). injection E as <- _. eapply set_user_option_ok; eassumption.
  - apply bind_ok in E as (s1 & E1 & E). injection E as <- _. eapply init_top_ok; eassumption.
  - apply bind_ok in E as (s1 & E1 & E). injection E as <- _. eapply init_sub_ok; eassumption.
  - apply bind_ok in E as (x & _ & E). injection E as <- _. exact H.
  - injection E as <- _. exact H.
  - apply bind_ok in E as (x & _ & E). injection E as <- _. exact H.
  - injection E as <- _. exact H.
Qed.

Theorem run_ops_ok : forall ops s acc s' out e,
  store_ok s -> run_ops s ops acc = (s', out, e) -> store_ok s'.
Proof.
  induction ops as [|o ops IH]; intros s acc s' out e H E; cbn in E.
  - injection E as <- _ _. exact H.
  - destruct (apply_op s o) as [[s1 o1]|er] eqn:Ea.
    + eapply IH; [|exact E]. eapply apply_op_ok; eassumption.
    + injection E as <- _ _. exact H.
Qed.

Lemma empty_store_ok c : store_ok (empty_store c).
Proof. constructor. Qed.

Lemma add_builtins_ok m l : forall s s', store_ok s -> add_builtins s m l = Ok s' -> store_ok s'.
Proof.
  induction l as [|[n o] l IH]; intros s s' H E; cbn in E; [injection E as <-; exact H|].
  apply bind_ok in E as (s1 & E1 & E). eapply IH; [|exact E].
  unfold add_builtin_option in E1. apply bind_ok in E1 as (v & Ev & E1).
  assert (Ho : opt_ok (with_value o v)) by (unfold opt_ok; cbn; eapply validate_sound; eassumption).
  cbn [kname] in E1. destruct (take_until_dot n []).
  - eapply add_module_option_ok; eassumption.
  - eapply add_system_option_ok; eassumption.
Qed.

Theorem init_builtins_ok cross libdir s : init_builtins cross libdir = Ok s -> store_ok s.
Proof.
  unfold init_builtins. intros E.
  apply bind_ok in E as (s1 & E1 & E). apply bind_ok in E as (s2 & E2 & E).
  eapply add_builtins_ok; [|exact E]. eapply add_builtins_ok; [|exact E2].
  eapply add_builtins_ok; [|exact E1]. apply empty_store_ok.
Qed.
