(* Options/Kinds.v — option values and the UserOption.validate_value family
   (mesonbuild/options.py:356-555, utils/universal.py:1867-1886).  Model only,
   no proofs.

   Python values that reach the option store are modelled by [pv]:
   str / bool / int / list of str.  Exceptions are [Err e].  Inputs whose
   treatment depends on parts of Python that are not modelled (ast.literal_eval
   for "[...]" array strings, non-ASCII digits in int(), "~" in prefix) give
   [Err EOOM] (out of model); the harness never compares such cases. *)
From MV Require Import Base.Strs.
Open Scope N_scope.

Inductive pv :=
| PStr (s : str)
| PBool (b : bool)
| PInt (z : Z)
| PList (l : list str).

Inductive err :=
| EMeson      (* MesonException *)
| EKey        (* KeyError *)
| EAssert     (* AssertionError *)
| EAttr       (* AttributeError *)
| ERecursion  (* RecursionError: fuel exhausted (deprecated-name cycle) *)
| EOOM.       (* outside the modelled fragment *)

Inductive res (A : Type) :=
| Ok (a : A)
| Err (e : err).
Arguments Ok {A} a.
Arguments Err {A} e.

Definition bind {A B} (r : res A) (f : A -> res B) : res B :=
  match r with Ok a => f a | Err e => Err e end.
Notation "'do' x <- r ; k" := (bind r (fun x => k))
  (at level 200, x pattern, r at level 100, k at level 200, right associativity).

(* ------------------------------------------------------------------ kinds *)
(* one constructor per UserOption class that is modelled *)
Inductive kind :=
| KString                                  (* UserStringOption *)
| KBool                                    (* UserBooleanOption *)
| KInt (mn mx : option Z)                  (* UserIntegerOption(min_value,max_value) *)
| KCombo (choices : list str)              (* UserComboOption(choices) *)
| KArray (choices : option (list str))     (* UserStringArrayOption(choices), split_args=False *)
| KFeature.                                (* UserFeatureOption *)

(* type(a) is type(b)   (options.py:918) *)
Definition same_class (a b : kind) : bool :=
  match a, b with
  | KString, KString | KBool, KBool | KInt _ _, KInt _ _
  | KCombo _, KCombo _ | KArray _, KArray _ | KFeature, KFeature => true
  | _, _ => false
  end.

Definition feature_choices : list str :=
  [s2l "enabled"; s2l "disabled"; s2l "auto"].        (* options.py:553 *)

(* ------------------------------------------------------------- helpers *)
Fixpoint list_str_eqb (a b : list str) : bool :=
  match a, b with
  | [], [] => true
  | x :: a', y :: b' => str_eqb x y && list_str_eqb a' b'
  | _, _ => false
  end.

(* Python ==  on the modelled values (bool is an int: True == 1) *)
Definition bool_Z (b : bool) : Z := if b then 1%Z else 0%Z.
Definition pv_eqb (a b : pv) : bool :=
  match a, b with
  | PStr x, PStr y => str_eqb x y
  | PBool x, PBool y => Bool.eqb x y
  | PInt x, PInt y => Z.eqb x y
  | PBool x, PInt y => Z.eqb (bool_Z x) y
  | PInt x, PBool y => Z.eqb x (bool_Z y)
  | PList x, PList y => list_str_eqb x y
  | _, _ => false
  end.

Definition ascii_lower (c : char) : char := if is_upper c then c + 32 else c.
Definition is_ascii (c : char) : bool := c <? 128.

(* s.lower() == w  for an all-lower-case ASCII word w.  Exact for every code
   point: no non-ASCII character lower-cases to an ASCII letter of
   "true"/"false" (only U+212A -> k and U+0130 -> i + U+0307 reach ASCII). *)
Fixpoint lower_is (s w : str) : bool :=
  match s, w with
  | [], [] => true
  | c :: s', d :: w' => N.eqb (ascii_lower c) d && lower_is s' w'
  | _, _ => false
  end.

(* ---- int(valuestring)  (options.py:440-444).  Python: surrounding white
   space is stripped, one optional sign, then decimal digits in groups
   separated by single underscores.  Anything else is ValueError ->
   MesonException.  Non-ASCII characters (Unicode digits) are out of model. *)
Fixpoint digit_groups (s : str) (prev_digit : bool) (acc : N) : option N :=
  match s with
  | [] => if prev_digit then Some acc else None
  | c :: r =>
      if is_digit c then digit_groups r true (acc * 10 + digit_val c)
      else if (c =? 95) && prev_digit then
             match r with
             | d :: _ => if is_digit d then digit_groups r false acc else None
             | [] => None
             end
      else None
  end.

Definition parse_int (s : str) : res Z :=
  if negb (forallb is_ascii s) then Err EOOM else
  let t := strip s in
  let '(neg, body) :=
    match t with
    | 45 :: r => (true, r)      (* - *)
    | 43 :: r => (false, r)     (* + *)
    | _ => (false, t)
    end in
  match digit_groups body false 0 with
  | Some n => Ok (if neg then (- Z.of_N n)%Z else Z.of_N n)
  | None => Err EMeson
  end.

(* ---- listify_array_value(value, False)   (universal.py:1867-1886) *)
Fixpoint split_on (sep : char) (s : str) (cur : str) : list str :=
  match s with
  | [] => [rev cur]
  | c :: r => if c =? sep then rev cur :: split_on sep r [] else split_on sep r (c :: cur)
  end.

Definition listify_array_value (v : pv) : res (list str) :=
  match v with
  | PStr s =>
      match s with
      | 91 :: _ => Err EOOM                 (* "[...": ast.literal_eval, not modelled *)
      | [] => Ok []
      | _ => Ok (map strip (split_on 44 s []))      (* [v.strip() for v in value.split(',')] *)
      end
  | PList l => Ok l
  | _ => Err EMeson
  end.

Definition in_range (mn mx : option Z) (z : Z) : bool :=
  match mn with Some m => Z.leb m z | None => true end &&
  match mx with Some m => Z.leb z m | None => true end.

(* ---- validate_value, one branch per class *)
Definition validate (k : kind) (v : pv) : res pv :=
  match k with
  | KString =>                                            (* options.py:377-380 *)
      match v with PStr s => Ok (PStr s) | _ => Err EMeson end
  | KBool =>                                              (* options.py:390-399 *)
      match v with
      | PBool b => Ok (PBool b)
      | PStr s => if lower_is s (s2l "true") then Ok (PBool true)
                  else if lower_is s (s2l "false") then Ok (PBool false)
                  else Err EMeson
      | _ => Err EMeson
      end
  | KInt mn mx =>                                         (* options.py:422-431 *)
      do z <- match v with
              | PStr s => parse_int s
              | PInt z => Ok z
              | _ => Err EMeson                           (* bool, list *)
              end;
      if in_range mn mx z then Ok (PInt z) else Err EMeson
  | KCombo ch =>                                          (* options.py:481-495 *)
      match v with
      | PStr s => if str_mem s ch then Ok (PStr s) else Err EMeson
      | _ => Err EMeson
      end
  | KFeature =>
      match v with
      | PStr s => if str_mem s feature_choices then Ok (PStr s) else Err EMeson
      | _ => Err EMeson
      end
  | KArray ch =>                                          (* options.py:525-545 *)
      do l <- listify_array_value v;
      match ch with
      | Some (c :: cs) =>
          if forallb (fun x => str_mem x (c :: cs)) l then Ok (PList l) else Err EMeson
      | _ => Ok (PList l)                                 (* `if self.choices:` None or [] *)
      end
  end.

(* what "satisfies the option's type, choices and range" means for a stored value *)
Definition satisfies (k : kind) (v : pv) : bool :=
  match k, v with
  | KString, PStr _ => true
  | KBool, PBool _ => true
  | KInt mn mx, PInt z => in_range mn mx z
  | KCombo ch, PStr s => str_mem s ch
  | KFeature, PStr s => str_mem s feature_choices
  | KArray (Some (c :: cs)), PList l => forallb (fun x => str_mem x (c :: cs)) l
  | KArray _, PList _ => true
  | _, _ => false
  end.

(* UserOption.listify (options.py:337-344) / UserStringArrayOption.listify *)
Definition opt_listify (k : kind) (v : pv) : res (list str) :=
  match k with
  | KArray _ => listify_array_value v
  | _ => match v with
         | PList l => Ok l
         | PBool b => Ok [if b then s2l "true" else s2l "false"]
         | PInt z => Ok [Z_dec z]
         | PStr s => Ok [s]
         end
  end.
