(* Options/Final.v — rejection of invalid values, prefix handling, boolean
   versions of the side conditions (with examples that they are satisfiable). *)
From MV Require Import Base.Strs Options.Kinds Options.Store Options.Init Options.Spec
                       Options.Proofs Options.Precedence Options.SubMerge Options.SubApply.
Open Scope N_scope.

(* ------------------------------------------------- accepted values are valid *)
Lemma canon_valid s t v v3 :
  canon s t v = Ok v3 ->
  exists rk o, resolve_option s t = Ok (rk, o) /\ satisfies (okind o) v3 = true.
Proof.
  unfold canon. intros H. apply bind_ok in H as (v1 & _ & H). apply bind_ok in H as ([rk o] & Er & H).
  apply bind_ok in H as (v2 & _ & H). cbn [snd] in H.
  exists rk, o. split; [apply resolve_for_set_ok; exact Er | eapply validate_sound; exact H].
Qed.

(* every value that initialize_from_top_level_project_call applies was accepted by
   its option: a run that succeeds contains no value violating type/choices/range *)
Theorem top_values_accepted f s pdo cmd mf s1 pdo' cmd' mf' s' :
  first_handle_prefix s pdo cmd mf = Ok (s1, pdo', cmd', mf') ->
  initialize_from_top_level_project_call (S f) s pdo cmd mf = Ok s' ->
  pfx_ok s1 -> Forall (good_entry s1) (pdo' ++ mf' ++ cmd') ->
  Forall (entry_accepted s1) (pdo' ++ mf' ++ cmd').
Proof.
  intros Hf Hi Hpf HG.
  unfold initialize_from_top_level_project_call in Hi. rewrite Hf in Hi. cbn [bind] in Hi.
  destruct (top_loops_last_writer f s1 pdo' (mf' ++ cmd') s' Hpf HG Hi) as (_ & _ & _ & HK). exact HK.
Qed.

Corollary top_rejects_invalid f s pdo cmd mf s1 pdo' cmd' mf' k v t e :
  first_handle_prefix s pdo cmd mf = Ok (s1, pdo', cmd', mf') ->
  pfx_ok s1 -> Forall (good_entry s1) (pdo' ++ mf' ++ cmd') ->
  In (k, v) (pdo' ++ mf' ++ cmd') ->
  native_skip s1 k = false -> sub_truthy k = false -> target s1 k = Some t ->
  canon s1 t v = Err e ->
  forall s', initialize_from_top_level_project_call (S f) s pdo cmd mf <> Ok s'.
Proof.
  intros Hf Hpf HG Hin Hn Hs Ht Hc s' Hi.
  pose proof (top_values_accepted f s pdo cmd mf s1 pdo' cmd' mf' s' Hf Hi Hpf HG) as HK.
  rewrite Forall_forall in HK. destruct (HK _ Hin Hn Hs t Ht) as (v3 & Ec). cbn in Ec. congruence.
Qed.

(* ------------------------------------------------------ boolean side conditions *)
Definition pfx_okb (s : store) : bool :=
  match dget (options s) prefix_key with Some o => negb (oyield o) | None => true end.
Lemma pfx_okb_sound s : pfx_okb s = true -> pfx_ok s.
Proof.
  unfold pfx_okb, pfx_ok. destruct (dget (options s) prefix_key); [|auto].
  intros H. apply negb_true_iff in H. exact H.
Qed.

Definition good_keyb (s : store) (k : key) : bool :=
  mach_eqb (kmach k) Host && plain_name k &&
  match target s k with
  | Some t => match resolve_option s t with Ok (_, o) => not_dname o | Err _ => true end
  | None => true
  end.
Lemma good_keyb_sound s k : good_keyb s k = true -> good_key s k.
Proof.
  unfold good_keyb, good_key. intros H. apply andb_prop in H as [H H3]. apply andb_prop in H as [H1 H2].
  split; [destruct (kmach k); [reflexivity | discriminate]|]. split; [exact H2|].
  intros t rk o Ht Hr. rewrite Ht, Hr in H3. exact H3.
Qed.

Definition good_entryb (s : store) (e : key * pv) : bool :=
  native_skip s (fst e) || sub_truthy (fst e) || good_keyb s (fst e).
Lemma good_entryb_sound s l : forallb (good_entryb s) l = true -> Forall (good_entry s) l.
Proof.
  rewrite forallb_forall, Forall_forall. intros H e He. specialize (H e He). unfold good_entryb in H.
  unfold good_entry. apply orb_prop in H as [H|H]; [apply orb_prop in H as [H|H]|]; auto using good_keyb_sound.
Qed.

Definition sub_entry_okb (sub : str) (s : store) (e : key * pv) : bool :=
  negb (sub_is (fst e) sub) || good_keyb s (fst e).
Lemma sub_entry_okb_sound sub s l : forallb (sub_entry_okb sub s) l = true -> Forall (sub_entry_ok sub s) l.
Proof.
  rewrite forallb_forall, Forall_forall. intros H e He. specialize (H e He). unfold sub_entry_okb in H.
  unfold sub_entry_ok. apply orb_prop in H as [H|H]; [left; apply negb_true_iff; exact H | right; apply good_keyb_sound; exact H].
Qed.

(* --------------------------------------------------------------- the prefix *)
(* which prefix first_handle_prefix uses: command line, then machine file, then
   project(default_options) *)
Fixpoint last_prefix (d : list (key * pv)) (acc : option pv) : option pv :=
  match d with
  | [] => acc
  | (k, v) :: r => last_prefix r (if is_prefix_name k then Some v else acc)
  end.

Lemma prefix_split_spec coll : forall pre others p others',
  prefix_split_options coll pre others = Ok (p, others') ->
  option_map PStr p = last_prefix coll (option_map PStr pre).
Proof.
  induction coll as [|[k v] coll IH]; intros pre others p others' H; cbn in H.
  - injection H as <- _. reflexivity.
  - cbn [last_prefix]. destruct (is_prefix_name k).
    + destruct v; try discriminate. apply (IH _ _ _ _ H).
    + apply (IH _ _ _ _ H).
Qed.

Theorem prefix_source_order s pdo cmd mf s1 pdo' cmd' mf' :
  first_handle_prefix s pdo cmd mf = Ok (s1, pdo', cmd', mf') ->
  match resolve_top (last_prefix cmd None) (dget mf prefix_key) (last_prefix pdo None) with
  | Some (PStr p) => hard_reset_from_prefix s p = Ok s1
  | Some _ => False
  | None => s1 = s
  end.
Proof.
  unfold first_handle_prefix. intros H.
  apply bind_ok in H as ([p1 pdo1] & H1 & H). apply bind_ok in H as (pm & Hm & H).
  apply bind_ok in H as ([p3 cmd1] & H3 & H). apply bind_ok in H as (sx & Hx & H). injection H as <- _ _ _.
  pose proof (prefix_split_spec _ _ _ _ _ H1) as E1. pose proof (prefix_split_spec _ _ _ _ _ H3) as E3.
  cbn in E1, E3. rewrite <- E1, <- E3. unfold resolve_top. cbn [first_defined].
  destruct p3 as [p|]; cbn.
  - exact Hx.
  - destruct (dget mf prefix_key) as [[p| | |]|]; try discriminate; injection Hm as <-; cbn.
    + exact Hx.
    + destruct p1; cbn; [exact Hx | injection Hx as <-; reflexivity].
Qed.

(* after a hard reset the prefix-dependent directory defaults follow the prefix *)
Lemma set_value_at_get s rk o v s' x :
  set_value_at s rk o v = Ok s' ->
  exists v', validate (okind o) v = Ok v' /\
  dget (options s') x = if key_eqb rk x then Some (with_value o v') else dget (options s) x.
Proof.
  unfold set_value_at. intros H. apply bind_ok in H as (v' & Ev & H). injection H as <-.
  exists v'. split; [exact Ev|]. cbn. apply dget_dset.
Qed.

Definition nopref_names (tbl : list (str * list (str * str))) : list str := map fst tbl.

Lemma hard_reset_loop_other tbl : forall s p s' x,
  hard_reset_loop s tbl p = Ok s' ->
  (forall n, In n (nopref_names tbl) -> key_eqb (nopref_key n) x = false) ->
  dget (options s') x = dget (options s) x.
Proof.
  induction tbl as [|[n m] tbl IH]; intros s p s' x H Hx; cbn in H.
  - injection H as <-. reflexivity.
  - destruct (dget (options s) (nopref_key n)) as [o|]; [|discriminate].
    apply bind_ok in H as (nv & _ & H). apply bind_ok in H as (s1 & H1 & H).
    rewrite (IH _ _ _ x H); [|intros n' Hn'; apply Hx; right; exact Hn'].
    destruct (set_value_at_get _ _ _ _ _ x H1) as (v' & _ & E). rewrite E.
    rewrite (Hx n (or_introl eq_refl)). reflexivity.
Qed.

Fixpoint distinct_names (l : list str) : bool :=
  match l with [] => true | x :: r => negb (str_mem x r) && distinct_names r end.

Lemma nopref_key_neq a b : str_eqb a b = false -> key_eqb (nopref_key a) (nopref_key b) = false.
Proof. intros H. unfold key_eqb, nopref_key; cbn. exact H. Qed.

Lemma str_mem_false x l n : str_mem x l = false -> In n l -> str_eqb x n = false.
Proof.
  induction l as [|y l IH]; cbn; intros H Hin; [contradiction|].
  apply orb_false_iff in H as [H1 H2]. destruct Hin as [->|Hin]; [exact H1 | apply IH; assumption].
Qed.

(* each prefix-dependent option receives the table value for the prefix, or its
   declared default when the table has no entry for that prefix *)
Theorem hard_reset_loop_spec tbl : forall s p s' n mapping,
  hard_reset_loop s tbl p = Ok s' -> distinct_names (nopref_names tbl) = true ->
  In (n, mapping) tbl ->
  exists o v', dget (options s) (nopref_key n) = Some o /\
    validate (okind o) (match sassoc mapping p with Some x => PStr x | None => odefault o end) = Ok v' /\
    dget (options s') (nopref_key n) = Some (with_value o v').
Proof.
  induction tbl as [|[n0 m0] tbl IH]; intros s p s' n mapping H D Hin; [contradiction|].
  cbn in H. cbn in D. apply andb_prop in D as [D1 D2]. apply negb_true_iff in D1.
  destruct (dget (options s) (nopref_key n0)) as [o|] eqn:G; [|discriminate].
  apply bind_ok in H as (nv & Hnv & H). apply bind_ok in H as (s1 & H1 & H).
  destruct Hin as [E|Hin].
  - injection E as -> ->. exists o.
    destruct (set_value_at_get _ _ _ _ _ (nopref_key n) H1) as (v' & Ev & E1).
    rewrite key_eqb_refl in E1. exists v'. split; [exact G|].
    assert (nv = match sassoc mapping p with Some x => PStr x | None => odefault o end) as <-.
    { destruct (sassoc mapping p); [injection Hnv as <-; reflexivity|].
      destruct (odefault o); try discriminate. injection Hnv as <-. reflexivity. }
    split; [exact Ev|].
    rewrite (hard_reset_loop_other _ _ _ _ (nopref_key n) H); [exact E1|].
    intros n' Hn'. rewrite key_eqb_sym. apply nopref_key_neq. eapply str_mem_false; eassumption.
  - destruct (IH s1 p s' n mapping H D2 Hin) as (o' & v' & G' & Ev & E').
    assert (Hne : key_eqb (nopref_key n0) (nopref_key n) = false).
    { apply nopref_key_neq. eapply str_mem_false; [exact D1|].
      change n with (fst (n, mapping)). apply in_map. exact Hin. }
    destruct (set_value_at_get _ _ _ _ _ (nopref_key n) H1) as (v1 & _ & E1). rewrite Hne in E1.
    exists o', v'. rewrite <- E1. auto.
Qed.

Lemma NOPREFIX_distinct : distinct_names (nopref_names NOPREFIX) = true.
Proof. vm_compute. reflexivity. Qed.

Theorem prefix_dependent_defaults s p0 s' n mapping :
  hard_reset_from_prefix s p0 = Ok s' -> In (n, mapping) NOPREFIX ->
  exists p o v' op vp,
    sanitize_prefix p0 = Ok p /\
    dget (options s) (nopref_key n) = Some o /\
    validate (okind o) (match sassoc mapping p with Some x => PStr x | None => odefault o end) = Ok v' /\
    dget (options s') (nopref_key n) = Some (with_value o v') /\
    validate (okind op) (PStr p) = Ok vp /\
    dget (options s') prefix_key = Some (with_value op vp).
Proof.
  unfold hard_reset_from_prefix. intros H Hin.
  apply bind_ok in H as (p & Hp & H). apply bind_ok in H as (s1 & H1 & H).
  destruct (dget (options s1) prefix_key) as [op|] eqn:Gp; [|discriminate].
  destruct (hard_reset_loop_spec NOPREFIX s p s1 n mapping H1 NOPREFIX_distinct Hin) as (o & v' & G & Ev & E1).
  destruct (set_value_at_get _ _ _ _ _ (nopref_key n) H) as (vp & Evp & E2).
  destruct (set_value_at_get _ _ _ _ _ prefix_key H) as (vp' & Evp' & E3).
  rewrite key_eqb_refl in E3. assert (vp' = vp) by congruence. subst vp'.
  exists p, o, v', op, vp. split; [exact Hp|]. split; [exact G|]. split; [exact Ev|]. split; [|split; [exact Evp | exact E3]].
  rewrite E2, E1. assert (key_eqb prefix_key (nopref_key n) = false) as ->; [|reflexivity].
  destruct Hin as [E|[E|[E|[E|[E|[]]]]]]; injection E as <- _; vm_compute; reflexivity.
Qed.

(* ------------------------------------------------------------------ yielding *)
(* a yielding option takes the parent's value *)
Theorem yielding_takes_parent s q su o pk p :
  kmach q = Host -> ksub q = Some su ->
  dget (options s) q = Some o -> oyield o = true -> oparent o = Some pk ->
  dget (options s) pk = Some p -> dget (augments s) q = None ->
  get_value_for s q = Ok (ovalue p).
Proof.
  intros Hh Hs Ho Hy Hp Hpk Ha. unfold get_value_for, get_option_and_value_for, resolve_option.
  repeat rewrite (ensure_host s q Hh). rewrite Hs, Ho.
  destruct (is_project_option s q); cbn [bind]; rewrite Ha, Hy, Hp, Hpk; reflexivity.
Qed.

(* add_project_option: an option declared `yield: true` in a subproject yields exactly
   when the top-level project has an option of the same name and class; its parent is
   that option *)
Definition yield_parent (s : store) (k : key) (o : opt) : option key :=
  if oyield o && sub_truthy k then
    match dget (options s) (as_root k) with
    | Some p => if same_class (okind p) (okind o) then Some (as_root k) else None
    | None => None
    end
  else None.

Theorem yield_setup s k o s' :
  kmach k = Host -> oparent o = None -> add_project_option s k o = Ok s' ->
  exists o', dget (options s') k = Some o' /\ ovalue o' = ovalue o /\ okind o' = okind o /\
    oparent o' = yield_parent s k o /\
    oyield o' = match yield_parent s k o with Some _ => true | None => false end.
Proof.
  intros Hh Hn H. unfold add_project_option in H. rewrite (ensure_host s k Hh) in H.
  destruct (ksub k); [|discriminate]. destruct (dmem (options s) k); [discriminate|].
  match type of H with (if dmem (pending ?x) _ then _ else _) = _ => set (s1 := x) in H end.
  destruct (dmem (pending s1) k); [discriminate|]. injection H as <-. unfold s1; cbn.
  rewrite dget_dset, key_eqb_refl. eexists. split; [reflexivity|]. unfold yield_parent.
  destruct (oyield o && sub_truthy k); cbn; [|rewrite Hn; auto].
  destruct (dget (options s) (as_root k)) as [p|]; cbn; [|rewrite Hn; auto].
  destruct (same_class (okind p) (okind o)); cbn; [auto | rewrite Hn; auto].
Qed.

(* -------------------------------------------- cmdline: buildtype is moved first *)
Theorem reorder_buildtype_spec cmd :
  uniq_keys cmd = true ->
  (forall k, dget (reorder_buildtype cmd) k = dget cmd k) /\
  (forall v, dget cmd buildtype_key = Some v ->
     exists rest, reorder_buildtype cmd = (buildtype_key, v) :: rest /\ dget rest buildtype_key = None) /\
  (dget cmd buildtype_key = None -> reorder_buildtype cmd = cmd).
Proof.
  intros U. unfold reorder_buildtype. destruct (dget cmd buildtype_key) as [v|] eqn:G.
  - split; [|split; [|discriminate]].
    + intros k. cbn. destruct (key_eqb k buildtype_key) eqn:E.
      * apply key_eqb_eq in E. subst k. symmetry. exact G.
      * apply dget_dpop_other. rewrite key_eqb_sym. exact E.
    + intros v' E. injection E as <-. eexists. split; [reflexivity|]. apply dget_dpop_same. exact U.
  - split; [reflexivity|]. split; [discriminate | reflexivity].
Qed.

(* --------------------------------------------- the side conditions are satisfiable *)
Definition K (n : string) : key := mkKey None Host (s2l n).
Definition KS (sub n : string) : key := mkKey (Some (s2l sub)) Host (s2l n).

Example top_guards_satisfiable :
  match init_builtins false (s2l "lib") with
  | Ok s =>
      let pdo := [(K "werror", PStr (s2l "true")); (K "bindir", PStr (s2l "b")); (KS "sub" "werror", PStr (s2l "true"))] in
      let cmd := [(K "werror", PStr (s2l "false"))] in
      let mf := [(K "default_library", PStr (s2l "static")); (K "unity_size", PInt 7)] in
      pfx_okb s && forallb (good_entryb s) (pdo ++ mf ++ cmd) &&
      match initialize_from_top_level_project_call 5 s pdo cmd mf with
      | Ok s' => match get_value_for s' (K "werror"), get_value_for s' (K "unity_size") with
                 | Ok (PBool false), Ok (PInt 7) => true
                 | _, _ => false
                 end
      | Err _ => false
      end
  | Err _ => false
  end = true.
Proof. vm_compute. reflexivity. Qed.

Example sub_guards_satisfiable :
  match init_builtins false (s2l "lib") with
  | Ok s =>
      let cmd := [(K "werror", PStr (s2l "false")); (KS "sub" "default_library", PStr (s2l "both"))] in
      let spcall := [(K "warning_level", PStr (s2l "3"))] in
      let pdo := [(K "werror", PStr (s2l "true")); (K "unity_size", PStr (s2l "9"))] in
      match merge_sub s (s2l "sub") spcall pdo cmd [] with
      | Ok merged =>
          pfx_okb s && forallb (sub_entry_okb (s2l "sub") s) merged &&
          match initialize_from_subproject_call 5 s (s2l "sub") spcall pdo cmd [] with
          | Ok s' => match get_value_for s' (KS "sub" "werror"), get_value_for s' (KS "sub" "unity_size"),
                           get_value_for s' (KS "sub" "default_library") with
                     | Ok (PBool false), Ok (PInt 9), Ok (PStr _) => true
                     | _, _, _ => false
                     end
          | Err _ => false
          end
      | Err _ => false
      end
  | Err _ => false
  end = true.
Proof. vm_compute. reflexivity. Qed.
