(* Options/LcFacts.v — generic facts about keys and insertion-ordered dictionaries of
   Options/Lifecycle.v (used by LifecycleProofs.v). *)
From MV Require Import Base.Strs Base.LexFacts Options.Kinds Options.Lifecycle.
From Coq Require Import Lia.
Open Scope N_scope.

Lemma osub_eqb_eq a b : osub_eqb a b = true <-> a = b.
Proof.
  destruct a as [x|], b as [y|]; cbn; split; intro H; try discriminate; try reflexivity.
  - apply str_eqb_eq in H. congruence.
  - injection H as ->. apply str_eqb_refl.
Qed.

Lemma key_eqb_eq a b : key_eqb a b = true <-> a = b.
Proof.
  destruct a as [sa na], b as [sb nb]. unfold key_eqb; cbn. rewrite andb_true_iff, osub_eqb_eq, str_eqb_eq.
  split; [intros [-> ->]; reflexivity | intros H; injection H as -> ->; auto].
Qed.
Lemma key_eqb_refl a : key_eqb a a = true.
Proof. apply key_eqb_eq; reflexivity. Qed.
Lemma key_eqb_neq a b : key_eqb a b = false <-> a <> b.
Proof.
  split.
  - intros H E. apply key_eqb_eq in E. congruence.
  - intros H. destruct (key_eqb a b) eqn:E; [|reflexivity]. apply key_eqb_eq in E. contradiction.
Qed.
Lemma key_eqb_sym a b : key_eqb a b = key_eqb b a.
Proof.
  destruct (key_eqb a b) eqn:E.
  - apply key_eqb_eq in E. subst. symmetry. apply key_eqb_refl.
  - symmetry. apply key_eqb_neq. apply key_eqb_neq in E. congruence.
Qed.
Lemma key_dec (a b : key) : {a = b} + {a <> b}.
Proof.
  destruct (key_eqb a b) eqn:E; [left; apply key_eqb_eq; exact E | right; apply key_eqb_neq; exact E].
Qed.

Section DictFacts.
  Context {V : Type}.
  Implicit Types (d : list (key * V)) (k q : key) (v : V).

  Lemma dget_dset_same d k v : dget (dset d k v) k = Some v.
  Proof.
    induction d as [|[k' v'] d IH]; cbn.
    - rewrite key_eqb_refl. reflexivity.
    - destruct (key_eqb k k') eqn:E; cbn; rewrite E; [reflexivity | exact IH].
  Qed.
  Lemma dget_dset_other d k q v : q <> k -> dget (dset d k v) q = dget d q.
  Proof.
    intros N. induction d as [|[k' v'] d IH]; cbn.
    - apply key_eqb_neq in N. rewrite N. reflexivity.
    - destruct (key_eqb k k') eqn:E; cbn.
      + apply key_eqb_eq in E. subst k'. apply key_eqb_neq in N. rewrite N. reflexivity.
      + destruct (key_eqb q k'); [reflexivity | exact IH].
  Qed.
  Lemma dget_dset d k q v : dget (dset d k v) q = if key_eqb q k then Some v else dget d q.
  Proof.
    destruct (key_eqb q k) eqn:E.
    - apply key_eqb_eq in E. subst. apply dget_dset_same.
    - apply dget_dset_other. apply key_eqb_neq. exact E.
  Qed.

  (* a dictionary holds every key at most once *)
  Definition keys d : list key := map fst d.
  Lemma dget_None_notin d k : dget d k = None <-> ~ In k (keys d).
  Proof.
    induction d as [|[k' v'] d IH]; cbn; [tauto|].
    destruct (key_eqb k k') eqn:E.
    - apply key_eqb_eq in E. subst. split; [discriminate | intros H; exfalso; apply H; auto].
    - rewrite IH. apply key_eqb_neq in E. split; [intros H [A|A]; [congruence|auto] | intros H A; apply H; auto].
  Qed.
  Lemma dget_Some_in d k v : dget d k = Some v -> In (k, v) d.
  Proof.
    induction d as [|[k' v'] d IH]; cbn; [discriminate|].
    destruct (key_eqb k k') eqn:E.
    - apply key_eqb_eq in E. subst. intros H; injection H as ->. auto.
    - auto.
  Qed.
  Lemma in_dget_nodup d k v : NoDup (keys d) -> In (k, v) d -> dget d k = Some v.
  Proof.
    induction d as [|[k' v'] d IH]; cbn; [tauto|]. intros ND [H|H].
    - injection H as -> ->. rewrite key_eqb_refl. reflexivity.
    - inversion ND as [|? ? NI ND']; subst. destruct (key_eqb k k') eqn:E.
      + apply key_eqb_eq in E. subst. exfalso. apply NI. change k' with (fst (k', v)). apply in_map. exact H.
      + auto.
  Qed.
  Lemma keys_dset_in d k v : dget d k <> None -> keys (dset d k v) = keys d.
  Proof.
    induction d as [|[k' v'] d IH]; cbn; [congruence|].
    destruct (key_eqb k k') eqn:E; cbn; [reflexivity|]. intros H. f_equal. apply IH; auto.
  Qed.
  Lemma keys_dset_new d k v : dget d k = None -> keys (dset d k v) = keys d ++ [k].
  Proof.
    induction d as [|[k' v'] d IH]; cbn; [reflexivity|].
    destruct (key_eqb k k') eqn:E; cbn; [discriminate|]. intros H. f_equal. apply IH; auto.
  Qed.
  Lemma nodup_dset d k v : NoDup (keys d) -> NoDup (keys (dset d k v)).
  Proof.
    intros ND. destruct (dget d k) eqn:E.
    - rewrite keys_dset_in; [exact ND | congruence].
    - rewrite keys_dset_new by exact E. apply dget_None_notin in E.
      clear -ND E. induction (keys d) as [|x l IH]; cbn.
      + constructor; [intros []|constructor].
      + inversion ND as [|? ? NI ND']; subst. constructor.
        * rewrite in_app_iff. intros [H|[H|[]]]; [auto | subst; apply E; left; reflexivity].
        * apply IH; [exact ND' | intros H; apply E; right; exact H].
  Qed.

  Lemma dget_dpop_other d k q : q <> k -> dget (dpop d k) q = dget d q.
  Proof.
    intros N. induction d as [|[k' v'] d IH]; cbn; [reflexivity|].
    destruct (key_eqb k k') eqn:E; cbn.
    - apply key_eqb_eq in E. subst k'. apply key_eqb_neq in N. rewrite N. reflexivity.
    - destruct (key_eqb q k'); [reflexivity | exact IH].
  Qed.
  Lemma keys_dpop_incl d k : incl (keys (dpop d k)) (keys d).
  Proof.
    induction d as [|[k' v'] d IH]; cbn; [apply incl_refl|].
    destruct (key_eqb k k'); cbn.
    - apply incl_tl, incl_refl.
    - intros x [H|H]; [left; exact H | right; apply IH; exact H].
  Qed.
  Lemma nodup_dpop d k : NoDup (keys d) -> NoDup (keys (dpop d k)).
  Proof.
    induction d as [|[k' v'] d IH]; cbn; [auto|]. intros ND. inversion ND as [|? ? NI ND']; subst.
    destruct (key_eqb k k'); cbn; [exact ND'|]. constructor; [|auto].
    intros H. apply NI. apply (keys_dpop_incl d k). exact H.
  Qed.
  Lemma dget_dpop_same d k : NoDup (keys d) -> dget (dpop d k) k = None.
  Proof.
    induction d as [|[k' v'] d IH]; cbn; [reflexivity|]. intros ND. inversion ND as [|? ? NI ND']; subst.
    destruct (key_eqb k k') eqn:E; cbn.
    - apply key_eqb_eq in E. subst. apply dget_None_notin. exact NI.
    - rewrite E. auto.
  Qed.
  Lemma dmem_true d k : dmem d k = true <-> dget d k <> None.
  Proof. unfold dmem. destruct (dget d k); split; congruence. Qed.
  Lemma dmem_false d k : dmem d k = false <-> dget d k = None.
  Proof. unfold dmem. destruct (dget d k); split; congruence. Qed.
End DictFacts.
