(* Options/SubApply.v — the last loop of initialize_from_subproject_call
   (options.py:1372-1386) applied to the merged dictionary: every option of the
   subproject receives the merged value; everything else is left alone. *)
From MV Require Import Base.Strs Options.Kinds Options.Store Options.Init Options.Spec
                       Options.Proofs Options.Precedence Options.SubMerge.
Open Scope N_scope.

Definition sub_step (fuel : nat) (sub : str) (s : store) (e : key * pv) : res store :=
  let k := fst e in let v := snd e in
  if negb (sub_is k sub) then
    do skip <- match ksub k with
               | Some ks => if str_mem ks (subprojects s)
                            then do h <- option_has_value s k v; Ok (negb h)
                            else Ok false
               | None => Ok false
               end;
    if skip then Ok s else Ok (set_pending_sub s (dset (pending_sub s) k v))
  else
    let s1 := set_pending_sub s (dpop (pending_sub s) k) in
    let s2 := set_pending s1 (dpop (pending s1) k) in
    if negb (dmem (augments s2) k)
    then do x <- set_user_option fuel s2 k v true; Ok (fst x)
    else Ok s2.

Lemma sub_apply_loop_fold fuel sub l : forall s,
  sub_apply_loop fuel s sub l = fold_res (sub_step fuel sub) s l.
Proof.
  induction l as [|[k v] l IH]; intros s; cbn [sub_apply_loop fold_res]; [reflexivity|].
  unfold sub_step; cbn [fst snd].
  destruct (negb (sub_is k sub)).
  - destruct (match ksub k with Some ks => _ | None => _ end) as [[|]|]; cbn [bind]; try apply IH; reflexivity.
  - destruct (negb (dmem _ k)); cbn [bind]; [|apply IH].
    destruct (set_user_option _ _ k v true); cbn [bind]; [apply IH | reflexivity].
Qed.

Definition slots (s : store) (x : key) := (oslot s x, aslot s x).

(* an entry of the merged dictionary that does not concern the observed key x *)
Definition good_sub (sub : str) (x : key) (s : store) (e : key * pv) : Prop :=
  sub_is (fst e) sub = false \/ (good_key s (fst e) /\ key_eqb (fst e) x = false).

Lemma R_good_sub sub x s s1 e : R s s1 -> good_sub sub x s e -> good_sub sub x s1 e.
Proof.
  intros H [G | [G1 G2]]; [left; exact G | right]. split; [eapply R_good_key; eassumption | exact G2].
Qed.

Lemma user_wr_self_only s k v su :
  ksub k = Some su ->
  match user_wr s k v with
  | Some (WOpt t _) | Some (WAug t _) => t = k
  | None => True
  end.
Proof.
  intros Hs. unfold user_wr, target. rewrite Hs.
  destruct (dmem (options s) k) eqn:E1.
  - unfold set_wr. destruct (canon s k v); [|exact I]. rewrite E1. reflexivity.
  - cbn [andb]. destruct (dmem (options s) (no_sub k)).
    + unfold set_wr. destruct (canon s k v); [|exact I]. rewrite E1. reflexivity.
    + destruct (accept_as_pending_option k true); exact I.
Qed.

Lemma sub_key_ksub k sub : sub_is k sub = true -> ksub k = Some sub.
Proof.
  unfold sub_is. destruct (ksub k) as [x|]; cbn; [|discriminate]. intros H. apply str_eqb_eq in H. congruence.
Qed.

Lemma R_pops s k :
  R s (set_pending (set_pending_sub s (dpop (pending_sub s) k))
                   (dpop (pending (set_pending_sub s (dpop (pending_sub s) k))) k)).
Proof. constructor; reflexivity. Qed.

Lemma sub_step_frame f sub x s e s1 :
  pfx_ok s -> good_sub sub x s e -> sub_step (S f) sub s e = Ok s1 ->
  (R s s1 /\ pfx_ok s1) /\ slots s1 x = slots s x.
Proof.
  intros Hpf Hg H. unfold sub_step in H.
  destruct (negb (sub_is (fst e) sub)) eqn:Es.
  - apply bind_ok in H as (skip & _ & H).
    destruct skip; injection H as <-.
    + split; [split; [apply R_refl | exact Hpf] | reflexivity].
    + split; [split; [apply R_set_pending_sub | exact Hpf] | reflexivity].
  - apply negb_false_iff in Es. destruct Hg as [G | [G1 G2]]; [congruence|].
    set (s2 := set_pending _ _) in H.
    assert (R2 : R s s2) by apply R_pops.
    assert (P2 : pfx_ok s2) by exact Hpf.
    destruct (negb (dmem (augments s2) (fst e))).
    + apply bind_ok in H as ([s3 ch] & Hu & H). injection H as <-. cbn [fst].
      destruct (set_user_option_frame f s2 (fst e) (snd e) s3 ch (R_good_key _ _ _ R2 G1) P2 Hu) as (HR & Ho & Ha).
      split; [split; [eapply R_trans; eassumption | eapply R_pfx_ok; eassumption]|].
      unfold slots. rewrite Ho, Ha.
      pose proof (user_wr_self_only s2 (fst e) (snd e) sub (sub_key_ksub _ _ Es)) as Hself.
      destruct (user_wr s2 (fst e) (snd e)) as [[t w|t w]|]; cbn; try subst t; try rewrite G2; reflexivity.
    + injection H as <-. split; [split; [exact R2 | exact P2] | reflexivity].
Qed.

Lemma last_w_const_none {E X Y} s (l : list E) (x : X) :
  last_w (fun _ _ _ => @None Y) s l x None = None.
Proof. induction l as [|e l IH]; cbn; [reflexivity | exact IH]. Qed.

(* all entries not concerning x leave x's slots alone *)
Lemma sub_fold_frame f sub x l : forall s s',
  pfx_ok s -> Forall (good_sub sub x s) l -> fold_res (sub_step (S f) sub) s l = Ok s' ->
  R s s' /\ pfx_ok s' /\ slots s' x = slots s x.
Proof.
  intros s s' HI HG H.
  pose proof (fold_last_writer (sub_step (S f) sub) R pfx_ok (good_sub sub x)
                (fun s (_ : unit) => slots s x) (fun _ _ _ => None)
                R_refl R_trans (R_good_sub sub x)
                (fun s e s1 Hi Hg Hs => proj1 (sub_step_frame f sub x s e s1 Hi Hg Hs))
                (fun _ _ _ _ _ => eq_refl)
                (fun s e s1 _ Hi Hg Hs => proj2 (sub_step_frame f sub x s e s1 Hi Hg Hs))
                l s s' tt HI HG H) as (HR & HI' & Ho).
  rewrite last_w_const_none in Ho. auto.
Qed.

(* ------------------------------------------ splitting a unique-key dictionary *)
Lemma uniq_split d q v :
  uniq_keys d = true -> dget d q = Some v ->
  exists l1 l2, d = l1 ++ (q, v) :: l2 /\
                Forall (fun e => key_eqb (fst e) q = false) l1 /\
                Forall (fun e => key_eqb (fst e) q = false) l2.
Proof.
  induction d as [|[k w] d IH]; cbn; intros U G; [discriminate|].
  apply andb_prop in U as [U1 U2]. destruct (key_eqb q k) eqn:E.
  - apply key_eqb_eq in E. subst k. injection G as ->. exists [], d. split; [reflexivity|].
    split; [constructor|]. clear IH. apply negb_true_iff in U1. unfold dmem in U1.
    induction d as [|[k' w'] d IHd]; [constructor|]. cbn in U1, U2.
    apply andb_prop in U2 as [_ U2]. destruct (key_eqb q k') eqn:E'; [discriminate|].
    constructor; [cbn; rewrite key_eqb_sym; exact E' | apply IHd; assumption].
  - destruct (IH U2 G) as (l1 & l2 & -> & F1 & F2). exists ((k, w) :: l1), l2.
    split; [reflexivity|]. split; [|exact F2]. constructor; [cbn; rewrite key_eqb_sym; exact E | exact F1].
Qed.

Lemma dget_none_all d q :
  dget d q = None -> Forall (fun e : key * pv => key_eqb (fst e) q = false) d.
Proof.
  induction d as [|[k w] d IH]; cbn; intros G; [constructor|].
  destruct (key_eqb q k) eqn:E; [discriminate|].
  constructor; [cbn; rewrite key_eqb_sym; exact E | apply IH; exact G].
Qed.

(* entries of the merged dictionary are inert: no prefix / buildtype / renamed options *)
Definition sub_entry_ok (sub : str) (s : store) (e : key * pv) : Prop :=
  sub_is (fst e) sub = false \/ good_key s (fst e).

Lemma good_sub_of sub x s l :
  Forall (sub_entry_ok sub s) l -> Forall (fun e => key_eqb (fst e) x = false) l ->
  Forall (good_sub sub x s) l.
Proof.
  intros H1 H2. rewrite Forall_forall in *. intros e He.
  destruct (H1 e He) as [G|G]; [left; exact G | right; split; [exact G | apply H2; exact He]].
Qed.

Lemma good_sub_global sub g s l :
  sub_is g sub = false -> Forall (sub_entry_ok sub s) l -> Forall (good_sub sub g s) l.
Proof.
  intros Hg H. eapply Forall_impl; [|exact H]. intros e [G|G]; [left; exact G|].
  destruct (sub_is (fst e) sub) eqn:Es; [|left; exact Es]. right. split; [exact G|].
  destruct (key_eqb (fst e) g) eqn:E; [|reflexivity]. apply key_eqb_eq in E. congruence.
Qed.

Lemma R_sub_entry_ok sub s s1 e : R s s1 -> sub_entry_ok sub s e -> sub_entry_ok sub s1 e.
Proof. intros H [G|G]; [left; exact G | right; eapply R_good_key; eassumption]. Qed.

(* The effect of applying the merged dictionary on the slots of a subproject key q
   and on any global key g. *)
Theorem sub_apply_effect f sub s merged s' q :
  pfx_ok s -> uniq_keys merged = true -> Forall (sub_entry_ok sub s) merged ->
  ksub q = Some sub ->
  sub_apply_loop (S f) s sub merged = Ok s' ->
  R s s' /\
  (forall g, sub_is g sub = false -> slots s' g = slots s g) /\
  match dget merged q with
  | None => slots s' q = slots s q
  | Some v =>
      if dmem (augments s) q then slots s' q = slots s q
      else (exists v3 t, target s q = Some t /\ canon s t v = Ok v3 /\
              oslot s' q = match wr_o (user_wr s q v) q with Some y => y | None => oslot s q end /\
              aslot s' q = match wr_a (user_wr s q v) q with Some y => y | None => aslot s q end)
           \/ (target s q = None /\ slots s' q = slots s q)
  end.
Proof.
  intros Hpf U HG Hq H. rewrite sub_apply_loop_fold in H.
  assert (HRglob : R s s' /\ forall g, sub_is g sub = false -> slots s' g = slots s g).
  { destruct (sub_fold_frame f sub prefix_key merged s s' Hpf (good_sub_global sub prefix_key s merged eq_refl HG) H)
      as (HR & _ & _).
    split; [exact HR|]. intros g Hg.
    destruct (sub_fold_frame f sub g merged s s' Hpf (good_sub_global sub g s merged Hg HG) H) as (_ & _ & E).
    exact E. }
  destruct HRglob as [HR Hglob]. split; [exact HR|]. split; [exact Hglob|].
  destruct (dget merged q) as [v|] eqn:G.
  - destruct (uniq_split merged q v U G) as (l1 & l2 & -> & F1 & F2).
    apply Forall_app in HG as [HG1 HG2]. inversion HG2 as [|? ? Hgq HG2']; subst.
    rewrite fold_res_app in H. apply bind_ok in H as (sA & HA & H).
    cbn [fold_res] in H. apply bind_ok in H as (sB & HB & H).
    destruct (sub_fold_frame f sub q l1 s sA Hpf (good_sub_of sub q s l1 HG1 F1) HA) as (RA & PA & SA).
    assert (HG2A : Forall (sub_entry_ok sub sB) l2 /\ pfx_ok sB /\ R sA sB /\
                   (if dmem (augments s) q then slots sB q = slots s q
                    else (exists v3 t, target s q = Some t /\ canon s t v = Ok v3 /\
                          oslot sB q = match wr_o (user_wr s q v) q with Some y => y | None => oslot s q end /\
                          aslot sB q = match wr_a (user_wr s q v) q with Some y => y | None => aslot s q end)
                         \/ (target s q = None /\ slots sB q = slots s q))).
    { unfold sub_step in HB; cbn [fst snd] in HB.
      assert (Es : sub_is q sub = true) by (unfold sub_is; rewrite Hq; cbn; apply str_eqb_refl).
      rewrite Es in HB. cbn [negb] in HB.
      set (s2 := set_pending _ _) in HB.
      assert (R2 : R sA s2) by apply R_pops.
      assert (Aeq : dmem (augments s2) q = dmem (augments s) q).
      { unfold slots in SA. injection SA as _ SA. unfold aslot in SA. unfold dmem.
        change (augments s2) with (augments sA). rewrite SA. reflexivity. }
      rewrite Aeq in HB.
      destruct (dmem (augments s) q) eqn:Ea; cbn [negb] in HB.
      - injection HB as <-. split; [|split; [exact PA | split; [exact R2 | exact SA]]].
        eapply Forall_impl; [|exact HG2']. intros a Ha. eapply R_sub_entry_ok; [|exact Ha].
        apply (R_trans _ _ _ RA R2).
      - apply bind_ok in HB as ([s3 ch] & Hu & HB). injection HB as <-. cbn [fst].
        destruct Hgq as [Hgq|Hgq]; [cbn in Hgq; congruence|]. cbn [fst] in Hgq.
        assert (G2 : good_key s2 q) by (apply (R_good_key s s2 q (R_trans _ _ _ RA R2) Hgq)).
        destruct (set_user_option_frame f s2 q v s3 ch G2 PA Hu) as (HR3 & Ho & Ha).
        assert (Rs2 : R s s2) by (apply (R_trans _ _ _ RA R2)).
        split; [|split; [eapply R_pfx_ok; [exact HR3 | exact PA] | split; [apply (R_trans _ _ _ R2 HR3)|]]].
        + eapply Forall_impl; [|exact HG2']. intros a Ha'. eapply R_sub_entry_ok; [|exact Ha'].
          eapply R_trans; [exact Rs2 | exact HR3].
        + unfold slots in SA. injection SA as SAo SAa.
          destruct (set_user_option_effect f s2 q v s3 ch G2 PA Hu) as [(v3 & t & Ht & Ec) | Hn].
          * left. exists v3, t. rewrite (R_target _ _ _ Rs2) in Ht. rewrite (R_canon _ _ _ _ Rs2) in Ec.
            split; [exact Ht|]. split; [exact Ec|].
            rewrite (Ho q), (Ha q), (R_user_wr _ _ _ _ Rs2).
            change (oslot s2 q) with (oslot sA q). change (aslot s2 q) with (aslot sA q).
            rewrite SAo, SAa. split; reflexivity.
          * right. rewrite (R_target _ _ _ Rs2) in Hn. split; [exact Hn|].
            unfold slots. rewrite (Ho q), (Ha q), (R_user_wr _ _ _ _ Rs2). unfold user_wr. rewrite Hn. cbn [wr_o wr_a].
            change (oslot s2 q) with (oslot sA q). change (aslot s2 q) with (aslot sA q).
            rewrite SAo, SAa. reflexivity. }
    destruct HG2A as (HG2B & PB & RB & EB).
    destruct (sub_fold_frame f sub q l2 sB s' PB (good_sub_of sub q sB l2 HG2B F2) H) as (_ & _ & SB).
    destruct (dmem (augments s) q).
    + rewrite SB. exact EB.
    + unfold slots in SB. injection SB as SBo SBa.
      destruct EB as [(v3 & t & Ht & Ec & Eo & Ea) | (Hn & Es)].
      * left. exists v3, t. rewrite SBo, SBa. auto.
      * right. split; [exact Hn|]. unfold slots. rewrite SBo, SBa. exact Es.
  - pose proof (dget_none_all merged q G) as F.
    destruct (sub_fold_frame f sub q merged s s' Hpf (good_sub_of sub q s merged HG F) H) as (_ & _ & E).
    exact E.
Qed.

(* ------------------------------------------------- reading a subproject key *)
Lemma gvf_sub_of_global s q v0 :
  kmach q = Host -> dmem (options s) q = false -> is_project_option s q = false ->
  aslot s q = None -> oslot s (no_sub q) = Some (v0, false) -> get_value_for s q = Ok v0.
Proof.
  intros Hh Hm Hp Ha Ho. unfold get_value_for, get_option_and_value_for, resolve_option.
  repeat rewrite (ensure_host s q Hh). rewrite Hp. unfold dmem in Hm. unfold aslot in Ha. unfold oslot in Ho.
  destruct (dget (options s) q); [discriminate|].
  destruct (dget (options s) (no_sub q)) as [o|]; [|discriminate]. cbn in Ho. injection Ho as <- Hy.
  cbn [bind]. rewrite Ha, Hy. reflexivity.
Qed.

Lemma gvf_sub_augment s q a su :
  kmach q = Host -> ksub q = Some su -> dmem (options s) q = false -> is_project_option s q = false ->
  dmem (options s) (no_sub q) = true -> aslot s q = Some a -> get_value_for s q = Ok a.
Proof.
  intros Hh Hs Hm Hp Hg Ha. unfold get_value_for, get_option_and_value_for, resolve_option.
  repeat rewrite (ensure_host s q Hh). rewrite Hp. unfold dmem in Hm, Hg. unfold aslot in Ha.
  destruct (dget (options s) q); [discriminate|].
  destruct (dget (options s) (no_sub q)) as [o|]; [|discriminate].
  cbn [bind]. rewrite Ha, Hs. reflexivity.
Qed.

Lemma sub_is_no_sub q sub : sub_is (no_sub q) sub = false.
Proof. reflexivity. Qed.

(* A per-subproject value of a global (system / builtin / compiler) option after
   initialize_from_subproject_call: the merged value if there is one, otherwise the
   value the top-level project resolved. *)
Theorem sub_value_of_global_option f s sub spcall pdo cmd mf s' merged q v0 :
  initialize_from_subproject_call (S f) s sub spcall pdo cmd mf = Ok s' ->
  merge_sub s sub spcall pdo cmd mf = Ok merged ->
  pfx_ok s -> Forall (sub_entry_ok sub s) merged ->
  ksub q = Some sub -> kmach q = Host ->
  dmem (options s) q = false -> is_project_option s q = false ->
  aslot s q = None ->                              (* the subproject is initialised for the first time *)
  oslot s (no_sub q) = Some (v0, false) ->         (* v0: the value resolved for the top-level project *)
  get_value_for s' q =
    match merged_scoped merged q with
    | FromSub v => canon s q v
    | FromTop => Ok v0
    end.
Proof.
  intros Hi Hm Hpf HG Hq Hh Hnm Hnp Ha Ho.
  unfold initialize_from_subproject_call in Hi. rewrite Hm in Hi. cbn [bind] in Hi.
  apply bind_ok in Hi as (s1 & H1 & Hi). injection Hi as <-.
  change (get_value_for (set_subprojects s1 (str_add sub (subprojects s1))) q) with (get_value_for s1 q).
  assert (U : uniq_keys merged = true).
  { destruct (merge_sub_get sub q Hq s spcall pdo cmd mf merged Hm) as [U _]. exact U. }
  destruct (sub_apply_effect f sub s merged s1 q Hpf U HG Hq H1) as (HR & Hglob & Hq').
  assert (Hnm1 : dmem (options s1) q = false) by (rewrite (R_dmem _ _ _ HR); exact Hnm).
  assert (Hnp1 : is_project_option s1 q = false).
  { unfold is_project_option in *. rewrite (R_proj _ _ HR). exact Hnp. }
  assert (Hg : dmem (options s) (no_sub q) = true).
  { unfold oslot in Ho. unfold dmem. destruct (dget (options s) (no_sub q)); [reflexivity | discriminate]. }
  unfold merged_scoped. destruct (dget merged q) as [v|].
  - assert (Ea : dmem (augments s) q = false) by (unfold dmem; unfold aslot in Ha; rewrite Ha; reflexivity).
    rewrite Ea in Hq'.
    assert (Ht : target s q = Some q).
    { unfold target. rewrite Hnm, Hq, Hg. reflexivity. }
    destruct Hq' as [(v3 & t & Ht' & Ec & _ & Eas) | (Hn & _)]; [|congruence].
    rewrite Ht in Ht'. injection Ht' as <-. rewrite Ec.
    unfold user_wr in Eas. rewrite Ht in Eas. unfold set_wr in Eas. rewrite Ec, Hnm in Eas.
    cbn in Eas. rewrite key_eqb_refl in Eas.
    eapply gvf_sub_augment; try eassumption. rewrite (R_dmem _ _ _ HR). exact Hg.
  - unfold slots in Hq'. injection Hq' as _ Hq'.
    pose proof (Hglob (no_sub q) (sub_is_no_sub q sub)) as Eg. unfold slots in Eg. injection Eg as Eg _.
    apply gvf_sub_of_global; try assumption; congruence.
Qed.

(* An option of the subproject itself (declared in its meson.options). *)
Theorem sub_value_of_project_option f s sub spcall pdo cmd mf s' merged q su :
  initialize_from_subproject_call (S f) s sub spcall pdo cmd mf = Ok s' ->
  merge_sub s sub spcall pdo cmd mf = Ok merged ->
  pfx_ok s -> Forall (sub_entry_ok sub s) merged ->
  ksub q = Some sub -> kmach q = Host -> ksub q = Some su ->
  dmem (options s) q = true -> aslot s q = None ->
  forall v, dget merged q = Some v ->
  exists v3, canon s q v = Ok v3 /\ get_value_for s' q = Ok v3.
Proof.
  intros Hi Hm Hpf HG Hq Hh Hsu Hin Ha v Hv.
  unfold initialize_from_subproject_call in Hi. rewrite Hm in Hi. cbn [bind] in Hi.
  apply bind_ok in Hi as (s1 & H1 & Hi). injection Hi as <-.
  change (get_value_for (set_subprojects s1 (str_add sub (subprojects s1))) q) with (get_value_for s1 q).
  assert (U : uniq_keys merged = true).
  { destruct (merge_sub_get sub q Hq s spcall pdo cmd mf merged Hm) as [U _]. exact U. }
  destruct (sub_apply_effect f sub s merged s1 q Hpf U HG Hq H1) as (HR & Hglob & Hq').
  rewrite Hv in Hq'.
  assert (Ea : dmem (augments s) q = false) by (unfold dmem; unfold aslot in Ha; rewrite Ha; reflexivity).
  rewrite Ea in Hq'.
  assert (Ht : target s q = Some q) by (unfold target; rewrite Hin; reflexivity).
  destruct Hq' as [(v3 & t & Ht' & Ec & Eo & Eas) | (Hn & _)]; [|congruence].
  rewrite Ht in Ht'. injection Ht' as <-. exists v3. split; [exact Ec|].
  unfold user_wr in Eo, Eas. rewrite Ht in Eo, Eas. unfold set_wr in Eo, Eas. rewrite Ec, Hin in Eo, Eas.
  cbn in Eo, Eas. rewrite key_eqb_refl in Eo. rewrite Ha in Eas.
  eapply gvf_project; eassumption.
Qed.

(* ... and without any source naming it, it keeps its declared (non-yielding) value *)
Theorem sub_project_option_untouched f s sub spcall pdo cmd mf s' merged q v0 :
  initialize_from_subproject_call (S f) s sub spcall pdo cmd mf = Ok s' ->
  merge_sub s sub spcall pdo cmd mf = Ok merged ->
  pfx_ok s -> Forall (sub_entry_ok sub s) merged ->
  ksub q = Some sub -> kmach q = Host ->
  oslot s q = Some (v0, false) -> aslot s q = None ->
  dget merged q = None ->
  get_value_for s' q = Ok v0.
Proof.
  intros Hi Hm Hpf HG Hq Hh Ho Ha Hv.
  unfold initialize_from_subproject_call in Hi. rewrite Hm in Hi. cbn [bind] in Hi.
  apply bind_ok in Hi as (s1 & H1 & Hi). injection Hi as <-.
  change (get_value_for (set_subprojects s1 (str_add sub (subprojects s1))) q) with (get_value_for s1 q).
  assert (U : uniq_keys merged = true).
  { destruct (merge_sub_get sub q Hq s spcall pdo cmd mf merged Hm) as [U _]. exact U. }
  destruct (sub_apply_effect f sub s merged s1 q Hpf U HG Hq H1) as (HR & Hglob & Hq').
  rewrite Hv in Hq'. unfold slots in Hq'. injection Hq' as Eo Ea.
  eapply gvf_project; try eassumption; congruence.
Qed.
