(* Cargo/Spec.v — what property C20 states, declaratively:
   - SemVer 2.0.0 section 11 precedence on structured versions;
   - Cargo's requirement matcher (the semver crate's matches_exact / matches_greater /
     matches_less / matches_tilde / matches_caret / pre_is_compatible, transcribed
     branch for branch) on structured comparators, with the two deviations that
     meson pins in unittests/cargotests.py;
   - the Boolean meaning of a cfg expression;
   - printers from the structured objects to the strings Cargo.toml contains.
   No proofs in this file. *)
From MV Require Export Base.Strs.
From MV Require Import Cargo.Cfg.
Open Scope N_scope.

(* ------------------------------------------------------------------ *)
(* versions and their precedence *)

Inductive ident := Num (n : N) | Alnum (s : str).
Record version := mkV { vmaj : N; vmin : N; vpat : N; vpre : list ident }.

(* 11.4.1 numeric identifiers compare numerically; 11.4.2 alphanumeric ones in ASCII
   order; 11.4.3 numeric below alphanumeric *)
Definition ident_cmp (a b : ident) : comparison :=
  match a, b with
  | Num x, Num y => N.compare x y
  | Num _, Alnum _ => Lt
  | Alnum _, Num _ => Gt
  | Alnum x, Alnum y => str_cmp x y
  end.

(* 11.3 a pre-release is below its release; 11.4 identifier by identifier, 11.4.4 a
   larger set of fields is higher when all preceding ones are equal.  (This is also
   the semver crate's Ord for Prerelease: the empty one is the greatest.) *)
Definition pre_cmp (p q : list ident) : comparison :=
  match p, q with
  | [], [] => Eq
  | [], _ :: _ => Gt
  | _ :: _, [] => Lt
  | _, _ => lex_cmp ident_cmp p q
  end.

(* 11.2 major, minor, patch numerically, then 11.3/11.4; build metadata is not part
   of [version] at all *)
Definition prec_cmp (v w : version) : comparison :=
  match N.compare (vmaj v) (vmaj w) with
  | Eq => match N.compare (vmin v) (vmin w) with
          | Eq => match N.compare (vpat v) (vpat w) with
                  | Eq => pre_cmp (vpre v) (vpre w)
                  | c => c end
          | c => c end
  | c => c
  end.

Definition is_release (v : version) : bool := match vpre v with [] => true | _ => false end.

(* ------------------------------------------------------------------ *)
(* Cargo requirements *)

Inductive cop := OCaret | OTilde | OWild | OExact | OLt | OLe | OGt | OGe.
Record comparator := mkC {
  c_op : cop; cmaj : N; cmin : option N; cpat : option N; cpre : list ident }.

Definition cEq c := match c with Eq => true | _ => false end.
Definition cLt c := match c with Lt => true | _ => false end.
Definition cGt c := match c with Gt => true | _ => false end.

(* semver/src/eval.rs: matches_exact *)
Definition m_exact (c : comparator) (v : version) : bool :=
  if negb (vmaj v =? cmaj c) then false else
  if match cmin c with Some m => negb (vmin v =? m) | None => false end then false else
  if match cpat c with Some p => negb (vpat v =? p) | None => false end then false else
  cEq (pre_cmp (vpre v) (cpre c)).

(* matches_greater *)
Definition m_greater (c : comparator) (v : version) : bool :=
  if negb (vmaj v =? cmaj c) then cmaj c <? vmaj v else
  match cmin c with
  | None => false
  | Some m =>
      if negb (vmin v =? m) then m <? vmin v else
      match cpat c with
      | None => false
      | Some p =>
          if negb (vpat v =? p) then p <? vpat v else cGt (pre_cmp (vpre v) (cpre c))
      end
  end.

(* matches_less *)
Definition m_less (c : comparator) (v : version) : bool :=
  if negb (vmaj v =? cmaj c) then vmaj v <? cmaj c else
  match cmin c with
  | None => false
  | Some m =>
      if negb (vmin v =? m) then vmin v <? m else
      match cpat c with
      | None => false
      | Some p =>
          if negb (vpat v =? p) then vpat v <? p else cLt (pre_cmp (vpre v) (cpre c))
      end
  end.

(* matches_tilde *)
Definition m_tilde (c : comparator) (v : version) : bool :=
  if negb (vmaj v =? cmaj c) then false else
  if match cmin c with Some m => negb (vmin v =? m) | None => false end then false else
  match cpat c with
  | Some p => if negb (vpat v =? p) then p <? vpat v else negb (cLt (pre_cmp (vpre v) (cpre c)))
  | None => negb (cLt (pre_cmp (vpre v) (cpre c)))
  end.

(* matches_caret *)
Definition m_caret (c : comparator) (v : version) : bool :=
  if negb (vmaj v =? cmaj c) then false else
  match cmin c with
  | None => true
  | Some minor =>
      match cpat c with
      | None => if 0 <? cmaj c then minor <=? vmin v else vmin v =? minor
      | Some patch =>
          if 0 <? cmaj c then
            if negb (vmin v =? minor) then minor <? vmin v
            else if negb (vpat v =? patch) then patch <? vpat v
            else negb (cLt (pre_cmp (vpre v) (cpre c)))
          else if 0 <? minor then
            if negb (vmin v =? minor) then false
            else if negb (vpat v =? patch) then patch <? vpat v
            else negb (cLt (pre_cmp (vpre v) (cpre c)))
          else if negb (vmin v =? minor) || negb (vpat v =? patch) then false
          else negb (cLt (pre_cmp (vpre v) (cpre c)))
      end
  end.

Definition opt0 (o : option N) : N := match o with Some n => n | None => 0 end.
(* deviation 1: a partial `=` / `>` comparator pads missing components with zero *)
Definition pad (c : comparator) : comparator :=
  mkC (c_op c) (cmaj c) (Some (opt0 (cmin c))) (Some (opt0 (cpat c))) (cpre c).
Definition cversion (c : comparator) : version :=
  mkV (cmaj c) (opt0 (cmin c)) (opt0 (cpat c)) (cpre c).
(* deviation 2: an all-zero caret requirement means < 1.0.0 (and, as every caret,
   not below the version it names) *)
Definition all_zero (c : comparator) : bool :=
  (cmaj c =? 0) && (opt0 (cmin c) =? 0) && (opt0 (cpat c) =? 0).

(* matches_impl with the two deviations *)
Definition matches_comp (c : comparator) (v : version) : bool :=
  match c_op c with
  | OExact => m_exact (pad c) v
  | OWild => m_exact c v
  | OGt => m_greater (pad c) v
  | OGe => m_exact c v || m_greater c v
  | OLt => m_less c v
  | OLe => m_exact c v || m_less c v
  | OTilde => m_tilde c v
  | OCaret =>
      if all_zero c then cLt (prec_cmp v (mkV 1 0 0 [])) && negb (cLt (prec_cmp v (cversion c)))
      else m_caret c v
  end.

(* pre_is_compatible *)
Definition pre_is_compatible (c : comparator) (v : version) : bool :=
  (cmaj c =? vmaj v) &&
  match cmin c with Some m => m =? vmin v | None => false end &&
  match cpat c with Some p => p =? vpat v | None => false end &&
  match cpre c with [] => false | _ => true end.

(* matches_req: a requirement is a list of comparators (`*` contributes none) *)
Definition cargo_matches (req : list comparator) (v : version) : bool :=
  forallb (fun c => matches_comp c v) req &&
  (is_release v || existsb (fun c => pre_is_compatible c v) req).

(* the clause of the property about pre-releases *)
Definition names_prerelease (req : list comparator) : bool :=
  existsb (fun c => match cpre c with [] => false | _ => true end) req.

(* ------------------------------------------------------------------ *)
(* printers.  Numbers are carried as their digit strings so that the theorems cover
   every spelling (leading zeros included). *)

Inductive pident := PNum (ds : str) | PAlnum (s : str).
Record pversion := mkPV {
  pmaj : str; pmin : str; ppat : str; ppre : list pident; pbuild : option str }.

Definition ident_of (i : pident) : ident :=
  match i with PNum ds => Num (digits_val ds) | PAlnum s => Alnum s end.
Definition version_of (p : pversion) : version :=
  mkV (digits_val (pmaj p)) (digits_val (pmin p)) (digits_val (ppat p)) (map ident_of (ppre p)).

Definition pr_ident (i : pident) : str := match i with PNum ds => ds | PAlnum s => s end.
Definition pr_pre (l : list pident) : str :=
  match l with [] => [] | _ => 45 :: join [46] (map pr_ident l) end.
Definition pr_build (b : option str) : str := match b with None => [] | Some s => 43 :: s end.
Definition pr_version (p : pversion) : str :=
  pmaj p ++ 46 :: pmin p ++ 46 :: ppat p ++ pr_pre (ppre p) ++ pr_build (pbuild p).

Record pcomp := mkPC {
  pc_op : cop;
  pc_bare : bool;            (* a caret requirement written without the ^ *)
  pc_sp : str;               (* blanks between the operator and the version *)
  pc_maj : str; pc_min : option str; pc_pat : option str; pc_pre : list pident }.

Definition comparator_of (p : pcomp) : comparator :=
  mkC (pc_op p) (digits_val (pc_maj p)) (option_map digits_val (pc_min p))
      (option_map digits_val (pc_pat p)) (map ident_of (pc_pre p)).

Definition pr_partial (p : pcomp) : str :=
  pc_maj p ++
  match pc_min p with
  | None => []
  | Some m => 46 :: m ++ match pc_pat p with None => [] | Some q => 46 :: q end
  end ++ pr_pre (pc_pre p).

Definition op_sym (o : cop) : str :=
  match o with
  | OCaret => s2l "^" | OTilde => s2l "~" | OWild => [] | OExact => s2l "="
  | OLt => s2l "<" | OLe => s2l "<=" | OGt => s2l ">" | OGe => s2l ">="
  end.

Definition pr_comp (p : pcomp) : str :=
  match pc_op p with
  | OWild => pr_partial p ++ s2l ".*"
  | OCaret => if pc_bare p then pr_partial p else op_sym OCaret ++ pc_sp p ++ pr_partial p
  | o => op_sym o ++ pc_sp p ++ pr_partial p
  end.

(* one comma-separated piece: blanks, then `*` or a comparator, then blanks *)
Inductive pbody := BStar | BComp (c : pcomp).
Record ppiece := mkPP { pp_lead : str; pp_body : pbody; pp_trail : str }.
Definition pr_body (b : pbody) : str := match b with BStar => [42] | BComp c => pr_comp c end.
Definition pr_piece (p : ppiece) : str := pp_lead p ++ pr_body (pp_body p) ++ pp_trail p.
Definition pr_req (l : list ppiece) : str := join [44] (map pr_piece l).

Fixpoint comps_of (l : list ppiece) : list comparator :=
  match l with
  | [] => []
  | p :: r => match pp_body p with
              | BStar => comps_of r
              | BComp c => comparator_of c :: comps_of r
              end
  end.

(* well-formedness of what is printed *)
Definition is_digits (s : str) : bool := match s with [] => false | _ => forallb is_digit s end.
Definition is_idchar (c : char) : bool := is_alnum c || (c =? 45).
Definition all_space (s : str) : bool := forallb is_space s.

(* a SemVer pre-release identifier: [0-9A-Za-z-]+, numeric ones are PNum *)
Definition wf_ident (i : pident) : bool :=
  match i with
  | PNum ds => is_digits ds
  | PAlnum s => match s with [] => false | _ => forallb is_idchar s && negb (forallb is_digit s) end
  end.
(* the guard of the recorded finding C20:prerelease-ident-split: an alphanumeric
   identifier that follows a '.' does not start with a digit and has no '-' directly
   after a leading digit run, i.e. it starts with a letter or '-' *)
Definition starts_nondigit (i : pident) : bool :=
  match i with
  | PNum _ => true
  | PAlnum s => match s with c :: _ => negb (is_digit c) | [] => false end
  end.
Definition wf_pre (l : list pident) : bool :=
  forallb wf_ident l && forallb starts_nondigit (tl l).

Definition wf_pversion (p : pversion) : bool :=
  is_digits (pmaj p) && is_digits (pmin p) && is_digits (ppat p) && wf_pre (ppre p).

Definition odigits (o : option str) : bool := match o with None => true | Some d => is_digits d end.
Definition wf_pcomp (p : pcomp) : bool :=
  is_digits (pc_maj p) && odigits (pc_min p) && odigits (pc_pat p) && wf_pre (pc_pre p) &&
  all_space (pc_sp p) &&
  (* a patch needs a minor; a pre-release needs a full version; M.* and M.m.* only *)
  match pc_min p, pc_pat p with None, Some _ => false | _, _ => true end &&
  match pc_pat p, pc_pre p with None, _ :: _ => false | _, _ => true end &&
  match pc_op p, pc_pat p with OWild, Some _ => false | _, _ => true end.

Definition wf_piece (p : ppiece) : bool :=
  all_space (pp_lead p) && all_space (pp_trail p) &&
  match pp_body p with BStar => true | BComp c => wf_pcomp c end.

(* ------------------------------------------------------------------ *)
(* cfg expressions: the AST is Cfg.ir (Ident n | Equal n v | IAny l | IAll l | INot e);
   its meaning against a configuration *)

Fixpoint sem (e : ir) (d : cfgs) : bool :=
  match e with
  | Ident n => match lookup n d with Some _ => true | None => false end        (* name is set *)
  | Equal n v => match lookup n d with Some v' => str_eqb v' v | None => false end   (* name = "value" *)
  | INot e' => negb (sem e' d)
  | IAny l => existsb (fun x => sem x d) l
  | IAll l => forallb (fun x => sem x d) l
  end.

(* printer with spacing: [a] is put around '=' and after ',', [b] inside parentheses *)
Definition c_q : char := 34.
Fixpoint pr_cfg (a b : str) (e : ir) : str :=
  match e with
  | Ident n => n
  | Equal n v => n ++ a ++ 61 :: a ++ c_q :: v ++ [c_q]
  | IAny l => s2l "any(" ++ b ++ join (44 :: a) (map (pr_cfg a b) l) ++ b ++ [41]
  | IAll l => s2l "all(" ++ b ++ join (44 :: a) (map (pr_cfg a b) l) ++ b ++ [41]
  | INot e' => s2l "not(" ++ b ++ pr_cfg a b e' ++ b ++ [41]
  end.

(* atoms the lexer can carry: a name is a non-empty run of non-separator characters
   other than the three keywords; a value is any text without a double quote *)
Definition wf_name (n : str) : bool :=
  match n with [] => false | _ => true end &&
  forallb (fun c => negb (is_cfg_sep c)) n &&
  negb (str_eqb n (s2l "any")) && negb (str_eqb n (s2l "all")) && negb (str_eqb n (s2l "not")).
Definition wf_value (v : str) : bool := forallb (fun c => negb (c =? c_q)) v.
Fixpoint wf_atoms (e : ir) : bool :=
  match e with
  | Ident n => wf_name n
  | Equal n v => wf_name n && wf_value v
  | IAny l | IAll l => forallb wf_atoms l
  | INot e' => wf_atoms e'
  end.

(* ------------------------------------------------------------------ *)
(* What meson's cargo_parse means on EVERY version (pre-releases included), said in
   terms of the section 11 order: each comparator is a list of bounds, a version is
   accepted when it satisfies every bound and — if it is a pre-release — some
   comparator of the requirement names a pre-release.  On release versions this
   coincides with Cargo's rule above (theorem); on pre-release versions it does not
   (Cargo additionally wants a comparator with the same major.minor.patch, and its
   per-operator functions look at the pre-release only when the three numbers agree). *)
Inductive bnd := BndLt | BndLe | BndGt | BndGe | BndEq.
Definition sat_bnd (b : bnd) (c : comparison) : bool :=
  match b, c with
  | BndLt, Lt => true | BndLt, _ => false
  | BndLe, Gt => false | BndLe, _ => true
  | BndGt, Gt => true | BndGt, _ => false
  | BndGe, Lt => false | BndGe, _ => true
  | BndEq, Eq => true | BndEq, _ => false
  end.
Definition rel (a b c : N) : version := mkV a b c [].
(* the release just above everything the last specified component allows *)
Definition bump_last (c : comparator) : version :=
  match cmin c, cpat c with
  | None, _ => rel (cmaj c + 1) 0 0
  | Some m, None => rel (cmaj c) (m + 1) 0
  | Some m, Some p => rel (cmaj c) m (p + 1)
  end.
Definition tilde_upper (c : comparator) : version :=
  match cmin c with
  | None => rel (cmaj c + 1) 0 0
  | Some m => rel (cmaj c) (m + 1) 0
  end.
Definition caret_upper (c : comparator) : version :=
  if negb (cmaj c =? 0) then rel (cmaj c + 1) 0 0
  else if negb (opt0 (cmin c) =? 0) then rel (cmaj c) (opt0 (cmin c) + 1) 0
  else if negb (opt0 (cpat c) =? 0) then rel (cmaj c) (opt0 (cmin c)) (opt0 (cpat c) + 1)
  else rel (cmaj c + 1) 0 0.
Definition bounds (c : comparator) : list (bnd * version) :=
  match c_op c with
  | OExact => [(BndEq, cversion c)]
  | OGt => [(BndGt, cversion c)]
  | OGe => [(BndGe, cversion c)]
  | OLt => [(BndLt, cversion c)]
  | OLe => match cpre c with
           | [] => [(BndLt, bump_last c)]
           | _ => [(BndLe, cversion c)]
           end
  | OTilde | OWild => [(BndGe, cversion c); (BndLt, tilde_upper c)]
  | OCaret => [(BndGe, cversion c); (BndLt, caret_upper c)]
  end.
Definition meson_comp (c : comparator) (v : version) : bool :=
  forallb (fun bw => sat_bnd (fst bw) (prec_cmp v (snd bw))) (bounds c).
Definition meson_matches (req : list comparator) (v : version) : bool :=
  forallb (fun c => meson_comp c v) req && (is_release v || names_prerelease req).

(* a comparator that spells out major.minor.patch *)
Definition is_full (c : comparator) : bool :=
  match cmin c, cpat c with Some _, Some _ => true | _, _ => false end.
