(* Cargo/CfgProofs.v — the cfg() lexer / parser / evaluator of cargo/cfg.py:
   parser soundness (only canonical token lists are accepted), totality (no fuel
   exhaustion, so the only outcomes are a Boolean or MesonException), print/parse
   round trip for every expression and spacing, evaluation = Boolean meaning. *)
From MV Require Import Base.Strs Base.LexFacts Cargo.Cfg Cargo.Spec.
From Coq Require Import Lia.
Open Scope N_scope.

(* ------------------------------------------------------------------ *)
(* induction principle for the nested type ir *)
Section IrInd.
  Variable P : ir -> Prop.
  Hypothesis HId : forall n, P (Ident n).
  Hypothesis HEq : forall n v, P (Equal n v).
  Hypothesis HAny : forall l, Forall P l -> P (IAny l).
  Hypothesis HAll : forall l, Forall P l -> P (IAll l).
  Hypothesis HNot : forall e, P e -> P (INot e).
  Fixpoint ir_ind' (e : ir) : P e :=
    match e with
    | Ident n => HId n
    | Equal n v => HEq n v
    | IAny l => HAny l ((fix go (l : list ir) : Forall P l :=
                           match l with
                           | [] => Forall_nil P
                           | x :: r => Forall_cons x (ir_ind' x) (go r)
                           end) l)
    | IAll l => HAll l ((fix go (l : list ir) : Forall P l :=
                           match l with
                           | [] => Forall_nil P
                           | x :: r => Forall_cons x (ir_ind' x) (go r)
                           end) l)
    | INot e' => HNot e' (ir_ind' e')
    end.
End IrInd.

(* ------------------------------------------------------------------ *)
(* the canonical token list of an expression *)
Fixpoint tjoin (l : list (list ctok)) : list ctok :=
  match l with
  | [] => []
  | x :: r => match r with [] => x | _ => x ++ CComma :: tjoin r end
  end.
Fixpoint tokens_of (e : ir) : list ctok :=
  match e with
  | Ident n => [CId n]
  | Equal n v => [CId n; CEqual; CStr v]
  | IAny l => CAny :: CLP :: tjoin (map tokens_of l) ++ [CRP]
  | IAll l => CAll :: CLP :: tjoin (map tokens_of l) ++ [CRP]
  | INot e' => CNot :: CLP :: tokens_of e' ++ [CRP]
  end.

Lemma tjoin_cons x r : r <> [] -> tjoin (x :: r) = x ++ CComma :: tjoin r.
Proof. destruct r; [congruence | reflexivity]. Qed.

(* ------------------------------------------------------------------ *)
(* soundness: whatever _parse accepts is the canonical token list of its result *)

Lemma parse_sound_aux : forall fuel,
  (forall ts e rest, parse_ fuel ts = POk e rest -> ts = tokens_of e ++ rest) /\
  (forall ts racc args rest, parse_args fuel ts racc = AOk args rest ->
     exists l, l <> [] /\ args = rev racc ++ l /\ ts = tjoin (map tokens_of l) ++ CRP :: rest).
Proof.
  induction fuel as [|f [IHp IHa]]; split; try (simpl; intros; discriminate).
  - intros ts e rest H. simpl in H.
    destruct ts as [|t ts]; [discriminate|].
    destruct t; try discriminate.
    + (* CId *)
      destruct ts as [|t2 ts2].
      * inversion H; subst. reflexivity.
      * destruct t2; try (inversion H; subst; reflexivity).
        destruct ts2 as [|t3 ts3]; [discriminate|].
        destruct t3; try discriminate. inversion H; subst. reflexivity.
    + (* CAll *)
      destruct ts as [|t2 ts2]; [discriminate|]. destruct t2; try discriminate.
      destruct ts2 as [|t3 ts3].
      * destruct (parse_args f [] []) as [args r2| |] eqn:E; try discriminate.
        apply IHa in E. destruct E as (l & Hl & _ & Hts). destruct l; [congruence|].
        simpl in Hts. destruct l; simpl in Hts; destruct (tokens_of i); discriminate.
      * destruct t3; try (
          destruct (parse_args f _ []) as [args r2| |] eqn:E; try discriminate;
          apply IHa in E; destruct E as (l & Hl & Hargs & Hts); simpl in Hargs; subst args;
          inversion H; subst; simpl; rewrite Hts; rewrite <- app_assoc; reflexivity).
        inversion H; subst. reflexivity.
    + (* CAny *)
      destruct ts as [|t2 ts2]; [discriminate|]. destruct t2; try discriminate.
      destruct ts2 as [|t3 ts3].
      * destruct (parse_args f [] []) as [args r2| |] eqn:E; try discriminate.
        apply IHa in E. destruct E as (l & Hl & _ & Hts). destruct l; [congruence|].
        simpl in Hts. destruct l; simpl in Hts; destruct (tokens_of i); discriminate.
      * destruct t3; try (
          destruct (parse_args f _ []) as [args r2| |] eqn:E; try discriminate;
          apply IHa in E; destruct E as (l & Hl & Hargs & Hts); simpl in Hargs; subst args;
          inversion H; subst; simpl; rewrite Hts; rewrite <- app_assoc; reflexivity).
        inversion H; subst. reflexivity.
    + (* CNot *)
      destruct ts as [|t2 ts2]; [discriminate|]. destruct t2; try discriminate.
      destruct (parse_ f ts2) as [e' r'| |] eqn:E; try discriminate.
      destruct r' as [|t3 r3]; [discriminate|]. destruct t3; try discriminate.
      inversion H; subst. apply IHp in E. subst. simpl. rewrite <- app_assoc. reflexivity.
  - intros ts racc args rest H. simpl in H.
    destruct (parse_ f ts) as [e r| |] eqn:E; try discriminate.
    apply IHp in E. subst ts.
    destruct r as [|t r]; [discriminate|]. destruct t; try discriminate.
    + (* CRP *)
      inversion H; subst. exists [e]. simpl. repeat split; congruence.
    + (* CComma *)
      apply IHa in H. destruct H as (l & Hl & Hargs & Hts). exists (e :: l).
      split; [congruence|]. split.
      * rewrite Hargs. simpl. rewrite <- app_assoc. reflexivity.
      * subst r. simpl map. rewrite tjoin_cons by (destruct l; simpl; congruence).
        rewrite <- app_assoc. reflexivity.
Qed.

Theorem parse_sound ts e : parse ts = ParseOk e -> ts = tokens_of e.
Proof.
  unfold parse. destruct (parse_ (parse_fuel ts) ts) as [e' r| |] eqn:E; try discriminate.
  destruct r; [|discriminate]. intro H. inversion H; subst.
  apply (proj1 (parse_sound_aux _)) in E. rewrite app_nil_r in E. exact E.
Qed.

(* ------------------------------------------------------------------ *)
(* totality: with the fuel parse() supplies, _parse never runs out of fuel *)

Lemma parse_fuel_aux : forall fuel,
  (forall ts, (2 * length ts + 1 <= fuel)%nat ->
     parse_ fuel ts <> PFuel /\
     (forall e rest, parse_ fuel ts = POk e rest -> (length rest < length ts)%nat)) /\
  (forall ts racc, (2 * length ts + 2 <= fuel)%nat -> parse_args fuel ts racc <> AFuel).
Proof.
  induction fuel as [|f [IHp IHa]]; split.
  - intros ts H. lia.
  - intros ts racc H. lia.
  - intros ts H. simpl.
    destruct ts as [|t ts]; [split; [discriminate | intros; discriminate]|].
    simpl in H.
    destruct t; try (split; [discriminate | intros; discriminate]).
    + destruct ts as [|t2 ts2]; [split; [discriminate | intros e rest E; inversion E; simpl; lia]|].
      destruct t2; try (split; [discriminate | intros e rest E; inversion E; simpl; lia]).
      destruct ts2 as [|t3 ts3]; [split; [discriminate | intros; discriminate]|].
      destruct t3; try (split; [discriminate | intros; discriminate]).
      split; [discriminate | intros e rest E; inversion E; simpl; lia].
    + destruct ts as [|t2 ts2]; [split; [discriminate | intros; discriminate]|].
      destruct t2; try (split; [discriminate | intros; discriminate]).
      assert (HA : forall r1, (length r1 <= length ts2)%nat -> parse_args f r1 [] <> AFuel).
      { intros r1 Hr. apply IHa. simpl in H. lia. }
      assert (HL : forall r1 args r2, parse_args f r1 [] = AOk args r2 -> (length r2 < length r1)%nat).
      { intros r1 args r2 E. apply (proj2 (parse_sound_aux f)) in E.
        destruct E as (l & _ & _ & ->). rewrite app_length. simpl. lia. }
      destruct ts2 as [|t3 ts3].
      * specialize (HA [] (le_n _)). destruct (parse_args f [] []) as [args0 r0| |] eqn:E; try congruence;
        split; try discriminate; intros e rest E'; inversion E'; subst; apply HL in E; simpl in *; lia.
      * destruct t3;
        try (specialize (HA _ (le_n _)); destruct (parse_args f _ []) as [args0 r0| |] eqn:E; try congruence;
             split; try discriminate; intros e rest E'; inversion E'; subst; apply HL in E; simpl in *; lia).
        split; [discriminate | intros e rest E; inversion E; simpl; lia].
    + destruct ts as [|t2 ts2]; [split; [discriminate | intros; discriminate]|].
      destruct t2; try (split; [discriminate | intros; discriminate]).
      assert (HA : forall r1, (length r1 <= length ts2)%nat -> parse_args f r1 [] <> AFuel).
      { intros r1 Hr. apply IHa. simpl in H. lia. }
      assert (HL : forall r1 args r2, parse_args f r1 [] = AOk args r2 -> (length r2 < length r1)%nat).
      { intros r1 args r2 E. apply (proj2 (parse_sound_aux f)) in E.
        destruct E as (l & _ & _ & ->). rewrite app_length. simpl. lia. }
      destruct ts2 as [|t3 ts3].
      * specialize (HA [] (le_n _)). destruct (parse_args f [] []) as [args0 r0| |] eqn:E; try congruence;
        split; try discriminate; intros e rest E'; inversion E'; subst; apply HL in E; simpl in *; lia.
      * destruct t3;
        try (specialize (HA _ (le_n _)); destruct (parse_args f _ []) as [args0 r0| |] eqn:E; try congruence;
             split; try discriminate; intros e rest E'; inversion E'; subst; apply HL in E; simpl in *; lia).
        split; [discriminate | intros e rest E; inversion E; simpl; lia].
    + destruct ts as [|t2 ts2]; [split; [discriminate | intros; discriminate]|].
      destruct t2; try (split; [discriminate | intros; discriminate]).
      assert (Hf : (2 * length ts2 + 1 <= f)%nat) by (simpl in H; lia).
      destruct (IHp ts2 Hf) as [Hn Hl].
      destruct (parse_ f ts2) as [e' r'| |] eqn:E; try congruence; [|split; [discriminate | intros; discriminate]].
      specialize (Hl _ _ eq_refl).
      destruct r' as [|t3 r3]; [split; [discriminate | intros; discriminate]|].
      destruct t3; try (split; [discriminate | intros; discriminate]).
      split; [discriminate | intros e rest E'; inversion E'; subst; simpl in *; lia].
  - intros ts racc H. simpl.
    assert (Hf : (2 * length ts + 1 <= f)%nat) by lia.
    destruct (IHp ts Hf) as [Hn Hl].
    destruct (parse_ f ts) as [e r| |] eqn:E; try congruence; try discriminate.
    specialize (Hl _ _ eq_refl).
    destruct r as [|t r]; [discriminate|]. destruct t; try discriminate.
    apply IHa. simpl in Hl. lia.
Qed.

Theorem parse_total ts : parse ts <> ParseFuel.
Proof.
  unfold parse.
  destruct (proj1 (parse_fuel_aux (parse_fuel ts)) ts) as [Hn _]; [unfold parse_fuel; lia|].
  destruct (parse_ (parse_fuel ts) ts) as [e r| |]; try congruence; try discriminate.
  destruct r; discriminate.
Qed.

(* eval_cfg answers a Boolean or raises MesonException — never anything else *)
Theorem eval_cfg_total raw d : eval_cfg raw d <> OutOfFuel.
Proof.
  unfold eval_cfg. destruct (prefixb _ raw && suffixb _ raw); [|discriminate].
  destruct (lexer _) as [ts|]; [|discriminate].
  pose proof (parse_total ts). destruct (parse ts); congruence.
Qed.

(* ------------------------------------------------------------------ *)
(* completeness: the canonical token list of any expression parses back to it *)

Fixpoint fsize (e : ir) : nat :=
  match e with
  | Ident _ | Equal _ _ => 1
  | INot e' => 1 + fsize e'
  | IAny l | IAll l => 1 + fold_right (fun x n => 1 + fsize x + n)%nat 0%nat l
  end.
Definition asize (l : list ir) : nat := fold_right (fun x n => 1 + fsize x + n)%nat 0%nat l.

Definition follow_ok (rest : list ctok) : Prop :=
  match rest with CEqual :: _ => False | _ => True end.

Lemma tokens_head e : exists t r, tokens_of e = t :: r /\ t <> CRP.
Proof. destruct e; simpl; eexists; eexists; split; try reflexivity; discriminate. Qed.

Lemma parse_complete_aux : forall fuel,
  (forall e rest, (fsize e <= fuel)%nat -> follow_ok rest ->
     parse_ fuel (tokens_of e ++ rest) = POk e rest) /\
  (forall l racc rest, l <> [] -> (asize l <= fuel)%nat ->
     parse_args fuel (tjoin (map tokens_of l) ++ CRP :: rest) racc = AOk (rev racc ++ l) rest).
Proof.
  induction fuel as [|f [IHp IHa]]; split.
  - intros e rest H. destruct e; simpl in H; lia.
  - intros l racc rest Hl H. destruct l; [congruence|]. simpl in H. lia.
  - intros e rest H Hf. destruct e as [n|n v|l|l|e'].
    + simpl. destruct rest as [|t r]; [reflexivity|]. destruct t; try reflexivity. contradiction.
    + reflexivity.
    + simpl tokens_of. simpl app. destruct l as [|x l].
      * reflexivity.
      * cbn [parse_]. rewrite <- app_assoc. cbn [app].
        destruct (tokens_head x) as (t & r & Ht & Hn).
        assert (HA : parse_args f (tjoin (map tokens_of (x :: l)) ++ CRP :: rest) [] = AOk (x :: l) rest).
        { apply (IHa (x :: l) [] rest); [discriminate|]. simpl in H. unfold asize. simpl. lia. }
        assert (HH : exists t' r', tjoin (map tokens_of (x :: l)) ++ CRP :: rest = t' :: r' /\ t' <> CRP).
        { simpl map. destruct l; [simpl; rewrite Ht; simpl; eauto|].
          rewrite tjoin_cons by discriminate. rewrite Ht. simpl. eauto. }
        destruct HH as (t' & r' & Ets & Hn'). rewrite Ets in *.
        destruct t'; try congruence; cbv iota beta; rewrite HA; reflexivity.
    + simpl tokens_of. simpl app. destruct l as [|x l].
      * reflexivity.
      * cbn [parse_]. rewrite <- app_assoc. cbn [app].
        destruct (tokens_head x) as (t & r & Ht & Hn).
        assert (HA : parse_args f (tjoin (map tokens_of (x :: l)) ++ CRP :: rest) [] = AOk (x :: l) rest).
        { apply (IHa (x :: l) [] rest); [discriminate|]. simpl in H. unfold asize. simpl. lia. }
        assert (HH : exists t' r', tjoin (map tokens_of (x :: l)) ++ CRP :: rest = t' :: r' /\ t' <> CRP).
        { simpl map. destruct l; [simpl; rewrite Ht; simpl; eauto|].
          rewrite tjoin_cons by discriminate. rewrite Ht. simpl. eauto. }
        destruct HH as (t' & r' & Ets & Hn'). rewrite Ets in *.
        destruct t'; try congruence; cbv iota beta; rewrite HA; reflexivity.
    + simpl tokens_of. simpl app. cbn [parse_]. rewrite <- app_assoc. cbn [app].
      rewrite (IHp e' (CRP :: rest)); [reflexivity | simpl in H; lia | exact I].
  - intros l racc rest Hl H. destruct l as [|x l]; [congruence|].
    cbn [parse_args]. destruct l as [|y l].
    + simpl. rewrite (IHp x (CRP :: rest)); [reflexivity | unfold asize in H; simpl in H; lia | exact I].
    + simpl map. rewrite tjoin_cons by discriminate. rewrite <- app_assoc. cbn [app].
      rewrite (IHp x (CComma :: _)); [| unfold asize in H; simpl in H; lia | exact I].
      cbv iota beta. change (tokens_of y :: map tokens_of l) with (map tokens_of (y :: l)).
      rewrite (IHa (y :: l) (x :: racc) rest); [| discriminate | unfold asize in *; simpl in *; lia].
      simpl. rewrite <- app_assoc. reflexivity.
Qed.

(* every node of an expression owns at least one token *)
Lemma asize_tjoin l :
  Forall (fun e => (fsize e <= length (tokens_of e))%nat) l ->
  (asize l <= length (tjoin (map tokens_of l)) + 1)%nat.
Proof.
  induction 1 as [|x l Hx _ IHl]; [simpl; lia|].
  change (asize (x :: l)) with (1 + fsize x + asize l)%nat.
  change (map tokens_of (x :: l)) with (tokens_of x :: map tokens_of l).
  destruct l as [|y l].
  - simpl. lia.
  - rewrite tjoin_cons by discriminate. rewrite app_length.
    change (length (CComma :: tjoin (map tokens_of (y :: l)))) with (S (length (tjoin (map tokens_of (y :: l))))).
    lia.
Qed.
Lemma fsize_tokens e : (fsize e <= length (tokens_of e))%nat.
Proof.
  induction e as [n|n v|l IH|l IH|e' IH] using ir_ind'.
  - simpl; lia.
  - simpl; lia.
  - apply asize_tjoin in IH. change (fsize (IAny l)) with (1 + asize l)%nat.
    change (tokens_of (IAny l)) with (CAny :: CLP :: tjoin (map tokens_of l) ++ [CRP]).
    change (length (CAny :: CLP :: tjoin (map tokens_of l) ++ [CRP])) with (S (S (length (tjoin (map tokens_of l) ++ [CRP])))).
    rewrite app_length. simpl length. lia.
  - apply asize_tjoin in IH. change (fsize (IAll l)) with (1 + asize l)%nat.
    change (tokens_of (IAll l)) with (CAll :: CLP :: tjoin (map tokens_of l) ++ [CRP]).
    change (length (CAll :: CLP :: tjoin (map tokens_of l) ++ [CRP])) with (S (S (length (tjoin (map tokens_of l) ++ [CRP])))).
    rewrite app_length. simpl length. lia.
  - change (fsize (INot e')) with (1 + fsize e')%nat.
    change (tokens_of (INot e')) with (CNot :: CLP :: tokens_of e' ++ [CRP]).
    change (length (CNot :: CLP :: tokens_of e' ++ [CRP])) with (S (S (length (tokens_of e' ++ [CRP])))).
    rewrite app_length. simpl length. lia.
Qed.

Theorem parse_complete e : parse (tokens_of e) = ParseOk e.
Proof.
  unfold parse.
  pose proof (proj1 (parse_complete_aux (parse_fuel (tokens_of e))) e []) as H.
  rewrite app_nil_r in H. rewrite H; [reflexivity | | exact I].
  pose proof (fsize_tokens e). unfold parse_fuel. lia.
Qed.

(* ------------------------------------------------------------------ *)
(* the lexer on printed expressions *)

Definition pre_opt (p : list ctok) (o : option (list ctok)) : option (list ctok) :=
  match o with Some l => Some (p ++ l) | None => None end.
Lemma pre_opt_app p q o : pre_opt p (pre_opt q o) = pre_opt (p ++ q) o.
Proof. destruct o; simpl; [rewrite app_assoc|]; reflexivity. Qed.
Lemma pre_opt_nil o : pre_opt [] o = o.
Proof. destruct o; reflexivity. Qed.

Definition sep_start (rest : str) : Prop :=
  match rest with [] => True | c :: _ => is_cfg_sep c = true end.

Lemma space_facts c : is_space c = true ->
  is_cfg_sep c = true /\ (c =? c_quote) = false /\ sep_tok c = [].
Proof.
  intro H. unfold is_cfg_sep. rewrite H. split; [reflexivity|].
  assert (Hq : forall k, is_space k = false -> (c =? k) = false).
  { intros k Hk. destruct (N.eqb_spec c k) as [->|]; [congruence | reflexivity]. }
  split; [apply Hq; reflexivity|].
  unfold sep_tok. rewrite !Hq by reflexivity. reflexivity.
Qed.

Lemma lex_sep c r (st : bool) : is_cfg_sep c = true -> (c =? c_quote) = false ->
  lex (c :: r) [] false = pre_opt (sep_tok c) (lex r [] false).
Proof.
  intros Hs Hq. cbn [lex]. rewrite Hs, Hq. cbn [andb negb rev word_tok].
  change (word_tok []) with (@nil ctok). cbn [app]. reflexivity.
Qed.

Lemma lex_skip ws : all_space ws = true -> forall s, lex (ws ++ s) [] false = lex s [] false.
Proof.
  induction ws as [|c ws IH]; intros H s; [reflexivity|].
  simpl in H. apply andb_true_iff in H. destruct H as [Hc Hw].
  destruct (space_facts c Hc) as (Hs & Hq & Ht).
  cbn [app]. rewrite (lex_sep c _ false Hs Hq). rewrite Ht, pre_opt_nil. apply IH. exact Hw.
Qed.

Lemma lex_word_run n : forallb (fun c => negb (is_cfg_sep c)) n = true ->
  forall rest racc, lex (n ++ rest) racc false = lex rest (rev n ++ racc) false.
Proof.
  induction n as [|c n IH]; intros H rest racc; [reflexivity|].
  simpl in H. apply andb_true_iff in H. destruct H as [Hc Hn]. apply negb_true_iff in Hc.
  cbn [app lex andb]. rewrite Hc. rewrite IH by exact Hn. simpl rev. rewrite <- app_assoc. reflexivity.
Qed.

(* a word followed by a non-quote separator *)
Lemma lex_word_sep n c r : forallb (fun c => negb (is_cfg_sep c)) n = true ->
  is_cfg_sep c = true -> (c =? c_quote) = false ->
  lex (n ++ c :: r) [] false = pre_opt (word_tok n ++ sep_tok c) (lex r [] false).
Proof.
  intros Hn Hs Hq. rewrite lex_word_run by exact Hn. rewrite app_nil_r.
  cbn [lex]. rewrite Hs, Hq. cbn [andb]. rewrite rev_involutive.
  destruct (lex r [] false); simpl; [rewrite app_assoc|]; reflexivity.
Qed.

Lemma word_tok_name n : wf_name n = true -> word_tok n = [CId n] /\
  forallb (fun c => negb (is_cfg_sep c)) n = true /\ n <> [].
Proof.
  unfold wf_name. rewrite !andb_true_iff, !negb_true_iff. intros ((((Hne & Hs) & H1) & H2) & H3).
  unfold word_tok. rewrite H1, H2, H3. destruct n; [discriminate|]. repeat split; try assumption; discriminate.
Qed.

(* an identifier followed by a separator (or by the end of the text) *)
Lemma lex_name n rest : wf_name n = true -> sep_start rest ->
  lex (n ++ rest) [] false = pre_opt [CId n] (lex rest [] false).
Proof.
  intros Hn Hr. destruct (word_tok_name n Hn) as (Hw & Hs & Hne).
  rewrite lex_word_run by exact Hs. rewrite app_nil_r.
  destruct rest as [|c r].
  - cbn [lex]. destruct (rev n) eqn:E.
    + apply (f_equal (@rev char)) in E. rewrite rev_involutive in E. simpl in E. congruence.
    + rewrite <- E, rev_involutive. reflexivity.
  - simpl in Hr. cbn [lex andb]. rewrite Hr. rewrite rev_involutive, Hw.
    cbn [rev]. change (word_tok []) with (@nil ctok).
    destruct (c =? c_quote); cbn [andb app]; destruct (lex r [] _); reflexivity.
Qed.

Lemma lex_string v : wf_value v = true -> forall rest racc,
  lex (v ++ c_quote :: rest) racc true = pre_opt [CStr (rev racc ++ v)] (lex rest [] false).
Proof.
  induction v as [|c v IH]; intros H rest racc.
  - cbn [app lex]. change (c_quote =? c_quote) with true. cbn [andb negb].
    change (is_cfg_sep c_quote) with true. cbv iota. rewrite app_nil_r.
    destruct (lex rest [] false); reflexivity.
  - simpl in H. apply andb_true_iff in H. destruct H as [Hc Hv].
    change (negb (c =? c_quote) = true) in Hc.
    cbn [app lex andb]. rewrite Hc. rewrite IH by exact Hv. simpl rev. rewrite <- app_assoc. reflexivity.
Qed.

Lemma sep_start_space a s : all_space a = true -> sep_start s -> s <> [] -> sep_start (a ++ s).
Proof.
  destruct a as [|c a]; intros H Hs Hn; [exact Hs|].
  simpl in H. apply andb_true_iff in H. destruct H as [Hc _]. simpl. apply space_facts. exact Hc.
Qed.

Section Printed.
  Variables a b : str.
  Hypothesis Ha : all_space a = true.
  Hypothesis Hb : all_space b = true.

  Definition lex_ok (e : ir) : Prop :=
    wf_atoms e = true -> forall rest, sep_start rest ->
    lex (pr_cfg a b e ++ rest) [] false = pre_opt (tokens_of e) (lex rest [] false).

  Lemma lex_close rest :
    lex (b ++ 41 :: rest) [] false = pre_opt [CRP] (lex rest [] false).
  Proof. rewrite lex_skip by exact Hb. apply (lex_sep 41 rest false); reflexivity. Qed.

  Lemma lex_args l : Forall lex_ok l -> forallb wf_atoms l = true -> forall rest,
    lex (join (44 :: a) (map (pr_cfg a b) l) ++ b ++ 41 :: rest) [] false =
    pre_opt (tjoin (map tokens_of l) ++ [CRP]) (lex rest [] false).
  Proof.
    induction 1 as [|x l Hx Hl IH]; intros Hwf rest.
    - simpl. apply lex_close.
    - simpl in Hwf. apply andb_true_iff in Hwf. destruct Hwf as [Hwx Hwl].
      destruct l as [|y l].
      + simpl. rewrite (Hx Hwx).
        * rewrite lex_close, pre_opt_app. reflexivity.
        * apply sep_start_space; [exact Hb | reflexivity | discriminate].
      + change (map (pr_cfg a b) (x :: y :: l)) with (pr_cfg a b x :: map (pr_cfg a b) (y :: l)).
        change (join (44 :: a) (pr_cfg a b x :: map (pr_cfg a b) (y :: l)))
          with (pr_cfg a b x ++ (44 :: a) ++ join (44 :: a) (map (pr_cfg a b) (y :: l))).
        rewrite <- !app_assoc. rewrite (Hx Hwx) by reflexivity.
        cbn [app]. rewrite (lex_sep 44 _ false) by reflexivity.
        rewrite lex_skip by exact Ha. rewrite (IH Hwl). rewrite !pre_opt_app.
        change (map tokens_of (x :: y :: l)) with (tokens_of x :: map tokens_of (y :: l)).
        rewrite tjoin_cons by discriminate. rewrite <- !app_assoc. reflexivity.
  Qed.

  Lemma lex_pr e : lex_ok e.
  Proof.
    induction e as [n|n v|l IH|l IH|e' IH] using ir_ind'; intros Hwf rest Hr.
    - apply lex_name; assumption.
    - simpl in Hwf. apply andb_true_iff in Hwf. destruct Hwf as [Hn Hv].
      assert (E : pr_cfg a b (Equal n v) ++ rest = n ++ (a ++ 61 :: (a ++ c_q :: (v ++ c_quote :: rest)))).
      { simpl pr_cfg. repeat (rewrite <- app_assoc || rewrite <- app_comm_cons). reflexivity. }
      rewrite E. clear E.
      rewrite lex_name; [| exact Hn |].
      + rewrite lex_skip by exact Ha. rewrite (lex_sep 61 _ false) by reflexivity.
        rewrite lex_skip by exact Ha.
        cbn [lex]. change (is_cfg_sep c_q) with true. change (c_q =? c_quote) with true.
        cbn [andb negb rev]. change (word_tok []) with (@nil ctok). change (sep_tok c_q) with (@nil ctok).
        cbn [app].
        rewrite (lex_string v Hv). cbn [rev app].
        destruct (lex rest [] false); reflexivity.
      + destruct a as [|c a']; [reflexivity|].
        simpl in Ha. apply andb_true_iff in Ha. destruct Ha as [Hc _]. simpl. apply space_facts. exact Hc.
    - simpl in Hwf. change (pr_cfg a b (IAny l)) with (s2l "any(" ++ b ++ join (44 :: a) (map (pr_cfg a b) l) ++ b ++ [41]).
      rewrite <- !app_assoc.
      change (s2l "any(" ++ b ++ join (44 :: a) (map (pr_cfg a b) l) ++ b ++ [41] ++ rest)
        with (s2l "any" ++ 40 :: (b ++ join (44 :: a) (map (pr_cfg a b) l) ++ b ++ 41 :: rest)).
      rewrite lex_word_sep by reflexivity.
      rewrite lex_skip by exact Hb. rewrite (lex_args l IH Hwf). rewrite pre_opt_app. reflexivity.
    - simpl in Hwf. change (pr_cfg a b (IAll l)) with (s2l "all(" ++ b ++ join (44 :: a) (map (pr_cfg a b) l) ++ b ++ [41]).
      rewrite <- !app_assoc.
      change (s2l "all(" ++ b ++ join (44 :: a) (map (pr_cfg a b) l) ++ b ++ [41] ++ rest)
        with (s2l "all" ++ 40 :: (b ++ join (44 :: a) (map (pr_cfg a b) l) ++ b ++ 41 :: rest)).
      rewrite lex_word_sep by reflexivity.
      rewrite lex_skip by exact Hb. rewrite (lex_args l IH Hwf). rewrite pre_opt_app. reflexivity.
    - simpl in Hwf. change (pr_cfg a b (INot e')) with (s2l "not(" ++ b ++ pr_cfg a b e' ++ b ++ [41]).
      rewrite <- !app_assoc.
      change (s2l "not(" ++ b ++ pr_cfg a b e' ++ b ++ [41] ++ rest)
        with (s2l "not" ++ 40 :: (b ++ pr_cfg a b e' ++ b ++ 41 :: rest)).
      rewrite lex_word_sep by reflexivity.
      rewrite lex_skip by exact Hb. rewrite (IH Hwf).
      + rewrite lex_close. rewrite !pre_opt_app. simpl. first [reflexivity | rewrite <- app_assoc; reflexivity].
      + apply sep_start_space; [exact Hb | reflexivity | discriminate].
  Qed.

  Theorem lexer_printed e : wf_atoms e = true -> lexer (pr_cfg a b e) = Some (tokens_of e).
  Proof.
    intro H. unfold lexer. pose proof (lex_pr e H [] I) as L. rewrite app_nil_r in L.
    rewrite L. simpl. rewrite app_nil_r. reflexivity.
  Qed.
End Printed.

(* _eval_cfg computes the Boolean meaning *)
Lemma eval_ir_sem e d : eval_ir e d = sem e d.
Proof.
  induction e as [n|n v|l IH|l IH|e' IH] using ir_ind'; simpl; try reflexivity.
Qed.

Lemma removelast_app_one {A} (l : list A) x : removelast (l ++ [x]) = l.
Proof. apply removelast_last. Qed.

(* every cfg() expression evaluates to the Boolean value of its structure — any
   nesting depth, any blanks around '=' / after ',' and inside parentheses *)
Theorem eval_cfg_printed a b e d :
  all_space a = true -> all_space b = true -> wf_atoms e = true ->
  eval_cfg (s2l "cfg(" ++ pr_cfg a b e ++ [41]) d = Ok (sem e d).
Proof.
  intros Ha Hb Hwf. unfold eval_cfg.
  assert (P : prefixb (s2l "cfg(") (s2l "cfg(" ++ pr_cfg a b e ++ [41]) = true) by apply prefixb_app.
  assert (S : suffixb [c_rp] (s2l "cfg(" ++ pr_cfg a b e ++ [41]) = true).
  { unfold suffixb. rewrite !rev_app_distr. reflexivity. }
  rewrite P, S. cbn [andb].
  assert (E : slice_4_m1 (s2l "cfg(" ++ pr_cfg a b e ++ [41]) = pr_cfg a b e).
  { unfold slice_4_m1. change (drop 4 (s2l "cfg(" ++ pr_cfg a b e ++ [41])) with (pr_cfg a b e ++ [41]).
    apply removelast_last. }
  rewrite E, (lexer_printed a b Ha Hb e Hwf), parse_complete, eval_ir_sem. reflexivity.
Qed.

(* ------------------------------------------------------------------ *)
(* an unbalanced double quote is always rejected *)
Fixpoint quotes_odd (s : str) (st : bool) : bool :=
  match s with
  | [] => st
  | c :: r => quotes_odd r (if c =? c_quote then negb st else st)
  end.
Lemma lex_none_iff s : forall racc st, lex s racc st = None <-> quotes_odd s st = true.
Proof.
  induction s as [|c s IH]; intros racc st.
  - simpl. destruct st; split; congruence.
  - cbn [lex quotes_odd]. destruct (c =? c_quote) eqn:Q.
    + apply N.eqb_eq in Q. subst c. change (is_cfg_sep c_quote) with true.
      destruct st; cbn [andb negb].
      * rewrite <- (IH [] false). destruct (lex s [] false); split; congruence.
      * rewrite <- (IH [] true). destruct (lex s [] true); split; congruence.
    + destruct st; cbn [andb negb].
      * apply IH.
      * destruct (is_cfg_sep c).
        -- rewrite <- (IH [] false). destruct (lex s [] false); split; congruence.
        -- apply IH.
Qed.
Theorem odd_quotes_rejected raw d :
  prefixb (s2l "cfg(") raw && suffixb [c_rp] raw = true ->
  quotes_odd (slice_4_m1 raw) false = true -> eval_cfg raw d = MesonErr.
Proof.
  intros H Q. unfold eval_cfg. rewrite H. apply (lex_none_iff _ [] false) in Q. unfold lexer. rewrite Q. reflexivity.
Qed.

(* whatever eval_cfg evaluates was, after lexing, exactly the canonical token list of
   an expression, and the answer is that expression's meaning: nothing malformed is
   ever evaluated (all(a b), not(), not(a,b), trailing text, a bare string ... have
   no such expression and therefore raise MesonException) *)
Theorem eval_cfg_accepts_only_expressions raw d bv :
  prefixb (s2l "cfg(") raw && suffixb [c_rp] raw = true ->
  eval_cfg raw d = Ok bv ->
  exists e, lexer (slice_4_m1 raw) = Some (tokens_of e) /\ bv = sem e d.
Proof.
  intros H. unfold eval_cfg. rewrite H.
  destruct (lexer (slice_4_m1 raw)) as [ts|]; [|discriminate].
  destruct (parse ts) as [e| |] eqn:P; try discriminate.
  intro E. inversion E; subst. apply parse_sound in P. subst ts.
  exists e. split; [reflexivity | apply eval_ir_sem].
Qed.
