(* Cargo/ApiProofs.v — version.api on printed requirements: the API class Cargo derives
   from the lower-bound comparators (x.y.z -> x, 0.x.y -> 0.x, 0.0.x -> 0). *)
From MV Require Import Base.Strs Base.LexFacts Cargo.SemVer Cargo.Req Cargo.Cfg Cargo.Spec
                       Cargo.SemVerProofs Cargo.ReqProofs Cargo.ParseProofs Cargo.ReqStrProofs.
From Coq Require Import Lia.
Open Scope N_scope.

Definition nd (c : char) : bool := negb (c =? c_dot).

Lemma split_run x : forallb nd x = true -> forall rest racc,
  split_on_acc c_dot (x ++ rest) racc = split_on_acc c_dot rest (rev x ++ racc).
Proof.
  induction x as [|c x IH]; intros H rest racc; [reflexivity|].
  cbn [forallb] in H. apply andb_true_iff in H. destruct H as [Hc Hx].
  unfold nd in Hc. apply negb_true_iff in Hc.
  cbn [app split_on_acc]. rewrite Hc. rewrite IH by exact Hx. simpl rev. rewrite <- app_assoc. reflexivity.
Qed.
Lemma nd_digits ds : Spec.is_digits ds = true -> forallb nd ds = true.
Proof.
  intro H. destruct ds as [|d r]; [discriminate|]. cbn [Spec.is_digits] in H.
  revert H. generalize (d :: r). intro l. induction l as [|c l IH]; [reflexivity|].
  cbn [forallb]. rewrite !andb_true_iff. intros [H1 H2]. split; [|apply IH; exact H2].
  apply digit_range in H1. unfold nd, c_dot. apply negb_true_iff, N.eqb_neq. lia.
Qed.

(* the first two dot-separated fields of a printed partial version *)
Lemma split_partial p : wf_pcomp p = true ->
  exists tl, split_on c_dot (pr_partial p) =
    pc_maj p :: match pc_min p with None => [] | Some m => m :: tl end.
Proof.
  intro H. destruct (wf_pcomp_parts p H) as (Hmaj & Hmin & Hpat & _ & _ & Hwf).
  unfold wf_comparator in Hwf. cbn [comparator_of cmin cpat cpre c_op] in Hwf.
  unfold split_on, pr_partial.
  rewrite split_run by (apply nd_digits; exact Hmaj). rewrite app_nil_r.
  destruct (pc_min p) as [m|].
  - cbn [app split_on_acc]. change (46 =? c_dot) with true. cbv iota. rewrite rev_involutive.
    rewrite <- app_assoc. rewrite split_run by (apply nd_digits; exact Hmin). rewrite app_nil_r.
    destruct (pc_pat p) as [q|].
    + cbn [app split_on_acc]. change (46 =? c_dot) with true. cbv iota. rewrite rev_involutive. eauto.
    + destruct (pc_pre p); [|simpl in Hwf; discriminate Hwf]. cbn [app pr_pre split_on_acc].
      rewrite rev_involutive. exists []. reflexivity.
  - destruct (pc_pat p); [simpl in Hwf; discriminate Hwf|].
    destruct (pc_pre p); [|simpl in Hwf; discriminate Hwf]. cbn [app pr_pre split_on_acc].
    rewrite rev_involutive. exists []. reflexivity.
Qed.

(* x.y.z -> x ; 0.x.y -> 0.x ; 0.0.x -> 0 — as strings, the spelling is kept *)
Definition api_class (p : pcomp) : str :=
  if negb (digits_val (pc_maj p) =? 0) then pc_maj p
  else match pc_min p with
       | Some m => if negb (digits_val m =? 0) then s2l "0." ++ m else s2l "0"
       | None => s2l "0"
       end.

Lemma py_int_digits ds : Spec.is_digits ds = true -> py_int ds = IntOk (digits_val ds).
Proof. intro H. unfold py_int. change (SemVer.is_digits ds) with (Spec.is_digits ds). rewrite H. reflexivity. Qed.

Lemma api_fields_digits v0 rest : Spec.is_digits v0 = true ->
  api_fields (v0 :: rest) =
  if digits_val v0 =? 0 then
    match rest with
    | [] => ApiOk (s2l "0")
    | v1 :: _ =>
        match py_int v1 with
        | IntOk n => if n =? 0 then ApiOk (s2l "0") else ApiOk (s2l "0." ++ v1)
        | IntValueError => ApiValueError
        | IntOutOfModel => ApiOutOfModel
        end
    end
  else ApiOk v0.
Proof.
  intro H. unfold api_fields. rewrite (py_int_digits _ H). destruct v0; [discriminate | reflexivity].
Qed.

Theorem api_of_partial p : wf_pcomp p = true -> api_of (pr_partial p) = ApiOk (api_class p).
Proof.
  intro H. destruct (split_partial p H) as (tl & E).
  destruct (wf_pcomp_parts p H) as (Hmaj & Hmin & _).
  unfold api_of, api_class. rewrite E, (api_fields_digits _ _ Hmaj).
  destruct (digits_val (pc_maj p) =? 0); cbn [negb]; [|reflexivity].
  destruct (pc_min p) as [m|]; [|reflexivity].
  simpl in Hmin. rewrite (py_int_digits _ Hmin). destruct (digits_val m =? 0); reflexivity.
Qed.

(* api(requirement): the classes of its lower-bound comparators (>=, =, caret/bare, tilde, wildcard),
   '' if there is none, MesonException if they disagree *)
Definition lower_bound (o : cop) : bool :=
  match o with OGe | OExact | OCaret | OTilde | OWild => true | _ => false end.
Fixpoint classes (l : list ppiece) (acc : list str) : list str :=
  match l with
  | [] => acc
  | p :: r =>
      match pp_body p with
      | BStar => classes r acc
      | BComp c =>
          if lower_bound (pc_op c)
          then classes r (if str_mem (api_class c) acc then acc else acc ++ [api_class c])
          else classes r acc
      end
  end.

Lemma api_collect_printed l : forallb wf_piece l = true -> forall acc,
  api_collect (flat_map part_of l) acc = inr (classes l acc).
Proof.
  induction l as [|p l IH]; intros Hwf acc; [reflexivity|].
  cbn [forallb] in Hwf. apply andb_true_iff in Hwf. destruct Hwf as [Hp Hl].
  destruct (wf_piece_parts p Hp) as (_ & _ & H3).
  cbn [flat_map classes]. unfold part_of at 1. destruct (pp_body p) as [|c].
  - cbn [app]. apply IH. exact Hl.
  - cbn [app api_collect]. rewrite (api_of_partial c H3).
    assert (E : is_lower_bound_op (rop_of (pc_op c)) = lower_bound (pc_op c)) by (destruct (pc_op c); reflexivity).
    rewrite E. destruct (lower_bound (pc_op c)); apply IH; exact Hl.
Qed.

Theorem api_printed ol ot l :
  all_space ol = true -> all_space ot = true -> forallb wf_piece l = true -> edges_ok l ->
  api (ol ++ pr_req l ++ ot) =
  match classes l [] with
  | [] => ApiOk []
  | [a] => ApiOk a
  | _ => ApiMesonErr
  end.
Proof.
  intros Hol Hot Hwf He. unfold api.
  rewrite (req_split_printed ol ot l Hol Hot Hwf He), (api_collect_printed l Hwf). reflexivity.
Qed.
