(* Cargo/PreProofs.v — cargo_parse on ALL versions (pre-releases included): the
   constraint lists are section-11 bounds (Spec.meson_matches); how that relates to
   Cargo's matcher on pre-release versions (included for full comparators, refuted in
   both directions in general). *)
From MV Require Import Base.Strs Base.LexFacts Cargo.SemVer Cargo.Req Cargo.Cfg Cargo.Spec
                       Cargo.SemVerProofs Cargo.ReqProofs Cargo.ParseProofs Cargo.ReqStrProofs.
From Coq Require Import Lia.
Open Scope N_scope.

Definition bop_of (b : bnd) : bop :=
  match b with BndLt => BLt | BndLe => BLe | BndGt => BGt | BndGe => BGe | BndEq => BEq end.

Lemma b_of_sat b c : b_of (bop_of b) c = sat_bnd b c.
Proof. destruct b, c; reflexivity. Qed.

Lemma zero_test n : (Z.of_N n =? 0)%Z = (n =? 0).
Proof. destruct n; reflexivity. Qed.

(* the constraint list of one comparator is the list of its bounds *)
Lemma constraints_bounds c : wf_comparator c = true ->
  constraints_of (rop_of (c_op c)) (csem c) = map (fun bw => (bop_of (fst bw), vvec (snd bw))) (bounds c).
Proof.
  destruct c as [op maj mn pt pre]. unfold wf_comparator. cbn [c_op cmin cpat cpre]. intro Hwf.
  destruct mn as [mn|]; destruct pt as [pt|]; destruct pre as [|i pre]; try discriminate Hwf;
  destruct op; try discriminate Hwf; clear Hwf;
  unfold constraints_of, bounds, csem, cversion, ccount, bump_last, tilde_upper, caret_upper, rel,
         has_prerelease, next_ver, caret_idx, vvec, semver_of_list, pad_to, item_is_0, opt0;
  cbn [rop_of c_op cmaj cmin cpat cpre vmaj vmin vpat vpre sv_v sv_count nth_error item_is_m1 firstn
       Nat.leb Z.eqb Z.opp Pos.eqb map fst snd bop_of length repeat Nat.sub app Nat.min];
  change (Z.of_nat 1 - 1)%Z with 0%Z; change (Z.of_nat 2 - 1)%Z with 1%Z; change (Z.of_nat 3 - 1)%Z with 2%Z;
  cbn [Z.eqb Pos.eqb]; rewrite ?zero_test;
  repeat (match goal with |- context [N.eqb ?m 0] => destruct (N.eqb m 0) end; cbn [negb Z.eqb Pos.eqb]);
  cbn [map fst snd bop_of length repeat Nat.sub app Nat.min sv_v vmaj vmin vpat vpre];
  rewrite ?N2Z.inj_add; reflexivity.
Qed.

Theorem constraints_all_versions c v : wf_comparator c = true ->
  holds (vvec v) (constraints_of (rop_of (c_op c)) (csem c)) = meson_comp c v.
Proof.
  intro H. rewrite (constraints_bounds c H). unfold holds, meson_comp.
  induction (bounds c) as [|[b w] l IH]; [reflexivity|].
  cbn [map forallb fst snd]. rewrite bop_apply_vcmp, vcmp_prec, b_of_sat, IH. reflexivity.
Qed.

(* on release versions the bounds are Cargo's rule (with the two deviations) *)
Theorem meson_comp_release c v : wf_comparator c = true -> vpre v = [] ->
  meson_comp c v = matches_comp c v.
Proof.
  intros H Hv. rewrite <- (constraints_all_versions c v H). apply constraints_match; assumption.
Qed.

Lemma holds_parts_all l v : forallb wf_piece l = true ->
  holds (vvec v) (flat_map (fun p => constraints_of (fst p) (semver_of_str (snd p))) (flat_map part_of l)) =
  forallb (fun c => meson_comp c v) (comps_of l).
Proof.
  intros Hwf. induction l as [|p l IH]; [reflexivity|].
  cbn [forallb] in Hwf. apply andb_true_iff in Hwf. destruct Hwf as [Hp Hl].
  destruct (wf_piece_parts p Hp) as (_ & _ & H3).
  cbn [flat_map comps_of]. rewrite flat_map_app, holds_app. rewrite IH by exact Hl.
  unfold part_of. destruct (pp_body p) as [|c].
  - reflexivity.
  - cbn [flat_map fst snd forallb app]. rewrite app_nil_r.
    rewrite semver_of_partial by exact H3.
    change (pc_op c) with (c_op (comparator_of c)).
    rewrite constraints_all_versions; [reflexivity | apply (wf_pcomp_parts c H3)].
Qed.

(* cargo_parse(req)(version) for EVERY printed requirement and EVERY printed version,
   release or pre-release *)
Theorem req_matches_all ol ot l pv :
  all_space ol = true -> all_space ot = true -> forallb wf_piece l = true -> edges_ok l ->
  wf_pversion pv = true ->
  req_matches (ol ++ pr_req l ++ ot) (pr_version pv) = meson_matches (comps_of l) (version_of pv).
Proof.
  intros Hol Hot Hwf He Hpv. unfold req_matches, cargo_parse.
  rewrite (req_split_printed ol ot l Hol Hot Hwf He). rewrite parse_parts_spec.
  unfold req_compare. cbn [rq_out rq_accept_pre]. rewrite (semver_of_printed pv Hpv).
  rewrite has_pre_vvec. cbn [sv_v]. rewrite has_pre_parts by exact Hwf.
  change (forallb (fun c => bop_apply (fst c) (vvec (version_of pv)) (snd c)))
    with (holds (vvec (version_of pv))).
  rewrite (holds_parts_all l (version_of pv) Hwf).
  unfold meson_matches.
  destruct (is_release (version_of pv)), (names_prerelease (comps_of l)); cbn [negb andb orb];
    rewrite ?andb_true_r, ?andb_false_r; reflexivity.
Qed.

(* ------------------------------------------------------------------ *)
(* relation to Cargo on pre-release versions *)

Ltac crush_pre :=
  repeat (first
    [ match goal with
      | |- context [N.eqb ?a ?b] => destruct (N.eqb_spec a b)
      | |- context [N.ltb ?a ?b] => destruct (N.ltb_spec a b)
      | |- context [N.leb ?a ?b] => destruct (N.leb_spec a b)
      | |- context [N.compare ?a ?b] => destruct (N.compare_spec a b)
      end; cbn [negb andb orb sat_bnd cLt cGt cEq]; try lia ]);
  try reflexivity; try lia; try discriminate.

(* for a comparator that spells out major.minor.patch, whatever Cargo's per-operator
   rule accepts — release or pre-release — satisfies meson's bounds *)
Theorem cargo_comp_implies_meson c v : wf_comparator c = true -> is_full c = true ->
  matches_comp c v = true -> meson_comp c v = true.
Proof.
  destruct c as [op maj mn pt pre]. destruct v as [a b d vp].
  unfold wf_comparator, is_full. cbn [c_op cmin cpat cpre]. intros Hwf Hfull.
  destruct mn as [mn|]; [|discriminate]. destruct pt as [pt|]; [|discriminate].
  destruct op; try discriminate Hwf; clear Hwf Hfull;
  unfold matches_comp, meson_comp, bounds, m_exact, m_greater, m_less, m_tilde, m_caret, all_zero, pad,
         prec_cmp, cversion, bump_last, tilde_upper, caret_upper, rel, opt0;
  cbn [c_op cmaj cmin cpat cpre vmaj vmin vpat vpre forallb fst snd];
  try (destruct pre as [|i pre]; cbn [forallb fst snd vmaj vmin vpat vpre]);
  repeat (match goal with |- context [N.eqb ?m 0] => destruct (N.eqb_spec m 0); [subst|] end; cbn [negb andb orb]);
  cbn [forallb fst snd vmaj vmin vpat vpre];
  try (destruct vp as [|j vp]; cbn [pre_cmp]);
  try (destruct (pre_cmp _ _)); try (destruct (lex_cmp _ _ _));
  crush_pre.
Qed.

Lemma compatible_names c v : pre_is_compatible c v = true ->
  match cpre c with [] => false | _ => true end = true.
Proof. unfold pre_is_compatible. rewrite !andb_true_iff. tauto. Qed.

(* requirement level: with full comparators meson accepts every version — release or
   pre-release — that Cargo's matcher accepts *)
Theorem cargo_implies_meson req v :
  forallb wf_comparator req = true -> forallb is_full req = true ->
  cargo_matches req v = true -> meson_matches req v = true.
Proof.
  unfold cargo_matches, meson_matches. rewrite !andb_true_iff. intros Hwf Hfull [Hall Hgate]. split.
  - rewrite forallb_forall in *. intros c Hc. apply cargo_comp_implies_meson; auto.
  - apply orb_true_iff in Hgate. apply orb_true_iff. destruct Hgate as [Hr|He]; [left; exact Hr | right].
    unfold names_prerelease. apply existsb_exists in He. destruct He as (c & Hc & Hp).
    apply existsb_exists. exists c. split; [exact Hc | apply (compatible_names c v Hp)].
Qed.

(* ... and the two rules are different on pre-release versions, in both directions *)
Definition r_ge_alpha : list comparator := [mkC OGe 1 (Some 0) (Some 0) [Alnum (s2l "alpha")]].
Definition v_2beta : version := mkV 2 0 0 [Alnum (s2l "beta")].
Definition r_caret_partial : list comparator :=
  [mkC OCaret 1 (Some 2) None []; mkC OGe 1 (Some 2) (Some 0) [Alnum (s2l "alpha")]].
Definition v_120alpha : version := mkV 1 2 0 [Alnum (s2l "alpha")].

(* ">=1.0.0-alpha" accepts 2.0.0-beta in meson, not in Cargo (no comparator with the
   same major.minor.patch names a pre-release) — full comparators *)
Theorem meson_not_cargo_on_prerelease : exists req v,
  forallb wf_comparator req = true /\ forallb is_full req = true /\
  meson_matches req v = true /\ cargo_matches req v = false /\
  req_matches (s2l ">=1.0.0-alpha") (s2l "2.0.0-beta") = true.
Proof. exists r_ge_alpha, v_2beta. vm_compute. repeat split; reflexivity. Qed.

(* "^1.2, >=1.2.0-alpha" accepts 1.2.0-alpha in Cargo (matches_caret ignores the
   pre-release of a version whose minor is high enough), not in meson (1.2.0-alpha is
   below the bound 1.2.0) — so the inclusion above needs full comparators *)
Theorem cargo_not_meson_on_prerelease : exists req v,
  forallb wf_comparator req = true /\
  cargo_matches req v = true /\ meson_matches req v = false /\
  req_matches (s2l "^1.2, >=1.2.0-alpha") (s2l "1.2.0-alpha") = false.
Proof. exists r_caret_partial, v_120alpha. vm_compute. repeat split; reflexivity. Qed.
