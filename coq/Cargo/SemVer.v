(* Cargo/SemVer.v — executable model of mesonbuild/cargo/version.py:69-192
   (_SEMVER_TOK_RE, class SemVer: __init__, has_prerelease, the rich comparisons,
   __cmp, next_ver).  The model is of the code WITH pending/C20-numeric-first-prerelease.diff
   applied (a numeric identifier lexed together with the leading '-' is stored as an
   int); everything else is the code as it is.  No proofs in this file. *)
From MV Require Export Base.Strs.
Open Scope N_scope.

(* version.py:82-84  the flat list  [major, minor, patch, 0 | -1, *pre_idents]
   holds Python ints and strs. *)
Inductive item := IInt (z : Z) | IStr (s : str).
Definition vec := list item.

(* ------------------------------------------------------------------ *)
(* version.py:72  _SEMVER_TOK_RE has three alternatives, tried in this order:
   a digit run \d+ ; an identifier [A-Za-z-][0-9A-Za-z-]* ; a '+' followed by anything.
   re.finditer: leftmost match, alternatives in order, greedy runs; characters that
   start no alternative are skipped.  The third alternative makes the caller
   `break`, so the token stream simply ends there (version.py:118-119). *)
Inductive tok := TD (ds : str) | TI (s : str).
Inductive tst := QNone | QDig (racc : str) | QId (racc : str).

Definition c_minus : char := 45.
Definition c_plus : char := 43.
Definition c_dot : char := 46.
Definition is_idstart (c : char) : bool := is_alpha c || (c =? c_minus).
Definition is_idchar (c : char) : bool := is_alnum c || (c =? c_minus).

Definition tflush (st : tst) : list tok :=
  match st with
  | QNone => []
  | QDig r => [TD (rev r)]
  | QId r => [TI (rev r)]
  end.

(* what a character does when no match is in progress: Some st = a new match
   starts (or the character is skipped, st = QNone); None = the '+' alternative *)
Definition tfresh (c : char) : option tst :=
  if is_digit c then Some (QDig [c])
  else if is_idstart c then Some (QId [c])
  else if c =? c_plus then None
  else Some QNone.

(* one character: (tokens completed here, next state or stop) *)
Definition tstep (st : tst) (c : char) : list tok * option tst :=
  match st with
  | QNone => ([], tfresh c)
  | QDig a => if is_digit c then ([], Some (QDig (c :: a))) else (tflush st, tfresh c)
  | QId a => if is_idchar c then ([], Some (QId (c :: a))) else (tflush st, tfresh c)
  end.

Fixpoint toks (s : str) (st : tst) : list tok :=
  match s with
  | [] => tflush st
  | c :: r =>
      let '(out, nst) := tstep st c in
      out ++ match nst with Some q => toks r q | None => [] end
  end.

Definition tokens (s : str) : list tok := toks s QNone.

(* ------------------------------------------------------------------ *)
(* SemVer.__init__(str) : version.py:95-128 *)

(* str.isdigit() on an identifier (ASCII by construction of the regex) *)
Definition is_digits (s : str) : bool :=
  match s with [] => false | _ => forallb is_digit s end.

Definition int_of (ds : str) : Z := Z.of_N (digits_val ds).

(* version.py:117 (patched): vec.append(int(ident) if ident.isdigit() else ident) *)
Definition ident_item (s : str) : item :=
  if is_digits s then IInt (int_of s) else IStr s.

(* after `pre = True` every token appends exactly one element (version.py:100-102,117) *)
Definition pre_item (t : tok) : item :=
  match t with
  | TD ds => IInt (int_of ds)
  | TI s => ident_item s
  end.

(* version.py:113-114  while len(vec) < 3: vec.append(0) *)
Definition pad_to (n : nat) (v : vec) : vec := v ++ repeat (IInt 0) (n - length v).

Record semver := mkSemVer { sv_v : vec; sv_count : nat }.

(* the loop while pre = False; [v] is vec, [count] is specified_count *)
Fixpoint sv_loop (ts : list tok) (v : vec) (count : nat) : vec * nat :=
  match ts with
  | [] => (v, count)
  | TD ds :: r =>
      (* version.py:100-104 *)
      if (count <? 3)%nat then sv_loop r (v ++ [IInt (int_of ds)]) (S count)
      else sv_loop r v count
  | TI id :: r =>
      (* version.py:105-117 *)
      let dash := prefixb [c_minus] id in
      let id' := if dash then drop 1 id else id in
      match id' with
      | [] => if dash then sv_loop r v count            (* `continue` *)
              else (pad_to 3 v ++ IInt (-1) :: ident_item id' :: map pre_item r, count)
      | _ => (pad_to 3 v ++ IInt (-1) :: ident_item id' :: map pre_item r, count)
      end
  end.

Definition semver_of_str (s : str) : semver :=
  let '(v, count) := sv_loop (tokens s) [] 0 in
  mkSemVer (pad_to 4 v) count.                       (* version.py:125-126 *)

(* SemVer(list) : version.py:120-128 *)
Definition semver_of_list (l : vec) : semver :=
  mkSemVer (pad_to 4 l) (Nat.min 3 (length l)).

(* version.py:136-138 *)
Definition item_is_m1 (i : item) : bool :=
  match i with IInt z => Z.eqb z (-1) | IStr _ => false end.
Definition has_prerelease (s : semver) : bool :=
  match nth_error (sv_v s) 3 with Some i => item_is_m1 i | None => false end.

(* ------------------------------------------------------------------ *)
(* __cmp : version.py:170-180.  `comparator` is one of operator.lt/gt/le/ge and is
   applied to two bools, two ints, two strs, or two lengths. *)
Inductive cmpk := KLt | KGt | KLe | KGe.

Definition k_of (k : cmpk) (c : comparison) : bool :=
  match k, c with
  | KLt, Lt => true | KLt, _ => false
  | KGt, Gt => true | KGt, _ => false
  | KLe, Gt => false | KLe, _ => true
  | KGe, Lt => false | KGe, _ => true
  end.
Definition k_bool (k : cmpk) (a b : bool) : bool :=
  k_of k (match a, b with false, true => Lt | true, false => Gt | _, _ => Eq end).
Definition k_Z (k : cmpk) (a b : Z) : bool := k_of k (Z.compare a b).
Definition k_str (k : cmpk) (a b : str) : bool := k_of k (str_cmp a b).
Definition k_nat (k : cmpk) (a b : nat) : bool := k_of k (Nat.compare a b).

(* the zip loop; [la], [lb] are len(self._v), len(other) *)
Fixpoint cmp_loop (k : cmpk) (a b : vec) (la lb : nat) : bool :=
  match a, b with
  | x :: a', y :: b' =>
      match x, y with
      | IInt p, IInt q => if Z.eqb p q then cmp_loop k a' b' la lb else k_Z k p q
      | IStr p, IStr q => if str_eqb p q then cmp_loop k a' b' la lb else k_str k p q
      (* ours int, theirs str: comparator(theirs_is_int, ours_is_int) = comparator(False, True) *)
      | IInt _, IStr _ => k_bool k false true
      | IStr _, IInt _ => k_bool k true false
      end
  | _, _ => k_nat k la lb
  end.
Definition sv_cmp (k : cmpk) (a b : vec) : bool := cmp_loop k a b (length a) (length b).

(* __eq__/__ne__ : Python list equality of _v (an int never equals a str) *)
Definition item_eqb (a b : item) : bool :=
  match a, b with
  | IInt p, IInt q => Z.eqb p q
  | IStr p, IStr q => str_eqb p q
  | _, _ => false
  end.
Fixpoint vec_eqb (a b : vec) : bool :=
  match a, b with
  | [], [] => true
  | x :: a', y :: b' => item_eqb x y && vec_eqb a' b'
  | _, _ => false
  end.

(* the operators cargo_parse puts into its constraint list *)
Inductive bop := BLt | BLe | BGt | BGe | BEq | BNe.
Definition bop_apply (o : bop) (a b : vec) : bool :=
  match o with
  | BLt => sv_cmp KLt a b
  | BLe => sv_cmp KLe a b
  | BGt => sv_cmp KGt a b
  | BGe => sv_cmp KGe a b
  | BEq => vec_eqb a b
  | BNe => negb (vec_eqb a b)
  end.

(* ------------------------------------------------------------------ *)
(* next_ver : version.py:182-192.  bump_idx is 0, 1, 2 — or -1 when
   specified_count = 0 (`<=` with no number), where Python's v[-1] bumps the patch
   and range(0, 3) then zeroes all three. *)
Definition next_ver (s : semver) (bump_idx : Z) : semver :=
  match firstn 3 (sv_v s) with
  | [IInt a; IInt b; IInt c] =>
      semver_of_list
        (if Z.eqb bump_idx 0 then [IInt (a + 1); IInt 0; IInt 0]
         else if Z.eqb bump_idx 1 then [IInt a; IInt (b + 1); IInt 0]
         else if Z.eqb bump_idx 2 then [IInt a; IInt b; IInt (c + 1)]
         else [IInt 0; IInt 0; IInt 0])
  | _ => mkSemVer [IStr [63]] 0      (* `assert isinstance(last, int)`: not reachable *)
  end.

(* list.sort(reverse=True, key=SemVer) : manifest.py:739 — stable, uses __lt__ only *)
Fixpoint insert_desc (x : str * vec) (l : list (str * vec)) : list (str * vec) :=
  match l with
  | [] => [x]
  | y :: r => if sv_cmp KLt (snd x) (snd y) then y :: insert_desc x r else x :: l
  end.
Definition sort_desc (l : list str) : list str :=
  map fst (fold_right insert_desc [] (map (fun s => (s, sv_v (semver_of_str s))) l)).
