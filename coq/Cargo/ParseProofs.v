(* Cargo/ParseProofs.v — SemVer(text) of a printed version / partial version is the
   vector of the structured object, hence the implementation's order is the SemVer
   section 11 precedence (under the guard of the recorded finding), with the refuting
   witness for the unguarded statement. *)
From MV Require Import Base.Strs Base.LexFacts Cargo.SemVer Cargo.Req Cargo.Cfg Cargo.Spec
                       Cargo.SemVerProofs Cargo.ReqProofs.
From Coq Require Import Lia.
Open Scope N_scope.

(* ------------------------------------------------------------------ *)
(* character classes *)
Lemma idstart_not_digit c : is_idstart c = true -> is_digit c = false.
Proof.
  unfold is_idstart, is_alpha, is_lower, is_upper, is_digit, c_minus.
  rewrite !orb_true_iff, !andb_true_iff, !N.leb_le, N.eqb_eq. intro H.
  apply andb_false_iff. rewrite !N.leb_gt. lia.
Qed.
Lemma idstart_idchar c : is_idstart c = true -> SemVer.is_idchar c = true.
Proof.
  unfold is_idstart, SemVer.is_idchar, is_alnum. rewrite !orb_true_iff. tauto.
Qed.
Lemma digit_idchar c : is_digit c = true -> SemVer.is_idchar c = true.
Proof. unfold SemVer.is_idchar, is_alnum. intros ->. rewrite orb_true_r. reflexivity. Qed.
Lemma idchar_nondigit_idstart c : SemVer.is_idchar c = true -> is_digit c = false -> is_idstart c = true.
Proof.
  unfold is_idstart, SemVer.is_idchar, is_alnum. intros H D. rewrite D, orb_false_r in H. exact H.
Qed.

(* ------------------------------------------------------------------ *)
(* the tokenizer on runs *)
Definition stops_dig (rest : str) : Prop :=
  match rest with [] => True | c :: _ => is_digit c = false end.
Definition stops_id (rest : str) : Prop :=
  match rest with [] => True | c :: _ => SemVer.is_idchar c = false end.

Lemma toks_flush_dig acc rest : stops_dig rest ->
  toks rest (QDig acc) = TD (rev acc) :: toks rest QNone.
Proof.
  destruct rest as [|c r]; intro H; [reflexivity|].
  simpl in H. cbn [toks tstep]. rewrite H. reflexivity.
Qed.
Lemma toks_flush_id acc rest : stops_id rest ->
  toks rest (QId acc) = TI (rev acc) :: toks rest QNone.
Proof.
  destruct rest as [|c r]; intro H; [reflexivity|].
  simpl in H. cbn [toks tstep]. rewrite H. reflexivity.
Qed.
Lemma toks_dig_run ds : forallb is_digit ds = true -> forall acc rest, stops_dig rest ->
  toks (ds ++ rest) (QDig acc) = TD (rev acc ++ ds) :: toks rest QNone.
Proof.
  induction ds as [|d ds IH]; intros H acc rest Hr.
  - rewrite app_nil_r. apply toks_flush_dig. exact Hr.
  - cbn [forallb] in H. apply andb_true_iff in H. destruct H as [Hd Hds].
    cbn [app toks tstep]. rewrite Hd. cbn [app]. rewrite IH by assumption.
    simpl rev. rewrite <- app_assoc. reflexivity.
Qed.
Lemma toks_id_run s : forallb SemVer.is_idchar s = true -> forall acc rest, stops_id rest ->
  toks (s ++ rest) (QId acc) = TI (rev acc ++ s) :: toks rest QNone.
Proof.
  induction s as [|d s IH]; intros H acc rest Hr.
  - rewrite app_nil_r. apply toks_flush_id. exact Hr.
  - cbn [forallb] in H. apply andb_true_iff in H. destruct H as [Hd Hs].
    cbn [app toks tstep]. rewrite Hd. cbn [app]. rewrite IH by assumption.
    simpl rev. rewrite <- app_assoc. reflexivity.
Qed.

Lemma toks_digits ds rest : SemVer.is_digits ds = true -> stops_dig rest ->
  toks (ds ++ rest) QNone = TD ds :: toks rest QNone.
Proof.
  destruct ds as [|d ds]; [discriminate|]. intros H Hr.
  cbn [SemVer.is_digits forallb] in H. apply andb_true_iff in H. destruct H as [Hd Hds].
  cbn [app toks tstep]. unfold tfresh. rewrite Hd. cbn [app]. rewrite toks_dig_run by assumption. reflexivity.
Qed.
Lemma toks_ident c s rest : is_idstart c = true -> forallb SemVer.is_idchar s = true -> stops_id rest ->
  toks (c :: s ++ rest) QNone = TI (c :: s) :: toks rest QNone.
Proof.
  intros Hc Hs Hr. cbn [toks tstep]. unfold tfresh. rewrite (idstart_not_digit c Hc), Hc. cbn [app].
  rewrite toks_id_run by assumption. reflexivity.
Qed.
Lemma toks_dot r : toks (46 :: r) QNone = toks r QNone.
Proof. reflexivity. Qed.
Lemma toks_plus r : toks (43 :: r) QNone = [].
Proof. reflexivity. Qed.

(* ------------------------------------------------------------------ *)
(* the pre-release and build parts *)
Definition tok_of (i : pident) : tok := match i with PNum ds => TD ds | PAlnum s => TI s end.
Definition dotted (l : list pident) : str := concat (map (fun i => 46 :: pr_ident i) l).

Lemma join_dotted i l : join [46] (map pr_ident (i :: l)) = pr_ident i ++ dotted l.
Proof.
  revert i. induction l as [|j l IH]; intro i.
  - simpl. rewrite app_nil_r. reflexivity.
  - change (map pr_ident (i :: j :: l)) with (pr_ident i :: map pr_ident (j :: l)).
    change (join [46] (pr_ident i :: map pr_ident (j :: l)))
      with (pr_ident i ++ [46] ++ join [46] (map pr_ident (j :: l))).
    rewrite IH. reflexivity.
Qed.

Lemma tail_stops l b : stops_dig (dotted l ++ pr_build b) /\ stops_id (dotted l ++ pr_build b).
Proof. destruct l; [destruct b|]; simpl; auto. Qed.

Lemma all_digit_idchar l : forallb is_digit l = true -> forallb SemVer.is_idchar l = true.
Proof.
  induction l as [|x l IH]; [reflexivity|]. cbn [forallb]. rewrite !andb_true_iff.
  intros [H1 H2]. split; [apply digit_idchar; exact H1 | apply IH; exact H2].
Qed.
Lemma wf_ident_chars i : wf_ident i = true -> forallb SemVer.is_idchar (pr_ident i) = true /\ pr_ident i <> [].
Proof.
  destruct i as [ds|s]; cbn [wf_ident pr_ident].
  - destruct ds as [|d ds]; [discriminate|]. cbn [Spec.is_digits]. intro H. split; [|discriminate].
    apply all_digit_idchar. exact H.
  - destruct s as [|c s]; [discriminate|]. rewrite andb_true_iff. intros [H _]. split; [exact H | discriminate].
Qed.

Lemma toks_dotted l b : forallb wf_ident l = true -> forallb starts_nondigit l = true ->
  toks (dotted l ++ pr_build b) QNone = map tok_of l.
Proof.
  induction l as [|i l IH]; intros Hw Hs.
  - destruct b; reflexivity.
  - simpl in Hw, Hs. apply andb_true_iff in Hw. destruct Hw as [Hwi Hwl].
    apply andb_true_iff in Hs. destruct Hs as [Hsi Hsl].
    change (dotted (i :: l)) with ((46 :: pr_ident i) ++ dotted l).
    rewrite <- app_assoc. cbn [app]. rewrite toks_dot.
    destruct (tail_stops l b) as [Td Ti].
    destruct i as [ds|s].
    + simpl pr_ident. rewrite toks_digits; [| exact Hwi | exact Td]. cbn [map tok_of]. f_equal. apply IH; assumption.
    + destruct (wf_ident_chars _ Hwi) as [Hc Hne]. simpl pr_ident in *.
      destruct s as [|c s]; [congruence|]. simpl in Hsi. apply negb_true_iff in Hsi.
      simpl in Hc. apply andb_true_iff in Hc. destruct Hc as [Hc1 Hc2].
      cbn [app]. rewrite toks_ident; [| apply idchar_nondigit_idstart; assumption | exact Hc2 | exact Ti].
      cbn [map tok_of]. f_equal. apply IH; assumption.
Qed.

(* tokens of "-id1.id2...+build" *)
Lemma toks_pre i l b : wf_pre (i :: l) = true ->
  toks (pr_pre (i :: l) ++ pr_build b) QNone = TI (45 :: pr_ident i) :: map tok_of l.
Proof.
  unfold wf_pre. rewrite andb_true_iff. intros [Hw Hs]. simpl tl in Hs.
  simpl forallb in Hw. apply andb_true_iff in Hw. destruct Hw as [Hwi Hwl].
  unfold pr_pre. rewrite join_dotted. cbn [app]. rewrite <- app_assoc.
  destruct (wf_ident_chars _ Hwi) as [Hc _]. destruct (tail_stops l b) as [_ Ti].
  rewrite toks_ident; [| reflexivity | exact Hc | exact Ti].
  rewrite toks_dotted by assumption. reflexivity.
Qed.

Lemma pre_build_stops pre b : stops_dig (pr_pre pre ++ pr_build b).
Proof. destruct pre; [destruct b|]; simpl; auto. Qed.

(* tokens of "n1.n2...nk" followed by a tail that does not continue the last number *)
Lemma toks_nums ds T : forallb SemVer.is_digits ds = true -> ds <> [] -> stops_dig T ->
  toks (join [46] ds ++ T) QNone = map TD ds ++ toks T QNone.
Proof.
  induction ds as [|d ds IH]; intros H Hne HT; [congruence|].
  simpl in H. apply andb_true_iff in H. destruct H as [Hd Hds].
  destruct ds as [|e ds].
  - simpl. apply toks_digits; assumption.
  - change (join [46] (d :: e :: ds)) with (d ++ [46] ++ join [46] (e :: ds)).
    rewrite <- !app_assoc. rewrite toks_digits; [| exact Hd | reflexivity].
    cbn [app]. rewrite toks_dot. change (map TD (d :: e :: ds) ++ toks T QNone) with (TD d :: (map TD (e :: ds) ++ toks T QNone)).
    f_equal. apply IH; [exact Hds | discriminate | exact HT].
Qed.

(* ------------------------------------------------------------------ *)
(* SemVer.__init__ on those tokens *)
Definition num_item (ds : str) : item := IInt (int_of ds).

Lemma sv_loop_nums ds tl : (length ds <= 3)%nat ->
  sv_loop (map TD ds ++ tl) [] 0 = sv_loop tl (map num_item ds) (length ds).
Proof.
  intro H. destruct ds as [|a [|b [|c [|d ds]]]]; try reflexivity. simpl in H. lia.
Qed.

Lemma ident_item_of i : wf_ident i = true -> ident_item (pr_ident i) = item_of (ident_of i).
Proof.
  destruct i as [ds|s]; simpl; unfold ident_item.
  - intro H. change (SemVer.is_digits ds) with (Spec.is_digits ds). rewrite H. reflexivity.
  - destruct s as [|c s]; [discriminate|]. rewrite andb_true_iff, negb_true_iff. intros [_ H].
    unfold SemVer.is_digits. rewrite H. reflexivity.
Qed.
Lemma pre_item_of i : wf_ident i = true -> pre_item (tok_of i) = item_of (ident_of i).
Proof.
  destruct i as [ds|s]; intro H; [reflexivity|]. apply (ident_item_of (PAlnum s) H).
Qed.
Lemma map_pre_item l : forallb wf_ident l = true ->
  map pre_item (map tok_of l) = map item_of (map ident_of l).
Proof.
  induction l as [|i l IH]; intro H; [reflexivity|].
  simpl in H. apply andb_true_iff in H. destruct H as [H1 H2].
  simpl. rewrite pre_item_of, IH by assumption. reflexivity.
Qed.

Lemma pad_to_ge n v : (n <= length v)%nat -> pad_to n v = v.
Proof.
  intro H. unfold pad_to. replace (n - length v)%nat with 0%nat by lia. simpl. apply app_nil_r.
Qed.

(* SemVer("n1[.n2[.n3]][-pre][+build]") *)
Definition text_vec (ds : list str) (pre : list pident) : vec :=
  match pre with
  | [] => pad_to 4 (map num_item ds)
  | _ => pad_to 3 (map num_item ds) ++ IInt (-1) :: map item_of (map ident_of pre)
  end.
Lemma semver_of_text ds pre b :
  (length ds <= 3)%nat -> ds <> [] -> forallb SemVer.is_digits ds = true -> wf_pre pre = true ->
  semver_of_str (join [46] ds ++ pr_pre pre ++ pr_build b) = mkSemVer (text_vec ds pre) (length ds).
Proof.
  intros Hlen Hne Hds Hpre. unfold semver_of_str, tokens.
  rewrite toks_nums; [| exact Hds | exact Hne | apply pre_build_stops].
  rewrite sv_loop_nums by exact Hlen.
  destruct pre as [|i l].
  - simpl pr_pre. cbn [app]. assert (T : toks (pr_build b) QNone = []) by (destruct b; reflexivity).
    rewrite T. reflexivity.
  - rewrite toks_pre by exact Hpre.
    unfold wf_pre in Hpre. apply andb_true_iff in Hpre. destruct Hpre as [Hw _].
    cbn [forallb] in Hw. apply andb_true_iff in Hw. destruct Hw as [Hwi Hwl].
    destruct (wf_ident_chars _ Hwi) as [_ Hne'].
    cbn [sv_loop prefixb].
    change (c_minus =? 45) with true. cbn [andb drop].
    destruct (pr_ident i) as [|c s] eqn:Ei; [congruence|]. rewrite <- Ei.
    rewrite ident_item_of, map_pre_item by assumption.
    unfold text_vec. cbn [map].
    rewrite (pad_to_ge 4); [reflexivity|].
    rewrite app_length. unfold pad_to. rewrite app_length, repeat_length. cbn [length]. lia.
Qed.

(* SemVer("M.m.p[-pre][+build]") *)
Theorem semver_of_printed p : wf_pversion p = true ->
  semver_of_str (pr_version p) = mkSemVer (vvec (version_of p)) 3.
Proof.
  unfold wf_pversion. rewrite !andb_true_iff. intros (((Hmaj & Hmin) & Hpat) & Hpre).
  assert (E : pr_version p = join [46] [pmaj p; pmin p; ppat p] ++ (pr_pre (ppre p) ++ pr_build (pbuild p))).
  { unfold pr_version. simpl join. repeat (rewrite <- app_assoc || rewrite <- app_comm_cons). reflexivity. }
  rewrite E. rewrite semver_of_text; [| simpl; lia | discriminate
    | cbn [forallb]; change SemVer.is_digits with Spec.is_digits; rewrite Hmaj, Hmin, Hpat; reflexivity | exact Hpre].
  unfold text_vec, vvec, version_of. cbn [vmaj vmin vpat vpre map length].
  destruct (ppre p) as [|i l]; reflexivity.
Qed.

(* ------------------------------------------------------------------ *)
(* comparison of the vectors = SemVer section 11 precedence *)

Lemma item_cmp_ident a b : item_cmp (item_of a) (item_of b) = ident_cmp a b.
Proof.
  destruct a as [x|x], b as [y|y]; simpl; try reflexivity.
  apply N2Z.inj_compare.
Qed.
Lemma lex_item_ident p q :
  lex_cmp item_cmp (map item_of p) (map item_of q) = lex_cmp ident_cmp p q.
Proof.
  revert q; induction p as [|a p IH]; intros [|b q]; simpl; try reflexivity.
  rewrite item_cmp_ident. destruct (ident_cmp a b); auto.
Qed.

Theorem vcmp_prec v w : vcmp (vvec v) (vvec w) = prec_cmp v w.
Proof.
  destruct v as [a b c p], w as [x y z q]. unfold vcmp, vvec, prec_cmp.
  cbn [vmaj vmin vpat vpre lex_cmp item_cmp].
  rewrite !N2Z.inj_compare.
  destruct (a ?= x); try reflexivity.
  destruct (b ?= y); try reflexivity.
  destruct (c ?= z); try reflexivity.
  destruct p as [|i p], q as [|j q]; try reflexivity.
  cbn [lex_cmp item_cmp Z.compare Pos.compare Pos.compare_cont CompOpp].
  change (i :: p) with ([i] ++ p). change (j :: q) with ([j] ++ q).
  cbn [app]. unfold pre_cmp.
  rewrite <- (lex_item_ident (i :: p) (j :: q)). reflexivity.
Qed.

(* ------------------------------------------------------------------ *)
(* Versions order per SemVer section 11 *)

Definition V (s : str) : vec := sv_v (semver_of_str s).

Theorem semver_order_printed o p q : wf_pversion p = true -> wf_pversion q = true ->
  bop_apply o (V (pr_version p)) (V (pr_version q)) = b_of o (prec_cmp (version_of p) (version_of q)).
Proof.
  intros Hp Hq. unfold V. rewrite (semver_of_printed p Hp), (semver_of_printed q Hq).
  cbn [sv_v]. rewrite bop_apply_vcmp, vcmp_prec. reflexivity.
Qed.

(* every SemVer-valid version, without the guard on identifiers after a '.' *)
Definition valid_pversion (p : pversion) : bool :=
  Spec.is_digits (pmaj p) && Spec.is_digits (pmin p) && Spec.is_digits (ppat p) && forallb wf_ident (ppre p).

Definition w_1b : pversion := mkPV [49] [48] [48] [PAlnum (s2l "alpha"); PAlnum (s2l "1b")] None.
Definition w_2 : pversion := mkPV [49] [48] [48] [PAlnum (s2l "alpha"); PNum [50]] None.

(* 1.0.0-alpha.1b against 1.0.0-alpha.2: section 11.4.3 puts the numeric identifier
   below the alphanumeric one, the implementation answers the opposite *)
Theorem semver_order_refuted : exists p q,
  valid_pversion p = true /\ valid_pversion q = true /\
  bop_apply BLt (V (pr_version p)) (V (pr_version q)) <> b_of BLt (prec_cmp (version_of p) (version_of q)).
Proof. exists w_1b, w_2. vm_compute. repeat split; discriminate. Qed.

(* the guard is satisfiable by a non-trivial version: 1.2.30-rc.1.x-y.-z+build.7 *)
Example wf_pversion_example :
  wf_pversion (mkPV [49] [50] [51; 48]
                 [PAlnum (s2l "rc"); PNum [49]; PAlnum (s2l "x-y"); PAlnum (s2l "-z")] (Some (s2l "build.7"))) = true.
Proof. reflexivity. Qed.

(* build metadata is ignored *)
Theorem build_metadata_ignored p b : wf_pversion p = true ->
  semver_of_str (pr_version (mkPV (pmaj p) (pmin p) (ppat p) (ppre p) b)) = semver_of_str (pr_version p).
Proof.
  intro H. rewrite (semver_of_printed p H). rewrite semver_of_printed; [reflexivity | exact H].
Qed.

(* a pre-release is below its release *)
Theorem prerelease_below_release p : wf_pversion p = true -> ppre p <> [] ->
  bop_apply BLt (V (pr_version p)) (V (pr_version (mkPV (pmaj p) (pmin p) (ppat p) [] (pbuild p)))) = true.
Proof.
  intros H Hne.
  assert (H' : wf_pversion (mkPV (pmaj p) (pmin p) (ppat p) [] (pbuild p)) = true).
  { unfold wf_pversion in *. cbn [pmaj pmin ppat ppre] in *. rewrite !andb_true_iff in *.
    destruct H as (((A & B) & C) & _). repeat split; assumption. }
  rewrite (semver_order_printed BLt _ _ H H'). unfold prec_cmp, version_of. cbn [vmaj vmin vpat vpre pmaj pmin ppat ppre map].
  rewrite !N.compare_refl. destruct (ppre p); [congruence | reflexivity].
Qed.
