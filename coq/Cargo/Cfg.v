(* Cargo/Cfg.v — executable model of mesonbuild/cargo/cfg.py:51-217
   (lexer, _parse with one token of lookahead, parse, _eval_cfg, eval_cfg).
   No proofs in this file. *)
From MV Require Export Base.Strs.
Open Scope N_scope.

(* cfg.py:38-48 TokenType (+ the str payload of STRING / IDENTIFIER) *)
Inductive ctok :=
  CLP | CRP | CStr (s : str) | CId (s : str) | CAll | CAny | CNot | CComma | CEqual.

Definition c_lp : char := 40. Definition c_rp : char := 41.
Definition c_comma : char := 44. Definition c_eq : char := 61. Definition c_quote : char := 34.

(* cfg.py:60  s.isspace() or s is one of the five characters ) ( , = and the double quote *)
Definition is_cfg_sep (c : char) : bool :=
  is_space c || (c =? c_rp) || (c =? c_lp) || (c =? c_comma) || (c =? c_eq) || (c =? c_quote).

(* cfg.py:67-74 *)
Definition word_tok (val : str) : list ctok :=
  if str_eqb val (s2l "any") then [CAny]
  else if str_eqb val (s2l "all") then [CAll]
  else if str_eqb val (s2l "not") then [CNot]
  else match val with [] => [] | _ => [CId val] end.

(* cfg.py:76-85 *)
Definition sep_tok (c : char) : list ctok :=
  if c =? c_lp then [CLP]
  else if c =? c_rp then [CRP]
  else if c =? c_comma then [CComma]
  else if c =? c_eq then [CEqual]
  else [].

(* cfg.py:57-89 with pending/C20-cfg-string-lexing.diff applied (inside a string only
   the closing quote is looked at; an unterminated string raises MesonException).
   [racc] = raw[start:i] reversed.  None = MesonException raised by the generator; it
   surfaces in parse() because the lookahead wrapper has always pulled the lexer one
   token ahead of the parser, and parse() never succeeds before the stream ends. *)
Fixpoint lex (s : str) (racc : str) (is_string : bool) : option (list ctok) :=
  match s with
  | [] => if is_string then None
          else Some (match racc with [] => [] | _ => [CId (rev racc)] end)
  | c :: r =>
      if is_string && negb (c =? c_quote) then lex r (c :: racc) is_string
      else if is_cfg_sep c then
        if (c =? c_quote) && is_string then
          match lex r [] false with Some l => Some (CStr (rev racc) :: l) | None => None end
        else
          match lex r [] (if c =? c_quote then true else is_string) with
          | Some l => Some (word_tok (rev racc) ++ sep_tok c ++ l)
          | None => None
          end
      else lex r (c :: racc) is_string
  end.
Definition lexer (raw : str) : option (list ctok) := lex raw [] false.

(* cfg.py:92-132 the IR *)
Inductive ir :=
  | Ident (name : str)
  | Equal (name value : str)
  | IAny (args : list ir)
  | IAll (args : list ir)
  | INot (e : ir).

(* result of _parse: the node and the rest of the stream; PErr = MesonException
   (both the explicit raises and the StopIteration that parse() converts);
   PFuel = the model ran out of fuel (proved unreachable in Proofs.v). *)
Inductive pres := POk (e : ir) (rest : list ctok) | PErr | PFuel.
Inductive ares := AOk (args : list ir) (rest : list ctok) | AErr | AFuel.

(* cfg.py:135-179 *)
Fixpoint parse_ (fuel : nat) (ts : list ctok) : pres :=
  match fuel with
  | O => PFuel
  | Datatypes.S f =>
      match ts with
      | [] => PErr                                        (* next(ast): StopIteration *)
      | CId v :: r =>
          match r with
          | CEqual :: r2 =>
              match r2 with
              | CStr s :: r3 => POk (Equal v s) r3
              | _ => PErr                                 (* StopIteration / 'expected string' *)
              end
          | _ => POk (Ident v) r
          end
      | CAny :: r =>
          match r with
          | CLP :: CRP :: r2 => POk (IAny []) r2
          | CLP :: r1 =>
              match parse_args f r1 [] with
              | AOk args r2 => POk (IAny args) r2
              | AErr => PErr
              | AFuel => PFuel
              end
          | _ => PErr
          end
      | CAll :: r =>
          match r with
          | CLP :: CRP :: r2 => POk (IAll []) r2
          | CLP :: r1 =>
              match parse_args f r1 [] with
              | AOk args r2 => POk (IAll args) r2
              | AErr => PErr
              | AFuel => PFuel
              end
          | _ => PErr
          end
      | CNot :: r =>
          match r with
          | CLP :: r1 =>
              match parse_ f r1 with
              | POk e (CRP :: r2) => POk (INot e) r2
              | POk _ _ => PErr
              | bad => bad
              end
          | _ => PErr
          end
      | _ => PErr                                         (* 'Unhandled Cargo token' *)
      end
  end
(* cfg.py:164-170 the `while True` loop *)
with parse_args (fuel : nat) (ts : list ctok) (racc : list ir) : ares :=
  match fuel with
  | O => AFuel
  | Datatypes.S f =>
      match parse_ f ts with
      | POk e (CRP :: r) => AOk (rev (e :: racc)) r
      | POk e (CComma :: r) => parse_args f r (e :: racc)
      | POk _ _ => AErr                      (* StopIteration / 'expected ) or ,' *)
      | PErr => AErr
      | PFuel => AFuel
      end
  end.

(* cfg.py:182-196 parse(): Some None = MesonException *)
Inductive result := Ok (b : bool) | MesonErr | OutOfFuel.
Inductive presult := ParseOk (e : ir) | ParseErr | ParseFuel.

Definition parse_fuel (ts : list ctok) : nat := 2 * length ts + 2.

Definition parse (ts : list ctok) : presult :=
  match parse_ (parse_fuel ts) ts with
  | POk e [] => ParseOk e
  | POk _ (_ :: _) => ParseErr                (* 'trailing text after cfg expression' *)
  | PErr => ParseErr
  | PFuel => ParseFuel
  end.

(* the configuration: a Python dict str -> str *)
Definition cfgs := list (str * str).
Fixpoint lookup (k : str) (d : cfgs) : option str :=
  match d with
  | [] => None
  | (k', v) :: r => if str_eqb k k' then Some v else lookup k r
  end.

(* cfg.py:199-211 _eval_cfg *)
Fixpoint eval_ir (e : ir) (d : cfgs) : bool :=
  match e with
  | Ident n => match lookup n d with Some _ => true | None => false end
  | Equal n v => match lookup n d with Some v' => str_eqb v' v | None => false end
  | INot e' => negb (eval_ir e' d)
  | IAny l => existsb (fun x => eval_ir x d) l
  | IAll l => forallb (fun x => eval_ir x d) l
  end.

(* raw[4:-1] *)
Definition slice_4_m1 (raw : str) : str := removelast (drop 4 raw).

(* cfg.py:214-217 eval_cfg *)
Definition eval_cfg (raw : str) (d : cfgs) : result :=
  if prefixb (s2l "cfg(") raw && suffixb [c_rp] raw then
    match lexer (slice_4_m1 raw) with
    | None => MesonErr
    | Some ts =>
        match parse ts with
        | ParseOk e => Ok (eval_ir e d)
        | ParseErr => MesonErr
        | ParseFuel => OutOfFuel
        end
    end
  else Ok false.

(* ------------------------------------------------------------------ *)
(* the caller: Interpreter._get_cfgs / _split_cfg (interpreter.py:701-719): the lines of
   `rustc --print cfg` plus the arguments that follow a --cfg in rust_args are turned
   into the dict eval_cfg receives *)

(* cfg.split('=', maxsplit=1) *)
Fixpoint break_eq (s : str) (racc : str) : str * option str :=
  match s with
  | [] => (rev racc, None)
  | c :: r => if c =? c_eq then (rev racc, Some r) else break_eq r (c :: racc)
  end.
(* _split_cfg *)
Definition split_cfg (s : str) : str * str :=
  match break_eq s [] with
  | (k, None) => (k, [])
  | (k, Some v) =>
      match v with
      | c :: r => if c =? c_quote then (k, removelast r) else (k, v)     (* value[1:-1] *)
      | [] => (k, [])
      end
  end.
(* dict(pairs): a later pair overwrites the value of an earlier one with the same key *)
Fixpoint dict_set (k v : str) (d : cfgs) : cfgs :=
  match d with
  | [] => [(k, v)]
  | (k', v') :: r => if str_eqb k k' then (k', v) :: r else (k', v') :: dict_set k v r
  end.
Definition dict_of (ps : list (str * str)) : cfgs :=
  fold_left (fun d p => dict_set (fst p) (snd p) d) ps [].
(* the --cfg scan; None = next() on the exhausted iterator (StopIteration escapes) *)
Fixpoint cfg_flags (flags : list str) : option (list str) :=
  match flags with
  | [] => Some []
  | f :: r =>
      if str_eqb f (s2l "--cfg") then
        match r with
        | [] => None
        | x :: r' => match cfg_flags r' with Some l => Some (x :: l) | None => None end
        end
      else cfg_flags r
  end.
Definition get_cfgs (lines flags : list str) : option cfgs :=
  match cfg_flags flags with
  | None => None
  | Some extra => Some (dict_of (map split_cfg (lines ++ extra)))
  end.

(* ------------------------------------------------------------------ *)
(* sequences of _get_cfgs calls on ONE interpreter (interpreter.py:701-711).  Two caches
   are involved: RustCompiler.get_cfgs() is lru_cached and hands out the SAME list object
   every time ([g_shared]); _get_cfgs itself is lru_cached per (machine, subproject)
   ([g_cache]; a call that raises is not cached).  _get_cfgs works on a .copy() of the
   shared list, so appending the --cfg flags does not touch it. *)
Record gstate := mkG { g_shared : list str; g_cache : list (str * cfgs) }.

Fixpoint cache_find (k : str) (c : list (str * cfgs)) : option cfgs :=
  match c with
  | [] => None
  | (k', d) :: r => if str_eqb k k' then Some d else cache_find k r
  end.

(* one call _get_cfgs(machine, subproject) with that subproject's rust_args *)
Definition gc_call (st : gstate) (key : str) (flags : list str) : option cfgs * gstate :=
  match cache_find key (g_cache st) with
  | Some d => (Some d, st)
  | None =>
      let cfgs_copy := g_shared st in                       (* rustc.get_cfgs().copy() *)
      match get_cfgs cfgs_copy flags with
      | Some d => (Some d, mkG (g_shared st) ((key, d) :: g_cache st))
      | None => (None, st)
      end
  end.

(* a session: each call evaluates one condition against the configuration it obtained *)
Fixpoint gc_session (st : gstate) (calls : list (str * list str * str)) : list (option result) :=
  match calls with
  | [] => []
  | (key, flags, cond) :: r =>
      let '(d, st') := gc_call st key flags in
      (match d with Some d' => Some (eval_cfg cond d') | None => None end) :: gc_session st' r
  end.

(* ------------------------------------------------------------------ *)
(* the consumer of eval_cfg: Interpreter._prepare_package (interpreter.py:572-601) merges
   the target-specific dependency tables whose condition holds for the machine being
   prepared INTO pkg.manifest.dependencies — one dict per package, shared by the host
   and the build machine — and then requires every non-optional dependency of that
   dict.  Names only; dict.update keeps the position of a key that is already there. *)
Fixpoint dep_merge (acc : list str) (names : list str) : list str :=
  match names with
  | [] => acc
  | n :: r => dep_merge (if str_mem n acc then acc else acc ++ [n]) r
  end.
Record pstate := mkP { p_deps : list str; p_done : list bool }.    (* machines prepared: true = host *)
Definition bool_mem (b : bool) (l : list bool) : bool := existsb (Bool.eqb b) l.

(* targets in manifest order; the result is the list handed to _add_dependency, or None
   when eval_cfg raises (the machine is then marked prepared with a partial merge) *)
Fixpoint merge_targets (targets : list (str * list str)) (d : cfgs) (deps : list str) : list str * bool :=
  match targets with
  | [] => (deps, true)
  | (cond, names) :: r =>
      match eval_cfg cond d with
      | Ok true => merge_targets r d (dep_merge deps names)
      | Ok false => merge_targets r d deps
      | _ => (deps, false)
      end
  end.
Definition prepare_package (targets : list (str * list str)) (cfg_of : bool -> cfgs)
           (st : pstate) (host : bool) : option (list str) * pstate :=
  if bool_mem host (p_done st) then (Some [], st)
  else
    let '(deps, ok) := merge_targets targets (cfg_of host) (p_deps st) in
    let st' := mkP deps (host :: p_done st) in
    (if ok then Some deps else None, st').
Fixpoint prepare_session (targets : list (str * list str)) (cfg_of : bool -> cfgs)
         (st : pstate) (calls : list bool) : list (option (list str)) :=
  match calls with
  | [] => []
  | h :: r => let '(o, st') := prepare_package targets cfg_of st h in
              o :: prepare_session targets cfg_of st' r
  end.
