(* Cargo/Req.v — executable model of mesonbuild/cargo/version.py:26-46 (split) and
   195-263 (cargo_parse and the closure `compare` it returns).  The model is of the
   code WITH pending/C20-le-prerelease.diff (a `<=` bound that names a pre-release is
   kept as `<=`) and pending/C20-empty-req-prerelease-gate.diff (no shortcut around
   the pre-release gate for an empty constraint list) applied.  No proofs here. *)
From MV Require Export Base.Strs Cargo.SemVer.
Open Scope N_scope.

(* str.split(',') *)
Fixpoint split_on_acc (sep : char) (s : str) (racc : str) : list str :=
  match s with
  | [] => [rev racc]
  | c :: r => if c =? sep then rev racc :: split_on_acc sep r [] else split_on_acc sep r (c :: racc)
  end.
Definition split_on (sep : char) (s : str) : list str := split_on_acc sep s [].

Definition c_comma : char := 44.
Definition c_star : char := 42.
Definition c_tilde : char := 126.
Definition c_caret : char := 94.
Definition c_lt : char := 60. Definition c_eq : char := 61.
Definition c_gt : char := 62. Definition c_bang : char := 33.

(* the operator strings split() yields *)
Inductive rop := RGe | RLe | RNe | RTilde | REq | RCaret | RGt | RLt.

(* ver[:-2] *)
Definition drop_last2 (s : str) : str := firstn (length s - 2) s.

(* version.py:32-46, one comma-separated piece (already stripped); None = `continue` *)
Definition split_one (ver : str) : option (rop * str) :=
  if str_eqb ver [c_star] then None
  else if prefixb [c_gt; c_eq] ver then Some (RGe, lstrip (drop 2 ver))
  else if prefixb [c_lt; c_eq] ver then Some (RLe, lstrip (drop 2 ver))
  else if prefixb [c_bang; c_eq] ver then Some (RNe, lstrip (drop 2 ver))
  else if prefixb [c_tilde] ver then Some (RTilde, lstrip (drop 1 ver))
  else if prefixb [c_eq] ver then Some (REq, lstrip (drop 1 ver))
  else if prefixb [c_caret] ver then Some (RCaret, lstrip (drop 1 ver))
  else if prefixb [c_gt] ver then Some (RGt, lstrip (drop 1 ver))
  else if prefixb [c_lt] ver then Some (RLt, lstrip (drop 1 ver))
  else if suffixb [c_dot; c_star] ver then Some (RTilde, lstrip (drop_last2 ver))
  else Some (RCaret, ver).

Fixpoint split_pieces (l : list str) : list (rop * str) :=
  match l with
  | [] => []
  | p :: r => match split_one (strip p) with
              | Some x => x :: split_pieces r
              | None => split_pieces r
              end
  end.

(* version.py:26-46 *)
Definition req_split (cargo_ver : str) : list (rop * str) :=
  match strip cargo_ver with
  | [] => []
  | s => split_pieces (split_on c_comma s)
  end.

(* version.py:232-237  leftmost non-zero of _v[0.._2], else 0 *)
Definition item_is_0 (i : item) : bool :=
  match i with IInt z => Z.eqb z 0 | IStr _ => false end.
Definition caret_idx (v : vec) : Z :=
  match v with
  | a :: b :: c :: _ =>
      if negb (item_is_0 a) then 0%Z
      else if negb (item_is_0 b) then 1%Z
      else if negb (item_is_0 c) then 2%Z
      else 0%Z
  | _ => 0%Z
  end.

(* version.py:207-250  the constraints one (op, ver) pair contributes *)
Definition constraints_of (op : rop) (sv : semver) : list (bop * vec) :=
  match op with
  | RLe =>
      if has_prerelease sv then [(BLe, sv_v sv)]                                 (* patched *)
      else [(BLt, sv_v (next_ver sv (Z.of_nat (sv_count sv) - 1)))]
  | RTilde =>
      [(BGe, sv_v sv);
       (BLt, sv_v (next_ver sv (if (2 <=? sv_count sv)%nat then 1%Z else 0%Z)))]
  | RCaret =>
      [(BGe, sv_v sv); (BLt, sv_v (next_ver sv (caret_idx (sv_v sv))))]
  | RGe => [(BGe, sv_v sv)]
  | RNe => [(BNe, sv_v sv)]
  | REq => [(BEq, sv_v sv)]
  | RGt => [(BGt, sv_v sv)]
  | RLt => [(BLt, sv_v sv)]
  end.

Record parsed_req := mkReq { rq_out : list (bop * vec); rq_accept_pre : bool }.

Fixpoint parse_parts (parts : list (rop * str)) : list (bop * vec) * bool :=
  match parts with
  | [] => ([], false)
  | (op, ver) :: r =>
      let sv := semver_of_str ver in
      let '(out, acc) := parse_parts r in
      (constraints_of op sv ++ out, has_prerelease sv || acc)
  end.

Definition cargo_parse (cargo_ver : str) : parsed_req :=
  let '(out, acc) := parse_parts (req_split cargo_ver) in mkReq out acc.

(* version.py:252-259  compare(ver) *)
Definition req_compare (r : parsed_req) (ver : str) : bool :=
  let lhs := semver_of_str ver in
  if has_prerelease lhs && negb (rq_accept_pre r) then false
  else forallb (fun c => bop_apply (fst c) (sv_v lhs) (snd c)) (rq_out r).

(* cargo_parse(req)(ver) *)
Definition req_matches (req ver : str) : bool := req_compare (cargo_parse req) ver.

(* ------------------------------------------------------------------ *)
(* the callers: CargoLock._versions (manifest.py:735-740: per package name the lock
   entries sorted by SemVer, newest first) and Interpreter._resolve_package
   (interpreter.py:520-530: the first — i.e. most recent — entry the requirement
   accepts); Dependency.accepts_version is cargo_parse(self.version) *)
Definition resolve_package (req : str) (versions : list str) : option str :=
  let p := cargo_parse req in
  find (fun v => req_compare p v) (sort_desc versions).

(* ------------------------------------------------------------------ *)
(* version.py:14-23 _api_of and 49-66 api (used for the names of the generated
   subprojects/dependencies: manifest.py:244,317,709, interpreter.py:536,857) *)
Inductive pyint := IntOk (n : N) | IntValueError | IntOutOfModel.
(* int(s): ASCII digit strings are modelled; strings Python's int() might still accept
   through blanks, a sign, '_' or non-ASCII digits are out of model; everything else
   raises ValueError *)
Definition int_lenient (c : char) : bool :=
  is_digit c || is_space c || (c =? 43) || (c =? 45) || (c =? 95) || (127 <? c).
Definition py_int (s : str) : pyint :=
  if is_digits s then IntOk (digits_val s)
  else if match s with [] => false | _ => forallb int_lenient s end then IntOutOfModel
  else IntValueError.

Inductive apires := ApiOk (s : str) | ApiValueError | ApiMesonErr | ApiOutOfModel.

Definition api_fields (vers : list str) : apires :=
  match vers with
  | [] => ApiOk []                                     (* not reachable: split never returns [] *)
  | v0 :: rest =>
      let second :=
        match rest with
        | [] => ApiOk (s2l "0")
        | v1 :: _ =>
            match py_int v1 with
            | IntOk n => if n =? 0 then ApiOk (s2l "0") else ApiOk (s2l "0." ++ v1)
            | IntValueError => ApiValueError
            | IntOutOfModel => ApiOutOfModel
            end
        end in
      match v0 with
      | [] => ApiOk v0                                 (* `not vers[0]` *)
      | _ =>
          match py_int v0 with
          | IntOk n => if n =? 0 then second else ApiOk v0
          | IntValueError => ApiValueError
          | IntOutOfModel => ApiOutOfModel
          end
      end
  end.

Definition api_of (version : str) : apires := api_fields (split_on c_dot version).

Definition is_lower_bound_op (o : rop) : bool :=
  match o with RGe | REq | RCaret | RTilde => true | _ => false end.

(* the set `apis`, as a duplicate-free list; the first error wins (the loop raises) *)
Fixpoint api_collect (parts : list (rop * str)) (acc : list str) : apires + list str :=
  match parts with
  | [] => inr acc
  | (o, ver) :: r =>
      if is_lower_bound_op o then
        match api_of ver with
        | ApiOk a => api_collect r (if str_mem a acc then acc else acc ++ [a])
        | e => inl e
        end
      else api_collect r acc
  end.
Definition api (cargo_ver : str) : apires :=
  match api_collect (req_split cargo_ver) [] with
  | inl e => e
  | inr [] => ApiOk []
  | inr [a] => ApiOk a
  | inr _ => ApiMesonErr
  end.

(* ------------------------------------------------------------------ *)
(* manifest.py:296-328 a Dependency object: `version` plus the two lazily cached values
   `accepts_version` (= cargo_parse(self.version)) and `api` (= version.api(self.version));
   update_version(v) assigns the field and drops both caches.  Abstractly the object IS
   its current requirement text: reads do not change it, update replaces it. *)
Inductive dep_op :=
  | DAccepts (ver : str)          (* dep.accepts_version(ver) *)
  | DApi                          (* dep.api *)
  | DUpdate (req : str).          (* dep.update_version(req) *)
Inductive dep_obs := ObsAccept (b : bool) | ObsApi (a : apires).

Definition dep_read (req : str) (o : dep_op) : option dep_obs :=
  match o with
  | DAccepts v => Some (ObsAccept (req_matches req v))
  | DApi => Some (ObsApi (api req))
  | DUpdate _ => None
  end.
Definition dep_step (req : str) (o : dep_op) : str :=
  match o with DUpdate r => r | _ => req end.
(* the observations of a sequence of operations on one object *)
Fixpoint dep_run (req : str) (ops : list dep_op) : list dep_obs :=
  match ops with
  | [] => []
  | o :: r =>
      match dep_read req o with
      | Some x => x :: dep_run (dep_step req o) r
      | None => dep_run (dep_step req o) r
      end
  end.
Definition dep_current (req : str) (ops : list dep_op) : str := fold_left dep_step ops req.
