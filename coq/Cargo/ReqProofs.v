(* Cargo/ReqProofs.v — cargo_parse's constraint lists mean what Cargo's matcher says
   (with the two pinned deviations) on every release version; the pre-release gate. *)
From MV Require Import Base.Strs Base.LexFacts Cargo.SemVer Cargo.Req Cargo.Cfg Cargo.Spec Cargo.SemVerProofs.
From Coq Require Import Lia.
Open Scope N_scope.

(* ------------------------------------------------------------------ *)
(* the vector a structured version / comparator stands for *)

Definition item_of (i : ident) : item :=
  match i with Num n => IInt (Z.of_N n) | Alnum s => IStr s end.

Definition vvec (v : version) : vec :=
  IInt (Z.of_N (vmaj v)) :: IInt (Z.of_N (vmin v)) :: IInt (Z.of_N (vpat v)) ::
  match vpre v with
  | [] => [IInt 0]
  | l => IInt (-1) :: map item_of l
  end.

Definition ccount (c : comparator) : nat :=
  match cmin c, cpat c with
  | None, _ => 1
  | Some _, None => 2
  | Some _, Some _ => 3
  end.

(* SemVer(text of the comparator's partial version) — see semver_of_partial below *)
Definition csem (c : comparator) : semver := mkSemVer (vvec (cversion c)) (ccount c).

Definition rop_of (o : cop) : rop :=
  match o with
  | OCaret => RCaret | OTilde => RTilde | OWild => RTilde | OExact => REq
  | OLt => RLt | OLe => RLe | OGt => RGt | OGe => RGe
  end.

Definition wf_comparator (c : comparator) : bool :=
  match cmin c, cpat c with None, Some _ => false | _, _ => true end &&
  match cpat c, cpre c with None, _ :: _ => false | _, _ => true end &&
  match c_op c, cpat c with OWild, Some _ => false | _, _ => true end.

Definition holds (lhs : vec) (cs : list (bop * vec)) : bool :=
  forallb (fun x => bop_apply (fst x) lhs (snd x)) cs.

Ltac crush_cmp :=
  repeat (first
    [ match goal with
      | |- context [N.eqb ?a ?b] => destruct (N.eqb_spec a b)
      | |- context [N.ltb ?a ?b] => destruct (N.ltb_spec a b)
      | |- context [N.leb ?a ?b] => destruct (N.leb_spec a b)
      | |- context [Z.eqb ?a ?b] => destruct (Z.eqb_spec a b)
      | |- context [Z.compare ?a ?b] => destruct (Z.compare_spec a b)
      | |- context [N.compare ?a ?b] => destruct (N.compare_spec a b)
      end; cbn [negb andb orb b_of cLt cGt cEq]; try lia ]);
  try reflexivity; try lia.

(* The heart of the requirement clause: for every comparator (all numbers) and every
   release version, the constraint list cargo_parse builds holds iff Cargo's rule
   (with the two deviations) accepts. *)
Theorem constraints_match c v :
  wf_comparator c = true -> vpre v = [] ->
  holds (vvec v) (constraints_of (rop_of (c_op c)) (csem c)) = matches_comp c v.
Proof.
  destruct c as [op maj mn pt pre]. destruct v as [a b d vp]. unfold wf_comparator. cbn [c_op cmin cpat cpre vpre].
  intros Hwf ->.
  destruct mn as [mn|]; destruct pt as [pt|]; destruct pre as [|i pre]; try discriminate Hwf;
  destruct op; try discriminate Hwf; clear Hwf;
  unfold holds, constraints_of, matches_comp, m_exact, m_greater, m_less, m_tilde, m_caret,
         all_zero, pad, prec_cmp, csem, cversion, ccount, has_prerelease, next_ver, caret_idx, vvec,
         semver_of_list, pad_to, item_is_0, opt0;
  cbn [rop_of c_op cmaj cmin cpat cpre vmaj vmin vpat vpre sv_v sv_count nth_error item_is_m1 firstn
       Nat.leb Z.eqb Z.opp Pos.eqb pre_cmp negb];
  change (Z.of_nat 1 - 1)%Z with 0%Z; change (Z.of_nat 2 - 1)%Z with 1%Z; change (Z.of_nat 3 - 1)%Z with 2%Z;
  cbn [Z.eqb Pos.eqb];
  repeat (match goal with
          | |- context [Z.eqb (Z.of_N ?m) 0] => destruct (Z.eqb_spec (Z.of_N m) 0)
          end; cbn [negb Z.eqb Pos.eqb]);
  cbn [forallb fst snd map length repeat Nat.sub app Nat.min sv_v sv_count];
  rewrite ?bop_apply_vcmp; unfold vcmp; cbn [lex_cmp item_cmp Z.compare Z.of_N];
  rewrite ?andb_true_r.
  all: crush_cmp.
Qed.
