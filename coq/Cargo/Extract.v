(* Extraction of the C20 model.  Only the ExtrOcamlBasic directives are used. *)
From Coq Require Extraction.
From Coq Require Import ExtrOcamlBasic.
From MV Require Import Cargo.Entry.
Extraction "../extract/C20/model.ml" Cargo.Entry.run.
