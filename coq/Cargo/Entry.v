(* Cargo/Entry.v — entry points used by the correspondence check of C20: every
   function takes its arguments as a list of strings and returns one canonical
   string.  The renderings are mirrored in harness/impl/c20.py. *)
From MV Require Import Base.Strs Cargo.SemVer Cargo.Req Cargo.Cfg.
Open Scope N_scope.

Definition SEP1 : str := [1].
Definition SEP2 : str := [2].
Definition SEP3 : str := [3].

Definition render_item (i : item) : str :=
  match i with IInt z => 105 :: Z_dec z | IStr s => 115 :: s end.      (* i<dec> | s<text> *)
Definition render_vec (v : vec) : str := join SEP1 (map render_item v).
Definition render_semver (s : semver) : str :=
  render_vec (sv_v s) ++ SEP2 ++ N_dec (N.of_nat (sv_count s)) ++ SEP2 ++ bool_str (has_prerelease s).

Definition render_rop (o : rop) : str :=
  match o with
  | RGe => s2l ">=" | RLe => s2l "<=" | RNe => s2l "!=" | RTilde => s2l "~"
  | REq => s2l "=" | RCaret => s2l "^" | RGt => s2l ">" | RLt => s2l "<"
  end.

Definition render_ctok (t : ctok) : str :=
  match t with
  | CLP => s2l "(" | CRP => s2l ")" | CComma => s2l "," | CEqual => s2l "="
  | CAll => s2l "Kall" | CAny => s2l "Kany" | CNot => s2l "Knot"
  | CStr s => 83 :: s | CId s => 73 :: s
  end.

Fixpoint render_ir (e : ir) : str :=
  match e with
  | Ident n => 73 :: n ++ SEP1
  | Equal n v => 69 :: n ++ SEP2 ++ v ++ SEP1
  | IAny l => 79 :: concat (map render_ir l) ++ SEP3
  | IAll l => 65 :: concat (map render_ir l) ++ SEP3
  | INot e' => 78 :: render_ir e'
  end.

Definition exc_meson : str := s2l "EXC:MesonException".

Fixpoint pairs (l : list str) : cfgs :=
  match l with
  | k :: v :: r => (k, v) :: pairs r
  | _ => []
  end.

(* split [a1..an; MARK; b1..bm] at the first element equal to [3] *)
Fixpoint split_mark (l : list str) : list str * list str :=
  match l with
  | [] => ([], [])
  | x :: r => if str_eqb x [3] then ([], r)
              else let '(a, b) := split_mark r in (x :: a, b)
  end.

Definition render_api (a : apires) : str :=
  match a with
  | ApiOk r => 61 :: r
  | ApiValueError => s2l "EXC:ValueError"
  | ApiMesonErr => exc_meson
  | ApiOutOfModel => s2l "OOM"
  end.
Definition render_obs (o : dep_obs) : str :=
  match o with ObsAccept b => bool_str b | ObsApi a => render_api a end.
Definition decode_op (s : str) : dep_op :=
  match s with
  | 97 :: v => DAccepts v
  | 117 :: r => DUpdate r
  | _ => DApi
  end.

Definition render_ores (o : option result) : str :=
  match o with
  | None => s2l "EXC:StopIteration"
  | Some (Ok b) => bool_str b
  | Some MesonErr => exc_meson
  | Some OutOfFuel => s2l "FUEL"
  end.
Definition nonempty (s : str) : bool := match s with [] => false | _ => true end.
Definition decode_call (s : str) : str * list str * str :=
  match split_on 2 s with
  | [k; c; f] => (k, filter nonempty (split_on 1 f), c)
  | [k; c] => (k, [], c)
  | _ => ([], [], [])
  end.

Fixpoint tagged (t : char) (args : list str) : list str :=
  match args with
  | [] => []
  | (c :: r) :: rest => if c =? t then r :: tagged t rest else tagged t rest
  | [] :: rest => tagged t rest
  end.

Definition cmp6 (a b : vec) : str :=
  concat (map bool_str [sv_cmp KLt a b; sv_cmp KLe a b; vec_eqb a b; negb (vec_eqb a b);
                        sv_cmp KGe a b; sv_cmp KGt a b]).

Definition run (fn : str) (args : list str) : str :=
  if str_eqb fn (s2l "semver") then
    match args with [a] => render_semver (semver_of_str a) | _ => s2l "?" end
  else if str_eqb fn (s2l "cmp") then
    match args with
    | [a; b] => cmp6 (sv_v (semver_of_str a)) (sv_v (semver_of_str b))
    | _ => s2l "?" end
  else if str_eqb fn (s2l "split") then
    match args with
    | [r] => join SEP2 (map (fun p => render_rop (fst p) ++ SEP1 ++ snd p) (req_split r))
    | _ => s2l "?" end
  else if str_eqb fn (s2l "req") then
    match args with
    | r :: vs => let p := cargo_parse r in concat (map (fun v => bool_str (req_compare p v)) vs)
    | _ => s2l "?" end
  else if str_eqb fn (s2l "sort") then
    join SEP1 (sort_desc args)
  else if str_eqb fn (s2l "prepare") then
    (* tagged args: d<base dep>  t<cond>\002<dep>\001<dep>..  h<host cfg line>  b<build cfg line>  c<h|b> *)
    let base := tagged 100 args in
    let targets := map (fun s => match split_on 2 s with
                                 | [c; ds] => (c, filter nonempty (split_on 1 ds))
                                 | [c] => (c, [])
                                 | _ => ([], []) end) (tagged 116 args) in
    let hd := dict_of (map split_cfg (tagged 104 args)) in
    let bd := dict_of (map split_cfg (tagged 98 args)) in
    let calls := map (fun s => str_eqb s (s2l "h")) (tagged 99 args) in
    join SEP2 (map (fun o => match o with Some l => join SEP1 l | None => exc_meson end)
                   (prepare_session targets (fun h => if h then hd else bd) (mkP base []) calls))
  else if str_eqb fn (s2l "cfgsession") then
    (* args: rustc cfg lines..., MARK, calls...; a call is key \002 condition \002 flags joined by \001 *)
    let '(lines, calls) := split_mark args in
    join SEP1 (map render_ores (gc_session (mkG lines []) (map decode_call calls)))
  else if str_eqb fn (s2l "depseq") then
    (* args: initial requirement, then operations "a"+version | "p" | "u"+requirement *)
    match args with
    | r0 :: ops => join SEP1 (map render_obs (dep_run r0 (map decode_op ops)))
    | _ => s2l "?" end
  else if str_eqb fn (s2l "api") || str_eqb fn (s2l "pkgapi") then
    match args with
    | [a] => match api a with
             | ApiOk r => 61 :: r
             | ApiValueError => s2l "EXC:ValueError"
             | ApiMesonErr => exc_meson
             | ApiOutOfModel => s2l "OOM"
             end
    | _ => s2l "?" end
  else if str_eqb fn (s2l "resolve") then
    (* args: requirement, lock-file versions... -> the version _resolve_package picks *)
    match args with
    | r :: vs => match resolve_package r vs with Some v => 86 :: v | None => [45] end
    | _ => s2l "?" end
  else if str_eqb fn (s2l "splitcfg") then
    match args with
    | [a] => let '(k, v) := split_cfg a in k ++ SEP1 ++ v
    | _ => s2l "?" end
  else if str_eqb fn (s2l "getcfg") then
    (* args: condition, rustc cfg lines..., MARK, rust_args... *)
    match args with
    | cond :: rest =>
        let '(lines, flags) := split_mark rest in
        match get_cfgs lines flags with
        | None => s2l "EXC:StopIteration"
        | Some d =>
            match eval_cfg cond d with
            | Ok b => bool_str b
            | MesonErr => exc_meson
            | OutOfFuel => s2l "FUEL"
            end
        end
    | _ => s2l "?" end
  else if str_eqb fn (s2l "lex") then
    match args with
    | [a] => match lexer a with Some ts => join SEP1 (map render_ctok ts) | None => exc_meson end
    | _ => s2l "?" end
  else if str_eqb fn (s2l "parse") then
    match args with
    | [a] => match lexer a with
             | None => exc_meson
             | Some ts =>
                 match parse ts with
                 | ParseOk e => render_ir e
                 | ParseErr => exc_meson
                 | ParseFuel => s2l "FUEL"
                 end
             end
    | _ => s2l "?" end
  else if str_eqb fn (s2l "cfg") then
    match args with
    | raw :: kv => match eval_cfg raw (pairs kv) with
                   | Ok b => bool_str b
                   | MesonErr => exc_meson
                   | OutOfFuel => s2l "FUEL"
                   end
    | _ => s2l "?" end
  else s2l "?".
