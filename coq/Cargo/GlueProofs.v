(* Cargo/GlueProofs.v — the callers of the modelled core:
   CargoLock._versions + Interpreter._resolve_package pick the most recent accepted
   lock entry; Interpreter._get_cfgs hands eval_cfg a dict, which keeps only the LAST
   value of a key that rustc prints several times. *)
From MV Require Import Base.Strs Base.LexFacts Cargo.SemVer Cargo.Req Cargo.Cfg Cargo.Spec
                       Cargo.SemVerProofs Cargo.ParseProofs.
From Coq Require Import Lia Sorting.Permutation Sorting.Sorted.
Open Scope N_scope.

(* ------------------------------------------------------------------ *)
(* sorting newest first *)
Definition keyed := (str * vec)%type.
Definition ge_key (x y : keyed) : Prop := sv_cmp KLt (snd x) (snd y) = false.   (* not x < y *)

Lemma ge_key_trans x y z : ge_key x y -> ge_key y z -> ge_key x z.
Proof.
  unfold ge_key. rewrite !sv_cmp_lex. intros H1 H2.
  assert (N1 : vcmp (snd z) (snd y) <> Gt).
  { rewrite (vcmp_antisym (snd y) (snd z)). destruct (vcmp (snd y) (snd z)); simpl in *; congruence. }
  assert (N2 : vcmp (snd y) (snd x) <> Gt).
  { rewrite (vcmp_antisym (snd x) (snd y)). destruct (vcmp (snd x) (snd y)); simpl in *; congruence. }
  pose proof (vcmp_le_trans _ _ _ N1 N2) as N3. rewrite (vcmp_antisym (snd x) (snd z)) in N3.
  destruct (vcmp (snd x) (snd z)); simpl in *; congruence.
Qed.
Lemma not_lt_ge x y : sv_cmp KLt (snd x) (snd y) = true -> ge_key y x.
Proof.
  unfold ge_key. rewrite !sv_cmp_lex, (vcmp_antisym (snd x) (snd y)).
  destruct (vcmp (snd x) (snd y)); simpl; congruence.
Qed.

Lemma insert_perm x l : Permutation (insert_desc x l) (x :: l).
Proof.
  induction l as [|y l IH]; simpl; [apply Permutation_refl|].
  destruct (sv_cmp KLt (snd x) (snd y)); [|apply Permutation_refl].
  eapply Permutation_trans; [apply perm_skip, IH | apply perm_swap].
Qed.
Lemma insert_sorted x l : StronglySorted ge_key l -> StronglySorted ge_key (insert_desc x l).
Proof.
  induction 1 as [|y l Hs IH Hall]; simpl; [repeat constructor|].
  destruct (sv_cmp KLt (snd x) (snd y)) eqn:E.
  - constructor; [exact IH|]. apply Forall_forall. intros z Hz.
    apply (Permutation_in _ (insert_perm x l)) in Hz. destruct Hz as [<-|Hz].
    + apply not_lt_ge. exact E.
    + rewrite Forall_forall in Hall. apply Hall. exact Hz.
  - constructor; [constructor; assumption|]. constructor; [exact E|].
    apply Forall_forall. intros z Hz. rewrite Forall_forall in Hall.
    apply (ge_key_trans x y z); [exact E | apply Hall; exact Hz].
Qed.
Definition keys (l : list str) : list keyed := map (fun s => (s, sv_v (semver_of_str s))) l.
Lemma sorted_keys l : StronglySorted ge_key (fold_right insert_desc [] (keys l)) /\
                      Permutation (fold_right insert_desc [] (keys l)) (keys l).
Proof.
  induction l as [|s l [IHs IHp]]; simpl; [split; constructor|]. split.
  - apply insert_sorted. exact IHs.
  - eapply Permutation_trans; [apply insert_perm | apply perm_skip, IHp].
Qed.
Lemma keys_snd l x : In x (fold_right insert_desc [] (keys l)) -> snd x = V (fst x).
Proof.
  intro H. apply (Permutation_in _ (proj2 (sorted_keys l))) in H. unfold keys in H.
  apply in_map_iff in H. destruct H as (s & <- & _). reflexivity.
Qed.

(* list.sort(key=SemVer, reverse=True): a permutation, newest first *)
Theorem sort_desc_perm l : Permutation (sort_desc l) l.
Proof.
  unfold sort_desc. fold (keys l).
  eapply Permutation_trans; [apply Permutation_map, (proj2 (sorted_keys l))|].
  unfold keys. rewrite map_map. simpl. rewrite map_id. apply Permutation_refl.
Qed.
Theorem sort_desc_sorted l :
  StronglySorted (fun a b => bop_apply BLt (V a) (V b) = false) (sort_desc l).
Proof.
  unfold sort_desc. fold (keys l). destruct (sorted_keys l) as [Hs _].
  assert (Hk : forall x, In x (fold_right insert_desc [] (keys l)) -> snd x = V (fst x)) by apply keys_snd.
  induction Hs as [|x r Hs IH Hall]; simpl; constructor.
  - apply IH. intros y Hy. apply Hk. right. exact Hy.
  - rewrite Forall_forall in *. intros b Hb. apply in_map_iff in Hb. destruct Hb as (y & <- & Hy).
    specialize (Hall y Hy). unfold ge_key in Hall.
    rewrite (Hk x (or_introl eq_refl)), (Hk y (or_intror Hy)) in Hall. exact Hall.
Qed.

(* _resolve_package returns the most recent lock entry the requirement accepts *)
Lemma find_first {A} (f : A -> bool) (R : A -> A -> Prop) l v :
  StronglySorted R l -> find f l = Some v ->
  In v l /\ f v = true /\ forall w, In w l -> f w = true -> w = v \/ R v w.
Proof.
  induction 1 as [|x l Hs IH Hall]; simpl; [discriminate|].
  destruct (f x) eqn:E.
  - intro H. inversion H; subst. repeat split; auto.
    intros w [->|Hw] _; [left; reflexivity | right]. rewrite Forall_forall in Hall. auto.
  - intro H. destruct (IH H) as (Hin & Hf & Hbest). repeat split; auto.
    intros w [->|Hw] Hfw; [congruence | auto].
Qed.
Theorem resolve_most_recent req l v : resolve_package req l = Some v ->
  In v l /\ req_matches req v = true /\
  forall w, In w l -> req_matches req w = true -> bop_apply BLt (V v) (V w) = false.
Proof.
  unfold resolve_package. intro H.
  destruct (find_first _ _ _ _ (sort_desc_sorted l) H) as (Hin & Hf & Hbest).
  split; [apply (Permutation_in _ (sort_desc_perm l)); exact Hin|]. split; [exact Hf|].
  intros w Hw Hfw. apply (Permutation_in _ (Permutation_sym (sort_desc_perm l))) in Hw.
  destruct (Hbest w Hw Hfw) as [->|HR]; [|exact HR].
  rewrite bop_apply_vcmp, vcmp_refl. reflexivity.
Qed.
Theorem resolve_none req l : resolve_package req l = None ->
  forall w, In w l -> req_matches req w = false.
Proof.
  unfold resolve_package. intros H w Hw.
  apply (Permutation_in _ (Permutation_sym (sort_desc_perm l))) in Hw.
  apply (find_none _ _ H w Hw).
Qed.

(* ------------------------------------------------------------------ *)
(* dict(pairs) keeps the last value of a key *)
Fixpoint last_value (k : str) (ps : list (str * str)) (cur : option str) : option str :=
  match ps with
  | [] => cur
  | (k', v) :: r => last_value k r (if str_eqb k k' then Some v else cur)
  end.

Lemma lookup_set k k' v d :
  lookup k (dict_set k' v d) = if str_eqb k k' then Some v else lookup k d.
Proof.
  induction d as [|[k2 v2] d IH]; simpl.
  - destruct (str_eqb k k'); reflexivity.
  - destruct (str_eqb k' k2) eqn:E2; simpl.
    + apply str_eqb_eq in E2. subst k2. destruct (str_eqb k k'); reflexivity.
    + destruct (str_eqb k k2) eqn:E1.
      * apply str_eqb_eq in E1. subst k2. destruct (str_eqb k k') eqn:E3; [|reflexivity].
        apply str_eqb_eq in E3. subst k'. rewrite str_eqb_refl in E2. discriminate.
      * exact IH.
Qed.
Lemma lookup_fold k ps : forall d,
  lookup k (fold_left (fun d p => dict_set (fst p) (snd p) d) ps d) = last_value k ps (lookup k d).
Proof.
  induction ps as [|[k' v] ps IH]; intro d; [reflexivity|].
  simpl. rewrite IH, lookup_set. reflexivity.
Qed.
Theorem lookup_dict_of k ps : lookup k (dict_of ps) = last_value k ps None.
Proof. unfold dict_of. rewrite lookup_fold. reflexivity. Qed.

(* a name="value" test against the configuration rustc printed: with single-valued keys
   it is membership of the pair ... *)
Lemma last_value_single k v ps : forall cur,
  (forall v', In (k, v') ps -> v' = v) -> (cur = None \/ cur = Some v) ->
  last_value k ps cur = if existsb (fun p => str_eqb k (fst p)) ps then Some v else cur.
Proof.
  induction ps as [|[k' v'] ps IH]; intros cur Hs Hc; [reflexivity|].
  simpl. destruct (str_eqb k k') eqn:E.
  - apply str_eqb_eq in E. subst k'. assert (v' = v) by (apply Hs; left; reflexivity). subst v'.
    rewrite IH; [destruct (existsb _ ps); reflexivity | intros; apply Hs; right; assumption | right; reflexivity].
  - apply IH; [intros; apply Hs; right; assumption | exact Hc].
Qed.
Theorem cfg_pair_test_partial n v ps :
  (forall v', In (n, v') ps -> v' = v) -> In (n, v) ps ->
  eval_ir (Equal n v) (dict_of ps) = true.
Proof.
  intros Hs Hin. simpl. rewrite lookup_dict_of, (last_value_single n v ps None Hs (or_introl eq_refl)).
  assert (E : existsb (fun p => str_eqb n (fst p)) ps = true).
  { apply existsb_exists. exists (n, v). split; [exact Hin | apply str_eqb_refl]. }
  rewrite E. apply str_eqb_refl.
Qed.
(* ... in general it is not: rustc prints target_feature once per feature *)
Theorem cfg_pair_test_refuted : exists lines n v,
  In (n, v) (map split_cfg lines) /\
  match get_cfgs lines [] with Some d => eval_ir (Equal n v) d | None => true end = false.
Proof.
  exists [s2l "target_feature=""sse"""; s2l "target_feature=""sse2"""], (s2l "target_feature"), (s2l "sse").
  vm_compute. split; [left; reflexivity | reflexivity].
Qed.

(* ------------------------------------------------------------------ *)
(* a Dependency object answers every read by the requirement in force *)
Lemma dep_run_app req ops1 ops2 :
  dep_run req (ops1 ++ ops2) = dep_run req ops1 ++ dep_run (dep_current req ops1) ops2.
Proof.
  revert req. induction ops1 as [|o ops1 IH]; intro req; [reflexivity|].
  cbn [app dep_run dep_current fold_left]. destruct (dep_read req o); cbn [app]; rewrite IH; reflexivity.
Qed.
Definition last_update (req : str) (ops : list dep_op) : str :=
  fold_left (fun r o => match o with DUpdate r' => r' | _ => r end) ops req.
Lemma dep_current_last req ops : dep_current req ops = last_update req ops.
Proof. reflexivity. Qed.
(* reads after any sequence of operations depend only on the last update *)
Theorem dep_reads_by_requirement_in_force req ops o x :
  dep_read (last_update req ops) o = Some x -> dep_run req (ops ++ [o]) = dep_run req ops ++ [x].
Proof.
  intro H. rewrite dep_run_app, dep_current_last. cbn [dep_run]. rewrite H. reflexivity.
Qed.

(* ------------------------------------------------------------------ *)
(* _get_cfgs: the result of a call does not depend on the calls before it.  rust_args is
   an option of the (machine, subproject) pair, i.e. a function [flagsof] of the key. *)
Section Session.
  Variable flagsof : str -> list str.
  Variable lines : list str.

  Definition good (st : gstate) : Prop :=
    g_shared st = lines /\
    forall k d, cache_find k (g_cache st) = Some d -> get_cfgs lines (flagsof k) = Some d.

  Lemma gc_call_good st k : good st ->
    fst (gc_call st k (flagsof k)) = get_cfgs lines (flagsof k) /\ good (snd (gc_call st k (flagsof k))).
  Proof.
    intros [Hs Hc]. unfold gc_call. destruct (cache_find k (g_cache st)) as [d|] eqn:E.
    - simpl. split; [symmetry; apply Hc; exact E | split; assumption].
    - rewrite Hs. destruct (get_cfgs lines (flagsof k)) as [d|] eqn:G; simpl.
      + split; [reflexivity|]. split; [reflexivity|]. intros k' d'. simpl.
        destruct (str_eqb k' k) eqn:Ek.
        * apply str_eqb_eq in Ek. subst k'. intro H. inversion H; subst. exact G.
        * apply Hc.
      + split; [reflexivity | split; assumption].
  Qed.

  Definition with_flags (c : str * str) : str * list str * str := (fst c, flagsof (fst c), snd c).

  (* every call of a session answers with rustc's lines plus ITS OWN --cfg flags,
     whatever was asked before (other subprojects, other machines, repeats) *)
  Theorem session_independent : forall calls st, good st ->
    gc_session st (map with_flags calls) =
    map (fun c => match get_cfgs lines (flagsof (fst c)) with
                  | Some d => Some (eval_cfg (snd c) d) | None => None end) calls.
  Proof.
    induction calls as [|[k c] calls IH]; intros st Hg; [reflexivity|].
    cbn [map with_flags fst snd gc_session].
    destruct (gc_call_good st k Hg) as [Hr Hg'].
    destruct (gc_call st k (flagsof k)) as [d st']. simpl in Hr, Hg'. rewrite Hr.
    f_equal. apply IH. exact Hg'.
  Qed.
  Lemma good_init : good (mkG lines []).
  Proof. split; [reflexivity | intros k d H; discriminate]. Qed.
End Session.

(* ------------------------------------------------------------------ *)
(* _prepare_package: which target-specific dependencies a machine requires *)
Definition cond_holds (d : cfgs) (t : str * list str) : bool :=
  match eval_cfg (fst t) d with Ok true => true | _ => false end.
Definition all_evaluate (targets : list (str * list str)) (d : cfgs) : Prop :=
  Forall (fun t => exists b, eval_cfg (fst t) d = Ok b) targets.
Definition merged (targets : list (str * list str)) (d : cfgs) (deps : list str) : list str :=
  fold_left (fun acc t => if cond_holds d t then dep_merge acc (snd t) else acc) targets deps.

Lemma merge_targets_spec targets d : all_evaluate targets d -> forall deps,
  merge_targets targets d deps = (merged targets d deps, true).
Proof.
  induction 1 as [|[c ns] r [b Hb] _ IH]; intro deps; [reflexivity|].
  cbn [fst] in Hb.
  assert (Hc : cond_holds d (c, ns) = b) by (unfold cond_holds; cbn [fst]; rewrite Hb; destruct b; reflexivity).
  cbn [merge_targets]. rewrite Hb.
  change (merged ((c, ns) :: r) d deps)
    with (merged r d (if cond_holds d (c, ns) then dep_merge deps (snd (c, ns)) else deps)).
  rewrite Hc. cbn [snd]. destruct b; apply IH.
Qed.
(* the machine prepared FIRST requires exactly the unconditional dependencies plus those
   whose condition holds for it *)
Theorem prepare_first_machine targets cfg_of base h :
  all_evaluate targets (cfg_of h) ->
  fst (prepare_package targets cfg_of (mkP base []) h) = Some (merged targets (cfg_of h) base).
Proof.
  intro H. unfold prepare_package. cbn [bool_mem existsb p_done p_deps].
  rewrite (merge_targets_spec _ _ H). reflexivity.
Qed.
(* ... the machine prepared second does not: host = windows, build = linux, the build
   machine is handed winapi although cfg(windows) is false for it *)
Theorem prepare_leak_refuted : exists targets cfg_of base,
  cond_holds (cfg_of false) (s2l "cfg(windows)", [s2l "winapi"]) = false /\
  In (s2l "cfg(windows)", [s2l "winapi"]) targets /\
  match prepare_session targets cfg_of (mkP base []) [true; false] with
  | [_; Some l] => str_mem (s2l "winapi") l
  | _ => false
  end = true.
Proof.
  exists [(s2l "cfg(windows)", [s2l "winapi"]); (s2l "cfg(unix)", [s2l "libc"])],
         (fun h : bool => if h then [(s2l "windows", [])] else [(s2l "unix", [])]), [s2l "base"].
  vm_compute. repeat split; auto.
Qed.
