(* Cargo/SemVerProofs.v — the SemVer comparison of cargo/version.py is a total order
   on version vectors, and its operators are mutually consistent (C20, order axioms). *)
From MV Require Import Base.Strs Base.LexFacts Cargo.SemVer.
From Coq Require Import Lia.
Open Scope N_scope.

(* three-way view of __cmp: ints below strs, ints numerically, strs by code point,
   then (zip exhausted) the shorter list is smaller *)
Definition item_cmp (a b : item) : comparison :=
  match a, b with
  | IInt p, IInt q => Z.compare p q
  | IStr p, IStr q => str_cmp p q
  | IInt _, IStr _ => Lt
  | IStr _, IInt _ => Gt
  end.
Definition vcmp (a b : vec) : comparison := lex_cmp item_cmp a b.

Lemma item_cmp_eq a b : item_cmp a b = Eq -> a = b.
Proof.
  destruct a as [p|p], b as [q|q]; simpl; intro H; try discriminate.
  - apply Z.compare_eq in H. congruence.
  - apply str_cmp_eq in H. congruence.
Qed.
Lemma item_cmp_refl a : item_cmp a a = Eq.
Proof. destruct a; simpl; [apply Z.compare_refl | apply str_cmp_refl]. Qed.
Lemma item_cmp_antisym a b : item_cmp b a = CompOpp (item_cmp a b).
Proof.
  destruct a, b; simpl; try reflexivity; [apply Z.compare_antisym | apply str_cmp_antisym].
Qed.
Lemma item_cmp_trans a b c : item_cmp a b = Lt -> item_cmp b c = Lt -> item_cmp a c = Lt.
Proof.
  destruct a, b, c; simpl; intros H1 H2; try discriminate; try reflexivity.
  - rewrite Z.compare_lt_iff in *. lia.
  - eapply str_cmp_trans; eassumption.
Qed.

Lemma vcmp_refl a : vcmp a a = Eq.
Proof. apply lex_refl, item_cmp_refl. Qed.
Lemma vcmp_eq a b : vcmp a b = Eq -> a = b.
Proof. apply lex_eq, item_cmp_eq. Qed.
Lemma vcmp_antisym a b : vcmp b a = CompOpp (vcmp a b).
Proof. apply lex_antisym, item_cmp_antisym. Qed.
Lemma vcmp_lt_trans a b c : vcmp a b = Lt -> vcmp b c = Lt -> vcmp a c = Lt.
Proof. apply lex_trans; [apply item_cmp_eq | apply item_cmp_trans]. Qed.
Lemma vcmp_eq_iff a b : vcmp a b = Eq <-> a = b.
Proof. split; [apply vcmp_eq | intros ->; apply vcmp_refl]. Qed.
Lemma vcmp_gt_lt a b : vcmp a b = Gt <-> vcmp b a = Lt.
Proof. rewrite (vcmp_antisym a b). destruct (vcmp a b); simpl; split; congruence. Qed.
(* "not greater" is transitive *)
Lemma vcmp_le_trans a b c : vcmp a b <> Gt -> vcmp b c <> Gt -> vcmp a c <> Gt.
Proof.
  intros H1 H2 H3.
  destruct (vcmp a b) eqn:E1; [apply vcmp_eq in E1; subst; contradiction| |contradiction].
  destruct (vcmp b c) eqn:E2; [apply vcmp_eq in E2; subst; congruence| |contradiction].
  rewrite (vcmp_lt_trans _ _ _ E1 E2) in H3. discriminate.
Qed.

(* ------------------------------------------------------------------ *)
(* the transcription of __cmp computes comparator(three-way result) *)

Lemma str_eqb_cmp p q : str_eqb p q = true <-> str_cmp p q = Eq.
Proof.
  rewrite str_eqb_eq. split; [intros ->; apply str_cmp_refl | apply str_cmp_eq].
Qed.

Lemma cmp_loop_lex k : forall a b la lb,
  Nat.compare la lb = Nat.compare (length a) (length b) ->
  cmp_loop k a b la lb = k_of k (vcmp a b).
Proof.
  unfold vcmp. induction a as [|x a IH]; intros [|y b] la lb H; simpl in *.
  - unfold k_nat. rewrite H. reflexivity.
  - unfold k_nat. rewrite H. reflexivity.
  - unfold k_nat. rewrite H. reflexivity.
  - destruct x as [p|p], y as [q|q]; simpl.
    + destruct (Z.eqb p q) eqn:E.
      * apply Z.eqb_eq in E. subst. rewrite Z.compare_refl. apply IH. exact H.
      * unfold k_Z. destruct (Z.compare p q) eqn:C; try reflexivity.
        apply Z.compare_eq in C. subst. rewrite Z.eqb_refl in E. discriminate.
    + destruct k; reflexivity.
    + destruct k; reflexivity.
    + destruct (str_eqb p q) eqn:E.
      * apply str_eqb_eq in E. subst. rewrite str_cmp_refl. apply IH. exact H.
      * unfold k_str. destruct (str_cmp p q) eqn:C; try reflexivity.
        apply str_eqb_cmp in C. congruence.
Qed.

Theorem sv_cmp_lex k a b : sv_cmp k a b = k_of k (vcmp a b).
Proof. unfold sv_cmp. apply cmp_loop_lex. reflexivity. Qed.

Lemma item_eqb_eq a b : item_eqb a b = true <-> a = b.
Proof.
  destruct a as [p|p], b as [q|q]; simpl; split; intro H; try discriminate.
  - apply Z.eqb_eq in H. congruence.
  - inversion H. apply Z.eqb_refl.
  - apply str_eqb_eq in H. congruence.
  - inversion H. apply str_eqb_refl.
Qed.
Lemma vec_eqb_eq a b : vec_eqb a b = true <-> a = b.
Proof.
  revert b; induction a as [|x a IH]; intros [|y b]; simpl; split; intro H; try discriminate; try reflexivity.
  - apply andb_true_iff in H. destruct H as [H1 H2]. apply item_eqb_eq in H1. apply IH in H2. congruence.
  - inversion H; subst. apply andb_true_iff. split; [apply item_eqb_eq | apply IH]; reflexivity.
Qed.
Lemma vec_eqb_vcmp a b : vec_eqb a b = match vcmp a b with Eq => true | _ => false end.
Proof.
  destruct (vec_eqb a b) eqn:E.
  - apply vec_eqb_eq in E. subst. rewrite vcmp_refl. reflexivity.
  - destruct (vcmp a b) eqn:C; try reflexivity. apply vcmp_eq in C. subst.
    assert (vec_eqb b b = true) by (apply vec_eqb_eq; reflexivity). congruence.
Qed.

(* every operator is a function of the three-way result *)
Definition b_of (o : bop) (c : comparison) : bool :=
  match o, c with
  | BLt, Lt => true | BLt, _ => false
  | BLe, Gt => false | BLe, _ => true
  | BGt, Gt => true | BGt, _ => false
  | BGe, Lt => false | BGe, _ => true
  | BEq, Eq => true | BEq, _ => false
  | BNe, Eq => false | BNe, _ => true
  end.
Theorem bop_apply_vcmp o a b : bop_apply o a b = b_of o (vcmp a b).
Proof.
  destruct o; simpl; rewrite ?sv_cmp_lex, ?vec_eqb_vcmp; destruct (vcmp a b); reflexivity.
Qed.

(* ------------------------------------------------------------------ *)
(* order laws, for all vectors *)

Ltac to_cmp := rewrite ?bop_apply_vcmp in *.

Theorem sv_trichotomy a b :
  (bop_apply BLt a b = true /\ bop_apply BEq a b = false /\ bop_apply BGt a b = false) \/
  (bop_apply BLt a b = false /\ bop_apply BEq a b = true /\ bop_apply BGt a b = false) \/
  (bop_apply BLt a b = false /\ bop_apply BEq a b = false /\ bop_apply BGt a b = true).
Proof. to_cmp. destruct (vcmp a b); simpl; auto. Qed.

Theorem sv_lt_trans a b c :
  bop_apply BLt a b = true -> bop_apply BLt b c = true -> bop_apply BLt a c = true.
Proof.
  to_cmp. destruct (vcmp a b) eqn:E1; simpl; try discriminate.
  destruct (vcmp b c) eqn:E2; simpl; try discriminate.
  rewrite (vcmp_lt_trans _ _ _ E1 E2). reflexivity.
Qed.
Theorem sv_le_trans a b c :
  bop_apply BLe a b = true -> bop_apply BLe b c = true -> bop_apply BLe a c = true.
Proof.
  to_cmp. intros H1 H2.
  assert (N1 : vcmp a b <> Gt) by (destruct (vcmp a b); simpl in *; congruence).
  assert (N2 : vcmp b c <> Gt) by (destruct (vcmp b c); simpl in *; congruence).
  pose proof (vcmp_le_trans _ _ _ N1 N2). destruct (vcmp a c); simpl; congruence.
Qed.
Theorem sv_eq_trans a b c :
  bop_apply BEq a b = true -> bop_apply BEq b c = true -> bop_apply BEq a c = true.
Proof. simpl. rewrite !vec_eqb_eq. congruence. Qed.
Theorem sv_le_is_lt_or_eq a b : bop_apply BLe a b = bop_apply BLt a b || bop_apply BEq a b.
Proof. to_cmp. destruct (vcmp a b); reflexivity. Qed.
Theorem sv_ge_is_gt_or_eq a b : bop_apply BGe a b = bop_apply BGt a b || bop_apply BEq a b.
Proof. to_cmp. destruct (vcmp a b); reflexivity. Qed.
Theorem sv_ne_is_not_eq a b : bop_apply BNe a b = negb (bop_apply BEq a b).
Proof. reflexivity. Qed.
Theorem sv_lt_gt_swap a b : bop_apply BLt a b = bop_apply BGt b a.
Proof. to_cmp. rewrite (vcmp_antisym a b). destruct (vcmp a b); reflexivity. Qed.
Theorem sv_le_ge_swap a b : bop_apply BLe a b = bop_apply BGe b a.
Proof. to_cmp. rewrite (vcmp_antisym a b). destruct (vcmp a b); reflexivity. Qed.
Theorem sv_le_total a b : bop_apply BLe a b = true \/ bop_apply BLe b a = true.
Proof. to_cmp. rewrite (vcmp_antisym a b). destruct (vcmp a b); simpl; auto. Qed.
Theorem sv_le_antisym a b : bop_apply BLe a b = true -> bop_apply BLe b a = true -> a = b.
Proof.
  to_cmp. rewrite (vcmp_antisym a b). destruct (vcmp a b) eqn:E; simpl; try discriminate.
  intros _ _. apply vcmp_eq. exact E.
Qed.
Theorem sv_eq_is_equal a b : bop_apply BEq a b = true <-> a = b.
Proof. apply vec_eqb_eq. Qed.

(* list.sort(key=SemVer, reverse=True): the model's output is a permutation in
   non-increasing order *)
Lemma insert_desc_perm x l : exists l1 l2, l = l1 ++ l2 /\ insert_desc x l = l1 ++ x :: l2.
Proof.
  induction l as [|y l IH]; simpl.
  - exists [], []. auto.
  - destruct (sv_cmp KLt (snd x) (snd y)).
    + destruct IH as (l1 & l2 & -> & ->). exists (y :: l1), l2. auto.
    + exists [], (y :: l). auto.
Qed.
