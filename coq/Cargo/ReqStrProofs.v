(* Cargo/ReqStrProofs.v — from requirement strings to Cargo's rule:
   split() on a printed requirement yields its comparators, SemVer() of a printed
   partial version is the comparator's vector, hence cargo_parse(req)(version) is
   Cargo's matcher (with the two deviations) on every release version; and the
   pre-release gate for arbitrary strings. *)
From MV Require Import Base.Strs Base.LexFacts Cargo.SemVer Cargo.Req Cargo.Cfg Cargo.Spec
                       Cargo.SemVerProofs Cargo.ReqProofs Cargo.ParseProofs.
From Coq Require Import Lia.
Open Scope N_scope.

(* ------------------------------------------------------------------ *)
(* SemVer(text of a comparator's partial version) *)

Definition nums (p : pcomp) : list str :=
  pc_maj p :: match pc_min p with
              | None => []
              | Some m => m :: match pc_pat p with None => [] | Some q => [q] end
              end.

Lemma pr_partial_nums p : pr_partial p = join [46] (nums p) ++ pr_pre (pc_pre p) ++ pr_build None.
Proof.
  unfold pr_partial, nums. destruct (pc_min p) as [m|]; [destruct (pc_pat p) as [q|]|]; simpl;
  repeat (rewrite <- app_assoc || rewrite <- app_comm_cons); rewrite ?app_nil_r; reflexivity.
Qed.

Lemma wf_pcomp_parts p : wf_pcomp p = true ->
  Spec.is_digits (pc_maj p) = true /\ odigits (pc_min p) = true /\ odigits (pc_pat p) = true /\
  wf_pre (pc_pre p) = true /\ all_space (pc_sp p) = true /\
  wf_comparator (comparator_of p) = true.
Proof.
  unfold wf_pcomp, wf_comparator. rewrite !andb_true_iff.
  intros (((((((H1 & H2) & H3) & H4) & H5) & H6) & H7) & H8).
  repeat split; try assumption.
  all: cbn [comparator_of cmin cpat cpre c_op];
    destruct (pc_min p), (pc_pat p), (pc_pre p), (pc_op p); simpl in *; congruence.
Qed.

Theorem semver_of_partial p : wf_pcomp p = true ->
  semver_of_str (pr_partial p) = csem (comparator_of p).
Proof.
  intro H. destruct (wf_pcomp_parts p H) as (Hmaj & Hmin & Hpat & Hpre & _ & Hwf).
  rewrite pr_partial_nums.
  unfold wf_comparator in Hwf. cbn [comparator_of cmin cpat cpre c_op] in Hwf.
  rewrite semver_of_text.
  - unfold csem, ccount, cversion, vvec, text_vec, nums, comparator_of, opt0.
    cbn [cmaj cmin cpat cpre vmaj vmin vpat vpre].
    destruct (pc_min p) as [m|]; destruct (pc_pat p) as [q|]; destruct (pc_pre p) as [|i l];
      simpl in Hwf; try discriminate Hwf; reflexivity.
  - unfold nums. destruct (pc_min p); [destruct (pc_pat p)|]; simpl; lia.
  - discriminate.
  - unfold nums. change SemVer.is_digits with Spec.is_digits. cbn [forallb]. rewrite Hmaj.
    destruct (pc_min p); [destruct (pc_pat p)|]; simpl in *; rewrite ?Hmin, ?Hpat; reflexivity.
  - exact Hpre.
Qed.

(* ------------------------------------------------------------------ *)
(* character facts used by split() *)

Lemma digit_range d : is_digit d = true -> 48 <= d <= 57.
Proof. unfold is_digit. rewrite andb_true_iff, !N.leb_le. tauto. Qed.
Lemma digit_not_space d : is_digit d = true -> is_space d = false.
Proof.
  intro H. apply digit_range in H. unfold is_space.
  repeat (apply orb_false_iff; split); try (apply andb_false_iff; rewrite !N.leb_gt; lia);
  apply N.eqb_neq; lia.
Qed.
Lemma digit_neq d k : is_digit d = true -> is_digit k = false -> (k =? d) = false.
Proof. intros H K. apply N.eqb_neq. intros ->. congruence. Qed.
Lemma space_neq c k : is_space c = true -> is_space k = false -> (k =? c) = false.
Proof. intros H K. apply N.eqb_neq. intros ->. congruence. Qed.

Lemma idchar_range c : Spec.is_idchar c = true -> 48 <= c <= 57 \/ 65 <= c <= 90 \/ 97 <= c <= 122 \/ c = 45.
Proof.
  unfold Spec.is_idchar, is_alnum, is_alpha, is_lower, is_upper, is_digit.
  rewrite !orb_true_iff, !andb_true_iff, !N.leb_le, N.eqb_eq. lia.
Qed.
Lemma idchar_not_space c : Spec.is_idchar c = true -> is_space c = false.
Proof.
  intro H. apply idchar_range in H. unfold is_space.
  repeat (apply orb_false_iff; split); try (apply andb_false_iff; rewrite !N.leb_gt; lia);
  apply N.eqb_neq; lia.
Qed.

Lemma lstrip_space_app ws s : all_space ws = true -> lstrip (ws ++ s) = lstrip s.
Proof.
  induction ws as [|c ws IH]; intro H; [reflexivity|].
  cbn [all_space forallb] in H. apply andb_true_iff in H. destruct H as [Hc Hw].
  cbn [app lstrip]. rewrite Hc. apply IH. exact Hw.
Qed.
Lemma lstrip_nonspace c s : is_space c = false -> lstrip (c :: s) = c :: s.
Proof. intro H. cbn [lstrip]. rewrite H. reflexivity. Qed.

(* the printed partial version starts with a digit and ends with an identifier character *)
Lemma is_digits_head ds : Spec.is_digits ds = true -> exists d r, ds = d :: r /\ is_digit d = true.
Proof.
  destruct ds as [|d r]; [discriminate|]. cbn [Spec.is_digits forallb]. rewrite andb_true_iff.
  intros [H _]. eauto.
Qed.
Lemma partial_head p : wf_pcomp p = true -> exists d r, pr_partial p = d :: r /\ is_digit d = true.
Proof.
  intro H. destruct (wf_pcomp_parts p H) as (Hmaj & _).
  destruct (is_digits_head _ Hmaj) as (d & r & E & Hd). unfold pr_partial. rewrite E. simpl. eauto.
Qed.

Definition last_is (P : char -> bool) (s : str) : Prop :=
  match rev s with c :: _ => P c = true | [] => False end.
Lemma last_is_app P a b : last_is P b -> last_is P (a ++ b).
Proof.
  unfold last_is. rewrite rev_app_distr. destruct (rev b); [contradiction|]. simpl. auto.
Qed.
Lemma last_is_all P s : s <> [] -> forallb P s = true -> last_is P s.
Proof.
  intros Hne H. unfold last_is. destruct (rev s) as [|c r] eqn:E.
  - apply (f_equal (@rev char)) in E. rewrite rev_involutive in E. simpl in E. congruence.
  - assert (In c s) by (apply in_rev; rewrite E; left; reflexivity).
    rewrite forallb_forall in H. apply H. assumption.
Qed.
Lemma digits_last ds : Spec.is_digits ds = true -> last_is Spec.is_idchar ds.
Proof.
  intro H. destruct ds as [|d r]; [discriminate|]. apply last_is_all; [discriminate|].
  cbn [Spec.is_digits] in H. apply all_digit_idchar in H. exact H.
Qed.
Lemma pre_last l : l <> [] -> forallb wf_ident l = true -> last_is Spec.is_idchar (pr_pre l).
Proof.
  intros Hne H. destruct l as [|i l]; [congruence|]. unfold pr_pre.
  change (45 :: join [46] (map pr_ident (i :: l))) with ([45] ++ join [46] (map pr_ident (i :: l))).
  apply last_is_app. clear Hne. revert i H. induction l as [|j l IH]; intros i H.
  - simpl. cbn [forallb] in H. apply andb_true_iff in H. destruct H as [H _].
    destruct (wf_ident_chars _ H) as [Hc Hn]. apply last_is_all; assumption.
  - change (map pr_ident (i :: j :: l)) with (pr_ident i :: map pr_ident (j :: l)).
    change (join [46] (pr_ident i :: map pr_ident (j :: l)))
      with (pr_ident i ++ [46] ++ join [46] (map pr_ident (j :: l))).
    apply last_is_app. apply last_is_app. apply IH.
    cbn [forallb] in H. apply andb_true_iff in H. destruct H as [_ H]. exact H.
Qed.
Lemma partial_last p : wf_pcomp p = true -> last_is Spec.is_idchar (pr_partial p).
Proof.
  intro H. destruct (wf_pcomp_parts p H) as (Hmaj & Hmin & Hpat & Hpre & _ & _).
  unfold pr_partial. destruct (pc_pre p) as [|i l] eqn:E.
  - simpl pr_pre. rewrite app_nil_r.
    destruct (pc_min p) as [m|]; [|rewrite app_nil_r; apply digits_last; exact Hmaj].
    apply last_is_app. change (46 :: m ++ match pc_pat p with Some q => 46 :: q | None => [] end)
      with ([46] ++ m ++ match pc_pat p with Some q => 46 :: q | None => [] end).
    apply last_is_app.
    destruct (pc_pat p) as [q|]; [|rewrite app_nil_r; apply digits_last; exact Hmin].
    apply last_is_app. change (46 :: q) with ([46] ++ q). apply last_is_app. apply digits_last. exact Hpat.
  - rewrite app_assoc. apply last_is_app. apply pre_last; [discriminate|].
    unfold wf_pre in Hpre. apply andb_true_iff in Hpre. tauto.
Qed.

(* ------------------------------------------------------------------ *)
(* split(): one piece *)

Lemma digit_neq' d k : is_digit d = true -> is_digit k = false -> (d =? k) = false.
Proof. intros H K. rewrite N.eqb_sym. apply digit_neq; assumption. Qed.

Lemma no_eq_after sp d r : all_space sp = true -> is_digit d = true ->
  prefixb [Req.c_eq] (sp ++ d :: r) = false.
Proof.
  intros Hs Hd. destruct sp as [|c sp]; cbn [app prefixb].
  - unfold Req.c_eq. rewrite (digit_neq d 61 Hd eq_refl). reflexivity.
  - cbn [all_space forallb] in Hs. apply andb_true_iff in Hs. destruct Hs as [Hc _].
    unfold Req.c_eq. rewrite (space_neq c 61 Hc eq_refl). reflexivity.
Qed.

Lemma no_eq_after' sp d r : all_space sp = true -> is_digit d = true ->
  match sp ++ d :: r with [] => false | y :: _ => (Req.c_eq =? y) && true end = false.
Proof. exact (no_eq_after sp d r). Qed.

Lemma lstrip_sp sp d r : all_space sp = true -> is_digit d = true -> lstrip (sp ++ d :: r) = d :: r.
Proof.
  intros Hs Hd. rewrite lstrip_space_app by exact Hs. apply lstrip_nonspace, digit_not_space, Hd.
Qed.

Lemma idchar_not_star c : Spec.is_idchar c = true -> (42 =? c) = false.
Proof. intro H. apply idchar_range in H. apply N.eqb_neq. lia. Qed.

Lemma firstn_len_app {A} (x y : list A) : firstn (length (x ++ y) - length y) (x ++ y) = x.
Proof.
  rewrite app_length. replace (length x + length y - length y)%nat with (length x + 0)%nat by lia.
  rewrite firstn_app_2. simpl. apply app_nil_r.
Qed.

Lemma op_sym_val o : op_sym o =
  match o with
  | OCaret => [94] | OTilde => [126] | OWild => [] | OExact => [61]
  | OLt => [60] | OLe => [60; 61] | OGt => [62] | OGe => [62; 61]
  end.
Proof. destruct o; reflexivity. Qed.

Theorem split_one_comp p : wf_pcomp p = true ->
  split_one (pr_comp p) = Some (rop_of (pc_op p), pr_partial p).
Proof.
  intro H. destruct (partial_head p H) as (d & r & E & Hd). pose proof (partial_last p H) as L.
  destruct (wf_pcomp_parts p H) as (_ & _ & _ & _ & Hsp & _).
  unfold pr_comp, split_one, c_star, c_gt, c_lt, c_bang, c_tilde, c_caret, c_dot.
  destruct (pc_op p); rewrite ?op_sym_val; cbn [rop_of app].
  - (* caret *)
    destruct (pc_bare p).
    + rewrite E in *. cbn [str_eqb prefixb].
      rewrite (digit_neq' d 42 Hd eq_refl).
      unfold Req.c_eq.
      rewrite (digit_neq d 62 Hd eq_refl), (digit_neq d 60 Hd eq_refl), (digit_neq d 33 Hd eq_refl),
              (digit_neq d 126 Hd eq_refl), (digit_neq d 61 Hd eq_refl), (digit_neq d 94 Hd eq_refl).
      cbn [andb]. unfold suffixb. unfold last_is in L. destruct (rev (d :: r)) as [|c t]; [contradiction|].
      cbn [rev app prefixb]. rewrite (idchar_not_star c L). reflexivity.
    + rewrite E. cbn. rewrite (lstrip_sp _ d r Hsp Hd). reflexivity.
  - (* tilde *) rewrite E. cbn. rewrite (lstrip_sp _ d r Hsp Hd). reflexivity.
  - (* wildcard *)
    change (s2l ".*") with [46; 42].
    rewrite E in *. cbn [app str_eqb prefixb].
    rewrite (digit_neq' d 42 Hd eq_refl).
    unfold Req.c_eq.
    rewrite (digit_neq d 62 Hd eq_refl), (digit_neq d 60 Hd eq_refl), (digit_neq d 33 Hd eq_refl),
            (digit_neq d 126 Hd eq_refl), (digit_neq d 61 Hd eq_refl), (digit_neq d 94 Hd eq_refl).
    cbn [andb].
    change (d :: r ++ [46; 42]) with ((d :: r) ++ [46; 42]).
    unfold suffixb. rewrite rev_app_distr. rewrite prefixb_app.
    unfold drop_last2. change 2%nat with (length [46; 42]). rewrite firstn_len_app.
    rewrite (lstrip_nonspace d r (digit_not_space d Hd)). reflexivity.
  - (* = *) rewrite E. cbn. rewrite (lstrip_sp _ d r Hsp Hd). reflexivity.
  - (* < *) rewrite E. cbn [app str_eqb prefixb N.eqb Pos.eqb andb drop]. rewrite (no_eq_after' _ d r Hsp Hd).
    unfold Req.c_eq. cbn [app str_eqb prefixb N.eqb Pos.eqb andb drop]. rewrite (lstrip_sp _ d r Hsp Hd). reflexivity.
  - (* <= *) rewrite E. cbn. rewrite (lstrip_sp _ d r Hsp Hd). reflexivity.
  - (* > *) rewrite E. cbn [app str_eqb prefixb N.eqb Pos.eqb andb drop]. rewrite (no_eq_after' _ d r Hsp Hd).
    unfold Req.c_eq. cbn [app str_eqb prefixb N.eqb Pos.eqb andb drop]. rewrite (lstrip_sp _ d r Hsp Hd). reflexivity.
  - (* >= *) rewrite E. cbn. rewrite (lstrip_sp _ d r Hsp Hd). reflexivity.
Qed.

Lemma split_one_star : split_one [42] = None.
Proof. reflexivity. Qed.

(* ------------------------------------------------------------------ *)
(* strip / split(',') on printed requirements *)

Lemma forallb_rev {A} (P : A -> bool) l : forallb P (rev l) = forallb P l.
Proof.
  destruct (forallb P l) eqn:E.
  - rewrite forallb_forall in *. intros x Hx. apply E. apply in_rev. exact Hx.
  - destruct (forallb P (rev l)) eqn:E2; [|reflexivity].
    rewrite forallb_forall in E2. assert (forallb P l = true); [|congruence].
    apply forallb_forall. intros x Hx. apply E2. apply in_rev. rewrite rev_involutive. exact Hx.
Qed.

Definition nonspace (c : char) : bool := negb (is_space c).

Lemma lstrip_all_space ws : all_space ws = true -> lstrip ws = [].
Proof.
  intro H. rewrite <- (app_nil_r ws). rewrite lstrip_space_app by exact H. reflexivity.
Qed.
Lemma strip_all_space ws : all_space ws = true -> strip ws = [].
Proof. intro H. unfold strip. rewrite lstrip_all_space by exact H. reflexivity. Qed.

Lemma rstrip_core core ws : all_space ws = true -> last_is nonspace core -> rstrip (core ++ ws) = core.
Proof.
  intros Hw L. unfold rstrip. rewrite rev_app_distr.
  rewrite lstrip_space_app by (unfold all_space; rewrite forallb_rev; exact Hw).
  unfold last_is in L. destruct (rev core) as [|c t] eqn:E; [contradiction|].
  unfold nonspace in L. apply negb_true_iff in L. rewrite lstrip_nonspace by exact L.
  rewrite <- E. apply rev_involutive.
Qed.
Lemma strip_core ws1 c r ws2 : all_space ws1 = true -> all_space ws2 = true ->
  is_space c = false -> last_is nonspace (c :: r) -> strip (ws1 ++ (c :: r) ++ ws2) = c :: r.
Proof.
  intros H1 H2 Hc L. unfold strip. rewrite lstrip_space_app by exact H1.
  cbn [app]. rewrite lstrip_nonspace by exact Hc.
  change (c :: r ++ ws2) with ((c :: r) ++ ws2). apply rstrip_core; assumption.
Qed.

Definition nc (c : char) : bool := negb (c =? c_comma).

Lemma split_on_acc_run x : forallb nc x = true -> forall rest racc,
  split_on_acc Req.c_comma (x ++ rest) racc = split_on_acc Req.c_comma rest (rev x ++ racc).
Proof.
  induction x as [|c x IH]; intros H rest racc; [reflexivity|].
  cbn [forallb] in H. apply andb_true_iff in H. destruct H as [Hc Hx].
  unfold nc in Hc. apply negb_true_iff in Hc.
  cbn [app split_on_acc]. change (c =? Req.c_comma) with (c =? c_comma). rewrite Hc.
  rewrite IH by exact Hx. simpl rev. rewrite <- app_assoc. reflexivity.
Qed.
Lemma split_on_join_acc xs : Forall (fun x => forallb nc x = true) xs -> forall x racc,
  forallb nc x = true ->
  split_on_acc Req.c_comma (join [44] (x :: xs)) racc = (rev racc ++ x) :: xs.
Proof.
  induction 1 as [|y ys Hy Hys IH]; intros x racc Hx.
  - simpl join. rewrite <- (app_nil_r x) at 1. rewrite split_on_acc_run by exact Hx.
    cbn [split_on_acc]. rewrite rev_app_distr, rev_involutive. reflexivity.
  - change (join [44] (x :: y :: ys)) with (x ++ [44] ++ join [44] (y :: ys)).
    rewrite split_on_acc_run by exact Hx. cbn [app split_on_acc].
    change (44 =? Req.c_comma) with true. cbv iota.
    rewrite rev_app_distr, rev_involutive. f_equal. apply (IH y [] Hy).
Qed.
Lemma split_on_join x xs : Forall (fun x => forallb nc x = true) (x :: xs) ->
  split_on Req.c_comma (join [44] (x :: xs)) = x :: xs.
Proof.
  intro H. inversion H; subst. unfold split_on. rewrite split_on_join_acc by assumption. reflexivity.
Qed.

(* ------------------------------------------------------------------ *)
(* facts about the printed pieces *)

Lemma forallb_app' {A} (P : A -> bool) a b : forallb P a = true -> forallb P b = true -> forallb P (a ++ b) = true.
Proof. intros Ha Hb. rewrite forallb_app, Ha, Hb. reflexivity. Qed.

Lemma nc_idchars s : forallb Spec.is_idchar s = true -> forallb nc s = true.
Proof.
  induction s as [|c s IH]; [reflexivity|]. cbn [forallb]. rewrite !andb_true_iff. intros [H1 H2].
  split; [|apply IH; exact H2]. apply idchar_range in H1. unfold nc. apply negb_true_iff, N.eqb_neq.
  unfold c_comma. lia.
Qed.
Lemma nc_digits ds : Spec.is_digits ds = true -> forallb nc ds = true.
Proof.
  intro H. destruct ds; [discriminate|]. cbn [Spec.is_digits] in H.
  apply nc_idchars. apply all_digit_idchar. exact H.
Qed.
Lemma nc_spaces ws : all_space ws = true -> forallb nc ws = true.
Proof.
  induction ws as [|c s IH]; [reflexivity|]. cbn [all_space forallb]. rewrite !andb_true_iff. intros [H1 H2].
  split; [|apply IH; exact H2]. unfold nc. apply negb_true_iff. rewrite N.eqb_sym. apply (space_neq c 44 H1 eq_refl).
Qed.
Lemma nc_pre l : forallb wf_ident l = true -> forallb nc (pr_pre l) = true.
Proof.
  intro H. destruct l as [|i l]; [reflexivity|]. unfold pr_pre. cbn [forallb]. apply andb_true_iff. split; [reflexivity|].
  revert i H. induction l as [|j l IH]; intros i H; cbn [forallb] in H; apply andb_true_iff in H; destruct H as [Hi Hl].
  - simpl. apply nc_idchars. apply (wf_ident_chars _ Hi).
  - change (map pr_ident (i :: j :: l)) with (pr_ident i :: map pr_ident (j :: l)).
    change (join [46] (pr_ident i :: map pr_ident (j :: l)))
      with (pr_ident i ++ [46] ++ join [46] (map pr_ident (j :: l))).
    apply forallb_app'; [apply nc_idchars; apply (wf_ident_chars _ Hi)|].
    apply forallb_app'; [reflexivity | apply IH; exact Hl].
Qed.
Lemma nc_partial p : wf_pcomp p = true -> forallb nc (pr_partial p) = true.
Proof.
  intro H. destruct (wf_pcomp_parts p H) as (Hmaj & Hmin & Hpat & Hpre & _ & _).
  unfold wf_pre in Hpre. apply andb_true_iff in Hpre. destruct Hpre as [Hpre _].
  unfold pr_partial. apply forallb_app'; [apply nc_digits; exact Hmaj|].
  apply forallb_app'; [|apply nc_pre; exact Hpre].
  destruct (pc_min p) as [m|]; [|reflexivity].
  change (46 :: m ++ match pc_pat p with Some q => 46 :: q | None => [] end)
    with ([46] ++ m ++ match pc_pat p with Some q => 46 :: q | None => [] end).
  apply forallb_app'; [reflexivity|]. apply forallb_app'; [apply nc_digits; exact Hmin|].
  destruct (pc_pat p) as [q|]; [|reflexivity].
  change (46 :: q) with ([46] ++ q). apply forallb_app'; [reflexivity | apply nc_digits; exact Hpat].
Qed.
Lemma nc_comp p : wf_pcomp p = true -> forallb nc (pr_comp p) = true.
Proof.
  intro H. pose proof (nc_partial p H) as Hp.
  destruct (wf_pcomp_parts p H) as (_ & _ & _ & _ & Hsp & _). apply nc_spaces in Hsp.
  unfold pr_comp. destruct (pc_op p); rewrite ?op_sym_val;
    try (apply forallb_app'; [reflexivity|]; apply forallb_app'; assumption).
  - destruct (pc_bare p); [exact Hp|]. apply forallb_app'; [reflexivity|]. apply forallb_app'; assumption.
  - apply forallb_app'; [exact Hp | reflexivity].
Qed.

Lemma body_head b : match b with BStar => True | BComp c => wf_pcomp c = true end ->
  exists c r, pr_body b = c :: r /\ is_space c = false.
Proof.
  destruct b as [|p]; intro H; [exists 42, []; split; reflexivity|].
  destruct (partial_head p H) as (d & r & E & Hd). cbn [pr_body]. unfold pr_comp.
  destruct (pc_op p); rewrite ?op_sym_val; cbn [app]; try (eexists; eexists; split; reflexivity).
  - destruct (pc_bare p); [rewrite E; exists d, r; split; [reflexivity | apply digit_not_space; exact Hd]|].
    cbn [app]. eexists; eexists; split; reflexivity.
  - rewrite E. cbn [app]. exists d, (r ++ s2l ".*"). split; [reflexivity | apply digit_not_space; exact Hd].
Qed.
Lemma idchar_last_nonspace s : last_is Spec.is_idchar s -> last_is nonspace s.
Proof.
  unfold last_is. destruct (rev s); [auto|]. intro H. unfold nonspace. rewrite (idchar_not_space _ H). reflexivity.
Qed.
Lemma body_last b : match b with BStar => True | BComp c => wf_pcomp c = true end ->
  last_is nonspace (pr_body b).
Proof.
  destruct b as [|p]; intro H; [reflexivity|].
  pose proof (idchar_last_nonspace _ (partial_last p H)) as L. cbn [pr_body]. unfold pr_comp.
  destruct (pc_op p); try (apply last_is_app; apply last_is_app; exact L).
  - destruct (pc_bare p); [exact L|]. apply last_is_app, last_is_app. exact L.
  - apply last_is_app. reflexivity.
Qed.

Definition part_of (p : ppiece) : list (rop * str) :=
  match pp_body p with
  | BStar => []
  | BComp c => [(rop_of (pc_op c), pr_partial c)]
  end.

Lemma wf_piece_parts p : wf_piece p = true ->
  all_space (pp_lead p) = true /\ all_space (pp_trail p) = true /\
  match pp_body p with BStar => True | BComp c => wf_pcomp c = true end.
Proof.
  unfold wf_piece. rewrite !andb_true_iff. intros [[H1 H2] H3]. repeat split; try assumption.
  destruct (pp_body p); [exact I | exact H3].
Qed.

Lemma split_pieces_printed l : forallb wf_piece l = true ->
  split_pieces (map pr_piece l) = flat_map part_of l.
Proof.
  induction l as [|p l IH]; intro H; [reflexivity|].
  cbn [forallb] in H. apply andb_true_iff in H. destruct H as [Hp Hl].
  destruct (wf_piece_parts p Hp) as (H1 & H2 & H3).
  destruct (body_head _ H3) as (c & r & E & Hc). pose proof (body_last _ H3) as L.
  cbn [map split_pieces flat_map]. unfold pr_piece. rewrite E in *.
  rewrite strip_core by assumption. rewrite <- E. unfold part_of.
  destruct (pp_body p) as [|pc]; cbn [pr_body].
  - rewrite split_one_star. apply IH. exact Hl.
  - rewrite split_one_comp by exact H3. cbn [app]. f_equal. apply IH. exact Hl.
Qed.

Lemma nc_piece p : wf_piece p = true -> forallb nc (pr_piece p) = true.
Proof.
  intro H. destruct (wf_piece_parts p H) as (H1 & H2 & H3). unfold pr_piece.
  apply forallb_app'; [apply nc_spaces; exact H1|]. apply forallb_app'; [|apply nc_spaces; exact H2].
  destruct (pp_body p); [reflexivity | apply nc_comp; exact H3].
Qed.

(* the first piece has no leading and the last no trailing blanks — those are the
   outer blanks [ol], [ot] of the whole string *)
Definition edges_ok (l : list ppiece) : Prop :=
  match l with [] => True | p :: _ => pp_lead p = [] end /\
  match rev l with [] => True | q :: _ => pp_trail q = [] end.

Lemma join_last_is (P : char -> bool) (f : ppiece -> str) l :
  l <> [] -> (forall q t, rev l = q :: t -> last_is P (f q)) -> last_is P (join [44] (map f l)).
Proof.
  induction l as [|p l IH]; intros Hne H; [congruence|].
  destruct l as [|p2 l].
  - simpl. apply (H p []). reflexivity.
  - change (map f (p :: p2 :: l)) with (f p :: map f (p2 :: l)).
    change (join [44] (f p :: map f (p2 :: l))) with (f p ++ [44] ++ join [44] (map f (p2 :: l))).
    apply last_is_app, last_is_app. apply IH; [discriminate|].
    intros q t E. apply (H q (t ++ [p])). change (rev (p :: p2 :: l)) with (rev (p2 :: l) ++ [p]).
    rewrite E. reflexivity.
Qed.

Theorem req_split_printed ol ot l :
  all_space ol = true -> all_space ot = true -> forallb wf_piece l = true -> edges_ok l ->
  req_split (ol ++ pr_req l ++ ot) = flat_map part_of l.
Proof.
  intros Hol Hot Hwf [Hfirst Hlast]. unfold req_split.
  destruct l as [|p l].
  - simpl pr_req. rewrite strip_all_space; [reflexivity|].
    apply forallb_app'; [exact Hol | exact Hot].
  - assert (Hall : Forall (fun x => forallb nc x = true) (map pr_piece (p :: l))).
    { apply Forall_forall. intros x Hx. apply in_map_iff in Hx. destruct Hx as (q & <- & Hq).
      apply nc_piece. rewrite forallb_forall in Hwf. apply Hwf. exact Hq. }
    (* the whole string starts and ends with a non-blank *)
    pose proof Hwf as Hwf'. cbn [forallb] in Hwf'. apply andb_true_iff in Hwf'. destruct Hwf' as [Hp _].
    destruct (wf_piece_parts p Hp) as (_ & _ & H3).
    destruct (body_head _ H3) as (c & r & E & Hc).
    assert (Hhead : exists r', pr_req (p :: l) = c :: r').
    { unfold pr_req. cbn [map]. unfold pr_piece at 1. rewrite Hfirst, E. cbn [app].
      destruct l; simpl; eauto. }
    destruct Hhead as (r' & EM).
    assert (Hlast' : last_is nonspace (pr_req (p :: l))).
    { unfold pr_req. apply join_last_is; [discriminate|]. intros q t Eq.
      rewrite Eq in Hlast. unfold pr_piece. rewrite Hlast, app_nil_r. apply last_is_app.
      apply body_last. apply wf_piece_parts.
      rewrite forallb_forall in Hwf. apply Hwf. apply in_rev. rewrite Eq. left. reflexivity. }
    rewrite EM in *. rewrite strip_core by assumption. rewrite <- EM.
    unfold pr_req. cbn [map]. rewrite split_on_join by exact Hall.
    change (pr_piece p :: map pr_piece l) with (map pr_piece (p :: l)).
    apply split_pieces_printed. exact Hwf.
Qed.

(* ------------------------------------------------------------------ *)
(* cargo_parse / compare *)

Lemma parse_parts_spec parts :
  parse_parts parts =
  (flat_map (fun p => constraints_of (fst p) (semver_of_str (snd p))) parts,
   existsb (fun p => has_prerelease (semver_of_str (snd p))) parts).
Proof.
  induction parts as [|[op ver] r IH]; [reflexivity|].
  cbn [parse_parts flat_map existsb fst snd]. rewrite IH. reflexivity.
Qed.

(* A pre-release never satisfies a requirement that names no pre-release — for ALL
   requirement strings and ALL version strings (no well-formedness needed). *)
Theorem prerelease_gate req ver :
  has_prerelease (semver_of_str ver) = true ->
  existsb (fun p => has_prerelease (semver_of_str (snd p))) (req_split req) = false ->
  req_matches req ver = false.
Proof.
  intros Hv Hr. unfold req_matches, cargo_parse. rewrite parse_parts_spec.
  unfold req_compare. cbn [rq_out rq_accept_pre]. rewrite Hv, Hr. reflexivity.
Qed.

Lemma holds_app lhs a b : holds lhs (a ++ b) = holds lhs a && holds lhs b.
Proof. unfold holds. apply forallb_app. Qed.

Lemma has_pre_vvec v n : has_prerelease (mkSemVer (vvec v) n) = negb (is_release v).
Proof. unfold has_prerelease, vvec, is_release. cbn [sv_v nth_error]. destruct (vpre v); reflexivity. Qed.

Lemma holds_parts lhs l v : forallb wf_piece l = true -> vpre v = [] -> lhs = vvec v ->
  holds lhs (flat_map (fun p => constraints_of (fst p) (semver_of_str (snd p))) (flat_map part_of l)) =
  forallb (fun c => matches_comp c v) (comps_of l).
Proof.
  intros Hwf Hv ->. induction l as [|p l IH]; [reflexivity|].
  cbn [forallb] in Hwf. apply andb_true_iff in Hwf. destruct Hwf as [Hp Hl].
  destruct (wf_piece_parts p Hp) as (_ & _ & H3).
  cbn [flat_map comps_of]. rewrite flat_map_app, holds_app. rewrite IH by exact Hl.
  unfold part_of. destruct (pp_body p) as [|c].
  - reflexivity.
  - cbn [flat_map fst snd forallb app]. rewrite app_nil_r.
    rewrite semver_of_partial by exact H3.
    change (pc_op c) with (c_op (comparator_of c)).
    rewrite constraints_match; [reflexivity | apply (wf_pcomp_parts c H3) | exact Hv].
Qed.

(* The requirement clause: for every printed requirement (any operators, partial
   versions, comma lists, stars, blanks) and every release version, acceptance is
   Cargo's rule with the two pinned deviations. *)
Theorem req_matches_release ol ot l pv :
  all_space ol = true -> all_space ot = true -> forallb wf_piece l = true -> edges_ok l ->
  wf_pversion pv = true -> ppre pv = [] ->
  req_matches (ol ++ pr_req l ++ ot) (pr_version pv) = cargo_matches (comps_of l) (version_of pv).
Proof.
  intros Hol Hot Hwf He Hpv Hrel. unfold req_matches, cargo_parse.
  rewrite (req_split_printed ol ot l Hol Hot Hwf He). rewrite parse_parts_spec.
  unfold req_compare. cbn [rq_out rq_accept_pre]. rewrite (semver_of_printed pv Hpv).
  rewrite has_pre_vvec. cbn [sv_v].
  assert (Hv : vpre (version_of pv) = []) by (unfold version_of; cbn [vpre]; rewrite Hrel; reflexivity).
  unfold is_release. rewrite Hv. cbn [negb andb].
  change (forallb (fun c => bop_apply (fst c) (vvec (version_of pv)) (snd c)))
    with (holds (vvec (version_of pv))).
  rewrite (holds_parts _ l (version_of pv) Hwf Hv eq_refl).
  unfold cargo_matches, is_release. rewrite Hv. cbn [orb]. rewrite andb_true_r. reflexivity.
Qed.

(* the gate on printed requirements: no comparator names a pre-release -> every
   pre-release version is rejected *)
Lemma has_pre_parts l : forallb wf_piece l = true ->
  existsb (fun p => has_prerelease (semver_of_str (snd p))) (flat_map part_of l) =
  names_prerelease (comps_of l).
Proof.
  induction l as [|p l IH]; intro Hwf; [reflexivity|].
  cbn [forallb] in Hwf. apply andb_true_iff in Hwf. destruct Hwf as [Hp Hl].
  destruct (wf_piece_parts p Hp) as (_ & _ & H3).
  cbn [flat_map comps_of]. rewrite existsb_app, IH by exact Hl.
  unfold part_of. destruct (pp_body p) as [|c]; [reflexivity|].
  cbn [existsb snd]. rewrite orb_false_r. rewrite semver_of_partial by exact H3.
  unfold names_prerelease. cbn [existsb]. f_equal.
  unfold csem. rewrite has_pre_vvec. unfold is_release, cversion. cbn [vpre].
  destruct (cpre (comparator_of c)); reflexivity.
Qed.

Theorem req_gate_printed ol ot l pv :
  all_space ol = true -> all_space ot = true -> forallb wf_piece l = true -> edges_ok l ->
  wf_pversion pv = true -> ppre pv <> [] -> names_prerelease (comps_of l) = false ->
  req_matches (ol ++ pr_req l ++ ot) (pr_version pv) = false.
Proof.
  intros Hol Hot Hwf He Hpv Hpre Hn. apply prerelease_gate.
  - rewrite (semver_of_printed pv Hpv), has_pre_vvec. unfold is_release, version_of. cbn [vpre].
    destruct (ppre pv); [congruence | reflexivity].
  - rewrite (req_split_printed ol ot l Hol Hot Hwf He), has_pre_parts by exact Hwf. exact Hn.
Qed.

(* the hypotheses are satisfiable by a non-trivial requirement:
   "  >= 1.2 ,<2.0.0-rc.1, * ,0.*  " against 1.10.3+meta *)
Definition ex_req : list ppiece :=
  [mkPP [] (BComp (mkPC OGe false [32] [49] (Some [50]) None [])) [32];
   mkPP [] (BComp (mkPC OLt false [] [50] (Some [48]) (Some [48]) [PAlnum (s2l "rc"); PNum [49]])) [];
   mkPP [32] BStar [32];
   mkPP [] (BComp (mkPC OWild false [] [49] None None [])) []].
Definition ex_ver : pversion := mkPV [49] [49; 48] [51] [] (Some (s2l "meta")).
Example req_example_wf :
  forallb wf_piece ex_req = true /\ wf_pversion ex_ver = true /\
  pr_req ex_req = s2l ">= 1.2 ,<2.0.0-rc.1, * ,1.*" /\
  req_matches ([32; 32] ++ pr_req ex_req ++ [32; 32]) (pr_version ex_ver) = true /\
  cargo_matches (comps_of ex_req) (version_of ex_ver) = true.
Proof. vm_compute. repeat split; reflexivity. Qed.
