(* Mtest/Classify.v — executable model of how `meson test` classifies one run
   and tallies a whole run (mesonbuild/mtest.py):
     TestResult                                   mtest.py:265-292
     TestSubprocess.wait  (res/returncode)        mtest.py:1447-1464
     TestRun._complete    (should_fail inversion) mtest.py:1049-1061
     TestRunExitCode.complete                     mtest.py:1106-1119
     TestRunTAP.complete / parse                  mtest.py:1147-1199
     TestRunRust.parse                            mtest.py:1202-1247
     TestHarness.process_test_result              mtest.py:1818-1836
     TestHarness.summary / total_failure_count    mtest.py:1885-1904
     TestHarness.doit exit status                 mtest.py:1947
     SingleTestRunner timeout computation         mtest.py:1517-1524
   No proofs in this file. *)
From MV Require Export Base.Strs.
From Coq Require Import ZArith.
Open Scope N_scope.

(* mtest.py:265  (PENDING / RUNNING are the two pre-states: modelled as None) *)
Inductive result :=
  | OK | TIMEOUT | INTERRUPT | SKIP | FAIL | EXPECTEDFAIL | UNEXPECTEDPASS | ERROR | IGNORED.

Definition result_eqb (a b : result) : bool :=
  match a, b with
  | OK, OK | TIMEOUT, TIMEOUT | INTERRUPT, INTERRUPT | SKIP, SKIP | FAIL, FAIL
  | EXPECTEDFAIL, EXPECTEDFAIL | UNEXPECTEDPASS, UNEXPECTEDPASS | ERROR, ERROR
  | IGNORED, IGNORED => true
  | _, _ => false
  end.

(* mtest.py:283 *)
Definition is_ok (r : result) : bool :=
  match r with OK | EXPECTEDFAIL => true | _ => false end.
(* mtest.py:286 *)
Definition is_bad (r : result) : bool :=
  match r with FAIL | TIMEOUT | INTERRUPT | UNEXPECTEDPASS | ERROR => true | _ => false end.

Inductive proto := PExitcode | PGtest | PTap | PRust.

(* What TestSubprocess.wait observed (mtest.py:1447-1464): the process ended by
   itself, the limit passed (-> _kill, res := TIMEOUT) or the task was cancelled
   (-> _kill, res := INTERRUPT).  rc is `p.returncode or 0`. *)
Inductive wkind := WExited | WTimedOut | WCancelled.

Definition wait_res (w : wkind) : option result :=
  match w with
  | WExited => None                 (* res stays RUNNING *)
  | WTimedOut => Some TIMEOUT       (* mtest.py:1455 *)
  | WCancelled => Some INTERRUPT    (* mtest.py:1459 *)
  end.

(* Events of a TAP / rust-harness stream as the parse() loops see them. *)
Inductive tapev := TTest (r : result) | TBailout | TError | TOther.

Definition opt_res_is (o : option result) (r : result) : bool :=
  match o with Some x => result_eqb x r | None => false end.

(* mtest.py:1159-1180  the `async for` loop of TestRunTAP.parse *)
Fixpoint tap_loop (evs : list tapev) (res : option result) (results : list result)
  : option result * list result :=
  match evs with
  | [] => (res, results)
  | TBailout :: r => tap_loop r (Some ERROR) results
  | TTest t :: r => tap_loop r (if is_bad t then Some FAIL else res) (results ++ [t])
  | TOther :: r => tap_loop r res results
  | TError :: r => tap_loop r (Some ERROR) results
  end.

(* mtest.py:1192-1199 *)
Definition tap_parse (evs : list tapev) (cur : option result) : option result :=
  let '(res, results) := tap_loop evs None [] in
  let res := if forallb (fun t => result_eqb t SKIP) results
             then (if opt_res_is res ERROR then res else Some SKIP) else res in
  match res, cur with
  | Some r, None => Some r       (* if res and self.res == RUNNING *)
  | _, _ => cur
  end.

(* mtest.py:1219-1247  TestRunRust.parse: only TTest events exist *)
Fixpoint tests_of (evs : list tapev) : list result :=
  match evs with
  | [] => []
  | TTest t :: r => t :: tests_of r
  | _ :: r => tests_of r
  end.
Definition rust_parse (evs : list tapev) (cur : option result) : option result :=
  let results := tests_of evs in
  let res := if forallb (fun t => result_eqb t SKIP) results then Some SKIP
             else if existsb (fun t => result_eqb t ERROR) results then Some ERROR
             else if existsb (fun t => result_eqb t FAIL) results then Some FAIL
             else None in
  match res, cur with
  | Some r, None => Some r
  | _, _ => cur
  end.

(* mtest.py:1049-1056  TestRun._complete (interactive/IGNORED branch: the
   console is never INTERACTIVE in the modelled runs) *)
Definition base_complete (expected_fail : bool) (cur : option result) : result :=
  let r := match cur with None => OK | Some r => r end in
  if expected_fail then
    match r with
    | OK => UNEXPECTEDPASS
    | FAIL => EXPECTEDFAIL
    | _ => r
    end
  else r.

(* mtest.py:1108-1119  TestRunExitCode.complete; expected = expected_exitcode or 0 *)
Definition exitcode_complete (expected : Z) (rc : Z) (cur : option result) : option result :=
  match cur with
  | Some r => Some r
  | None =>
      if (rc =? expected)%Z then Some OK
      else if (rc =? 77)%Z then Some SKIP
      else if (rc =? 99)%Z then Some ERROR
      else Some FAIL
  end.

(* mtest.py:1152-1157  TestRunTAP.complete *)
Definition tap_complete (rc : Z) (cur : option result) : option result :=
  let bad := match cur with Some r => is_bad r | None => false end in
  if negb (rc =? 0)%Z && negb bad then Some ERROR else cur.

(* One whole run: wait, (parse), complete, _complete. *)
Definition classify (p : proto) (expected_fail : bool) (expected_exit : Z)
           (evs : list tapev) (w : wkind) (rc : Z) : result :=
  let r0 := wait_res w in
  match p with
  | PExitcode | PGtest => base_complete expected_fail (exitcode_complete expected_exit rc r0)
  | PTap => base_complete expected_fail (tap_complete rc (tap_parse evs r0))
  | PRust => base_complete expected_fail (rust_parse evs r0)
  end.

(* ---------------------------------------------------------------- totals *)
(* mtest.py:1674-1680 the seven counters *)
Record counts := mkcounts {
  n_ok : nat; n_expfail : nat; n_fail : nat; n_unexppass : nat;
  n_skip : nat; n_ignored : nat; n_timeout : nat }.

Definition zero_counts : counts := mkcounts 0 0 0 0 0 0 0.

(* mtest.py:1818-1834  process_test_result *)
Definition tally1 (c : counts) (r : result) : counts :=
  match r with
  | TIMEOUT => mkcounts (n_ok c) (n_expfail c) (n_fail c) (n_unexppass c) (n_skip c) (n_ignored c) (S (n_timeout c))
  | SKIP => mkcounts (n_ok c) (n_expfail c) (n_fail c) (n_unexppass c) (S (n_skip c)) (n_ignored c) (n_timeout c)
  | IGNORED => mkcounts (n_ok c) (n_expfail c) (n_fail c) (n_unexppass c) (n_skip c) (S (n_ignored c)) (n_timeout c)
  | OK => mkcounts (S (n_ok c)) (n_expfail c) (n_fail c) (n_unexppass c) (n_skip c) (n_ignored c) (n_timeout c)
  | FAIL | ERROR | INTERRUPT =>
      mkcounts (n_ok c) (n_expfail c) (S (n_fail c)) (n_unexppass c) (n_skip c) (n_ignored c) (n_timeout c)
  | EXPECTEDFAIL => mkcounts (n_ok c) (S (n_expfail c)) (n_fail c) (n_unexppass c) (n_skip c) (n_ignored c) (n_timeout c)
  | UNEXPECTEDPASS => mkcounts (n_ok c) (n_expfail c) (n_fail c) (S (n_unexppass c)) (n_skip c) (n_ignored c) (n_timeout c)
  end.

Definition tally (rs : list result) : counts := fold_left tally1 rs zero_counts.

(* which results bump fail_count (used by the scheduler's stop rules) *)
Definition counts_fail (r : result) : bool :=
  match r with FAIL | ERROR | INTERRUPT => true | _ => false end.

(* mtest.py:1903 *)
Definition total_failure_count (c : counts) : nat := n_fail c + n_unexppass c + n_timeout c.

(* mtest.py:1947 *)
Definition exit_status (c : counts) : nat := if (0 <? total_failure_count c)%nat then 1%nat else 0%nat.

(* mtest.py:1885-1901: label index (0..6) and count of every printed summary line;
   a line is printed when count > 0 or it is 'Ok:' or 'Fail:' *)
Definition summary_lines (c : counts) : list (nat * nat) :=
  filter (fun ln => (0 <? snd ln)%nat || (fst ln =? 0)%nat || (fst ln =? 2)%nat)
         [(0, n_ok c); (1, n_expfail c); (2, n_fail c); (3, n_unexppass c);
          (4, n_skip c); (5, n_ignored c); (6, n_timeout c)]%nat.

(* ---------------------------------------------------------------- timeout *)
(* mtest.py:1517-1524.  test timeout t (None or int seconds), multiplier m given
   in thousandths (None = option absent); result: None = no limit, Some ms. *)
Definition eff_timeout (interactive : bool) (t : option Z) (m : option Z) : option Z :=
  match t with
  | None => None
  | Some tv =>
      if interactive || (tv <=? 0)%Z then None
      else match m with
           | None => Some (tv * 1000)%Z
           | Some mv => if (mv <=? 0)%Z then None else Some (tv * mv)%Z
           end
  end.
