(* Mtest/Sched.v — the scheduler of `meson test` as a labelled transition system,
   transcribed from TestHarness._run_tests (mesonbuild/mtest.py:2142-2238), and
   the executable trace checker `admissible`.

   asyncio is cooperative, so the only places where control changes hands are
   the awaits; one transition = one atomic stretch of code:

     LSpawn k    main loop, mtest.py:2220-2230: (for a non-parallel runner, after
                 `await complete_all(futures)` has returned, i.e. no future is
                 left) ensure_future(run_test(runner)); for a parallel runner the
                 `break` test of line 2229 follows at once, for a non-parallel
                 one the loop blocks in `await complete(future)`
     LResume k   main loop resumes after `await complete(future)` (2228) and
                 evaluates the `break` test (2229)
     LStart i    task i gets the semaphore (2151), the flag test (2152) is false,
                 test.run() launches the process
     LSkip i     task i gets the semaphore, the flag test is true: returns
     LEnd i r    test.run() of task i returned with result r; process_test_result
                 (2155), maxfail test (2156-2159) with cancel_all_tests (2179-2183),
                 semaphore released
     LVanish i   a cancelled task whose CancelledError is not turned into an
                 INTERRUPT result (raised outside TestSubprocess.wait's try):
                 the task ends without a result, semaphore released

   Which waiting task gets a free semaphore slot is left open (asyncio wakes
   waiters first-in first-out; the model allows any order, a superset).
   The model has no signals (SIGINT/SIGTERM handlers, 2185-2208).
   No proofs in this file. *)
From MV Require Export Base.Strs Mtest.Classify.
From Coq Require Import ZArith Arith.
Open Scope nat_scope.

Record cfg := mkcfg {
  c_par : list bool;      (* runner.is_parallel for every runner, in list order *)
  c_jobs : nat;           (* options.num_processes: the semaphore's initial value *)
  c_maxfail : Z;          (* options.maxfail *)
  c_repeat : bool         (* options.repeat > 1 *)
}.

Definition nrun (c : cfg) : nat := length (c_par c).
Definition par (c : cfg) (i : nat) : bool := nth i (c_par c) true.

Inductive pc := PLoop (k : nat) | PAwait (k : nat).

Record st := mkst {
  s_pc : pc;                       (* where the `for runner in runners` loop stands *)
  s_wait : list nat;               (* tasks created, not yet through `async with semaphore` *)
  s_run : list (nat * bool);       (* tasks inside test.run(); flag = cancel() was called *)
  s_failc : nat;                   (* self.fail_count *)
  s_intr : bool;                   (* interrupted *)
  (* history (ghost) *)
  s_started : list nat;
  s_done : list nat;               (* tasks that are over (result, skipped, cancelled, vanished) *)
  s_results : list (nat * result)
}.

Inductive label :=
  | LSpawn (k : nat) | LResume (k : nat) | LStart (i : nat) | LSkip (i : nat)
  | LEnd (i : nat) (r : result) | LVanish (i : nat).

Definition memn (i : nat) (l : list nat) : bool := existsb (Nat.eqb i) l.
Definition remn (i : nat) (l : list nat) : list nat := filter (fun j => negb (j =? i)) l.
Definition run_ids (l : list (nat * bool)) : list nat := map fst l.
Fixpoint find_run (i : nat) (l : list (nat * bool)) : option bool :=
  match l with
  | [] => None
  | (j, c) :: r => if j =? i then Some c else find_run i r
  end.
Definition rem_run (i : nat) (l : list (nat * bool)) : list (nat * bool) :=
  filter (fun x => negb (fst x =? i)) l.
Definition isnil {A} (l : list A) : bool := match l with [] => true | _ => false end.

(* mtest.py:2152 / 2229: `self.options.repeat > 1 and self.fail_count` *)
Definition repfail (c : cfg) (s : st) : bool := c_repeat c && (0 <? s_failc s).
(* mtest.py:2152: `interrupted or (...)` *)
Definition stopf (c : cfg) (s : st) : bool := s_intr s || repfail c s.
(* mtest.py:2229-2230: the loop either breaks (-> final complete_all) or goes on *)
Definition after_body (c : cfg) (s : st) (k : nat) : pc :=
  if repfail c s then PLoop (nrun c) else PLoop (S k).

(* mtest.py:2155 -> process_test_result: fail_count after result r *)
Definition failc_after (s : st) (r : result) : nat := s_failc s + (if counts_fail r then 1 else 0).
(* mtest.py:2157: `maxfail and self.fail_count >= maxfail and res.res.is_bad()` *)
Definition trig (c : cfg) (s : st) (r : result) : bool :=
  negb (c_maxfail c =? 0)%Z && (c_maxfail c <=? Z.of_nat (failc_after s r))%Z && is_bad r.

Definition init (c : cfg) : st := mkst (PLoop 0) [] [] 0 false [] [] [].

Definition exec (c : cfg) (s : st) (l : label) : option st :=
  match l with
  | LSpawn k =>
      match s_pc s with
      | PLoop k' =>
          if (k =? k') && (k <? nrun c) && (par c k || (isnil (s_wait s) && isnil (s_run s)))
          then Some (mkst (if par c k then after_body c s k else PAwait k)
                          (s_wait s ++ [k]) (s_run s) (s_failc s) (s_intr s)
                          (s_started s) (s_done s) (s_results s))
          else None
      | PAwait _ => None
      end
  | LResume k =>
      match s_pc s with
      | PAwait k' =>
          if (k =? k') && negb (memn k (s_wait s)) && negb (memn k (run_ids (s_run s)))
          then Some (mkst (after_body c s k) (s_wait s) (s_run s) (s_failc s) (s_intr s)
                          (s_started s) (s_done s) (s_results s))
          else None
      | PLoop _ => None
      end
  | LStart i =>
      if memn i (s_wait s) && (length (s_run s) <? c_jobs c) && negb (stopf c s)
      then Some (mkst (s_pc s) (remn i (s_wait s)) (s_run s ++ [(i, false)]) (s_failc s) (s_intr s)
                      (s_started s ++ [i]) (s_done s) (s_results s))
      else None
  | LSkip i =>
      if memn i (s_wait s) && (length (s_run s) <? c_jobs c) && stopf c s
      then Some (mkst (s_pc s) (remn i (s_wait s)) (s_run s) (s_failc s) (s_intr s)
                      (s_started s) (i :: s_done s) (s_results s))
      else None
  | LEnd i r =>
      match find_run i (s_run s) with
      | Some canc =>
          (* a cancelled task reports INTERRUPT (mtest.py:1456-1459); without
             signals nothing else does *)
          if Bool.eqb canc (result_eqb r INTERRUPT) then
            let failc' := failc_after s r in
            let trig := trig c s r in
            let rest := rem_run i (s_run s) in
            if trig then
              (* cancel_all_tests: interrupted = True; every future still in
                 running_tests is cancelled: waiting ones never start, running
                 ones get CancelledError *)
              Some (mkst (s_pc s) [] (map (fun x => (fst x, true)) rest) failc' true
                         (s_started s) (i :: s_wait s ++ s_done s) (s_results s ++ [(i, r)]))
            else
              Some (mkst (s_pc s) (s_wait s) rest failc' (s_intr s)
                         (s_started s) (i :: s_done s) (s_results s ++ [(i, r)]))
          else None
      | None => None
      end
  | LVanish i =>
      match find_run i (s_run s) with
      | Some true =>
          Some (mkst (s_pc s) (s_wait s) (rem_run i (s_run s)) (s_failc s) (s_intr s)
                     (s_started s) (i :: s_done s) (s_results s))
      | _ => None
      end
  end.

(* a trace of the transition system: a label list that can be executed *)
Fixpoint run (c : cfg) (s : st) (ls : list label) : option st :=
  match ls with
  | [] => Some s
  | l :: r => match exec c s l with Some s' => run c s' r | None => None end
  end.

(* `await complete_all(futures)` at 2232 has returned *)
Definition terminal (c : cfg) (s : st) : bool :=
  match s_pc s with
  | PLoop k => (nrun c <=? k) && isnil (s_wait s) && isnil (s_run s)
  | PAwait _ => false
  end.

(* ------------------------------------------------------------------ observation *)
(* What can be seen from outside: a test process starts, a result is reported,
   a started test goes away without a result. *)
Inductive vlabel := VStart (i : nat) | VEnd (i : nat) (r : result) | VVanish (i : nat).

Definition vis (l : label) : option vlabel :=
  match l with
  | LStart i => Some (VStart i)
  | LEnd i r => Some (VEnd i r)
  | LVanish i => Some (VVanish i)
  | _ => None
  end.
Fixpoint visible (ls : list label) : list vlabel :=
  match ls with
  | [] => []
  | l :: r => match vis l with Some v => v :: visible r | None => visible r end
  end.
Definition lab (v : vlabel) : label :=
  match v with VStart i => LStart i | VEnd i r => LEnd i r | VVanish i => LVanish i end.

(* the next internal step, if one is enabled: main loop first, then a skip *)
Definition next_skip (c : cfg) (s : st) : option label :=
  if stopf c s && (length (s_run s) <? c_jobs c) then
    match s_wait s with i :: _ => Some (LSkip i) | [] => None end
  else None.
Definition next_tau (c : cfg) (s : st) : option label :=
  match s_pc s with
  | PLoop k =>
      if (k <? nrun c) && (par c k || (isnil (s_wait s) && isnil (s_run s)))
      then Some (LSpawn k) else next_skip c s
  | PAwait k =>
      if negb (memn k (s_wait s)) && negb (memn k (run_ids (s_run s)))
      then Some (LResume k) else next_skip c s
  end.

(* run internal steps until none is enabled; returns the labels taken *)
Fixpoint saturate (c : cfg) (fuel : nat) (s : st) : list label * st :=
  match fuel with
  | O => ([], s)
  | S f =>
      match next_tau c s with
      | None => ([], s)
      | Some l =>
          match exec c s l with
          | Some s' => let '(ls, s'') := saturate c f s' in (l :: ls, s'')
          | None => ([], s)
          end
      end
  end.

Definition sat_fuel (c : cfg) : nat := 7 * nrun c + 7.

(* replay an observed trace: before every observed event, take all internal steps *)
Fixpoint adm_st (c : cfg) (s : st) (tr : list vlabel) : option st :=
  match tr with
  | [] => Some s
  | v :: r =>
      match exec c (snd (saturate c (sat_fuel c) s)) (lab v) with
      | Some s' => adm_st c s' r
      | None => None
      end
  end.

Definition admissible (c : cfg) (tr : list vlabel) : bool :=
  match adm_st c (init c) tr with Some _ => true | None => false end.

(* ... and the trace is that of a finished run *)
Definition complete_run (c : cfg) (tr : list vlabel) : bool :=
  match adm_st c (init c) tr with
  | Some s => terminal c (snd (saturate c (sat_fuel c) s))
  | None => false
  end.

(* index of the first event at which the replay gets stuck (diagnostics) *)
Fixpoint adm_pos (c : cfg) (s : st) (tr : list vlabel) (n : nat) : option nat :=
  match tr with
  | [] => None
  | v :: r =>
      match exec c (snd (saturate c (sat_fuel c) s)) (lab v) with
      | Some s' => adm_pos c s' r (S n)
      | None => Some n
      end
  end.

(* the same configuration with both stop rules switched off (used for the
   event log written by the test programs, whose stop point cannot be read
   off the log: see harness/check_C12.py) *)
Definition lax (c : cfg) : cfg := mkcfg (c_par c) (c_jobs c) 0%Z false.

(* ------------------------------------------------------------------ clauses *)
(* the tests running after a trace (ids started and not yet over) *)
Fixpoint active (ls : list label) (acc : list nat) : list nat :=
  match ls with
  | [] => acc
  | LStart i :: r => active r (acc ++ [i])
  | LEnd i _ :: r => active r (remn i acc)
  | LVanish i :: r => active r (remn i acc)
  | _ :: r => active r acc
  end.
Fixpoint starts (ls : list label) : list nat :=
  match ls with
  | [] => []
  | LStart i :: r => i :: starts r
  | _ :: r => starts r
  end.
Fixpoint ends (ls : list label) : list (nat * result) :=
  match ls with
  | [] => []
  | LEnd i x :: r => (i, x) :: ends r
  | _ :: r => ends r
  end.

(* ------------------------------------------------------------------ glue *)
(* TestHarness.doit, mtest.py:1928-1935 and SingleTestRunner, mtest.py:1526:
   num_processes := min(num_processes, len(tests) * repeat); a runner is parallel
   iff its test is and num_processes > 1; runners = tests repeated `repeat` times *)
Fixpoint repeat_list {A} (n : nat) (l : list A) : list A :=
  match n with O => [] | S m => l ++ repeat_list m l end.

Definition mk_cfg (tests_par : list bool) (repeat : nat) (num_processes : nat) (maxfail : Z) : cfg :=
  let jobs := Nat.min num_processes (length tests_par * repeat) in
  mkcfg (repeat_list repeat (map (fun p => p && (1 <? jobs)) tests_par)) jobs maxfail (1 <? repeat).

(* ------------------------------------------------------------------ the option layer *)
(* -j/--num-processes is parsed by argparse with type=positive_int (mtest.py add_arguments,
   fixed behaviour of pending/C12-num-processes-nonpositive.diff): a value <= 0 is a usage
   error (exit status 2, nothing runs); an absent option takes determine_worker_count(),
   which is not passed through `type`. *)
Definition parse_jobs (n : Z) : option nat :=
  if (n <=? 0)%Z then None else Some (Z.to_nat n).

(* utils/universal.py:1328-1351 determine_worker_count(['MESON_TESTTHREADS']):
   MESON_TESTTHREADS, then MESON_NUM_PROCESSES (the last one present prevails); a value that is
   not an integer or is negative gives 1; 0 (or nothing set) gives the CPU count (1 if that fails) *)
Inductive envval := EnvUnset | EnvInt (z : Z) | EnvGarbage.
Definition env_workers (v : envval) (acc : Z) : Z :=
  match v with
  | EnvUnset => acc
  | EnvInt z => if (z <? 0)%Z then 1%Z else z
  | EnvGarbage => 1%Z
  end.
Definition determine_worker_count (testthreads numproc : envval) (cpus : nat) : nat :=
  let n := env_workers numproc (env_workers testthreads 0%Z) in
  if (n <=? 0)%Z then Nat.max cpus 1 else Z.to_nat n.

Inductive cli := Rejected | Accepted (c : cfg).
(* the configuration a command line leads to: opt = the -j value if given *)
Definition cli_cfg (tests_par : list bool) (repeat : nat) (opt : option Z)
           (testthreads numproc : envval) (cpus : nat) (maxfail : Z) : cli :=
  match opt with
  | Some n => match parse_jobs n with
              | None => Rejected
              | Some np => Accepted (mk_cfg tests_par repeat np maxfail)
              end
  | None => Accepted (mk_cfg tests_par repeat (determine_worker_count testthreads numproc cpus) maxfail)
  end.
