(* Mtest/ClassifyProofs.v — the classification rule, the totals and the exit
   status of `meson test` (model: Mtest/Classify.v). *)
From MV Require Import Base.Strs Mtest.Classify.
From Coq Require Import Lia ZArith Arith List Bool.
Import ListNotations.
Open Scope nat_scope.

(* ------------------------------------------------------------------ classification *)
(* the documented rule for an exit-code test (no expected_exitcode, i.e. 0) *)
Definition documented (should_fail : bool) (rc : Z) : result :=
  if (rc =? 0)%Z then (if should_fail then UNEXPECTEDPASS else OK)
  else if (rc =? 77)%Z then SKIP
  else if (rc =? 99)%Z then ERROR
  else (if should_fail then EXPECTEDFAIL else FAIL).

Theorem classify_exit_documented : forall p sf evs rc,
  p = PExitcode \/ p = PGtest ->
  classify p sf 0%Z evs WExited rc = documented sf rc.
Proof.
  intros p sf evs rc [-> | ->]; unfold classify, documented; simpl;
    destruct (rc =? 0)%Z; simpl; try (destruct sf; reflexivity);
    destruct (rc =? 77)%Z; simpl; try (destruct sf; reflexivity);
    destruct (rc =? 99)%Z; simpl; destruct sf; reflexivity.
Qed.

(* with expected_exitcode e the status e plays the role of 0 and is tested first *)
Theorem classify_expected_exitcode : forall p sf e evs,
  p = PExitcode \/ p = PGtest ->
  classify p sf e evs WExited e = (if sf then UNEXPECTEDPASS else OK).
Proof.
  intros p sf e evs [-> | ->]; unfold classify; simpl; rewrite Z.eqb_refl; simpl; destruct sf; reflexivity.
Qed.

(* a test terminated because its limit passed is TIMEOUT, whatever its protocol,
   output, exit status and should_fail; a cancelled one is INTERRUPT *)
Theorem classify_timeout : forall p sf e evs rc, classify p sf e evs WTimedOut rc = TIMEOUT.
Proof.
  intros p sf e evs rc. destruct p; unfold classify; simpl.
  - destruct sf; reflexivity.
  - destruct sf; reflexivity.
  - unfold tap_parse. destruct (tap_loop evs None []) as [res results].
    destruct (if forallb (fun t => result_eqb t SKIP) results
              then if opt_res_is res ERROR then res else Some SKIP else res);
      unfold tap_complete; simpl; rewrite andb_false_r; destruct sf; reflexivity.
  - unfold rust_parse.
    destruct (if forallb (fun t => result_eqb t SKIP) (tests_of evs) then Some SKIP
              else if existsb (fun t => result_eqb t ERROR) (tests_of evs) then Some ERROR
              else if existsb (fun t => result_eqb t FAIL) (tests_of evs) then Some FAIL else None);
      destruct sf; reflexivity.
Qed.
Theorem classify_cancelled : forall p sf e evs rc, classify p sf e evs WCancelled rc = INTERRUPT.
Proof.
  intros p sf e evs rc. destruct p; unfold classify; simpl.
  - destruct sf; reflexivity.
  - destruct sf; reflexivity.
  - unfold tap_parse. destruct (tap_loop evs None []) as [res results].
    destruct (if forallb (fun t => result_eqb t SKIP) results
              then if opt_res_is res ERROR then res else Some SKIP else res);
      unfold tap_complete; simpl; rewrite andb_false_r; destruct sf; reflexivity.
  - unfold rust_parse.
    destruct (if forallb (fun t => result_eqb t SKIP) (tests_of evs) then Some SKIP
              else if existsb (fun t => result_eqb t ERROR) (tests_of evs) then Some ERROR
              else if existsb (fun t => result_eqb t FAIL) (tests_of evs) then Some FAIL else None);
      destruct sf; reflexivity.
Qed.

(* conversely an exit-code test that ended by itself is never TIMEOUT / INTERRUPT / IGNORED,
   and should_fail decides between the two pairs *)
Theorem classify_exit_range : forall p sf e evs rc,
  p = PExitcode \/ p = PGtest ->
  let r := classify p sf e evs WExited rc in
  r <> TIMEOUT /\ r <> INTERRUPT /\ r <> IGNORED /\
  (sf = true -> r <> OK /\ r <> FAIL) /\ (sf = false -> r <> UNEXPECTEDPASS /\ r <> EXPECTEDFAIL).
Proof.
  intros p sf e evs rc [-> | ->]; unfold classify; simpl;
    destruct (rc =? e)%Z; simpl; try destruct (rc =? 77)%Z; simpl; try destruct (rc =? 99)%Z; simpl;
    destruct sf; simpl;
    repeat match goal with |- _ /\ _ => split | |- _ -> _ => intro | |- _ <> _ => intro end; congruence.
Qed.

(* ------------------------------------------------------------------ totals *)
Definition cnt (x : result) (rs : list result) : nat := length (filter (result_eqb x) rs).

Lemma tally1_counts : forall c r,
  let c' := tally1 c r in
  n_ok c' = n_ok c + (if result_eqb OK r then 1 else 0) /\
  n_expfail c' = n_expfail c + (if result_eqb EXPECTEDFAIL r then 1 else 0) /\
  n_fail c' = n_fail c + (if counts_fail r then 1 else 0) /\
  n_unexppass c' = n_unexppass c + (if result_eqb UNEXPECTEDPASS r then 1 else 0) /\
  n_skip c' = n_skip c + (if result_eqb SKIP r then 1 else 0) /\
  n_ignored c' = n_ignored c + (if result_eqb IGNORED r then 1 else 0) /\
  n_timeout c' = n_timeout c + (if result_eqb TIMEOUT r then 1 else 0).
Proof. intros c r. destruct r; simpl; repeat split; lia. Qed.

Lemma tally_gen : forall rs c,
  let t := fold_left tally1 rs c in
  n_ok t = n_ok c + cnt OK rs /\
  n_expfail t = n_expfail c + cnt EXPECTEDFAIL rs /\
  n_fail t = n_fail c + (cnt FAIL rs + cnt ERROR rs + cnt INTERRUPT rs) /\
  n_unexppass t = n_unexppass c + cnt UNEXPECTEDPASS rs /\
  n_skip t = n_skip c + cnt SKIP rs /\
  n_ignored t = n_ignored c + cnt IGNORED rs /\
  n_timeout t = n_timeout c + cnt TIMEOUT rs.
Proof.
  induction rs as [|r rs IH]; intros c; simpl.
  - unfold cnt; simpl. repeat split; lia.
  - specialize (IH (tally1 c r)). simpl in IH.
    destruct IH as [A1 [A2 [A3 [A4 [A5 [A6 A7]]]]]].
    destruct (tally1_counts c r) as [B1 [B2 [B3 [B4 [B5 [B6 B7]]]]]].
    rewrite A1, A2, A3, A4, A5, A6, A7, B1, B2, B3, B4, B5, B6, B7.
    unfold cnt. destruct r; simpl; repeat split; lia.
Qed.

(* the seven printed totals are the tally of the classifications; `Fail:` counts
   FAIL, ERROR and INTERRUPT together (mtest.py:1827) *)
Theorem totals_are_tally : forall rs,
  let t := tally rs in
  n_ok t = cnt OK rs /\ n_expfail t = cnt EXPECTEDFAIL rs /\
  n_fail t = cnt FAIL rs + cnt ERROR rs + cnt INTERRUPT rs /\
  n_unexppass t = cnt UNEXPECTEDPASS rs /\ n_skip t = cnt SKIP rs /\
  n_ignored t = cnt IGNORED rs /\ n_timeout t = cnt TIMEOUT rs.
Proof. intros rs. unfold tally. pose proof (tally_gen rs zero_counts) as H. simpl in H. exact H. Qed.

(* every classified run is counted in exactly one total *)
Theorem totals_sum : forall rs,
  let t := tally rs in
  n_ok t + n_expfail t + n_fail t + n_unexppass t + n_skip t + n_ignored t + n_timeout t = length rs.
Proof.
  intros rs. destruct (totals_are_tally rs) as [A1 [A2 [A3 [A4 [A5 [A6 A7]]]]]]. simpl.
  rewrite A1, A2, A3, A4, A5, A6, A7. unfold cnt. clear.
  induction rs as [|r rs IH]; simpl; [reflexivity|]. destruct r; simpl; lia.
Qed.

Lemma cnt_pos : forall x rs, 0 < cnt x rs <-> In x rs.
Proof.
  intros x rs. unfold cnt. induction rs as [|r rs IH]; simpl; [split; [lia | tauto]|].
  destruct (result_eqb x r) eqn:E; simpl.
  - split; [|lia]. intros _. left. destruct x, r; simpl in E; congruence.
  - rewrite IH. split; [tauto|]. intros [A|A]; [|assumption]. subst. destruct x; discriminate.
Qed.

(* the exit status is non-zero iff some run is FAIL, ERROR, TIMEOUT, UNEXPECTEDPASS or INTERRUPT *)
Theorem exit_status_iff : forall rs,
  exit_status (tally rs) <> 0 <-> exists r, In r rs /\ is_bad r = true.
Proof.
  intros rs. unfold exit_status, total_failure_count.
  destruct (totals_are_tally rs) as [_ [_ [A3 [A4 [_ [_ A7]]]]]]. simpl in *. rewrite A3, A4, A7.
  pose proof (cnt_pos FAIL rs) as PF. pose proof (cnt_pos ERROR rs) as PE. pose proof (cnt_pos INTERRUPT rs) as PI.
  pose proof (cnt_pos UNEXPECTEDPASS rs) as PU. pose proof (cnt_pos TIMEOUT rs) as PT.
  destruct (0 <? cnt FAIL rs + cnt ERROR rs + cnt INTERRUPT rs + cnt UNEXPECTEDPASS rs + cnt TIMEOUT rs) eqn:E.
  - split; [intros _ | intros _; discriminate]. apply Nat.ltb_lt in E.
    destruct (Nat.eq_dec (cnt FAIL rs) 0) as [Z1|Z1]; [|exists FAIL; split; [apply PF; lia | reflexivity]].
    destruct (Nat.eq_dec (cnt ERROR rs) 0) as [Z2|Z2]; [|exists ERROR; split; [apply PE; lia | reflexivity]].
    destruct (Nat.eq_dec (cnt INTERRUPT rs) 0) as [Z3|Z3]; [|exists INTERRUPT; split; [apply PI; lia | reflexivity]].
    destruct (Nat.eq_dec (cnt UNEXPECTEDPASS rs) 0) as [Z4|Z4]; [|exists UNEXPECTEDPASS; split; [apply PU; lia | reflexivity]].
    exists TIMEOUT. split; [apply PT; lia | reflexivity].
  - split; [intros H; exfalso; apply H; reflexivity|]. intros [r [Hin Hb]]. exfalso.
    apply Nat.ltb_ge in E.
    destruct r; simpl in Hb; try discriminate;
      [apply PT in Hin | apply PI in Hin | apply PF in Hin | apply PU in Hin | apply PE in Hin]; lia.
Qed.

(* summary(): `Ok:` and `Fail:` are always printed, the other lines iff their count is
   positive; every printed number is the counter *)
Theorem summary_lines_spec : forall c k n,
  In (k, n) (summary_lines c) <->
  (k, n) = (0, n_ok c) \/ (k, n) = (2, n_fail c) \/
  (0 < n /\ ((k, n) = (1, n_expfail c) \/ (k, n) = (3, n_unexppass c) \/ (k, n) = (4, n_skip c) \/
             (k, n) = (5, n_ignored c) \/ (k, n) = (6, n_timeout c))).
Proof.
  intros c k n. unfold summary_lines. rewrite filter_In. simpl. split.
  - intros [[A|[A|[A|[A|[A|[A|[A|[]]]]]]]] B]; inversion A; subst; simpl in B; auto;
      rewrite !orb_false_r in B; apply Nat.ltb_lt in B; right; right; split; auto 10.
  - intros [A|[A|[P [A|[A|[A|[A|A]]]]]]]; inversion A; subst; simpl; split; auto 10;
      try (rewrite !orb_false_r; apply Nat.ltb_lt; assumption); rewrite ?orb_true_r; reflexivity.
Qed.
