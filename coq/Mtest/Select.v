(* Mtest/Select.v — which tests `meson test` runs, and in which order:
     Backend.create_test_serialisation (sorted by -priority)  backends.py:1274-1276
     TestHarness.split_suite_string / test_in_suites          mtest.py:1949-1981
     TestHarness.test_suitable                                mtest.py:1983-2005
     TestHarness.tests_from_args (fnmatch with `*`, `?`, `[seq]`, `[!seq]`)   mtest.py:2007-2058
     TestHarness.get_tests (filters, --slice)                 mtest.py:2060-2080
   No proofs in this file. *)
From MV Require Export Base.Strs.
From Coq Require Import ZArith.
Open Scope nat_scope.

(* ---------------------------------------------------------------- priority *)
(* sorted(tests, key=lambda tst: -1 * tst.priority); Python's sort is stable.
   Stable insertion sort, descending priority: an element is put behind every
   element of strictly higher priority and in front of the rest (which, being
   inserted from the right, came later in the source). *)
Fixpoint pinsert {A} (x : Z * A) (l : list (Z * A)) : list (Z * A) :=
  match l with
  | [] => [x]
  | y :: r => if (fst x <? fst y)%Z then y :: pinsert x r else x :: y :: r
  end.
Fixpoint psort {A} (l : list (Z * A)) : list (Z * A) :=
  match l with
  | [] => []
  | x :: r => pinsert x (psort r)
  end.

(* ---------------------------------------------------------------- suites *)
Record tdef := mktdef { t_name : str; t_project : str; t_suites : list str }.

Fixpoint split_colon (s : str) : option (str * str) :=
  match s with
  | [] => None
  | c :: r =>
      if (c =? 58)%N then Some ([], r)
      else match split_colon r with
           | Some (a, b) => Some (c :: a, b)
           | None => None
           end
  end.
(* mtest.py:1949-1956 *)
Definition split_suite (s : str) : str * str :=
  match split_colon s with Some p => p | None => (s, []) end.

Definition nilb (s : str) : bool := match s with [] => true | _ => false end.

(* mtest.py:1962-1980, one (suite argument, suite of the test) pair *)
Definition suite_match (arg prjst : str) : bool :=
  let '(prj_match, st_match) := split_suite arg in
  let '(prj, st) := split_suite prjst in
  if nilb st_match then str_eqb prj_match prj || str_eqb prj_match st
  else if nilb prj_match then str_eqb st st_match
  else str_eqb prj prj_match && str_eqb st st_match.

(* mtest.py:1959-1981 *)
Definition test_in_suites (t : tdef) (suites : list str) : bool :=
  existsb (fun arg => existsb (suite_match arg) (t_suites t)) suites.

Record selopts := mkselopts {
  o_project : str;               (* build_data.project_name *)
  o_include : list str;          (* --suite *)
  o_exclude_suites : list str;   (* --no-suite *)
  o_exclude : list str;          (* --exclude *)
  o_args : list str;             (* positional test names *)
  o_slice : option (nat * nat)   (* --slice i/n, validated by test_slice: 1 <= i <= n *)
}.

(* mtest.py:1983-2005 (no --setup) *)
Definition test_suitable (o : selopts) (t : tdef) : bool :=
  if test_in_suites t (o_exclude_suites o) then false
  else if str_eqb (o_project o) (t_project t) && str_mem (t_name t) (o_exclude o) then false
  else if str_mem (t_project t ++ [58%N] ++ t_name t) (o_exclude o) then false
  else match o_include o with
       | [] => true
       | _ => test_in_suites t (o_include o)
       end.

(* mtest.py:2018-2032: argument -> (subproject pattern, name pattern) *)
Definition star : str := [42%N].
Definition arg_pattern (a : str) : str * str :=
  match split_colon a with
  | Some (sp, nm) => ((if nilb sp then star else sp), (if nilb nm then star else nm))
  | None => (star, a)
  end.
(* fnmatch.fnmatch on POSIX (normcase is the identity; fnmatch.translate, the regex must match the
   whole string): `*` matches any run of characters, `?` exactly one, `[seq]` one character of seq,
   `[!seq]` one character not in seq, everything else itself.  translate() looks for the closing
   bracket after an optional `!` and an optional `]` (which is then a member); without a closing
   bracket the `[` is literal.  Ranges: a `-` inside a bracket expression is NOT modelled (translate()
   rewrites ranges in several steps); the generators keep `-` out of brackets. *)
Inductive gtok := GStar | GAny | GLit (c : char) | GSet (neg : bool) (cs : list char).

Fixpoint find_close (s : str) : option (str * str) :=
  match s with
  | [] => None
  | c :: r =>
      if (c =? 93)%N then Some ([], r)
      else match find_close r with
           | Some (a, b) => Some (c :: a, b)
           | None => None
           end
  end.

(* s = the text after `[` -> (negated, members, text after the closing bracket) *)
Definition bracket (s : str) : option (bool * list char * str) :=
  let '(neg, s1) := match s with (33%N) :: r => (true, r) | _ => (false, s) end in
  let '(first, s2) := match s1 with (93%N) :: r => ([93%N], r) | _ => ([], s1) end in
  match find_close s2 with
  | None => None
  | Some (body, rest) => Some (neg, first ++ body, rest)
  end.

Fixpoint gtokens (fuel : nat) (p : str) : list gtok :=
  match fuel with
  | O => []
  | S f =>
      match p with
      | [] => []
      | c :: r =>
          if (c =? 42)%N then GStar :: gtokens f r
          else if (c =? 63)%N then GAny :: gtokens f r
          else if (c =? 91)%N then
            match bracket r with
            | Some (neg, cs, rest) => GSet neg cs :: gtokens f rest
            | None => GLit c :: gtokens f r
            end
          else GLit c :: gtokens f r
      end
  end.

Definition tok1 (t : gtok) (d : char) : bool :=
  match t with
  | GAny => true
  | GLit c => (c =? d)%N
  | GSet neg cs => xorb neg (memb d cs)
  | GStar => false
  end.

Fixpoint tmatch (ts : list gtok) : str -> bool :=
  match ts with
  | [] => fun s => nilb s
  | GStar :: ts' =>
      (fix star (s : str) : bool :=
         tmatch ts' s || match s with [] => false | _ :: s' => star s' end)
  | t :: ts' => fun s =>
      match s with
      | [] => false
      | d :: s' => tok1 t d && tmatch ts' s'
      end
  end.

Definition gmatch (pat : str) (s : str) : bool := tmatch (gtokens (length pat) pat) s.
Definition pmatch (s pat : str) : bool := gmatch pat s.
Definition arg_matches (t : tdef) (p : str * str) : bool :=
  pmatch (t_project t) (fst p) && pmatch (t_name t) (snd p).

(* mtest.py:2034-2041: for each test, the FIRST matching pattern yields it, then `break`:
   a test matched by several arguments is yielded once *)
Fixpoint first_match (t : tdef) (pats : list (str * str)) : list tdef :=
  match pats with
  | [] => []
  | p :: r => if arg_matches t p then [t] else first_match t r
  end.
Definition tests_from_args (pats : list (str * str)) (tests : list tdef) : list tdef :=
  flat_map (fun t => first_match t pats) tests.

Inductive sel (A : Type) := SelOk (l : list A) | SelErr.
Arguments SelOk {A} l.
Arguments SelErr {A}.

(* tests[our_slice - 1 :: nslices] : skip c elements, take one, skip n-1, ... *)
Fixpoint stride {A} (n : nat) (c : nat) (l : list A) : list A :=
  match l with
  | [] => []
  | x :: r =>
      match c with
      | O => x :: stride n (n - 1) r
      | S c' => stride n c' r
      end
  end.
Definition slice {A} (l : list A) (i n : nat) : list A := stride n (i - 1) l.

(* mtest.py:2065-2069: the filters and the positional arguments *)
Definition pre_slice (o : selopts) (tests : list tdef) : sel tdef :=
  let t1 := filter (test_suitable o) tests in
  let pats := map arg_pattern (o_args o) in
  (* mtest.py:2034-2058: every test matching some pattern, once, in order; a
     pattern matching no (suitable) test at all is an error *)
  if negb (forallb (fun p => existsb (fun t => arg_matches t p) t1) pats) then SelErr
  else SelOk (match pats with
              | [] => t1                          (* mtest.py:2068 `if self.options.args` *)
              | _ => tests_from_args pats t1
              end).

(* mtest.py:2070-2074 *)
Definition apply_slice (sl : option (nat * nat)) (t2 : list tdef) : sel tdef :=
  match sl with
  | None => SelOk t2
  | Some (i, n) =>
      if length t2 <? n then SelErr            (* mtest.py:2072 *)
      else SelOk (slice t2 i n)
  end.

(* mtest.py:2060-2080 *)
Definition get_tests (o : selopts) (tests : list tdef) : sel tdef :=
  match tests with
  | [] => SelOk []                             (* mtest.py:2061 *)
  | _ => match pre_slice o tests with
         | SelErr => SelErr
         | SelOk t2 => apply_slice (o_slice o) t2
         end
  end.
